import PharmpyModel.C20.Num
/-
  C20 — helper lemmas: digits, exact decimals, parse ∘ render of one cell.
-/
namespace Pharmpy.C20

/-! ### digits -/

theorem digitVal_digitChar {d : Nat} (h : d < 10) : digitVal (digitChar d) = d := by
  have : ∀ d : Fin 10, digitVal (digitChar d.val) = d.val := by decide
  exact this ⟨d, h⟩

theorem isDig_digitChar (d : Nat) : isDig (digitChar d) = true := by
  unfold digitChar
  split <;> decide

/-- A stop character: where a run of digits ends. -/
def StopsDigits (r : Str) : Prop := ∀ c t, r = c :: t → isDig c = false

theorem stops_nil : StopsDigits [] := by intro c t h; cases h
theorem stops_cons {c : Char} {t : Str} (h : isDig c = false) : StopsDigits (c :: t) := by
  intro c' t' e; cases e; exact h

theorem foldl_val (b : Str) (acc : Nat) :
    b.foldl (fun a c => 10 * a + digitVal c) acc = acc * 10 ^ b.length + valDigits b := by
  induction b generalizing acc with
  | nil => simp [valDigits]
  | cons c cs ih =>
    simp only [List.foldl_cons, List.length_cons, valDigits]
    rw [ih (10 * acc + digitVal c), ih (10 * 0 + digitVal c)]
    rw [Nat.pow_succ]
    simp only [Nat.mul_zero, Nat.zero_add]
    rw [Nat.add_mul, Nat.add_assoc]
    congr 1
    rw [Nat.mul_comm (10 ^ cs.length) 10, Nat.mul_comm 10 acc, Nat.mul_assoc]

theorem valDigits_append (a b : Str) :
    valDigits (a ++ b) = valDigits a * 10 ^ b.length + valDigits b := by
  unfold valDigits
  rw [List.foldl_append, foldl_val]
  rfl

theorem valDigits_singleton (c : Char) : valDigits [c] = digitVal c := by
  simp [valDigits]

theorem padDigits_length (k n : Nat) : (padDigits k n).length = k := by
  induction k generalizing n with
  | zero => rfl
  | succ k ih => simp [padDigits, ih]

theorem padDigits_allDig (k n : Nat) : ∀ c ∈ padDigits k n, isDig c = true := by
  induction k generalizing n with
  | zero => intro c h; cases h
  | succ k ih =>
    intro c h
    simp only [padDigits, List.mem_append, List.mem_singleton] at h
    rcases h with h | h
    · exact ih _ c h
    · subst h; exact isDig_digitChar _

theorem valDigits_padDigits (k n : Nat) : valDigits (padDigits k n) = n % 10 ^ k := by
  induction k generalizing n with
  | zero => simp [padDigits, valDigits, Nat.mod_one]
  | succ k ih =>
    simp only [padDigits]
    rw [valDigits_append, ih, valDigits_singleton, digitVal_digitChar (Nat.mod_lt _ (by decide))]
    simp only [List.length_singleton, Nat.pow_one]
    rw [Nat.pow_succ, Nat.mul_comm (10 ^ k) 10, Nat.mod_mul, Nat.add_comm, Nat.mul_comm]

theorem padDigits_add (a b n : Nat) :
    padDigits (a + b) n = padDigits a (n / 10 ^ b) ++ padDigits b n := by
  induction b generalizing n with
  | zero => simp [padDigits]
  | succ b ih =>
    rw [← Nat.add_assoc]
    simp only [padDigits]
    rw [ih (n / 10), Nat.div_div_eq_div_mul, Nat.pow_succ, Nat.mul_comm (10 ^ b) 10, List.append_assoc]

theorem valDigits_dropZeros (ds : Str) : valDigits (ds.dropWhile (· == '0')) = valDigits ds := by
  induction ds with
  | nil => rfl
  | cons c cs ih =>
    simp only [List.dropWhile_cons]
    split
    · rename_i h
      have hc : c = '0' := by simpa using h
      subst hc
      rw [ih]
      have := valDigits_append ['0'] cs
      simp only [List.singleton_append] at this
      rw [this, valDigits_singleton]
      simp [digitVal]
    · rfl

theorem lt_ten_pow_log2 (n : Nat) : n < 10 ^ (n.log2 + 1) :=
  Nat.lt_of_lt_of_le Nat.lt_log2_self (Nat.pow_le_pow_left (by decide) _)

theorem valDigits_natDigits (n : Nat) : valDigits (natDigits n) = n := by
  unfold natDigits
  split
  · rename_i h; subst h; simp [valDigits, digitVal]
  · rw [valDigits_dropZeros, valDigits_padDigits, Nat.mod_eq_of_lt (lt_ten_pow_log2 n)]

theorem natDigits_allDig (n : Nat) : ∀ c ∈ natDigits n, isDig c = true := by
  unfold natDigits
  split
  · intro c h; simp at h; subst h; decide
  · intro c h
    exact padDigits_allDig _ _ c ((List.dropWhile_suffix _).subset h)

theorem natDigits_ne_nil (n : Nat) : natDigits n ≠ [] := by
  intro h
  have := valDigits_natDigits n
  rw [h] at this
  have hn : n = 0 := by simpa [valDigits] using this.symm
  subst hn
  simp [natDigits] at h

theorem natDigits_injective {a b : Nat} (h : natDigits a = natDigits b) : a = b := by
  rw [← valDigits_natDigits a, ← valDigits_natDigits b, h]

/-! ### takeDigits -/

theorem takeDigits_append (ds r : Str) (hd : ∀ c ∈ ds, isDig c = true) (hr : StopsDigits r) :
    takeDigits (ds ++ r) = (ds, r) := by
  induction ds with
  | nil =>
    cases r with
    | nil => rfl
    | cons c t => simp [takeDigits, hr c t rfl]
  | cons c cs ih =>
    have hc : isDig c = true := hd c (by simp)
    have ih' := ih (fun x hx => hd x (by simp [hx]))
    simp [takeDigits, hc, ih']

theorem takeDigits_all (ds : Str) (hd : ∀ c ∈ ds, isDig c = true) : takeDigits ds = (ds, []) := by
  have := takeDigits_append ds [] hd stops_nil
  simpa using this


/-! ### parse ∘ render of one cell -/

theorem parseSign_signStr (neg : Bool) (c : Char) (t : Str) (hc : isDig c = true) :
    parseSign (signStr neg ++ c :: t) = (neg, c :: t) := by
  cases neg with
  | true => simp [signStr, parseSign]
  | false =>
    simp only [signStr, List.nil_append, Bool.false_eq_true, if_false]
    unfold parseSign
    split
    · rename_i h; cases h; exact absurd hc (by decide)
    · rename_i h; cases h; exact absurd hc (by decide)
    · rfl

/-- The general shape: sign, integer digits, optionally `.` and fraction digits, exponent part. -/
theorem parseNum_shape (neg : Bool) (ip fp ex : Str) (x : Int)
    (hip : ∀ c ∈ ip, isDig c = true) (hne : ip ≠ [])
    (hfp : ∀ c ∈ fp, isDig c = true)
    (hstop : StopsDigits ex) (hex : parseExp ex = some x) :
    parseNum (signStr neg ++ ip ++ '.' :: fp ++ ex)
      = some ⟨if neg then -(valDigits (ip ++ fp) : Int) else (valDigits (ip ++ fp) : Int),
              x - (fp.length : Int)⟩ := by
  obtain ⟨c, t, rfl⟩ : ∃ c t, ip = c :: t := by
    cases ip with
    | nil => exact absurd rfl hne
    | cons c t => exact ⟨c, t, rfl⟩
  have hc : isDig c = true := hip c (by simp)
  have h1 : parseSign (signStr neg ++ (c :: t) ++ '.' :: fp ++ ex) = (neg, (c :: t) ++ ('.' :: (fp ++ ex))) := by
    have := parseSign_signStr neg c (t ++ '.' :: (fp ++ ex)) hc
    simpa [List.append_assoc] using this
  have h2 : takeDigits ((c :: t) ++ ('.' :: (fp ++ ex))) = (c :: t, '.' :: (fp ++ ex)) :=
    takeDigits_append _ _ hip (stops_cons (by decide))
  have h3 : parseFrac ('.' :: (fp ++ ex)) = (fp, ex) := by
    simp only [parseFrac]
    exact takeDigits_append _ _ hfp hstop
  unfold parseNum
  simp only [h1, h2, h3, hex]
  simp

theorem parseNum_intShape (neg : Bool) (ip : Str)
    (hip : ∀ c ∈ ip, isDig c = true) (hne : ip ≠ []) :
    parseNum (signStr neg ++ ip)
      = some ⟨if neg then -(valDigits ip : Int) else (valDigits ip : Int), 0⟩ := by
  obtain ⟨c, t, rfl⟩ : ∃ c t, ip = c :: t := by
    cases ip with
    | nil => exact absurd rfl hne
    | cons c t => exact ⟨c, t, rfl⟩
  have hc : isDig c = true := hip c (by simp)
  have h1 := parseSign_signStr neg c t hc
  have h2 : takeDigits (c :: t) = (c :: t, []) := takeDigits_all _ hip
  unfold parseNum
  simp only [h1, h2]
  simp [parseFrac, parseExp]

theorem expDigits_allDig (a : Nat) : ∀ c ∈ expDigits a, isDig c = true := by
  unfold expDigits; split
  · exact padDigits_allDig _ _
  · exact natDigits_allDig _

theorem expDigits_ne_nil (a : Nat) : expDigits a ≠ [] := by
  unfold expDigits; split
  · intro h; have := padDigits_length 2 a; rw [h] at this; cases this
  · exact natDigits_ne_nil _

theorem valDigits_expDigits (a : Nat) : valDigits (expDigits a) = a := by
  unfold expDigits; split
  · rename_i h; rw [valDigits_padDigits]; exact Nat.mod_eq_of_lt h
  · exact valDigits_natDigits _

theorem parseExp_render (exp : Int) :
    parseExp ('E' :: (if exp < 0 then '-' else '+') :: expDigits exp.natAbs) = some exp := by
  obtain ⟨c, t, hct⟩ : ∃ c t, expDigits exp.natAbs = c :: t := by
    cases h : expDigits exp.natAbs with
    | nil => exact absurd h (expDigits_ne_nil _)
    | cons c t => exact ⟨c, t, rfl⟩
  have hall := expDigits_allDig exp.natAbs
  have hv := valDigits_expDigits exp.natAbs
  have ht : takeDigits (expDigits exp.natAbs) = (expDigits exp.natAbs, []) := takeDigits_all _ hall
  by_cases hneg : exp < 0
  · simp only [hneg, if_true, parseExp, parseSign, beq_self_eq_true, Bool.true_or, ht]
    simp only [hct, List.isEmpty_cons, List.isEmpty_nil, Bool.not_true, Bool.or_self, Bool.false_eq_true, if_false]
    rw [← hct, hv]
    congr 1; omega
  · simp only [hneg, if_false, parseExp, parseSign, beq_self_eq_true, Bool.true_or, ht]
    simp only [hct, List.isEmpty_cons, List.isEmpty_nil, Bool.not_true, Bool.or_self, Bool.false_eq_true, if_false]
    rw [← hct, hv]
    simp only [if_true]
    congr 1; omega

/-- Every numeric cell of the reference writer is read back as exactly the number written. -/
theorem parseNum_renderCell (c : Cell) (d : Dec) (hwf : ∀ n k m e, c = .sci n k m e → m < 10 ^ (k + 1))
    (hd : cellDec c = some d) : parseNum (renderCell c) = some d := by
  cases c with
  | label s => simp [cellDec] at hd
  | int i =>
    simp only [cellDec, Option.some.injEq] at hd
    subst hd
    simp only [renderCell]
    split
    · rename_i h
      have := parseNum_intShape true (natDigits (-i).toNat) (natDigits_allDig _) (natDigits_ne_nil _)
      simp only [signStr, if_true, List.singleton_append, valDigits_natDigits] at this
      rw [this]; congr 2; omega
    · rename_i h
      have := parseNum_intShape false (natDigits i.toNat) (natDigits_allDig _) (natDigits_ne_nil _)
      simp only [signStr, Bool.false_eq_true, if_false, List.nil_append, valDigits_natDigits] at this
      rw [this]; congr 2; omega
  | sci neg k mant exp =>
    have hm : mant < 10 ^ (k + 1) := hwf _ _ _ _ rfl
    simp only [cellDec, Option.some.injEq] at hd
    subst hd
    simp only [renderCell]
    have h := parseNum_shape neg (padDigits 1 (mant / 10 ^ k)) (padDigits k mant)
      ('E' :: (if exp < 0 then '-' else '+') :: expDigits exp.natAbs) exp
      (padDigits_allDig _ _) (by intro h; have := padDigits_length 1 (mant / 10 ^ k); rw [h] at this; cases this)
      (padDigits_allDig _ _) (stops_cons (by decide)) (parseExp_render exp)
    have hv : valDigits (padDigits 1 (mant / 10 ^ k) ++ padDigits k mant) = mant := by
      rw [← padDigits_add 1 k mant, valDigits_padDigits, Nat.add_comm 1 k]
      exact Nat.mod_eq_of_lt hm
    rw [hv, padDigits_length] at h
    simp only [List.append_assoc] at h ⊢
    rw [h]
  | fix neg ip k fp =>
    simp only [cellDec, Option.some.injEq] at hd
    subst hd
    simp only [renderCell]
    have h := parseNum_shape neg (natDigits ip) (padDigits k fp) [] 0
      (natDigits_allDig _) (natDigits_ne_nil _) (padDigits_allDig _ _) stops_nil rfl
    rw [valDigits_append, valDigits_natDigits, valDigits_padDigits, padDigits_length] at h
    simp only [List.append_nil, List.append_assoc] at h ⊢
    rw [h]; simp

end Pharmpy.C20
