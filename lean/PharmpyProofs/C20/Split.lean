import PharmpyProofs.C20.Layout
/-
  C20 — lemmas about NONMEMTableFile's splitting loop and the `TABLE NO.` line.
-/
namespace Pharmpy.C20
open Pharmpy.C20.Spec

def isTitle (l : Str) : Bool := startsWith tableNoPrefix l

theorem foldl_body (b : List Str) (d : List (List Str)) (cur : List Str)
    (hb : ∀ l ∈ b, isTitle l = false) :
    b.foldl splitStep (d, cur) = (d, cur ++ b) := by
  induction b generalizing cur with
  | nil => simp
  | cons l b ih =>
    have hl : startsWith tableNoPrefix l = false := hb l (by simp)
    simp only [List.foldl_cons, splitStep, hl, Bool.false_eq_true, if_false]
    rw [ih (cur ++ [l]) (fun x hx => hb x (by simp [hx]))]
    simp

theorem foldl_chunks (cs : List (Str × List Str))
    (ht : ∀ c ∈ cs, isTitle c.1 = true) (hb : ∀ c ∈ cs, ∀ l ∈ c.2, isTitle l = false)
    (d : List (List Str)) (cur : List Str) (hcur : cur ≠ []) :
    ((cs.map (fun c => c.1 :: c.2)).flatten.foldl splitStep (d, cur)).1
        ++ [((cs.map (fun c => c.1 :: c.2)).flatten.foldl splitStep (d, cur)).2]
      = d ++ [cur] ++ cs.map (fun c => c.1 :: c.2) := by
  induction cs generalizing d cur with
  | nil => simp
  | cons c cs ih =>
    have h1 : startsWith tableNoPrefix c.1 = true := ht c (by simp)
    have hce : cur.isEmpty = false := by cases cur with
      | nil => exact absurd rfl hcur
      | cons a b => rfl
    simp only [List.map_cons, List.flatten_cons, List.cons_append, List.foldl_cons, List.foldl_append,
      splitStep, h1, if_true, hce, Bool.false_eq_true, if_false]
    rw [foldl_body c.2 _ _ (hb c (by simp))]
    have := ih (fun x hx => ht x (by simp [hx])) (fun x hx => hb x (by simp [hx]))
      (d ++ [cur]) ([c.1] ++ c.2) (by simp)
    rw [this]
    simp

/-! ### the number on the title line -/

/-- Where a run of `\\s` characters ends. -/
def StopsWs (r : Str) : Prop := ∀ c t, r = c :: t → isReWs c = false


theorem tableNoPrefix_eq : tableNoPrefix = ['T', 'A', 'B', 'L', 'E', ' ', 'N', 'O', '.'] := by decide

theorem takeWhile_blanks (k : Nat) (r : Str) (hr : StopsWs r) :
    (blanks k ++ r).takeWhile isReWs = blanks k ∧ (blanks k ++ r).dropWhile isReWs = r := by
  induction k with
  | zero =>
    cases r with
    | nil => simp [blanks]
    | cons c t => have := hr c t rfl; simp [blanks, this]
  | succ k ih =>
    have e : blanks (k + 1) ++ r = ' ' :: (blanks k ++ r) := by simp [blanks, List.replicate_succ]
    have hb : isReWs ' ' = true := by decide
    rw [e]
    simp only [List.takeWhile_cons, List.dropWhile_cons, hb, if_true, ih.1, ih.2]
    simp [blanks, List.replicate_succ]

end Pharmpy.C20

namespace Pharmpy.C20
open Pharmpy.C20.Spec

theorem isDig_not_reWs {c : Char} (h : isDig c = true) : isReWs c = false := by
  cases hr : isReWs c with
  | false => rfl
  | true =>
    simp only [isReWs, Bool.or_eq_true, beq_iff_eq] at hr
    rcases hr with ((((hr | hr) | hr) | hr) | hr) | hr <;> (subst hr; exact absurd h (by decide))

/-- The table number written on a `TABLE NO.` line (right justified in a field it fits in) is the
    number `_parse_table` reads, whatever follows it. -/
theorem matchTableNo_render (w n : Nat) (rest : Str) (hfit : (natDigits n).length < w)
    (hrest : StopsDigits rest) :
    matchTableNo (renderTitleNo w n ++ rest) = some (n, rest) := by
  have hpre : "TABLE NO".toList = ['T', 'A', 'B', 'L', 'E', ' ', 'N', 'O'] := by decide
  obtain ⟨c, t, hct⟩ : ∃ c t, natDigits n = c :: t := by
    cases h : natDigits n with
    | nil => exact absurd h (natDigits_ne_nil n)
    | cons c t => exact ⟨c, t, rfl⟩
  have hall := natDigits_allDig n
  have hstop : StopsWs (natDigits n ++ rest) := by
    intro c' t' e
    rw [hct] at e
    simp only [List.cons_append, List.cons.injEq] at e
    obtain ⟨rfl, _⟩ := e
    exact isDig_not_reWs (hall c (by rw [hct]; simp))
  have hk : 1 ≤ w - (natDigits n).length := by omega
  obtain ⟨k, hk'⟩ : ∃ k, w - (natDigits n).length = k + 1 := ⟨w - (natDigits n).length - 1, by omega⟩
  have hline : renderTitleNo w n ++ rest
      = 'T' :: 'A' :: 'B' :: 'L' :: 'E' :: ' ' :: 'N' :: 'O' :: '.' :: (blanks (k + 1) ++ (natDigits n ++ rest)) := by
    simp [renderTitleNo, padLeft, tableNoPrefix_eq, hk', List.append_assoc]
  have htw := takeWhile_blanks (k + 1) (natDigits n ++ rest) hstop
  have htd := takeDigits_append (natDigits n) rest hall hrest
  rw [hline]
  unfold matchTableNo
  simp only [startsWith, hpre, List.isPrefixOf, beq_self_eq_true, Bool.and_self, if_true,
    List.drop_succ_cons, List.drop_zero]
  simp only [htw.1, htw.2, htd, valDigits_natDigits]
  simp [blanks, List.replicate_succ, hct]

end Pharmpy.C20
