import PharmpyProofs.C20.JsonLemmas
/-
  C20 — "Results objects survive a JSON round trip": the table form used inside results.json
  keeps (index names, index labels, column labels, cells) of every labelled table.
-/
namespace Pharmpy.C20

variable {α : Type} [DecidableEq α]

/-- A table pandas can write in `orient='table'` form and that keeps its level names: field names
    pairwise different (pandas refuses overlapping index/column names), named levels not called
    like the placeholders for unnamed ones, index labels pairwise different, rectangular. -/
structure Encodable (t : LTable α) : Prop where
  nodup : (jsonIndexNames t.indexNames ++ t.cols).Nodup
  named : ∀ n ∈ t.indexNames, ∀ s, n = some s → isReserved (t.indexNames.length == 1) s = false
  uniq : t.index.Nodup
  rows : t.index.length = t.cells.length
  idxw : ∀ r ∈ t.index, r.length = t.indexNames.length
  celw : ∀ r ∈ t.cells, r.length = t.cols.length

/-- **decode (encode t) = t** for every labelled table: any number of index levels (named or
    not), any index labels — in particular whatever kind of index the labels came from (a range
    with any start and step, non-contiguous integers, (ID, TIME) pairs, no rows at all) — any columns, any cells.  The index labels are part of every record, so an encoder
    that leaves them out cannot satisfy this. -/
theorem json_table_roundtrip (t : LTable α) (h : Encodable t) :
    decodeTable (encodeTable t) = t.some := by
  have hlen : (jsonIndexNames t.indexNames).length = t.indexNames.length :=
    jsonNamesFrom_length _ _ _
  have hnd := List.nodup_append.mp h.nodup
  have hdis : ∀ c ∈ t.cols, c ∉ jsonIndexNames t.indexNames := by
    intro c hc hm
    exact hnd.2.2 c hm c hc rfl
  have hcols : (jsonIndexNames t.indexNames ++ t.cols).filter
      (fun f => !(jsonIndexNames t.indexNames).contains f) = t.cols :=
    filter_not_contains _ _ hdis
  have hrow : ∀ r ∈ t.index.zip t.cells,
      (jsonIndexNames t.indexNames).map (fun k =>
          lookupKey k ((jsonIndexNames t.indexNames).zip r.1 ++ t.cols.zip r.2)) = r.1.map some
      ∧ t.cols.map (fun k =>
          lookupKey k ((jsonIndexNames t.indexNames).zip r.1 ++ t.cols.zip r.2)) = r.2.map some := by
    intro r hr
    have h1 : r.1 ∈ t.index := (List.of_mem_zip hr).1
    have h2 : r.2 ∈ t.cells := (List.of_mem_zip hr).2
    constructor
    · exact map_lookup_zip _ _ _ hnd.1 (by rw [h.idxw _ h1, hlen])
    · have e : t.cols.map (fun k => lookupKey k ((jsonIndexNames t.indexNames).zip r.1 ++ t.cols.zip r.2))
          = t.cols.map (fun k => lookupKey k (t.cols.zip r.2 ++ [])) := by
        apply List.map_congr_left
        intro k hk
        rw [List.append_nil]
        exact lookupKey_skip k _ _ _ (hdis k hk)
      rw [e]
      exact map_lookup_zip _ _ _ hnd.2.1 (h.celw _ h2)
  simp only [decodeTable, encodeTable, LTable.some, h.uniq, if_true, hcols, hlen, List.map_map]
  congr 1
  · exact restore_jsonNamesFrom _ 0 _ h.named
  · have : (t.index.zip t.cells).map (fun r => r.1.map some) = t.index.map (·.map some) := by
      have e : (fun r : List α × List α => r.1.map some) = (fun x => x.map some) ∘ Prod.fst := rfl
      rw [e, ← List.map_map, List.map_fst_zip (by rw [h.rows]; exact Nat.le_refl _)]
    rw [← this]
    apply List.map_congr_left
    intro r hr
    exact (hrow r hr).1
  · have : (t.index.zip t.cells).map (fun r => r.2.map some) = t.cells.map (·.map some) := by
      have e : (fun r : List α × List α => r.2.map some) = (fun x => x.map some) ∘ Prod.snd := rfl
      rw [e, ← List.map_map, List.map_snd_zip (by rw [h.rows]; exact Nat.le_refl _)]
    rw [← this]
    apply List.map_congr_left
    intro r hr
    exact (hrow r hr).2

/-- The index labels are stored: every record of the encoding carries, under the primary-key
    names, the labels of its row. -/
theorem json_index_stored (t : LTable α) (h : Encodable t) :
    (encodeTable t).data.map (fun r => (encodeTable t).primaryKey.map (fun k => lookupKey k r))
      = t.index.map (·.map some) := by
  have := congrArg LTable.index (json_table_roundtrip t h)
  simpa [decodeTable, LTable.some] using this

/-- Non-vacuity: a frame with the index `RangeIndex(1, 7, 2)` (observation rows 1, 3, 5 of a sparse
    design) and two columns is encodable. -/
example : Encodable (⟨[none], [[1], [3], [5]], [['R', 'E', 'S'], ['W', 'R', 'E', 'S']],
    [[10, 11], [12, 13], [14, 15]]⟩ : LTable Nat) :=
  ⟨by decide, by decide, by decide, by decide, by decide, by decide⟩

/-- Without the naming condition the statement is false: a single index level that is really
    called `index` comes back unnamed. -/
theorem json_reserved_name_witness :
    decodeTable (encodeTable (⟨[some indexLit], [[1]], [['A']], [[2]]⟩ : LTable Nat))
      ≠ (⟨[some indexLit], [[1]], [['A']], [[2]]⟩ : LTable Nat).some := by
  decide

/-- …and without uniqueness of the index labels it is false as well: pandas then writes no primary
    key, and the labels come back as an ordinary column `index` of a table without index. -/
theorem json_duplicate_labels_witness :
    decodeTable (encodeTable (⟨[none], [[2], [2]], [['A']], [[5], [6]]⟩ : LTable Nat))
      ≠ (⟨[none], [[2], [2]], [['A']], [[5], [6]]⟩ : LTable Nat).some := by
  decide

end Pharmpy.C20
