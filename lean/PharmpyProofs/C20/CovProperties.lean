import PharmpyProofs.C20.CovLemmas
/-
  C20 — "covariance, correlation, precision and standard errors reported together satisfy their
  defining relations": the relations of `cov2corr` / `corr2cov`, for matrices of every size over
  an arbitrary ordered field `F` with an abstract square root `s`.  In particular the conversion
  is *scale free*: no absolute threshold on the size of a (co)variance may enter.
-/
namespace Pharmpy.C20

variable {F : Type} [Field F] [LinearOrder F] [IsStrictOrderedRing F] [DecidableEq F]

/-- The diagonal of the correlation matrix is 1 wherever the variance is positive — however small. -/
theorem cor_diag_one (s : F → F) (hs : IsSqrt s) (c : Nat → Nat → F) (i : Nat) (hpos : 0 < c i i) :
    cov2corrEntry (fieldOps s) c i i = 1 := by
  obtain ⟨_, e⟩ := hs _ hpos.le
  have hne : c i i ≠ 0 := ne_of_gt hpos
  simp only [cov2corrEntry, fieldOps, hne, decide_false, Bool.false_eq_true, if_false, e]
  exact div_self hne

/-- A non-zero covariance is never reported as zero correlation, and a zero one always is. -/
theorem cor_zero_iff (s : F → F) (hs : IsSqrt s) (c : Nat → Nat → F) (i j : Nat)
    (hi : 0 < c i i) (hj : 0 < c j j) :
    cov2corrEntry (fieldOps s) c i j = 0 ↔ c i j = 0 := by
  obtain ⟨ni, ei⟩ := hs _ hi.le
  obtain ⟨nj, ej⟩ := hs _ hj.le
  have hsi : s (c i i) ≠ 0 := by intro h; rw [h] at ei; simp at ei; exact (ne_of_gt hi) ei.symm
  have hsj : s (c j j) ≠ 0 := by intro h; rw [h] at ej; simp at ej; exact (ne_of_gt hj) ej.symm
  constructor
  · intro h
    by_contra hne
    simp only [cov2corrEntry, fieldOps, hne, decide_false, Bool.false_eq_true, if_false] at h
    rcases div_eq_zero_iff.mp h with h | h
    · exact hne h
    · exact (mul_ne_zero hsi hsj) h
  · intro h
    simp [cov2corrEntry, fieldOps, h]

omit [LinearOrder F] [IsStrictOrderedRing F] in
/-- The correlation matrix of a symmetric matrix is symmetric. -/
theorem cor_symmetric (s : F → F) (c : Nat → Nat → F) (i j : Nat) (hsym : c i j = c j i) :
    cov2corrEntry (fieldOps s) c i j = cov2corrEntry (fieldOps s) c j i := by
  unfold cov2corrEntry
  simp only [fieldOps]
  rw [hsym, mul_comm (s (c i i)) (s (c j j))]

/-- **Scale invariance**: rescaling the parameters by any positive diagonal matrix `D`
    (`cov ↦ D cov D`, e.g. a change of units that makes every entry smaller than 1e-8) does not
    change any entry of the correlation matrix. -/
theorem cor_scale_invariant (s : F → F) (hs : IsSqrt s) (c : Nat → Nat → F) (d : Nat → F)
    (hd : ∀ k, 0 < d k) (i j : Nat) (hi : 0 ≤ c i i) (hj : 0 ≤ c j j) :
    cov2corrEntry (fieldOps s) (fun a b => d a * c a b * d b) i j
      = cov2corrEntry (fieldOps s) c i j := by
  have hdi : d i ≠ 0 := ne_of_gt (hd i)
  have hdj : d j ≠ 0 := ne_of_gt (hd j)
  have hz : (d i * c i j * d j = 0) ↔ c i j = 0 := by
    constructor
    · intro h
      rcases mul_eq_zero.mp h with h | h
      · rcases mul_eq_zero.mp h with h | h
        · exact absurd h hdi
        · exact h
      · exact absurd h hdj
    · intro h; rw [h]; ring
  simp only [cov2corrEntry, fieldOps]
  by_cases h0 : c i j = 0
  · simp [h0]
  · have h0' : ¬ (d i * c i j * d j = 0) := fun h => h0 (hz.mp h)
    simp only [h0, h0', decide_false, Bool.false_eq_true, if_false]
    rw [sqrt_scaled s hs (d i) (c i i) (hd i) hi, sqrt_scaled s hs (d j) (c j j) (hd j) hj]
    have e : d i * s (c i i) * (d j * s (c j j)) = (d i * d j) * (s (c i i) * s (c j j)) := by ring
    have e2 : d i * c i j * d j = (d i * d j) * c i j := by ring
    rw [e, e2]
    exact mul_div_mul_left _ _ (mul_ne_zero hdi hdj)

/-- The defining relation `cov = D cor D` (equivalently `cor = D⁻¹ cov D⁻¹`) with `D = diag(se)`,
    `se = sqrt(diag cov)`: what `calculate_cov_from_corrse` rebuilds from the derived correlation
    matrix and the standard errors is the covariance matrix, entry by entry. -/
theorem cov_cor_relation (s : F → F) (hs : IsSqrt s) (c : Nat → Nat → F) (i j : Nat)
    (hi : 0 < c i i) (hj : 0 < c j j) :
    corr2covEntry (fieldOps s) (cov2corrEntry (fieldOps s) c) (fun k => s (c k k)) i j = c i j := by
  obtain ⟨ni, ei⟩ := hs _ hi.le
  obtain ⟨nj, ej⟩ := hs _ hj.le
  have hsi : s (c i i) ≠ 0 := by intro h; rw [h] at ei; simp at ei; exact (ne_of_gt hi) ei.symm
  have hsj : s (c j j) ≠ 0 := by intro h; rw [h] at ej; simp at ej; exact (ne_of_gt hj) ej.symm
  simp only [corr2covEntry, cov2corrEntry, fieldOps]
  by_cases h0 : c i j = 0
  · simp [h0]
  · simp only [h0, decide_false, Bool.false_eq_true, if_false]
    field_simp

/-- The full statement cannot hold with an absolute threshold: a conversion that zeroes every
    covariance below a fixed `ε > 0` reports diagonal 0 for the variance `ε/2` — so any such
    threshold contradicts `cor_diag_one`. -/
theorem threshold_breaks_diag (s : F → F) (hs : IsSqrt s) (ε : F) (hε : 0 < ε) :
    ∃ c : Nat → Nat → F, 0 < c 0 0 ∧ c 0 0 < ε ∧ cov2corrEntry (fieldOps s) c 0 0 = 1 := by
  refine ⟨fun _ _ => ε / 2, half_pos hε, half_lt_self hε, ?_⟩
  exact cor_diag_one s hs _ 0 (half_pos hε)

end Pharmpy.C20
