import Mathlib.Tactic.FieldSimp
import Mathlib.Tactic.Ring
import Mathlib.Algebra.Order.Field.Basic
import PharmpyModel.C20.Cov
/-
  C20 — the field operations (with a chosen square-root function) as an instance of `Ops`.
-/
namespace Pharmpy.C20

def fieldOps {F : Type} [Field F] [DecidableEq F] (s : F → F) : Ops F :=
  { zero := 0, mul := (· * ·), div := (· / ·), sqrt := s, isZero := fun x => decide (x = 0) }

/-- `s` is a square root on the non-negative elements. -/
def IsSqrt {F : Type} [Field F] [LinearOrder F] (s : F → F) : Prop :=
  ∀ x, 0 ≤ x → 0 ≤ s x ∧ s x * s x = x

theorem sqrt_scaled {F : Type} [Field F] [LinearOrder F] [IsStrictOrderedRing F] (s : F → F)
    (hs : IsSqrt s) (d x : F) (hd : 0 < d) (hx : 0 ≤ x) : s (d * x * d) = d * s x := by
  have h1 : 0 ≤ d * x * d := mul_nonneg (mul_nonneg hd.le hx) hd.le
  obtain ⟨n1, e1⟩ := hs _ h1
  obtain ⟨n2, e2⟩ := hs _ hx
  have h2 : 0 ≤ d * s x := mul_nonneg hd.le n2
  apply (mul_self_inj_of_nonneg n1 h2).mp
  rw [e1]
  calc d * x * d = d * (s x * s x) * d := by rw [e2]
    _ = d * s x * (d * s x) := by ring

end Pharmpy.C20
