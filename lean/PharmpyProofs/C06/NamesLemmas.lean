import PharmpyModel.C06.Names
namespace Pharmpy.C06.Names

theorem checkNames_ok (seen ns seen' : List String) (h : checkFrom.checkNames seen ns = .ok seen') :
    seen' = ns.reverse ++ seen ∧ ns.Nodup ∧ ∀ n ∈ ns, n ∉ seen := by
  induction ns generalizing seen with
  | nil => simp [checkFrom.checkNames] at h; subst h; simp
  | cons n ns ih =>
    simp only [checkFrom.checkNames] at h
    by_cases hc : seen.contains n = true
    · rw [if_pos hc] at h; cases h
    · rw [if_neg hc] at h
      have hn : n ∉ seen := by simpa using hc
      obtain ⟨e, hnd, hall⟩ := ih (n :: seen) h
      refine ⟨by simp [e], ?_, ?_⟩
      · refine List.nodup_cons.mpr ⟨?_, hnd⟩
        intro hmem
        exact (hall n hmem) (by simp)
      · intro m hm
        rcases List.mem_cons.mp hm with rfl | hm
        · exact hn
        · intro hs; exact (hall m hm) (by simp [hs])

theorem checkNames_of_fresh (seen ns : List String) (hnd : ns.Nodup) (hf : ∀ n ∈ ns, n ∉ seen) :
    checkFrom.checkNames seen ns = .ok (ns.reverse ++ seen) := by
  induction ns generalizing seen with
  | nil => simp [checkFrom.checkNames]
  | cons n ns ih =>
    have hn : seen.contains n = false := by simpa using hf n (by simp)
    simp only [checkFrom.checkNames, hn]
    have hnd' := List.nodup_cons.mp hnd
    rw [ih (n :: seen) hnd'.2 (by
      intro m hm hs
      rcases List.mem_cons.mp hs with rfl | hs
      · exact hnd'.1 hm
      · exact hf m (by simp [hm]) hs)]
    simp

/-- `checkFrom seen xs` succeeds iff the names of `xs` are pairwise distinct and disjoint from `seen`. -/
theorem checkFrom_ok_iff (seen : List String) (xs : List Item) :
    checkFrom seen xs = .ok () ↔ (namesOf xs).Nodup ∧ ∀ n ∈ namesOf xs, n ∉ seen := by
  induction xs generalizing seen with
  | nil => simp [checkFrom, namesOf]
  | cons x xs ih =>
    simp only [checkFrom]
    constructor
    · intro h
      cases hc : checkFrom.checkNames seen x.names with
      | error n => simp [hc] at h
      | ok seen' =>
        simp only [hc] at h
        obtain ⟨e, hnd, hall⟩ := checkNames_ok _ _ _ hc
        obtain ⟨hnd2, hall2⟩ := (ih seen').mp h
        subst e
        refine ⟨?_, ?_⟩
        · simp only [namesOf, List.flatMap_cons]
          refine List.nodup_append.mpr ⟨hnd, hnd2, ?_⟩
          intro a ha b hb hab
          subst hab
          exact hall2 a hb (by simp [ha])
        · intro n hn
          simp only [namesOf, List.flatMap_cons, List.mem_append] at hn
          rcases hn with hn | hn
          · exact hall n hn
          · intro hs; exact hall2 n hn (by simp [hs])
    · rintro ⟨hnd, hall⟩
      simp only [namesOf, List.flatMap_cons] at hnd hall
      obtain ⟨hnd1, hnd2, hdis⟩ := List.nodup_append.mp hnd
      rw [checkNames_of_fresh seen x.names hnd1 (fun n hn => hall n (by simp [hn]))]
      simp only
      refine (ih _).mpr ⟨hnd2, ?_⟩
      intro n hn hs
      rcases List.mem_append.mp hs with hs | hs
      · exact hdis n (by simpa using hs) n hn rfl
      · exact hall n (List.mem_append_right _ hn) hs

end Pharmpy.C06.Names
