import PharmpyModel.C06.Effects
/-
  Soundness of the effect checker: invariant over arbitrary traces.
-/
namespace Pharmpy.C06.Eff

/-- Names bound to an argument-owned region (`< K`) are tainted; fresh ids are `≥ K`. -/
def Inv (t : List Name) (K : Nat) (σ : State) : Prop :=
  K ≤ σ.next ∧ ∀ x o, σ.env x = some o → o < K → x ∈ t

theorem step_inv (body : List Stmt) (t : List Name) (K : Nat)
    (hc : closed body t = true) (s : Stmt) (hs : s ∈ body) (σ : State) (hi : Inv t K σ) :
    Inv t K (step s σ) := by
  obtain ⟨hn, he⟩ := hi
  cases s with
  | alias x y =>
    refine ⟨hn, ?_⟩
    intro z o hz ho
    simp only [step] at hz
    by_cases hzx : z = x
    · subst hzx
      simp at hz
      have hy : y ∈ t := he y o hz ho
      have := (List.all_eq_true.mp hc) _ hs
      simp at this
      rcases this with h | h
      · exact absurd hy h
      · exact h
    · simp [hzx] at hz
      exact he z o hz ho
  | fresh x =>
    refine ⟨by simp [step]; omega, ?_⟩
    intro z o hz ho
    simp only [step] at hz
    by_cases hzx : z = x
    · subst hzx
      simp at hz
      omega
    · simp [hzx] at hz
      exact he z o hz ho
  | write x =>
    simp only [step]
    cases hx : σ.env x with
    | none => exact ⟨hn, he⟩
    | some o => exact ⟨hn, he⟩

theorem step_ver (body : List Stmt) (t : List Name) (K : Nat)
    (hw : noTaintedWrite body t = true) (s : Stmt) (hs : s ∈ body) (σ : State) (hi : Inv t K σ) :
    ∀ o < K, (step s σ).ver o = σ.ver o := by
  intro o ho
  cases s with
  | alias x y => rfl
  | fresh x => rfl
  | write x =>
    simp only [step]
    cases hx : σ.env x with
    | none => rfl
    | some p =>
      simp only
      by_cases hop : o = p
      · subst hop
        have hxt : x ∈ t := hi.2 x o hx ho
        have := (List.all_eq_true.mp hw) _ hs
        simp at this
        exact absurd hxt this
      · simp [hop]

theorem run_sound (body : List Stmt) (t : List Name) (K : Nat)
    (hc : closed body t = true) (hw : noTaintedWrite body t = true) :
    ∀ (tr : List Stmt), (∀ s ∈ tr, s ∈ body) → ∀ σ, Inv t K σ →
      Inv t K (run tr σ) ∧ ∀ o < K, (run tr σ).ver o = σ.ver o := by
  intro tr
  induction tr with
  | nil => intro _ σ hi; exact ⟨hi, fun _ _ => rfl⟩
  | cons s tr ih =>
    intro hsub σ hi
    have hs : s ∈ body := hsub s (by simp)
    have hi' := step_inv body t K hc s hs σ hi
    have hv := step_ver body t K hw s hs σ hi
    obtain ⟨hi'', hv'⟩ := ih (fun s' h' => hsub s' (by simp [h'])) (step s σ) hi'
    refine ⟨hi'', ?_⟩
    intro o ho
    show (run tr (step s σ)).ver o = σ.ver o
    rw [hv' o ho, hv o ho]

end Pharmpy.C06.Eff
