import PharmpyProofs.C06.Lemmas
/-
  The static check on the class table is sound for typed values:
  `kindOK T n k = true → HasKind T k v → lawful T v = true`.
-/
namespace Pharmpy.C06

theorem noIdent_sound (T : Table) : ∀ (k : Kind) (v : Val), k.noIdent = true → HasKind T k v → isIdentLike v = false := by
  intro k
  induction k with
  | either a b iha ihb =>
    intro v hn hk
    simp only [Kind.noIdent, Bool.and_eq_true] at hn
    cases hk with
    | left _ _ _ h => exact iha v hn.1 h
    | right _ _ _ h => exact ihb v hn.2 h
  | ident => intro v hn; simp [Kind.noIdent] at hn
  | frame => intro v hn; simp [Kind.noIdent] at hn
  | prim => intro v _ hk; cases hk; rfl
  | «opaque» => intro v _ hk; cases hk; rfl
  | dict => intro v _ hk; cases hk; rfl
  | cls c => intro v _ hk; cases hk; rfl
  | tupleOf k _ => intro v _ hk; cases hk; rfl

theorem noDict_sound (T : Table) : ∀ (k : Kind) (v : Val), k.noDict = true → HasKind T k v → ∀ kvs, v ≠ .dict kvs := by
  intro k
  induction k with
  | either a b iha ihb =>
    intro v hn hk
    simp only [Kind.noDict, Bool.and_eq_true] at hn
    cases hk with
    | left _ _ _ h => exact iha v hn.1 h
    | right _ _ _ h => exact ihb v hn.2 h
  | dict => intro v hn; simp [Kind.noDict] at hn
  | ident => intro v _ hk; cases hk; intro kvs h; cases h
  | frame => intro v _ hk; cases hk; intro kvs h; cases h
  | prim => intro v _ hk; cases hk; intro kvs h; cases h
  | «opaque» => intro v _ hk; cases hk; intro kvs h; cases h
  | cls c => intro v _ hk; cases hk; intro kvs h; cases h
  | tupleOf k _ => intro v _ hk; cases hk; intro kvs h; cases h

theorem hasKind_cons_false (T : Table) : ∀ (k : Kind) (h t : Val), ¬ HasKind T k (.cons h t) := by
  intro k
  induction k with
  | either a b iha ihb =>
    intro h t hk
    cases hk with
    | left _ _ _ h' => exact iha h t h'
    | right _ _ _ h' => exact ihb h t h'
  | _ => intro h t hk; cases hk

theorem fieldCheck_sound (T : Table) (ok : Kind → Bool) (f : FieldSpec) (h : Val) (lw : Bool)
    (hc : fieldCheck ok f = true) (hk : HasKind T f.kind h) (hok : ok f.kind = true → lw = true) :
    fieldLawful f.hash f.cmp lw h = true := by
  unfold fieldCheck at hc
  rcases hh : f.hash with _ | hm
  · simp [fieldLawful]
  · rcases hcm : f.cmp with _ | cm
    · simp [hh, hcm] at hc
    · cases hm <;> cases cm <;> simp only [hh, hcm, Bool.and_eq_true] at hc
      -- plain/plain, plain/content
      · simpa [fieldLawful] using hok hc
      · have := noIdent_sound T _ _ hc.1 hk
        simp [fieldLawful, this, hok hc.2]
      -- content/plain, content/content
      · have := noIdent_sound T _ _ hc.1 hk
        simp [fieldLawful, this, hok hc.2]
      · simp [fieldLawful, hok hc]
      -- contentPart/plain, contentPart/content
      · have := noIdent_sound T _ _ hc.1 hk
        simp [fieldLawful, this, hok hc.2]
      · simp [fieldLawful, hok hc]
      -- orderedContent
      · have := noIdent_sound T _ _ hc.1 hk
        simp [fieldLawful, this, hok hc.2]
      · have := noIdent_sound T _ _ hc.1 hk
        simp [fieldLawful, this, hok hc.2]
      -- orderedItems
      · have hi := noIdent_sound T _ _ hc.1.1 hk
        have hd := noDict_sound T _ _ hc.1.2 hk
        rw [fieldLawful_ordered _ _ _ hd]
        simp [hi, hok hc.2]
      · have hi := noIdent_sound T _ _ hc.1.1 hk
        have hd := noDict_sound T _ _ hc.1.2 hk
        rw [fieldLawful_ordered _ _ _ hd]
        simp [hi, hok hc.2]
      -- itemSet
      · have hi := noIdent_sound T _ _ hc.1 hk
        by_cases hd : ∃ k, h = .dict k
        · obtain ⟨k, rfl⟩ := hd; rfl
        · rw [fieldLawful_itemSet _ _ _ (fun k hk' => hd ⟨k, hk'⟩)]
          simp [hi, hok hc.2]
      · have hi := noIdent_sound T _ _ hc.1 hk
        by_cases hd : ∃ k, h = .dict k
        · obtain ⟨k, rfl⟩ := hd; rfl
        · rw [fieldLawful_itemSet _ _ _ (fun k hk' => hd ⟨k, hk'⟩)]
          simp [hi, hok hc.2]

theorem kind_sound_core (T : Table) : ∀ v : Val,
    (∀ n k, kindOK T n k = true → HasKind T k v → lawful T v = true) ∧
    (∀ n k, kindOK T n k = true → HasItems T k v → lawful T v = true) ∧
    (∀ n fs, List.all fs (fieldCheck (kindOK T n)) = true → HasFields T fs v → lawfulFs T fs v = true) := by
  intro v
  induction v with
  | atom s => exact ⟨fun _ _ _ _ => rfl, fun _ _ _ _ => rfl, fun _ fs _ _ => by cases fs <;> rfl⟩
  | ident i c => exact ⟨fun _ _ _ _ => rfl, fun _ _ _ _ => rfl, fun _ fs _ _ => by cases fs <;> rfl⟩
  | frame i c => exact ⟨fun _ _ _ _ => rfl, fun _ _ _ _ => rfl, fun _ fs _ _ => by cases fs <;> rfl⟩
  | dict kvs => exact ⟨fun _ _ _ _ => rfl, fun _ _ _ _ => rfl, fun _ fs _ _ => by cases fs <;> rfl⟩
  | nil => exact ⟨fun _ _ _ _ => rfl, fun _ _ _ _ => rfl, fun _ fs _ _ => by cases fs <;> rfl⟩
  | dset kvs => exact ⟨fun _ _ _ _ => rfl, fun _ _ _ _ => rfl, fun _ fs _ _ => by cases fs <;> rfl⟩
  | err w => exact ⟨fun _ _ _ _ => rfl, fun _ _ _ _ => rfl, fun _ fs _ _ => by cases fs <;> rfl⟩
  | cons h t ihh iht =>
    refine ⟨?_, ?_, ?_⟩
    · intro n k _ hk
      exact absurd hk (hasKind_cons_false T k h t)
    · intro n k hok hi
      cases hi with
      | cons _ _ _ hkh hit =>
        simp only [lawful, Bool.and_eq_true]
        exact ⟨ihh.1 n k hok hkh, iht.2.1 n k hok hit⟩
    · intro n fs hall hf
      cases hf with
      | cons f fs' _ _ hkh hft =>
        simp only [List.all_cons, Bool.and_eq_true] at hall
        simp only [lawfulFs, Bool.and_eq_true]
        exact ⟨fieldCheck_sound T _ f h _ hall.1 hkh (fun hok => ihh.1 n f.kind hok hkh), iht.2.2 n fs' hall.2 hft⟩
  | tup items ih =>
    refine ⟨?_, ?_, ?_⟩
    · intro n
      induction n with
      | zero => intro k hok; simp [kindOK] at hok
      | succ n ihn =>
        intro k hok hk
        cases hk with
        | tup k' _ hit =>
          simp only [kindOK] at hok
          simp only [lawful]
          exact ih.2.1 n k' hok hit
        | left a b _ h' =>
          simp only [kindOK, Bool.and_eq_true] at hok
          exact ihn a hok.1 h'
        | right a b _ h' =>
          simp only [kindOK, Bool.and_eq_true] at hok
          exact ihn b hok.2 h'
    · intro n k _ hi; cases hi
    · intro n fs _ _; cases fs <;> rfl
  | obj c vs ih =>
    refine ⟨?_, ?_, ?_⟩
    · intro n
      induction n with
      | zero => intro k hok; simp [kindOK] at hok
      | succ n ihn =>
        intro k hok hk
        cases hk with
        | obj _ sp _ hfind hfs =>
          simp only [kindOK, hfind, Bool.or_eq_true] at hok
          simp only [lawful, hfind, Bool.or_eq_true]
          rcases hok with hg | hall
          · exact Or.inl hg
          · exact Or.inr (ih.2.2 n sp.fields hall hfs)
        | left a b _ h' =>
          simp only [kindOK, Bool.and_eq_true] at hok
          exact ihn a hok.1 h'
        | right a b _ h' =>
          simp only [kindOK, Bool.and_eq_true] at hok
          exact ihn b hok.2 h'
    · intro n k _ hi; cases hi
    · intro n fs _ _; cases fs <;> rfl

end Pharmpy.C06
