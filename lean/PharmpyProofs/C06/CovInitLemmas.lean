import Mathlib.Algebra.Order.Field.Basic
import Mathlib.Algebra.Order.Field.Rat
import Mathlib.Tactic.Linarith
import PharmpyModel.C06.CovInit
/-
  Sign facts about `round(·, 4)` and about the raw bounds of `_choose_bounds`.
-/
namespace Pharmpy.C06.CovInit

theorem rnd_nonneg (n : Int) (d : Nat) (hn : 0 ≤ n) : 0 ≤ rnd n d := by
  have h : 0 ≤ n / (d : Int) := Int.ediv_nonneg hn (Int.natCast_nonneg d)
  unfold rnd
  dsimp only
  repeat' split
  all_goals omega

theorem rnd_nonpos (n : Int) (d : Nat) (hd : 0 < d) (hn : n ≤ 0) : rnd n d ≤ 0 := by
  rcases Int.lt_or_eq_of_le hn with h | h
  · have : n / (d : Int) < 0 := Int.ediv_neg_of_neg_of_pos h (by omega)
    unfold rnd
    dsimp only
    repeat' split
    all_goals omega
  · subst h
    unfold rnd
    simp
    omega

theorem round4_nonneg (q : Rat) (h : 0 ≤ q) : 0 ≤ round4 q := by
  unfold round4
  apply rnd_nonneg
  have : 0 ≤ q.num := Rat.num_nonneg.mpr h
  omega

theorem round4_nonpos (q : Rat) (h : q ≤ 0) : round4 q ≤ 0 := by
  unfold round4
  apply rnd_nonpos _ _ q.den_pos
  have : q.num ≤ 0 := Rat.num_nonpos.mpr h
  omega

theorem pmax_nonpos (a b : Rat) (ha : a ≤ 0) (hb : b ≤ 0) : pmax a b ≤ 0 := by
  unfold pmax; split <;> assumption

theorem pmin_nonneg (a b : Rat) (ha : 0 ≤ a) (hb : 0 ≤ b) : 0 ≤ pmin a b := by
  unfold pmin; split <;> assumption

/-- the general branch of the `exp` bounds: `lower ≤ 0 ≤ upper` -/
theorem exp_general_signs (minDiff maxDiff : Rat) (hmin : minDiff < 0) (hmax : 0 < maxDiff) :
    round4 (pmax ((-2) / maxDiff) (2 / minDiff)) ≤ 0 ∧ 0 ≤ round4 (pmin ((-2) / minDiff) (2 / maxDiff)) := by
  constructor
  · apply round4_nonpos
    apply pmax_nonpos
    · exact div_nonpos_of_nonpos_of_nonneg (by norm_num) hmax.le
    · exact div_nonpos_of_nonneg_of_nonpos (by norm_num) hmin.le
  · apply round4_nonneg
    apply pmin_nonneg
    · exact div_nonneg_of_nonpos (by norm_num) hmin.le
    · exact div_nonneg (by norm_num) hmax.le

theorem inv_gap_nonpos (md mx : Rat) (h : md ≤ mx) : round4 (1 / (md - mx)) ≤ 0 := by
  apply round4_nonpos
  exact div_nonpos_of_nonneg_of_nonpos (by norm_num) (by linarith)

end Pharmpy.C06.CovInit
