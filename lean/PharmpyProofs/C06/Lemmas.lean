import PharmpyModel.C06.EqHash
/-
  Helper lemmas for C06 (eq/hash part): the simultaneous induction over a value and
  its field chain.  Hash keys are compared by `keyEqv` (structural, entry sets as sets).
-/
namespace Pharmpy.C06

theorem dictEq_short (a b : List (String × String)) (hl : a.length ≤ 1) (h : dictEq a b = true) : a = b := by
  unfold dictEq at h
  simp only [Bool.and_eq_true, beq_iff_eq, List.all_eq_true] at h
  obtain ⟨⟨hlen, hall⟩, _⟩ := h
  match a, b, hl, hlen, hall with
  | [], [], _, _, _ => rfl
  | [x], [y], _, _, hall =>
    have := hall x (by simp)
    simp at this
    rw [this]

theorem eqV_isIdentLike (T : Table) (a b : Val) (h : eqV T a b = true) : isIdentLike a = isIdentLike b := by
  cases a <;> cases b <;> simp [eqV] at h <;> simp [isIdentLike]

theorem eqV_dict_right (T : Table) (a : Val) (kvs : List (String × String)) (h : eqV T a (.dict kvs) = true) :
    ∃ k, a = .dict k := by
  cases a <;> simp [eqV] at h
  exact ⟨_, rfl⟩

theorem eqContent_of_not_identLike (d : Bool) (a b : Val) (h : isIdentLike a = false) : eqContent d a b = d := by
  cases a <;> simp [isIdentLike] at h <;> cases b <;> simp [eqContent]

theorem contentKey_of_not_identLike (d a : Val) (h : isIdentLike a = false) : contentKey d a = d := by
  cases a <;> simp [isIdentLike] at h <;> simp [contentKey]

theorem contentPartKey_of_not_identLike (d a : Val) (h : isIdentLike a = false) : contentPartKey d a = d := by
  cases a <;> simp [isIdentLike] at h <;> simp [contentPartKey]

theorem orderedKey_of_not_identLike (d a : Val) (h : isIdentLike a = false) : orderedKey d a = d := by
  cases a <;> simp [isIdentLike] at h <;> simp [orderedKey]

theorem itemsKey_of_not_dict (d a : Val) (h : ∀ k, a ≠ .dict k) : itemsKey d a = d := by
  cases a <;> simp [itemsKey]
  exact absurd rfl (h _)

theorem itemSetKey_of_not_dict (d a : Val) (h : ∀ k, a ≠ .dict k) : itemSetKey d a = d := by
  cases a <;> simp [itemSetKey]
  exact absurd rfl (h _)

theorem fieldLawful_ordered (cm : CmpMode) (d : Bool) (h : Val) (hnd : ∀ k, h ≠ .dict k) :
    fieldLawful (some .orderedItems) (some cm) d h = (!isIdentLike h && d) := by
  cases cm <;> cases h <;> first | rfl | exact absurd rfl (hnd _)

theorem fieldLawful_itemSet (cm : CmpMode) (d : Bool) (h : Val) (hnd : ∀ k, h ≠ .dict k) :
    fieldLawful (some .itemSet) (some cm) d h = (!isIdentLike h && d) := by
  cases cm <;> cases h <;> first | rfl | exact absurd rfl (hnd _)

/-- The per-field step of the induction, independent of the recursion: `ih` is the
    induction hypothesis for the field value. -/
theorem field_step (T : Table) (hm : HashMode) (cm : CmpMode) (h h' : Val)
    (ih : lawful T h = true → eqV T h h' = true → keyEqv (hashKey T h) (hashKey T h') = true)
    (lw : fieldLawful (some hm) (some cm) (lawful T h) h = true)
    (he : fieldEq cm (eqV T h h') h h' = true) :
    keyEqv (fieldKey hm (hashKey T h) h) (fieldKey hm (hashKey T h') h') = true := by
  unfold fieldKey
  unfold fieldEq at he
  -- the generic situation: the field value is not an identity object and is lawful itself
  have generic : isIdentLike h = false → lawful T h = true →
      eqV T h h' = true ∧ keyEqv (hashKey T h) (hashKey T h') = true ∧ isIdentLike h' = false := by
    intro hi hl
    have e : eqV T h h' = true := by
      cases cm
      · exact he
      · simpa [eqContent_of_not_identLike _ h h' hi] using he
    exact ⟨e, ih hl e, by rw [← eqV_isIdentLike T h h' e]; exact hi⟩
  -- a dict-valued field: the other side is a dict with the same entries up to order
  have dictcase : ∀ a, h = .dict a → ∃ b, h' = .dict b ∧ dictEq a b = true := by
    intro a ha
    subst ha
    have e : eqV T (.dict a) h' = true := by
      cases cm
      · exact he
      · simpa [eqContent_of_not_identLike _ (.dict a) h' (by simp [isIdentLike])] using he
    cases h' <;> simp [eqV] at e
    exact ⟨_, rfl, e⟩
  -- a non-dict field under a dict-sensitive hash mode
  have nondict : (∀ k, h ≠ .dict k) → isIdentLike h = false → lawful T h = true →
      keyEqv (hashKey T h) (hashKey T h') = true ∧ ∀ k, h' ≠ .dict k := by
    intro hnd hi hl
    obtain ⟨e, hk, _⟩ := generic hi hl
    refine ⟨hk, ?_⟩
    intro k hk'
    subst hk'
    obtain ⟨k0, hk0⟩ := eqV_dict_right T h k e
    exact hnd k0 hk0
  cases hm with
  | plain =>
    cases cm with
    | plain => exact ih (by simpa [fieldLawful] using lw) he
    | content =>
      simp only [fieldLawful, Bool.and_eq_true, Bool.not_eq_true'] at lw
      exact (generic lw.1 lw.2).2.1
  | content =>
    cases cm with
    | plain =>
      simp only [fieldLawful, Bool.and_eq_true, Bool.not_eq_true'] at lw
      obtain ⟨_, hk, hi'⟩ := generic lw.1 lw.2
      simpa only [contentKey_of_not_identLike _ h lw.1, contentKey_of_not_identLike _ h' hi'] using hk
    | content =>
      simp only [fieldLawful, Bool.or_eq_true] at lw
      cases hi : isIdentLike h with
      | false =>
        have hl : lawful T h = true := by simpa [hi] using lw
        obtain ⟨_, hk, hi'⟩ := generic hi hl
        simpa only [contentKey_of_not_identLike _ h hi, contentKey_of_not_identLike _ h' hi'] using hk
      | true =>
        cases h <;> simp [isIdentLike] at hi <;> cases h' <;> simp [eqContent, eqV] at he <;>
          simp [contentKey, keyEqv, he]
  | contentPart =>
    cases cm with
    | plain =>
      simp only [fieldLawful, Bool.and_eq_true, Bool.not_eq_true'] at lw
      obtain ⟨_, hk, hi'⟩ := generic lw.1 lw.2
      simpa only [contentPartKey_of_not_identLike _ h lw.1, contentPartKey_of_not_identLike _ h' hi'] using hk
    | content =>
      simp only [fieldLawful, Bool.or_eq_true] at lw
      cases hi : isIdentLike h with
      | false =>
        have hl : lawful T h = true := by simpa [hi] using lw
        obtain ⟨_, hk, hi'⟩ := generic hi hl
        simpa only [contentPartKey_of_not_identLike _ h hi, contentPartKey_of_not_identLike _ h' hi'] using hk
      | true =>
        cases h <;> simp [isIdentLike] at hi <;> cases h' <;> simp [eqContent, eqV] at he <;>
          simp [contentPartKey, keyEqv, partOf, he]
  | orderedContent =>
    have lw' : isIdentLike h = false ∧ lawful T h = true := by
      cases cm <;> simpa [fieldLawful] using lw
    obtain ⟨_, hk, hi'⟩ := generic lw'.1 lw'.2
    simpa only [orderedKey_of_not_identLike _ h lw'.1, orderedKey_of_not_identLike _ h' hi'] using hk
  | orderedItems =>
    by_cases hd : ∃ k, h = .dict k
    · obtain ⟨a, ha⟩ := hd
      obtain ⟨b, hb, hab⟩ := dictcase a ha
      subst ha; subst hb
      have hl : a.length ≤ 1 := by cases cm <;> simpa [fieldLawful] using lw
      simp [itemsKey, keyEqv, dictEq_short _ _ hl hab]
    · have hnd : ∀ k, h ≠ .dict k := fun k hk => hd ⟨k, hk⟩
      have lw' : isIdentLike h = false ∧ lawful T h = true := by
        rw [fieldLawful_ordered cm _ h hnd] at lw
        simpa using lw
      obtain ⟨hk, hnd'⟩ := nondict hnd lw'.1 lw'.2
      simpa only [itemsKey_of_not_dict _ h hnd, itemsKey_of_not_dict _ h' hnd'] using hk
  | itemSet =>
    by_cases hd : ∃ k, h = .dict k
    · obtain ⟨a, ha⟩ := hd
      obtain ⟨b, hb, hab⟩ := dictcase a ha
      subst ha; subst hb
      simp [itemSetKey, keyEqv, hab]
    · have hnd : ∀ k, h ≠ .dict k := fun k hk => hd ⟨k, hk⟩
      have lw' : isIdentLike h = false ∧ lawful T h = true := by
        rw [fieldLawful_itemSet cm _ h hnd] at lw
        simpa using lw
      obtain ⟨hk, hnd'⟩ := nondict hnd lw'.1 lw'.2
      simpa only [itemSetKey_of_not_dict _ h hnd, itemSetKey_of_not_dict _ h' hnd'] using hk

/-- Core induction: on every value, both for `==` on the value and for the field-wise
    comparison of a field chain. -/
theorem eq_hash_core (T : Table) : ∀ a : Val,
    (∀ b, lawful T a = true → eqV T a b = true → keyEqv (hashKey T a) (hashKey T b) = true) ∧
    (∀ fs b, lawfulFs T fs a = true → eqFs T fs a b = true →
      keyEqv (hashFs T fs a) (hashFs T fs b) = true) := by
  intro a
  induction a with
  | atom s =>
    refine ⟨?_, ?_⟩
    · intro b _ h
      cases b <;> simp [eqV] at h
      subst h; simp [hashKey, keyEqv]
    · intro fs b _ h
      cases fs <;> cases b <;> simp [eqFs] at h
  | ident i c =>
    refine ⟨?_, ?_⟩
    · intro b _ h
      cases b <;> simp [eqV] at h
      subst h; simp [hashKey, keyEqv]
    · intro fs b _ h
      cases fs <;> cases b <;> simp [eqFs] at h
  | frame i c =>
    refine ⟨?_, ?_⟩
    · intro b _ h
      cases b <;> simp [eqV] at h
    · intro fs b _ h
      cases fs <;> cases b <;> simp [eqFs] at h
  | dict kvs =>
    refine ⟨?_, ?_⟩
    · intro b _ h
      cases b <;> simp [eqV] at h
      simp [hashKey, keyEqv]
    · intro fs b _ h
      cases fs <;> cases b <;> simp [eqFs] at h
  | dset kvs =>
    refine ⟨?_, ?_⟩
    · intro b _ h
      cases b <;> simp [eqV] at h
    · intro fs b _ h
      cases fs <;> cases b <;> simp [eqFs] at h
  | nil =>
    refine ⟨?_, ?_⟩
    · intro b _ h
      cases b <;> simp [eqV] at h
      simp [hashKey, keyEqv]
    · intro fs b _ h
      cases fs <;> cases b <;> simp [eqFs] at h
      simp [hashFs, keyEqv]
  | err w =>
    refine ⟨?_, ?_⟩
    · intro b _ h
      cases b <;> simp [eqV] at h
    · intro fs b _ h
      cases fs <;> cases b <;> simp [eqFs] at h
  | tup a ih =>
    refine ⟨?_, ?_⟩
    · intro b hl h
      cases b <;> simp [eqV] at h
      simp only [lawful] at hl
      simp only [hashKey, keyEqv]
      exact ih.1 _ hl h
    · intro fs b _ h
      cases fs <;> cases b <;> simp [eqFs] at h
  | obj c vs ih =>
    refine ⟨?_, ?_⟩
    · intro b hl h
      cases b with
      | obj c' vs' =>
        simp only [eqV, Bool.and_eq_true, beq_iff_eq] at h
        obtain ⟨hc, h⟩ := h
        subst hc
        simp only [lawful] at hl
        cases hf : T.find c with
        | none => simp [hf] at h
        | some sp =>
          simp only [hf, Bool.and_eq_true, Bool.or_eq_true, Bool.not_eq_true'] at h hl
          obtain ⟨hg, hfs⟩ := h
          cases hgd : sp.hashGuard with
          | true =>
            simp [hgd] at hg
            exact hg
          | false =>
            simp [hgd] at hl
            simp only [hashKey, hf, keyEqv, Bool.and_eq_true, beq_iff_eq, true_and]
            exact ih.2 _ _ hl hfs
      | _ => simp [eqV] at h
    · intro fs b _ h
      cases fs <;> cases b <;> simp [eqFs] at h
  | cons hd tl ihh iht =>
    refine ⟨?_, ?_⟩
    · intro b hl h
      cases b <;> simp [eqV] at h
      simp only [lawful, Bool.and_eq_true] at hl
      simp only [hashKey, keyEqv, Bool.and_eq_true]
      exact ⟨ihh.1 _ hl.1 h.1, iht.1 _ hl.2 h.2⟩
    · intro fs b hl h
      cases fs with
      | nil => cases b <;> simp [eqFs] at h
      | cons f fs =>
        cases b with
        | cons hd' tl' =>
          simp only [eqFs, Bool.and_eq_true] at h
          simp only [lawfulFs, Bool.and_eq_true] at hl
          obtain ⟨hh, ht⟩ := h
          obtain ⟨lh, lt⟩ := hl
          have htl := iht.2 fs tl' lt ht
          simp only [hashFs]
          rcases hhash : f.hash with _ | hm
          · simpa using htl
          · rcases hcmp : f.cmp with _ | cm
            · simp [hhash, hcmp, fieldLawful] at lh
            · simp only [hhash, hcmp] at lh hh
              simp only [keyEqv, Bool.and_eq_true]
              exact ⟨field_step T hm cm hd hd' (ihh.1 hd') lh hh, htl⟩
        | _ => simp [eqFs] at h

end Pharmpy.C06
