import PharmpyProofs.C06.CovInitLemmas
/-
  C06 — "parameter initial values lie within their bounds" for the thetas created by `add_covariate_effect`
  (`_choose_bounds` + `_choose_param_inits`), for every covariate (all rational statistics with min ≤ median ≤ max).
-/
namespace Pharmpy.C06.CovInit

/-- The `exp` bounds are ordered whatever the covariate: the early return `(0.01, 100)` when the median sits on the
    minimum or maximum, `lower ≤ 0 ≤ upper` otherwise. -/
theorem exp_bounds_ordered (md mn mx : Rat) (idx : Option Nat) (h1 : mn ≤ md) (h2 : md ≤ mx) (l u : Int)
    (h : chooseBounds .exp md mn mx idx = .ok (l, u)) : l ≤ u := by
  unfold chooseBounds at h
  dsimp only at h
  split at h
  · cases h; decide
  · rename_i hne
    have hmin : mn - md < 0 := by
      rcases lt_or_eq_of_le h1 with hl | he
      · linarith
      · exact absurd (sub_eq_zero.mpr he) (fun hz : mn - md = 0 => hne (Or.inl hz))
    have hmax : 0 < mx - md := by
      rcases lt_or_eq_of_le h2 with hl | he
      · linarith
      · exact absurd (sub_eq_zero.mpr he.symm) (fun hz : mx - md = 0 => hne (Or.inr hz))
    obtain ⟨hl, hu⟩ := exp_general_signs (mn - md) (mx - md) hmin hmax
    cases h
    omega

/-- The two-sided check of `_choose_param_inits` (`lower > init_default or init_default > upper`, else midpoint,
    else `upper / 5`) puts the `exp` initial estimate inside ANY ordered pair of bounds. -/
theorem exp_init_inside_ordered_bounds (l u : Int) (h : l ≤ u) :
    10 * l ≤ initFor .exp l u ∧ initFor .exp l u ≤ 10 * u := by
  unfold initFor initDefault10
  dsimp only
  repeat' split
  all_goals omega

/-- **`exp` effect**: for every covariate — median on the minimum, on the maximum, constant, interior, of any
    magnitude — the created parameter satisfies `lower ≤ init ≤ upper`. -/
theorem exp_init_within_bounds (md mn mx : Rat) (idx : Option Nat) (h1 : mn ≤ md) (h2 : md ≤ mx) (r : Inits)
    (h : chooseInits .exp md mn mx idx = .ok r) : r.wf := by
  unfold chooseInits at h
  split at h
  · cases h
  · rename_i l u hb
    cases h
    exact exp_init_inside_ordered_bounds l u (exp_bounds_ordered md mn mx idx h1 h2 l u hb)

/-- `exp` never refuses. -/
theorem exp_total (md mn mx : Rat) (idx : Option Nat) : ∃ r, chooseInits .exp md mn mx idx = .ok r := by
  by_cases hc : (mn - md = 0 ∨ mx - md = 0)
  · simp only [chooseInits, chooseBounds, hc, if_true]; exact ⟨_, rfl⟩
  · simp only [chooseInits, chooseBounds, hc, if_false]; exact ⟨_, rfl⟩

/-- **Every effect**, under the decidable side condition that the linear upper bound `round(1/(median - min), 4)`
    admits the default `0.001`: the created parameter satisfies `lower ≤ init ≤ upper`. -/
theorem init_within_bounds_partial (eff : Effect) (md mn mx : Rat) (idx : Option Nat) (h1 : mn ≤ md) (h2 : md ≤ mx)
    (hs : upperAdmitsDefault eff md mn idx = true) (r : Inits)
    (h : chooseInits eff md mn mx idx = .ok r) : r.wf := by
  cases eff with
  | exp => exact exp_init_within_bounds md mn mx idx h1 h2 r h
  | lin =>
    have hlo := inv_gap_nonpos md mx h2
    simp only [chooseInits, chooseBounds] at h
    cases h
    simp only [upperAdmitsDefault, Bool.or_eq_true, decide_eq_true_eq] at hs
    unfold Inits.wf initFor initDefault10 big4
    dsimp only
    constructor
    · split <;> omega
    · rcases hs with hs | hs
      · simp [hs]
      · split
        · decide
        · omega
  | pieceLin =>
    have hlo := inv_gap_nonpos md mx h2
    simp only [chooseInits, chooseBounds] at h
    simp only [upperAdmitsDefault, Bool.or_eq_true, Bool.not_eq_true', decide_eq_false_iff_not, decide_eq_true_eq] at hs
    unfold Inits.wf
    split at h
    · cases h
    · rename_i l u hb
      cases h
      split at hb
      · cases hb
      · split at hb
        · rename_i hi
          cases hb
          rcases hs with hs | hs
          · exact absurd hi hs
          · unfold initFor initDefault10 big4; dsimp only; omega
        · cases hb
          unfold initFor initDefault10 big4; dsimp only; omega
  | pow => simp only [chooseInits, chooseBounds] at h; cases h; decide
  | cat => simp only [chooseInits, chooseBounds] at h; cases h; decide
  | cat2 => simp only [chooseInits, chooseBounds] at h; cases h; decide
  | other => simp only [chooseInits, chooseBounds] at h; cases h; decide

/-- The side condition cannot be dropped: for a covariate with median 3000, minimum 1000 the `lin` upper bound is
    `0.0005` and the default initial estimate `0.001` lies above it (the code as it is: a finding, see notes). -/
theorem lin_upper_below_default_witness :
    chooseInits .lin 3000 1000 5000 none = .ok ⟨100, -5, 5⟩ ∧ initOk .lin 3000 1000 5000 none = false := by
  decide +kernel

/-- non-vacuity: a 0/1 flag column whose median is its maximum takes the early return and gets the midpoint `50.005`;
    an interior median keeps `0.001`; a covariate in the tens of thousands gets `upper / 5` -/
example : chooseInits .exp 1 0 1 none = .ok ⟨5000500, 100, 1000000⟩ := by decide +kernel
example : chooseInits .exp (13/10) (6/10) (36/10) none = .ok ⟨100, -8696, 8696⟩ := by decide +kernel
example : chooseInits .exp 30000 10000 50000 none = .ok ⟨2, -1, 1⟩ := by decide +kernel
example : upperAdmitsDefault .lin (13/10) (6/10) none = true ∧ upperAdmitsDefault .pieceLin 3 1 (some 0) = true := by
  decide +kernel

end Pharmpy.C06.CovInit
