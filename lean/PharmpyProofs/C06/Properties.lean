import PharmpyProofs.C06.Lemmas
import PharmpyProofs.C06.EffLemmas
import PharmpyProofs.C06.KindLemmas
import PharmpyProofs.C06.NamesLemmas
import PharmpyModel.Generated.Containers
import PharmpyModel.C06.Cache
import PharmpyModel.Generated.EqHash
import PharmpyModel.Generated.Effects
/-
  C06 — Models are immutable values; equal means equal.  Property theorems only.

  Part A (T3a): `a == b → hash a = hash b`, for every class table, every value
  (any nesting depth, any tuple length, any number of fields) that satisfies the
  decidable per-field law `lawful`; the statically checkable form over the
  table regenerated from /repo; and the three ways the law is broken, each as a
  concrete witness.
-/
namespace Pharmpy.C06
open Pharmpy.C06.Generated

/-! ## A. equality is consistent with hashing -/

/-- If every hashed field of every object inside `a` is compared by `__eq__` in a way that
    determines what the hash sees (`lawful`), then `a == b` implies that `hash` sees the same
    key on both sides; hence `hash a = hash b` for whatever function `H` the interpreter uses. -/
theorem eq_implies_hash_eq (T : Table) (H : Val → Nat)
    (hH : ∀ x y, keyEqv x y = true → H x = H y) (a b : Val)
    (hl : lawful T a = true) (h : eqV T a b = true) :
    H (hashKey T a) = H (hashKey T b) :=
  hH _ _ ((eq_hash_core T a).1 b hl h)

/-- The key form: the keys agree structurally, entry sets (`frozenset(items())`) as sets. -/
theorem eq_implies_hash_key_eqv (T : Table) (a b : Val)
    (hl : lawful T a = true) (h : eqV T a b = true) :
    keyEqv (hashKey T a) (hashKey T b) = true :=
  (eq_hash_core T a).1 b hl h

/-- The same for a field chain compared and hashed field-wise by a class. -/
theorem eq_implies_hash_eq_fields (T : Table) (fs : List FieldSpec) (vs vs' : Val)
    (hl : lawfulFs T fs vs = true) (h : eqFs T fs vs vs' = true) :
    keyEqv (hashFs T fs vs) (hashFs T fs vs') = true :=
  (eq_hash_core T vs).2 fs vs' hl h

/-- A class whose `__eq__` starts with `if hash(self) != hash(other): return False`
    (Parameter, Parameters, Assignment) is consistent whatever its fields are. -/
theorem hash_guard_consistent (T : Table) (c : String) (sp : ClassSpec) (vs b : Val)
    (hf : T.find c = some sp) (hg : sp.hashGuard = true) (h : eqV T (.obj c vs) b = true) :
    keyEqv (hashKey T (.obj c vs)) (hashKey T b) = true := by
  have hl : lawful T (.obj c vs) = true := by simp [lawful, hf, hg]
  exact (eq_hash_core T _).1 b hl h

/-! ### the three ways to break the law (each a class shape with a concrete counterexample) -/

/-- A class that compares a graph by content but hashes the graph object (identity):
    `CompartmentalSystem` at /repo 2f7a606 (`hash((self._t, self._g))`). -/
def specIdentityHash : ClassSpec :=
  { name := "CS", hashGuard := false, fields := [
      { name := "_g", cmp := some .content, hash := some .plain, kind := .ident },
      { name := "_t", cmp := some .plain, hash := some .plain, kind := .prim } ] }

theorem identity_hash_witness :
    ∃ a b, eqV [specIdentityHash] a b = true ∧ keyEqv (hashKey [specIdentityHash] a) (hashKey [specIdentityHash] b) = false :=
  ⟨.obj "CS" (.cons (.ident 1 "g") (.cons (.atom "t") .nil)),
   .obj "CS" (.cons (.ident 2 "g") (.cons (.atom "t") .nil)), by decide, by decide⟩

/-- A class that hashes a field its `__eq__` ignores: `Model._dataset`,
    `ColumnInfo._descriptor` at /repo 2f7a606. -/
def specHashedNotCompared : ClassSpec :=
  { name := "CI", hashGuard := false, fields := [
      { name := "_name", cmp := some .plain, hash := some .plain, kind := .prim },
      { name := "_descriptor", cmp := none, hash := some .plain, kind := .prim } ] }

theorem hashed_not_compared_witness :
    ∃ a b, eqV [specHashedNotCompared] a b = true ∧
      keyEqv (hashKey [specHashedNotCompared] a) (hashKey [specHashedNotCompared] b) = false :=
  ⟨.obj "CI" (.cons (.atom "WGT") (.cons (.atom "age") .nil)),
   .obj "CI" (.cons (.atom "WGT") (.cons (.atom "body weight") .nil)), by decide, by decide⟩

/-- A mapping compared as a mapping (order-free) and hashed through `tuple(items())`:
    `frozenmapping` at /repo 2f7a606. -/
def specOrderedItems : ClassSpec :=
  { name := "FM", hashGuard := false, fields := [
      { name := "_mapping", cmp := some .plain, hash := some .orderedItems, kind := .dict } ] }

theorem ordered_items_witness :
    ∃ a b, eqV [specOrderedItems] a b = true ∧ keyEqv (hashKey [specOrderedItems] a) (hashKey [specOrderedItems] b) = false :=
  ⟨.obj "FM" (.cons (.dict [("a", "1"), ("b", "2")]) .nil),
   .obj "FM" (.cons (.dict [("b", "2"), ("a", "1")]) .nil), by decide, by decide⟩

/-- A class that compares a graph by its (order-free) content but hashes an iteration over it in
    insertion order (`tuple(g.edges.data('rate'))`): equal systems whose flows were added in a different
    order hash differently. -/
def specOrderedContent : ClassSpec :=
  { name := "CS", hashGuard := false, fields := [
      { name := "_g", cmp := some .content, hash := some .orderedContent, kind := .ident } ] }

theorem ordered_content_witness :
    ∃ a b, eqV [specOrderedContent] a b = true ∧
      keyEqv (hashKey [specOrderedContent] a) (hashKey [specOrderedContent] b) = false :=
  ⟨.obj "CS" (.cons (.ident 1 "n|e#out;c2p;p2c") .nil),
   .obj "CS" (.cons (.ident 2 "n|e#p2c;c2p;out") .nil), by decide +kernel, by decide +kernel⟩

/-- The repaired shapes of /repo (3364a47 `hash(frozenset(items()))`, d2e36d7 `frozenset(g.nodes)`) satisfy
    the law on the same objects: the keys are equivalent. -/
example :
    let T : Table := [{ name := "FM", hashGuard := false, fields := [
      { name := "_mapping", cmp := some .plain, hash := some .itemSet, kind := .dict } ] }]
    let a := Val.obj "FM" (.cons (.dict [("a", "1"), ("b", "2")]) .nil)
    let b := Val.obj "FM" (.cons (.dict [("b", "2"), ("a", "1")]) .nil)
    eqV T a b = true ∧ lawful T a = true ∧ keyEqv (hashKey T a) (hashKey T b) = true := by decide

example :
    let T : Table := [{ name := "CS", hashGuard := false, fields := [
      { name := "_g", cmp := some .content, hash := some .contentPart, kind := .ident } ] }]
    let a := Val.obj "CS" (.cons (.ident 1 "n|e") .nil)
    let b := Val.obj "CS" (.cons (.ident 2 "n|e") .nil)
    eqV T a b = true ∧ lawful T a = true ∧ keyEqv (hashKey T a) (hashKey T b) = true := by decide

/-- An inconsistency is inherited by every container that hashes the object: a tuple of such
    systems (`Statements._statements`) is equal but hashes differently. -/
theorem inherited_by_container_witness :
    ∃ a b, eqV [specIdentityHash] (.tup a) (.tup b) = true ∧
      keyEqv (hashKey [specIdentityHash] (.tup a)) (hashKey [specIdentityHash] (.tup b)) = false :=
  ⟨.cons (.obj "CS" (.cons (.ident 1 "g") (.cons (.atom "t") .nil))) .nil,
   .cons (.obj "CS" (.cons (.ident 2 "g") (.cons (.atom "t") .nil))) .nil, by decide, by decide⟩

/-! ### the table regenerated from /repo -/

/-- Classes of /repo for which the static check is still known to fail: `Model` only
    (`_dataset` is hashed but not compared; `_initial_individual_estimates` is compared by content and
    hashed as the unhashable frame).  frozenmapping, ColumnInfo, CompartmentalSystem — and with them
    DataInfo, the execution steps and Statements — were repaired in /repo (3364a47, 6f20d2f, d2e36d7)
    and are no longer exempt. -/
def knownInconsistent : List String := ["Model"]

/-- Every class of the regenerated table passes the static eq/hash check, except the named
    known ones.  A new `__hash__` that hashes an uncompared or identity field breaks this theorem. -/
theorem all_classes_hash_consistent :
    ∀ c ∈ inconsistentClasses eqHashTable, c ∈ knownInconsistent := by
  decide +kernel

/-- The static check is sound: if it accepts kind `k` (with any fuel), every value typed by `k`
    according to the table's field kinds satisfies the per-field law. -/
theorem class_check_sound (T : Table) (n : Nat) (k : Kind) (v : Val)
    (hok : kindOK T n k = true) (hk : HasKind T k v) : lawful T v = true :=
  (kind_sound_core T v).1 n k hok hk

/-- Hence for every class the static check accepts, and every well-typed instance `a` of it
    (fields of any nesting depth and length), `a == b → hash a = hash b`. -/
theorem consistent_class_eq_implies_hash_eq (T : Table) (c : String) (hc : classOK T c = true)
    (a b : Val) (ha : HasKind T (.cls c) a) (h : eqV T a b = true)
    (H : Val → Nat) (hH : ∀ x y, keyEqv x y = true → H x = H y) :
    H (hashKey T a) = H (hashKey T b) :=
  eq_implies_hash_eq T H hH a b (class_check_sound T _ _ a hc ha) h

/-- Non-vacuity of the typed statement on the regenerated table: a well-typed `Parameter`. -/
example : HasKind eqHashTable (.cls "Parameter")
    (.obj "Parameter" (.cons (.atom "CL") (.cons (.atom "0.1") (.cons (.atom "0") (.cons (.atom "inf") (.cons (.atom "False") .nil)))))) :=
  .obj _ cls_Parameter _ (by decide +kernel)
    (.cons _ _ _ _ (.prim _) (.cons _ _ _ _ (.prim _) (.cons _ _ _ _ (.prim _) (.cons _ _ _ _ (.prim _)
      (.cons _ _ _ _ (.prim _) .nil)))))

/-- Which fields are directly responsible today (none outside the known ones). -/
theorem direct_causes_known :
    ∀ sp ∈ eqHashTable, ∀ f ∈ directBad sp,
      (sp.name, f) ∈ [("Model", "_dataset"), ("Model", "_initial_individual_estimates")] := by
  decide +kernel

/-- Non-vacuity: the check accepts most of the table (at least these classes). -/
example : ["Expr", "Parameter", "Parameters", "Assignment", "Compartment", "Bolus", "Infusion",
           "NormalDistribution", "JointNormalDistribution", "RandomVariables", "frozenmapping", "ColumnInfo",
           "DataInfo", "EstimationStep", "ExecutionSteps", "CompartmentalSystem", "Statements"].all (classOK eqHashTable) = true := by
  decide +kernel

/-- Non-vacuity of `eq_implies_hash_eq`: a lawful, non-trivial pair of equal objects. -/
example :
    let a := Val.obj "Parameters" (.cons (.tup (.cons (.obj "Parameter"
      (.cons (.atom "CL") (.cons (.atom "0.1") (.cons (.atom "0") (.cons (.atom "inf") (.cons (.atom "False") .nil)))))) .nil)) .nil)
    lawful eqHashTable a = true ∧ eqV eqHashTable a a = true := by
  decide +kernel

/-! ## B. no in-place write reaches an argument (effect language, T3b) -/

section Effects
open Eff

/-- Soundness of the effect checker, for every function abstraction `f`: if `check f` holds then
    along **every** sequence of statements drawn from the body (any order, repetition, prefix —
    i.e. whichever branches are taken, however often loops run, wherever an exception cuts the
    execution short), from every heap in which only the parameters are bound to the `K`
    argument-owned objects, every argument-owned object keeps its contents. -/
theorem effect_checker_sound (f : Fn) (hc : check f = true)
    (tr : List Stmt) (htr : ∀ s ∈ tr, s ∈ f.body)
    (σ : State) (K : Nat) (hK : K ≤ σ.next)
    (hinit : ∀ x o, σ.env x = some o → o < K → x ∈ f.params) :
    ∀ o < K, (run tr σ).ver o = σ.ver o := by
  unfold check at hc
  simp only [Bool.and_eq_true] at hc
  obtain ⟨⟨hp, hcl⟩, hw⟩ := hc
  have hi : Inv (taint f) K σ := by
    refine ⟨hK, ?_⟩
    intro x o hx ho
    have := (List.all_eq_true.mp hp) x (hinit x o hx ho)
    simpa using this
  exact (run_sound f.body (taint f) K hcl hw tr htr σ hi).2

/-- The same for every prefix-closed observation: the invariant also holds in the final state, so
    the guarantee composes with a continuation. -/
theorem effect_checker_sound_inv (f : Fn) (hc : check f = true)
    (tr : List Stmt) (htr : ∀ s ∈ tr, s ∈ f.body)
    (σ : State) (K : Nat) (hK : K ≤ σ.next)
    (hinit : ∀ x o, σ.env x = some o → o < K → x ∈ f.params) :
    K ≤ (run tr σ).next ∧ ∀ x o, (run tr σ).env x = some o → o < K → x ∈ taint f := by
  unfold check at hc
  simp only [Bool.and_eq_true] at hc
  obtain ⟨⟨hp, hcl⟩, hw⟩ := hc
  have hi : Inv (taint f) K σ := by
    refine ⟨hK, ?_⟩
    intro x o hx ho
    have := (List.all_eq_true.mp hp) x (hinit x o hx ho)
    simpa using this
  exact (run_sound f.body (taint f) K hcl hw tr htr σ hi).1

/-- The checker is not vacuous and not trivially accepting: the shape of `add_admid` at /repo
    2f7a606 (`dataset = model.dataset; dataset["ADMID"] = …`) is rejected, and executing it
    changes the argument-owned object. -/
def aliasThenWrite : Fn :=
  { name := "add_admid", params := ["model"], body := [.alias "dataset" "model", .write "dataset"] }

theorem alias_then_write_witness :
    check aliasThenWrite = false ∧
    (run aliasThenWrite.body { env := fun n => if n = "model" then some 0 else none, ver := fun _ => 0, next := 1 }).ver 0 ≠ 0 := by
  refine ⟨by decide, by decide⟩

/-- … while the repaired shape (`dataset = model.dataset.copy(); dataset["ADMID"] = …`) is accepted. -/
example : check { name := "add_admid", params := ["model"], body := [.fresh "dataset", .write "dataset"] } = true := by
  decide

end Effects

/-- Public functions whose effect program is **not** proved free of writes to arguments: all through
    imprecision of the flow-insensitive abstraction, covered by the snapshot monitors only:
    `x = [] if x is None` followed by `x.append` (add_allometry, create_joint_distribution,
    plot_abs_cwres_vs_ipred, plot_cwres_vs_idv), `df = df.copy()` followed by stores (deidentify_data),
    `option *= n` on an element of a list argument (add_iiv — this one does lengthen a caller's
    one-element list in place, a non-model argument), a set obtained from a computed property and
    updated (remove_covariate_effect), a frame derived inside a helper and then extended
    (plot_dv_vs_ipred, plot_dv_vs_pred, plot_vpc).  `add_admid` and `add_cmt` were repaired in /repo
    (c8f61e3) and are no longer exempt. -/
def notProvedPure : List String :=
  ["add_allometry", "add_iiv", "create_joint_distribution", "deidentify_data",
   "plot_abs_cwres_vs_ipred", "plot_cwres_vs_idv", "plot_dv_vs_ipred", "plot_dv_vs_pred",
   "remove_covariate_effect", "plot_vpc"]

/-- Every other public function of `pharmpy.modeling` (table regenerated from /repo on every run)
    passes the checker; with `effect_checker_sound` no statement sequence of its body writes an
    object owned by an argument.  A new `df[c] = …` on an alias of `model.dataset` breaks this. -/
theorem all_public_functions_pass :
    ∀ f ∈ Generated.effects, f.name ∉ notProvedPure → Eff.check f = true := by
  decide +kernel

/-- Non-vacuity: the table is large and nothing is left unanalysed. -/
example : 200 ≤ Generated.effects.length ∧ Generated.unanalysed = [] := by decide +kernel

/-! ## C. names are unique in the named collections (container algebra, T3c) -/

section NamesSection
open Names

/-- `create` (Parameters.create, RandomVariables.create) accepts a list exactly when no name is
    defined twice — any number of items, any number of names per item. -/
theorem create_ok_iff (xs : List Item) :
    (∃ ys, createChecked xs = .ok ys) ↔ (namesOf xs).Nodup := by
  unfold createChecked
  constructor
  · rintro ⟨ys, h⟩
    cases hc : checkFrom [] xs with
    | error n => simp [hc] at h
    | ok u => cases u; exact ((checkFrom_ok_iff [] xs).mp hc).1
  · intro h
    have := (checkFrom_ok_iff [] xs).mpr ⟨h, by simp⟩
    exact ⟨xs, by simp [this]⟩

/-- … and then returns the items unchanged. -/
theorem create_returns_input (xs ys : List Item) (h : createChecked xs = .ok ys) : ys = xs := by
  unfold createChecked at h
  cases hc : checkFrom [] xs with
  | error n => simp [hc] at h
  | ok u => cases u; simp [hc] at h; exact h.symm

/-- A collection operation that goes through the checking `create` returns only well-formed
    collections: the concatenation, with no name defined twice. -/
theorem checked_combine_wellformed (reflected : Bool) (self other r : List Item)
    (h : combine .checked reflected self other = .ok r) :
    uniqueNames r = true ∧ r = (if reflected then other ++ self else self ++ other) := by
  simp only [combine] at h
  have hr := create_returns_input _ _ h
  refine ⟨?_, hr⟩
  have := (create_ok_iff _).mp ⟨r, h⟩
  rw [hr]
  simpa [uniqueNames] using this

/-- … and refuses whenever a name of the newcomer is already taken, whatever the other attributes
    of the two items are (the clause the seeded `if item in self` variant loses). -/
theorem checked_combine_refuses_collision (reflected : Bool) (self other : List Item) (n : String)
    (h1 : n ∈ namesOf self) (h2 : n ∈ namesOf other) :
    ∃ e, combine .checked reflected self other = .error e := by
  simp only [combine]
  cases hc : createChecked (if reflected then other ++ self else self ++ other) with
  | error e => exact ⟨e, rfl⟩
  | ok r =>
    exfalso
    have hnd := (create_ok_iff _).mp ⟨r, hc⟩
    cases reflected
    · simp only [Bool.false_eq_true, if_false, namesOf, List.flatMap_append] at hnd
      exact (List.nodup_append.mp hnd).2.2 n h1 n h2 rfl
    · simp only [if_true, namesOf, List.flatMap_append] at hnd
      exact (List.nodup_append.mp hnd).2.2 n h2 n h1 rfl

/-- It accepts every admissible addition (so refusal is not the trivial way to be safe). -/
theorem checked_combine_accepts_fresh (self other : List Item)
    (hs : (namesOf self).Nodup) (ho : (namesOf other).Nodup)
    (hd : ∀ n ∈ namesOf self, n ∉ namesOf other) :
    combine .checked false self other = .ok (self ++ other) := by
  simp only [combine, Bool.false_eq_true, if_false]
  have hnd : (namesOf (self ++ other)).Nodup := by
    simp only [namesOf, List.flatMap_append]
    exact List.nodup_append.mpr ⟨hs, ho, fun a ha b hb hab => hd a ha (hab ▸ hb)⟩
  obtain ⟨ys, hy⟩ := (create_ok_iff _).mpr hnd
  rw [hy, create_returns_input _ _ hy]

/-- The raw constructor on a concatenation (RandomVariables.__add__, DataInfo at /repo 2f7a606) returns an
    ill-formed collection for a newcomer with a taken name. -/
theorem raw_combine_witness :
    ∃ self other r, uniqueNames self = true ∧ uniqueNames other = true ∧
      combine .raw false self other = .ok r ∧ uniqueNames r = false :=
  ⟨[⟨["ETA_CL"], "iiv;0;IIV_CL"⟩], [⟨["ETA_CL"], "iiv;0;IIV_VC"⟩], _, by decide, by decide, rfl, by decide⟩

/-- Testing the newcomer by *value* membership (`if param in self`) and then using the raw constructor
    refuses an identical item but accepts one with a taken name and different init/bounds/fix. -/
theorem by_value_combine_witness :
    (∃ e, combine .byValue false [⟨["POP_KA"], "1.5;0;inf;False"⟩] [⟨["POP_KA"], "1.5;0;inf;False"⟩] = .error e) ∧
    ∃ r, combine .byValue false [⟨["POP_KA"], "1.5;0;inf;False"⟩] [⟨["POP_KA"], "2.0;0;inf;False"⟩] = .ok r ∧
      uniqueNames r = false :=
  ⟨⟨"POP_KA", by rfl⟩,
   [⟨["POP_KA"], "1.5;0;inf;False"⟩, ⟨["POP_KA"], "2.0;0;inf;False"⟩], by rfl, by decide⟩

/-- Collection operations of /repo known not to go through a checking `create`:
    RandomVariables `+` / reflected `+` use the raw constructor; DataInfo.create has no name check, so
    none of DataInfo's operations has one. -/
def knownUnchecked : List (String × String) :=
  [("RandomVariables", "__add__"), ("RandomVariables", "__radd__"),
   ("DataInfo", "create"), ("DataInfo", "replace"), ("DataInfo", "__add__"), ("DataInfo", "__radd__")]

/-- Every other `create` / `replace` / `+` of the named collections (table regenerated from /repo on every
    run) goes through the checking `create`; with `checked_combine_wellformed` its results have unique names. -/
theorem all_container_ops_checked :
    ∀ op ∈ Generated.containerOps, (op.cls, op.method) ∉ knownUnchecked → op.policy = .checked := by
  decide +kernel

example : 7 ≤ (Generated.containerOps.filter (fun op => op.policy == .checked)).length := by decide +kernel

end NamesSection

/-! ## D. cached hashes do not leak into derived objects -/

section CacheSection
open Cache

theorem cache_step_ok (H : Content → Nat) (op : Op) (hop : op.cloneFree = true) (o : Obj) (ho : CacheOK H o) :
    CacheOK H (step H op o) := by
  cases op with
  | hashIt =>
    rcases ho with h | h
    · right; simp [step, h]
    · right; simp [step, h]
  | replaceFresh k v => left; rfl
  | replaceClone k v => simp [Op.cloneFree] at hop
  | copyCtor => exact ho

/-- Along every sequence of hashing, cache-free derivations and identical-content copies — however often
    and whenever the intermediate objects were hashed — a cached hash is the hash of the current content. -/
theorem cache_ok_run (H : Content → Nat) (ops : List Op) (hops : ∀ op ∈ ops, op.cloneFree = true)
    (o : Obj) (ho : CacheOK H o) : CacheOK H (run H ops o) := by
  induction ops generalizing o with
  | nil => exact ho
  | cons op ops ih =>
    exact ih (fun op' h' => hops op' (by simp [h'])) (step H op o) (cache_step_ok H op (hops op (by simp)) o ho)

/-- Hence `hash` of a derived object is a function of its content only: objects with equal content reached
    along different histories (one source hashed before, the other never) hash equal. -/
theorem derived_hash_is_content_hash (H : Content → Nat) (ops₁ ops₂ : List Op)
    (h₁ : ∀ op ∈ ops₁, op.cloneFree = true) (h₂ : ∀ op ∈ ops₂, op.cloneFree = true)
    (o₁ o₂ : Obj) (ho₁ : CacheOK H o₁) (ho₂ : CacheOK H o₂)
    (hc : (run H ops₁ o₁).content = (run H ops₂ o₂).content) :
    hashOf H (run H ops₁ o₁) = hashOf H (run H ops₂ o₂) := by
  have e : ∀ o, CacheOK H o → hashOf H o = H o.content := by
    intro o ho
    rcases ho with h | h <;> simp [hashOf, h]
  rw [e _ (cache_ok_run H ops₁ h₁ o₁ ho₁), e _ (cache_ok_run H ops₂ h₂ o₂ ho₂), hc]

/-- A derivation that starts from a clone carrying the source's cache reports the hash of the OLD content
    once the source has been hashed; the same derivation from a never-hashed source does not. -/
theorem replace_clone_witness :
    let H : Content → Nat := fun c => c.length
    let o : Obj := ⟨[("Y", "1")], none⟩
    hashOf H (run H [.hashIt, .replaceClone "Y_2" "2"] o) ≠ H (run H [.hashIt, .replaceClone "Y_2" "2"] o).content ∧
    hashOf H (run H [.replaceClone "Y_2" "2"] o) = H (run H [.replaceClone "Y_2" "2"] o).content := by
  decide

end CacheSection

end Pharmpy.C06
