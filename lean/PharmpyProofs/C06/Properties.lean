import PharmpyProofs.C06.Lemmas
import PharmpyProofs.C06.EffLemmas
import PharmpyProofs.C06.KindLemmas
import PharmpyModel.Generated.EqHash
import PharmpyModel.Generated.Effects
/-
  C06 — Models are immutable values; equal means equal.  Property theorems only.

  Part A (T3a): `a == b → hash a = hash b`, for every class table, every value
  (any nesting depth, any tuple length, any number of fields) that satisfies the
  decidable per-field law `lawful`; the statically checkable form over the
  table regenerated from /repo; and the three ways the law is broken, each as a
  concrete witness.
-/
namespace Pharmpy.C06
open Pharmpy.C06.Generated

/-! ## A. equality is consistent with hashing -/

/-- If every hashed field of every object inside `a` is compared by `__eq__` in a way that
    determines what the hash sees (`lawful`), then `a == b` implies that `hash` sees the same
    key on both sides; hence `hash a = hash b` for whatever function `H` the interpreter uses. -/
theorem eq_implies_hash_eq (T : Table) (H : Val → Nat)
    (hH : ∀ x y, keyEqv x y = true → H x = H y) (a b : Val)
    (hl : lawful T a = true) (h : eqV T a b = true) :
    H (hashKey T a) = H (hashKey T b) :=
  hH _ _ ((eq_hash_core T a).1 b hl h)

/-- The key form: the keys agree structurally, entry sets (`frozenset(items())`) as sets. -/
theorem eq_implies_hash_key_eqv (T : Table) (a b : Val)
    (hl : lawful T a = true) (h : eqV T a b = true) :
    keyEqv (hashKey T a) (hashKey T b) = true :=
  (eq_hash_core T a).1 b hl h

/-- The same for a field chain compared and hashed field-wise by a class. -/
theorem eq_implies_hash_eq_fields (T : Table) (fs : List FieldSpec) (vs vs' : Val)
    (hl : lawfulFs T fs vs = true) (h : eqFs T fs vs vs' = true) :
    keyEqv (hashFs T fs vs) (hashFs T fs vs') = true :=
  (eq_hash_core T vs).2 fs vs' hl h

/-- A class whose `__eq__` starts with `if hash(self) != hash(other): return False`
    (Parameter, Parameters, Assignment) is consistent whatever its fields are. -/
theorem hash_guard_consistent (T : Table) (c : String) (sp : ClassSpec) (vs b : Val)
    (hf : T.find c = some sp) (hg : sp.hashGuard = true) (h : eqV T (.obj c vs) b = true) :
    keyEqv (hashKey T (.obj c vs)) (hashKey T b) = true := by
  have hl : lawful T (.obj c vs) = true := by simp [lawful, hf, hg]
  exact (eq_hash_core T _).1 b hl h

/-! ### the three ways to break the law (each a class shape with a concrete counterexample) -/

/-- A class that compares a graph by content but hashes the graph object (identity):
    `CompartmentalSystem` at /repo 2f7a606 (`hash((self._t, self._g))`). -/
def specIdentityHash : ClassSpec :=
  { name := "CS", hashGuard := false, fields := [
      { name := "_g", cmp := some .content, hash := some .plain, kind := .ident },
      { name := "_t", cmp := some .plain, hash := some .plain, kind := .prim } ] }

theorem identity_hash_witness :
    ∃ a b, eqV [specIdentityHash] a b = true ∧ keyEqv (hashKey [specIdentityHash] a) (hashKey [specIdentityHash] b) = false :=
  ⟨.obj "CS" (.cons (.ident 1 "g") (.cons (.atom "t") .nil)),
   .obj "CS" (.cons (.ident 2 "g") (.cons (.atom "t") .nil)), by decide, by decide⟩

/-- A class that hashes a field its `__eq__` ignores: `Model._dataset`,
    `ColumnInfo._descriptor` at /repo 2f7a606. -/
def specHashedNotCompared : ClassSpec :=
  { name := "CI", hashGuard := false, fields := [
      { name := "_name", cmp := some .plain, hash := some .plain, kind := .prim },
      { name := "_descriptor", cmp := none, hash := some .plain, kind := .prim } ] }

theorem hashed_not_compared_witness :
    ∃ a b, eqV [specHashedNotCompared] a b = true ∧
      keyEqv (hashKey [specHashedNotCompared] a) (hashKey [specHashedNotCompared] b) = false :=
  ⟨.obj "CI" (.cons (.atom "WGT") (.cons (.atom "age") .nil)),
   .obj "CI" (.cons (.atom "WGT") (.cons (.atom "body weight") .nil)), by decide, by decide⟩

/-- A mapping compared as a mapping (order-free) and hashed through `tuple(items())`:
    `frozenmapping` at /repo 2f7a606. -/
def specOrderedItems : ClassSpec :=
  { name := "FM", hashGuard := false, fields := [
      { name := "_mapping", cmp := some .plain, hash := some .orderedItems, kind := .dict } ] }

theorem ordered_items_witness :
    ∃ a b, eqV [specOrderedItems] a b = true ∧ keyEqv (hashKey [specOrderedItems] a) (hashKey [specOrderedItems] b) = false :=
  ⟨.obj "FM" (.cons (.dict [("a", "1"), ("b", "2")]) .nil),
   .obj "FM" (.cons (.dict [("b", "2"), ("a", "1")]) .nil), by decide, by decide⟩

/-- A class that compares a graph by its (order-free) content but hashes an iteration over it in
    insertion order (`tuple(g.edges.data('rate'))`): equal systems whose flows were added in a different
    order hash differently. -/
def specOrderedContent : ClassSpec :=
  { name := "CS", hashGuard := false, fields := [
      { name := "_g", cmp := some .content, hash := some .orderedContent, kind := .ident } ] }

theorem ordered_content_witness :
    ∃ a b, eqV [specOrderedContent] a b = true ∧
      keyEqv (hashKey [specOrderedContent] a) (hashKey [specOrderedContent] b) = false :=
  ⟨.obj "CS" (.cons (.ident 1 "n|e#out;c2p;p2c") .nil),
   .obj "CS" (.cons (.ident 2 "n|e#p2c;c2p;out") .nil), by decide +kernel, by decide +kernel⟩

/-- The repaired shapes of /repo (3364a47 `hash(frozenset(items()))`, d2e36d7 `frozenset(g.nodes)`) satisfy
    the law on the same objects: the keys are equivalent. -/
example :
    let T : Table := [{ name := "FM", hashGuard := false, fields := [
      { name := "_mapping", cmp := some .plain, hash := some .itemSet, kind := .dict } ] }]
    let a := Val.obj "FM" (.cons (.dict [("a", "1"), ("b", "2")]) .nil)
    let b := Val.obj "FM" (.cons (.dict [("b", "2"), ("a", "1")]) .nil)
    eqV T a b = true ∧ lawful T a = true ∧ keyEqv (hashKey T a) (hashKey T b) = true := by decide

example :
    let T : Table := [{ name := "CS", hashGuard := false, fields := [
      { name := "_g", cmp := some .content, hash := some .contentPart, kind := .ident } ] }]
    let a := Val.obj "CS" (.cons (.ident 1 "n|e") .nil)
    let b := Val.obj "CS" (.cons (.ident 2 "n|e") .nil)
    eqV T a b = true ∧ lawful T a = true ∧ keyEqv (hashKey T a) (hashKey T b) = true := by decide

/-- An inconsistency is inherited by every container that hashes the object: a tuple of such
    systems (`Statements._statements`) is equal but hashes differently. -/
theorem inherited_by_container_witness :
    ∃ a b, eqV [specIdentityHash] (.tup a) (.tup b) = true ∧
      keyEqv (hashKey [specIdentityHash] (.tup a)) (hashKey [specIdentityHash] (.tup b)) = false :=
  ⟨.cons (.obj "CS" (.cons (.ident 1 "g") (.cons (.atom "t") .nil))) .nil,
   .cons (.obj "CS" (.cons (.ident 2 "g") (.cons (.atom "t") .nil))) .nil, by decide, by decide⟩

/-! ### the table regenerated from /repo -/

/-- Classes of /repo for which the static check is still known to fail: `Model` only
    (`_dataset` is hashed but not compared; `_initial_individual_estimates` is compared by content and
    hashed as the unhashable frame).  frozenmapping, ColumnInfo, CompartmentalSystem — and with them
    DataInfo, the execution steps and Statements — were repaired in /repo (3364a47, 6f20d2f, d2e36d7)
    and are no longer exempt. -/
def knownInconsistent : List String := ["Model"]

/-- Every class of the regenerated table passes the static eq/hash check, except the named
    known ones.  A new `__hash__` that hashes an uncompared or identity field breaks this theorem. -/
theorem all_classes_hash_consistent :
    ∀ c ∈ inconsistentClasses eqHashTable, c ∈ knownInconsistent := by
  decide +kernel

/-- The static check is sound: if it accepts kind `k` (with any fuel), every value typed by `k`
    according to the table's field kinds satisfies the per-field law. -/
theorem class_check_sound (T : Table) (n : Nat) (k : Kind) (v : Val)
    (hok : kindOK T n k = true) (hk : HasKind T k v) : lawful T v = true :=
  (kind_sound_core T v).1 n k hok hk

/-- Hence for every class the static check accepts, and every well-typed instance `a` of it
    (fields of any nesting depth and length), `a == b → hash a = hash b`. -/
theorem consistent_class_eq_implies_hash_eq (T : Table) (c : String) (hc : classOK T c = true)
    (a b : Val) (ha : HasKind T (.cls c) a) (h : eqV T a b = true)
    (H : Val → Nat) (hH : ∀ x y, keyEqv x y = true → H x = H y) :
    H (hashKey T a) = H (hashKey T b) :=
  eq_implies_hash_eq T H hH a b (class_check_sound T _ _ a hc ha) h

/-- Non-vacuity of the typed statement on the regenerated table: a well-typed `Parameter`. -/
example : HasKind eqHashTable (.cls "Parameter")
    (.obj "Parameter" (.cons (.atom "CL") (.cons (.atom "0.1") (.cons (.atom "0") (.cons (.atom "inf") (.cons (.atom "False") .nil)))))) :=
  .obj _ cls_Parameter _ (by decide +kernel)
    (.cons _ _ _ _ (.prim _) (.cons _ _ _ _ (.prim _) (.cons _ _ _ _ (.prim _) (.cons _ _ _ _ (.prim _)
      (.cons _ _ _ _ (.prim _) .nil)))))

/-- Which fields are directly responsible today (none outside the known ones). -/
theorem direct_causes_known :
    ∀ sp ∈ eqHashTable, ∀ f ∈ directBad sp,
      (sp.name, f) ∈ [("Model", "_dataset"), ("Model", "_initial_individual_estimates")] := by
  decide +kernel

/-- Non-vacuity: the check accepts most of the table (at least these classes). -/
example : ["Expr", "Parameter", "Parameters", "Assignment", "Compartment", "Bolus", "Infusion",
           "NormalDistribution", "JointNormalDistribution", "RandomVariables", "frozenmapping", "ColumnInfo",
           "DataInfo", "EstimationStep", "ExecutionSteps", "CompartmentalSystem", "Statements"].all (classOK eqHashTable) = true := by
  decide +kernel

/-- Non-vacuity of `eq_implies_hash_eq`: a lawful, non-trivial pair of equal objects. -/
example :
    let a := Val.obj "Parameters" (.cons (.tup (.cons (.obj "Parameter"
      (.cons (.atom "CL") (.cons (.atom "0.1") (.cons (.atom "0") (.cons (.atom "inf") (.cons (.atom "False") .nil)))))) .nil)) .nil)
    lawful eqHashTable a = true ∧ eqV eqHashTable a a = true := by
  decide +kernel

/-! ## B. no in-place write reaches an argument (effect language, T3b) -/

section Effects
open Eff

/-- Soundness of the effect checker, for every function abstraction `f`: if `check f` holds then
    along **every** sequence of statements drawn from the body (any order, repetition, prefix —
    i.e. whichever branches are taken, however often loops run, wherever an exception cuts the
    execution short), from every heap in which only the parameters are bound to the `K`
    argument-owned objects, every argument-owned object keeps its contents. -/
theorem effect_checker_sound (f : Fn) (hc : check f = true)
    (tr : List Stmt) (htr : ∀ s ∈ tr, s ∈ f.body)
    (σ : State) (K : Nat) (hK : K ≤ σ.next)
    (hinit : ∀ x o, σ.env x = some o → o < K → x ∈ f.params) :
    ∀ o < K, (run tr σ).ver o = σ.ver o := by
  unfold check at hc
  simp only [Bool.and_eq_true] at hc
  obtain ⟨⟨hp, hcl⟩, hw⟩ := hc
  have hi : Inv (taint f) K σ := by
    refine ⟨hK, ?_⟩
    intro x o hx ho
    have := (List.all_eq_true.mp hp) x (hinit x o hx ho)
    simpa using this
  exact (run_sound f.body (taint f) K hcl hw tr htr σ hi).2

/-- The same for every prefix-closed observation: the invariant also holds in the final state, so
    the guarantee composes with a continuation. -/
theorem effect_checker_sound_inv (f : Fn) (hc : check f = true)
    (tr : List Stmt) (htr : ∀ s ∈ tr, s ∈ f.body)
    (σ : State) (K : Nat) (hK : K ≤ σ.next)
    (hinit : ∀ x o, σ.env x = some o → o < K → x ∈ f.params) :
    K ≤ (run tr σ).next ∧ ∀ x o, (run tr σ).env x = some o → o < K → x ∈ taint f := by
  unfold check at hc
  simp only [Bool.and_eq_true] at hc
  obtain ⟨⟨hp, hcl⟩, hw⟩ := hc
  have hi : Inv (taint f) K σ := by
    refine ⟨hK, ?_⟩
    intro x o hx ho
    have := (List.all_eq_true.mp hp) x (hinit x o hx ho)
    simpa using this
  exact (run_sound f.body (taint f) K hcl hw tr htr σ hi).1

/-- The checker is not vacuous and not trivially accepting: the shape of `add_admid` at /repo
    2f7a606 (`dataset = model.dataset; dataset["ADMID"] = …`) is rejected, and executing it
    changes the argument-owned object. -/
def aliasThenWrite : Fn :=
  { name := "add_admid", params := ["model"], body := [.alias "dataset" "model", .write "dataset"] }

theorem alias_then_write_witness :
    check aliasThenWrite = false ∧
    (run aliasThenWrite.body { env := fun n => if n = "model" then some 0 else none, ver := fun _ => 0, next := 1 }).ver 0 ≠ 0 := by
  refine ⟨by decide, by decide⟩

/-- … while the repaired shape (`dataset = model.dataset.copy(); dataset["ADMID"] = …`) is accepted. -/
example : check { name := "add_admid", params := ["model"], body := [.fresh "dataset", .write "dataset"] } = true := by
  decide

end Effects

/-- Public functions whose effect program is **not** proved free of writes to arguments: all through
    imprecision of the flow-insensitive abstraction, covered by the snapshot monitors only:
    `x = [] if x is None` followed by `x.append` (add_allometry, create_joint_distribution,
    plot_abs_cwres_vs_ipred, plot_cwres_vs_idv), `df = df.copy()` followed by stores (deidentify_data),
    `option *= n` on an element of a list argument (add_iiv — this one does lengthen a caller's
    one-element list in place, a non-model argument), a set obtained from a computed property and
    updated (remove_covariate_effect), a frame derived inside a helper and then extended
    (plot_dv_vs_ipred, plot_dv_vs_pred, plot_vpc).  `add_admid` and `add_cmt` were repaired in /repo
    (c8f61e3) and are no longer exempt. -/
def notProvedPure : List String :=
  ["add_allometry", "add_iiv", "create_joint_distribution", "deidentify_data",
   "plot_abs_cwres_vs_ipred", "plot_cwres_vs_idv", "plot_dv_vs_ipred", "plot_dv_vs_pred",
   "remove_covariate_effect", "plot_vpc"]

/-- Every other public function of `pharmpy.modeling` (table regenerated from /repo on every run)
    passes the checker; with `effect_checker_sound` no statement sequence of its body writes an
    object owned by an argument.  A new `df[c] = …` on an alias of `model.dataset` breaks this. -/
theorem all_public_functions_pass :
    ∀ f ∈ Generated.effects, f.name ∉ notProvedPure → Eff.check f = true := by
  decide +kernel

/-- Non-vacuity: the table is large and nothing is left unanalysed. -/
example : 200 ≤ Generated.effects.length ∧ Generated.unanalysed = [] := by decide +kernel

end Pharmpy.C06
