import PharmpyProofs.C05.RelabelLemmas
/-
  Relabelling several nodes one after the other (what `relabel_nodes(copy=False)` does for the
  mapping of `CompartmentalSystem.subs`): node order and flows.
-/
namespace Pharmpy.C05
open Graph
variable {α ρ : Type} [DecidableEq α]

theorem relabel1_self (g : Graph α ρ) (a : α) : g.relabel1 a a = g := by
  unfold relabel1
  by_cases ha : a ∈ g.nodes
  · simp [ha, addNode]
  · simp [ha]

/-- relabel `olds` one after the other, each to `f old` -/
def relabelFold (g : Graph α ρ) (f : α → α) (olds : List α) : Graph α ρ :=
  olds.foldl (fun g o => g.relabel1 o (f o)) g

theorem relabelFold_spec (f : α → α) (olds : List α) : ∀ (g : Graph α ρ), g.WF → olds.Nodup →
    (∀ o ∈ olds, o ∈ g.nodes) → (∀ o ∈ olds, f o ∉ g.nodes) → (olds.map f).Nodup →
    (relabelFold g f olds).WF
    ∧ (relabelFold g f olds).nodes = g.nodes.filter (fun n => decide (n ∉ olds)) ++ olds.map f
    ∧ ∀ x y, x ∈ g.nodes → y ∈ g.nodes →
        (relabelFold g f olds).getFlow (if x ∈ olds then f x else x) (if y ∈ olds then f y else y) = g.getFlow x y := by
  induction olds with
  | nil =>
    intro g h _ _ _ _
    refine ⟨h, ?_, ?_⟩
    · simp only [relabelFold, List.foldl_nil, List.map_nil, List.append_nil, List.not_mem_nil, not_false_eq_true,
        decide_true]
      exact (List.filter_eq_self.mpr (fun _ _ => rfl)).symm
    · intro x y _ _; simp [relabelFold]
  | cons o olds ih =>
    intro g h hnd hin hfresh hinj
    rw [List.nodup_cons] at hnd
    simp only [List.map_cons, List.nodup_cons] at hinj
    have ho : o ∈ g.nodes := hin o List.mem_cons_self
    have hfo : f o ∉ g.nodes := hfresh o List.mem_cons_self
    have hwf1 : (g.relabel1 o (f o)).WF := WF_relabel1 h _ _
    have hn1 := nodes_relabel1 h o (f o) ho hfo
    have hin' : ∀ o' ∈ olds, o' ∈ (g.relabel1 o (f o)).nodes := by
      intro o' ho'
      rw [hn1, List.mem_append, List.mem_filter]
      left
      have hne : o' ≠ o := fun e => hnd.1 (e ▸ ho')
      exact ⟨hin o' (List.mem_cons_of_mem _ ho'), by simpa using hne⟩
    have hfresh' : ∀ o' ∈ olds, f o' ∉ (g.relabel1 o (f o)).nodes := by
      intro o' ho'
      rw [hn1, List.mem_append, List.mem_filter]
      rintro (⟨h1, _⟩ | h1)
      · exact hfresh o' (List.mem_cons_of_mem _ ho') h1
      · simp only [List.mem_singleton] at h1
        exact hinj.1 (h1 ▸ List.mem_map.mpr ⟨o', ho', rfl⟩)
    obtain ⟨i1, i2, i3⟩ := ih (g.relabel1 o (f o)) hwf1 hnd.2 hin' hfresh' hinj.2
    have hfo_olds : f o ∉ olds := fun hm => hfo (hin (f o) (List.mem_cons_of_mem _ hm))
    have hunf : relabelFold g f (o :: olds) = relabelFold (g.relabel1 o (f o)) f olds := by
      simp [relabelFold]
    rw [hunf]
    refine ⟨i1, ?_, ?_⟩
    · rw [i2, hn1, List.filter_append, List.filter_filter]
      have h1 : List.filter (fun n => decide (n ∉ olds)) [f o] = [f o] := by simp [hfo_olds]
      rw [h1, List.map_cons, List.append_assoc]
      congr 1
      apply List.filter_congr
      intro n _
      simp only [List.mem_cons, not_or, ne_eq, Bool.decide_and]
      exact Bool.and_comm _ _
    · intro x y hx hy
      have key : ∀ z, z ∈ g.nodes →
          (if (if z = o then f o else z) ∈ olds then f (if z = o then f o else z) else (if z = o then f o else z))
            = (if z ∈ o :: olds then f z else z)
          ∧ (if z = o then f o else z) ∈ (g.relabel1 o (f o)).nodes := by
        intro z hz
        by_cases hzo : z = o
        · subst hzo
          simp only [if_true, hfo_olds, if_false, List.mem_cons, true_or]
          rw [hn1]; simp
        · simp only [hzo, if_false, List.mem_cons, false_or]
          refine ⟨trivial, ?_⟩
          rw [hn1, List.mem_append, List.mem_filter]
          left; exact ⟨hz, by simpa using hzo⟩
      have kx := key x hx
      have ky := key y hy
      rw [← kx.1, ← ky.1, i3 _ _ kx.2 ky.2]
      exact getFlow_relabel1 h o (f o) ho hfo x y hx hy

/-- relabelling a node to itself any number of times in between changes nothing: the fold only sees the
    nodes that really change -/
theorem relabelFold_filter (f : α → α) (olds : List α) : ∀ (g : Graph α ρ),
    relabelFold g f olds = relabelFold g f (olds.filter (fun o => decide (f o ≠ o))) := by
  induction olds with
  | nil => intro g; rfl
  | cons o olds ih =>
    intro g
    by_cases ho : f o = o
    · have : relabelFold g f (o :: olds) = relabelFold g f olds := by
        simp [relabelFold, ho, relabel1_self]
      rw [this, ih g]
      simp [List.filter_cons, ho]
    · have h1 : relabelFold g f (o :: olds) = relabelFold (g.relabel1 o (f o)) f olds := by simp [relabelFold]
      have h2 : (o :: olds).filter (fun o => decide (f o ≠ o)) = o :: olds.filter (fun o => decide (f o ≠ o)) := by
        simp [List.filter_cons, ho]
      rw [h1, h2, ih]
      simp [relabelFold]

/-- the loop of `_relabel_inplace` over a mapping `{k: f k}` visits `order ⊆ keys`: it is `relabelFold` -/
theorem relabel_loop_eq (g : Graph α ρ) (f : α → α) (keys order : List α) (hk : keys.Nodup)
    (hsub : ∀ o ∈ order, o ∈ keys) :
    order.foldl (fun g old => match alGet? (keys.map (fun k => (k, f k))) old with
      | some new => g.relabel1 old new
      | none => g) g = relabelFold g f order := by
  unfold relabelFold
  induction order generalizing g with
  | nil => rfl
  | cons o order ih =>
    simp only [List.foldl_cons]
    have hget : alGet? (keys.map (fun k => (k, f k))) o = some (f o) := by
      apply alGet?_of_mem_nodup
      · simpa [List.map_map, Function.comp_def] using hk
      · exact List.mem_map.mpr ⟨o, hsub o List.mem_cons_self, rfl⟩
    rw [hget]
    exact ih _ (fun o' ho' => hsub o' (List.mem_cons_of_mem _ ho'))

end Pharmpy.C05
