import Mathlib.Tactic.Ring
import Mathlib.Algebra.Ring.Hom.Defs
import PharmpyModel.C05.Matrix
/-
  Sums over lists in a commutative ring, and the row lemma behind `matrix_is_rhs`.
-/
namespace Pharmpy.C05

variable {R : Type} [CommRing R] {α β : Type}

theorem foldl_sub_eq (f : α → R) (l : List α) (z : R) :
    l.foldl (fun acc x => acc - f x) z = z - (l.map f).sum := by
  induction l generalizing z with
  | nil => simp
  | cons a l ih => simp only [List.foldl_cons, ih, List.map_cons, List.sum_cons]; ring

theorem sum_map_add (f g : α → R) (l : List α) :
    (l.map (fun x => f x + g x)).sum = (l.map f).sum + (l.map g).sum := by
  induction l with
  | nil => simp
  | cons a l ih => simp only [List.map_cons, List.sum_cons, ih]; ring

theorem sum_map_sub (f g : α → R) (l : List α) :
    (l.map (fun x => f x - g x)).sum = (l.map f).sum - (l.map g).sum := by
  induction l with
  | nil => simp
  | cons a l ih => simp only [List.map_cons, List.sum_cons, ih]; ring

theorem sum_map_neg (f : α → R) (l : List α) :
    (l.map (fun x => - f x)).sum = - (l.map f).sum := by
  induction l with
  | nil => simp
  | cons a l ih => simp only [List.map_cons, List.sum_cons, ih]; ring

theorem sum_map_mul_right (f : α → R) (c : R) (l : List α) :
    (l.map (fun x => f x * c)).sum = (l.map f).sum * c := by
  induction l with
  | nil => simp
  | cons a l ih => simp only [List.map_cons, List.sum_cons, ih]; ring

/-- exchange of two finite sums -/
theorem sum_comm (f : α → β → R) (l₁ : List α) (l₂ : List β) :
    (l₁.map (fun x => (l₂.map (fun y => f x y)).sum)).sum
      = (l₂.map (fun y => (l₁.map (fun x => f x y)).sum)).sum := by
  induction l₁ with
  | nil => induction l₂ with
    | nil => simp
    | cons b l₂ ih => simp only [List.map_cons, List.sum_cons, List.map_nil, List.sum_nil] at ih ⊢; rw [← ih]; ring
  | cons a l₁ ih =>
    simp only [List.map_cons, List.sum_cons, ih]
    rw [← sum_map_add]

/-- a sum over a list does not depend on the order of the list -/
theorem sum_perm {l₁ l₂ : List R} (h : l₁.Perm l₂) : l₁.sum = l₂.sum := by
  induction h with
  | nil => rfl
  | cons x _ ih => simp only [List.sum_cons, ih]
  | swap x y l => simp only [List.sum_cons]; ring
  | trans _ _ ih₁ ih₂ => rw [ih₁, ih₂]

theorem sum_map_perm (f : α → R) {l₁ l₂ : List α} (h : l₁.Perm l₂) : (l₁.map f).sum = (l₂.map f).sum :=
  sum_perm (h.map f)

theorem zipWith_zipIdx_self (h : α × Nat → α → β) (l : List α) (k : Nat) :
    List.zipWith h (l.zipIdx k) l = (l.zipIdx k).map (fun p => h p p.1) := by
  induction l generalizing k with
  | nil => simp
  | cons a l ih => simp [List.zipIdx_cons, ih]

/-- all positions are past `r`: the distinguished column does not occur -/
theorem sum_zipIdx_none (f d : α → R) (l : List α) (k r : Nat) (h : r < k) :
    ((l.zipIdx k).map (fun p => if p.2 ≠ r then f p.1 else d p.1)).sum = (l.map f).sum := by
  induction l generalizing k with
  | nil => simp
  | cons a l ih =>
    have : k ≠ r := by omega
    simp only [List.zipIdx_cons, List.map_cons, List.sum_cons, ih (k + 1) (by omega)]
    simp [this]

/-- exactly one position (`r`, holding `x`) takes the diagonal value -/
theorem sum_zipIdx_one (f d : α → R) (l : List α) (k r : Nat) (x : α) (hk : k ≤ r)
    (hx : l[r - k]? = some x) :
    ((l.zipIdx k).map (fun p => if p.2 ≠ r then f p.1 else d p.1)).sum = (l.map f).sum - f x + d x := by
  induction l generalizing k with
  | nil => simp at hx
  | cons a l ih =>
    simp only [List.zipIdx_cons, List.map_cons, List.sum_cons]
    by_cases hkr : k = r
    · subst hkr
      simp only [Nat.sub_self, List.getElem?_cons_zero, Option.some.injEq] at hx
      subst hx
      rw [sum_zipIdx_none f d l (k + 1) k (by omega)]
      simp only [ne_eq, not_true_eq_false, if_false, List.map_cons, List.sum_cons]
      ring
    · have h1 : k + 1 ≤ r := by omega
      have h2 : (a :: l)[r - k]? = l[r - (k + 1)]? := by
        have : r - k = (r - (k + 1)) + 1 := by omega
        rw [this, List.getElem?_cons_succ]
      rw [h2] at hx
      rw [ih (k + 1) h1 hx]
      simp only [ne_eq, hkr, not_false_eq_true, if_true]
      ring

theorem map_list_sum' {R R' : Type} [CommRing R] [CommRing R'] (h : R →+* R') (l : List R) : h l.sum = (l.map h).sum := by
  induction l with
  | nil => simp
  | cons a l ih => simp only [List.sum_cons, map_add, ih, List.map_cons]

end Pharmpy.C05
