import PharmpyModel.C05.Model
/-
  Association-list and graph lemmas: lookups after updates (frame), node lists
  after each networkx operation, preservation of well-formedness.
-/
namespace Pharmpy.C05

section AL
variable {κ ν : Type} [DecidableEq κ]

theorem alGet?_alSet (l : List (κ × ν)) (k : κ) (v : ν) (x : κ) :
    alGet? (alSet l k v) x = if x = k then some v else alGet? l x := by
  induction l with
  | nil => simp [alSet, alGet?]
  | cons p l ih =>
    obtain ⟨k', w⟩ := p
    unfold alSet
    by_cases hk : k = k'
    · subst hk
      simp only [if_true]
      by_cases hx : x = k <;> simp [alGet?, hx]
    · simp only [hk, if_false, alGet?, ih]
      by_cases hx : x = k'
      · subst hx
        have : ¬ x = k := fun h => hk h.symm
        simp [this]
      · simp [hx]

theorem alGet?_alErase (l : List (κ × ν)) (k x : κ) :
    alGet? (alErase l k) x = if x = k then none else alGet? l x := by
  induction l with
  | nil => simp [alErase, alGet?]
  | cons p l ih =>
    obtain ⟨k', w⟩ := p
    unfold alErase at ih ⊢
    by_cases hk : k' = k
    · subst hk
      simp only [List.filter_cons, ne_eq, not_true_eq_false, decide_false, Bool.false_eq_true, if_false, ih, alGet?]
      by_cases hx : x = k' <;> simp [hx]
    · simp only [List.filter_cons, ne_eq, hk, not_false_eq_true, decide_true, if_true, alGet?, ih]
      by_cases hx : x = k'
      · subst hx; simp [hk]
      · simp [hx]

theorem alGet?_some_mem {l : List (κ × ν)} {k : κ} {v : ν} (h : alGet? l k = some v) : (k, v) ∈ l := by
  induction l with
  | nil => simp [alGet?] at h
  | cons p l ih =>
    obtain ⟨k', w⟩ := p
    unfold alGet? at h
    by_cases hk : k = k'
    · simp only [hk, if_true, Option.some.injEq] at h; subst h; subst hk; exact List.mem_cons_self
    · simp only [hk, if_false] at h; exact List.mem_cons_of_mem _ (ih h)

theorem alGet?_isSome_iff (l : List (κ × ν)) (k : κ) : (alGet? l k).isSome ↔ k ∈ l.map (·.1) := by
  induction l with
  | nil => simp [alGet?]
  | cons p l ih =>
    obtain ⟨k', w⟩ := p
    unfold alGet?
    by_cases hk : k = k'
    · simp [hk]
    · simp only [hk, if_false, ih, List.map_cons, List.mem_cons, false_or]

theorem alSet_keys (l : List (κ × ν)) (k : κ) (v : ν) :
    (alSet l k v).map (·.1) = if k ∈ l.map (·.1) then l.map (·.1) else l.map (·.1) ++ [k] := by
  induction l with
  | nil => simp [alSet]
  | cons p l ih =>
    obtain ⟨k', w⟩ := p
    unfold alSet
    by_cases hk : k = k'
    · simp [hk]
    · simp only [hk, if_false, List.map_cons, ih, List.mem_cons, false_or]
      split <;> simp

theorem mem_alSet {l : List (κ × ν)} {k : κ} {v : ν} {p : κ × ν} (h : p ∈ alSet l k v) :
    p = (k, v) ∨ p ∈ l := by
  induction l with
  | nil => simp [alSet] at h; exact Or.inl h
  | cons q l ih =>
    obtain ⟨k', w⟩ := q
    unfold alSet at h
    by_cases hk : k = k'
    · simp only [hk, if_true, List.mem_cons] at h
      rcases h with h | h
      · left; rw [h, hk]
      · right; exact List.mem_cons_of_mem _ h
    · simp only [hk, if_false, List.mem_cons] at h
      rcases h with h | h
      · right; rw [h]; exact List.mem_cons_self
      · rcases ih h with h | h
        · exact Or.inl h
        · exact Or.inr (List.mem_cons_of_mem _ h)

theorem alErase_keys (l : List (κ × ν)) (k : κ) :
    (alErase l k).map (·.1) = (l.map (·.1)).filter (fun x => decide (x ≠ k)) := by
  unfold alErase
  rw [List.filter_map]
  rfl

theorem mem_alErase {l : List (κ × ν)} {k : κ} {p : κ × ν} (h : p ∈ alErase l k) : p ∈ l ∧ p.1 ≠ k := by
  unfold alErase at h
  simpa using h

end AL

namespace Graph
variable {α ρ : Type} [DecidableEq α]

theorem nodes_addNode (g : Graph α ρ) (n : α) :
    (g.addNode n).nodes = if n ∈ g.nodes then g.nodes else g.nodes ++ [n] := by
  unfold addNode
  split <;> simp [nodes]

theorem mem_nodes_addNode (g : Graph α ρ) (n x : α) : x ∈ (g.addNode n).nodes ↔ x ∈ g.nodes ∨ x = n := by
  rw [nodes_addNode]
  split
  · constructor
    · exact Or.inl
    · rintro (h | h); exact h; exact h ▸ ‹n ∈ g.nodes›
  · simp

theorem succOf_mem {g : Graph α ρ} {u : α} {q : α × ρ} (h : q ∈ g.succOf u) : ∃ s, (u, s) ∈ g.adj ∧ q ∈ s := by
  unfold succOf at h
  cases hg : alGet? g.adj u with
  | none => simp [hg] at h
  | some s => simp [hg] at h; exact ⟨s, alGet?_some_mem hg, h⟩

theorem succs_mem_nodes {g : Graph α ρ} (hwf : g.WF) {u v : α} (h : v ∈ g.succs u) : v ∈ g.nodes := by
  unfold succs at h
  obtain ⟨q, hq, rfl⟩ := List.mem_map.mp h
  obtain ⟨s, hs, hqs⟩ := succOf_mem hq
  exact hwf.2.1 _ hs _ hqs

theorem WF_empty : (Graph.empty : Graph α ρ).WF := by
  simp [WF, empty, nodes]

theorem WF_addNode {g : Graph α ρ} (h : g.WF) (n : α) : (g.addNode n).WF := by
  unfold addNode
  split
  · exact h
  · rename_i hn
    obtain ⟨h1, h2, h3⟩ := h
    refine ⟨?_, ?_, ?_⟩
    · simp only [nodes, List.map_append, List.map_cons, List.map_nil]
      rw [List.nodup_append]
      refine ⟨h1, by simp, ?_⟩
      intro a ha b hb; simp at hb; subst hb; intro hab; exact hn (hab ▸ ha)
    · intro p hp q hq
      simp only [List.mem_append, List.mem_singleton] at hp
      rcases hp with hp | hp
      · simp only [nodes, List.map_append, List.mem_append]; exact Or.inl (h2 p hp q hq)
      · subst hp; simp at hq
    · intro p hp
      simp only [List.mem_append, List.mem_singleton] at hp
      rcases hp with hp | hp
      · exact h3 p hp
      · subst hp; simp


theorem mem_nodes_of_mem_adj {g : Graph α ρ} {p : α × List (α × ρ)} (h : p ∈ g.adj) : p.1 ∈ g.nodes :=
  List.mem_map.mpr ⟨p, h, rfl⟩

theorem succOf_cases (g : Graph α ρ) (u : α) : g.succOf u = [] ∨ ∃ s, (u, s) ∈ g.adj ∧ g.succOf u = s := by
  unfold succOf
  cases hg : alGet? g.adj u with
  | none => left; rfl
  | some s => right; exact ⟨s, alGet?_some_mem hg, rfl⟩

theorem succOf_keys_nodup {g : Graph α ρ} (h : g.WF) (u : α) : ((g.succOf u).map (·.1)).Nodup := by
  rcases succOf_cases g u with h0 | ⟨s, hs, h1⟩
  · rw [h0]; simp
  · rw [h1]; exact h.2.2 _ hs

theorem succOf_targets {g : Graph α ρ} (h : g.WF) (u : α) : ∀ q ∈ g.succOf u, q.1 ∈ g.nodes := by
  intro q hq
  obtain ⟨s, hs, hqs⟩ := succOf_mem hq
  exact h.2.1 _ hs _ hqs

theorem mem_nodes_setSucc (g : Graph α ρ) (u : α) (s : List (α × ρ)) (x : α) :
    x ∈ (g.setSucc u s).nodes ↔ x ∈ g.nodes ∨ x = u := by
  unfold setSucc nodes
  simp only
  rw [alSet_keys]
  split
  · rename_i hu
    constructor
    · exact Or.inl
    · rintro (h | h); exact h; exact h ▸ hu
  · simp

theorem WF_setSucc {g : Graph α ρ} (h : g.WF) (u : α) (s : List (α × ρ))
    (hs : ∀ q ∈ s, q.1 ∈ g.nodes ∨ q.1 = u) (hnd : (s.map (·.1)).Nodup) : (g.setSucc u s).WF := by
  obtain ⟨h1, h2, h3⟩ := h
  refine ⟨?_, ?_, ?_⟩
  · show ((alSet g.adj u s).map (·.1)).Nodup
    rw [alSet_keys]
    split
    · exact h1
    · rename_i hu
      rw [List.nodup_append]
      refine ⟨h1, by simp, ?_⟩
      intro a ha b hb; simp at hb; subst hb; intro hab; exact hu (hab ▸ ha)
  · intro p hp q hq
    rw [mem_nodes_setSucc]
    rcases mem_alSet hp with hp | hp
    · subst hp; exact hs q hq
    · exact Or.inl (h2 p hp q hq)
  · intro p hp
    rcases mem_alSet hp with hp | hp
    · subst hp; exact hnd
    · exact h3 p hp

theorem WF_addEdge {g : Graph α ρ} (h : g.WF) (u v : α) (r : ρ) : (g.addEdge u v r).WF := by
  unfold addEdge
  have h1 : ((g.addNode u).addNode v).WF := WF_addNode (WF_addNode h u) v
  apply WF_setSucc h1
  · intro q hq
    rcases mem_alSet hq with hq | hq
    · subst hq; left; exact (mem_nodes_addNode _ _ _).mpr (Or.inr rfl)
    · left; exact succOf_targets h1 u q hq
  · rw [alSet_keys]
    split
    · exact succOf_keys_nodup h1 u
    · rename_i hv
      rw [List.nodup_append]
      refine ⟨succOf_keys_nodup h1 u, by simp, ?_⟩
      intro a ha b hb; simp at hb; subst hb; intro hab; exact hv (hab ▸ ha)

theorem WF_removeEdge {g : Graph α ρ} (h : g.WF) (u v : α) : (g.removeEdge u v).WF := by
  unfold removeEdge
  apply WF_setSucc h
  · intro q hq
    left; exact succOf_targets h u q (mem_alErase hq).1
  · rw [alErase_keys]
    exact List.Pairwise.filter _ (succOf_keys_nodup h u)

theorem nodes_removeNode (g : Graph α ρ) (n : α) :
    (g.removeNode n).nodes = g.nodes.filter (fun x => decide (x ≠ n)) := by
  unfold removeNode nodes
  simp only [List.map_map]
  rw [← alErase_keys]
  rfl

theorem WF_removeNode {g : Graph α ρ} (h : g.WF) (n : α) : (g.removeNode n).WF := by
  obtain ⟨h1, h2, h3⟩ := h
  refine ⟨?_, ?_, ?_⟩
  · rw [nodes_removeNode]; exact List.Pairwise.filter _ h1
  · intro p hp q hq
    rw [nodes_removeNode]
    unfold removeNode at hp
    simp only [List.mem_map] at hp
    obtain ⟨p0, hp0, rfl⟩ := hp
    have ⟨hq1, hq2⟩ := mem_alErase hq
    rw [List.mem_filter]
    exact ⟨h2 p0 (mem_alErase hp0).1 q hq1, by simpa using hq2⟩
  · intro p hp
    unfold removeNode at hp
    simp only [List.mem_map] at hp
    obtain ⟨p0, hp0, rfl⟩ := hp
    simp only
    rw [alErase_keys]
    exact List.Pairwise.filter _ (h3 p0 (mem_alErase hp0).1)

theorem WF_addEdges {g : Graph α ρ} (h : g.WF) (es : List (α × α × ρ)) : (g.addEdges es).WF := by
  unfold addEdges
  induction es generalizing g with
  | nil => exact h
  | cons e es ih => exact ih (WF_addEdge h _ _ _)

theorem WF_relabel1 {g : Graph α ρ} (h : g.WF) (old new : α) : (g.relabel1 old new).WF := by
  unfold relabel1
  split
  · simp only
    split
    · exact WF_addNode h new
    · exact WF_addEdges (WF_removeNode (WF_addNode h new) old) _
  · exact h

theorem WF_relabel {g g' : Graph α ρ} (h : g.WF) (m : List (α × α)) (hr : g.relabel m = some g') : g'.WF := by
  unfold relabel at hr
  cases ho : g.relabelOrder m with
  | none => simp [ho] at hr
  | some order =>
    simp only [ho, Option.map_some, Option.some.injEq] at hr
    subst hr
    clear ho
    induction order generalizing g with
    | nil => exact h
    | cons o os ih =>
      simp only [List.foldl_cons]
      apply ih
      split
      · exact WF_relabel1 h _ _
      · exact h

theorem WF_mapRates {g : Graph α ρ} (h : g.WF) (f : ρ → ρ) : (g.mapRates f).WF := by
  obtain ⟨h1, h2, h3⟩ := h
  have hn : (g.mapRates f).nodes = g.nodes := by
    unfold mapRates nodes; simp [List.map_map, Function.comp_def]
  refine ⟨hn ▸ h1, ?_, ?_⟩
  · intro p hp q hq
    rw [hn]
    unfold mapRates at hp
    simp only [List.mem_map] at hp
    obtain ⟨p0, hp0, rfl⟩ := hp
    simp only [List.mem_map] at hq
    obtain ⟨q0, hq0, rfl⟩ := hq
    exact h2 p0 hp0 q0 hq0
  · intro p hp
    unfold mapRates at hp
    simp only [List.mem_map] at hp
    obtain ⟨p0, hp0, rfl⟩ := hp
    simp only [List.map_map, Function.comp_def]
    exact h3 p0 hp0


/-! ### frame: what each graph operation does to every flow -/

theorem alGet?_append_nil (l : List (α × List (α × ρ))) (n x : α) :
    (alGet? (l ++ [(n, [])]) x).getD [] = (alGet? l x).getD [] := by
  induction l with
  | nil => simp only [List.nil_append, alGet?]; split <;> rfl
  | cons p l ih =>
    obtain ⟨k, w⟩ := p
    simp only [List.cons_append, alGet?]
    split
    · rfl
    · exact ih

theorem succOf_addNode (g : Graph α ρ) (n x : α) : (g.addNode n).succOf x = g.succOf x := by
  unfold addNode
  split
  · rfl
  · exact alGet?_append_nil g.adj n x

theorem getFlow_addNode (g : Graph α ρ) (n x y : α) : (g.addNode n).getFlow x y = g.getFlow x y := by
  unfold getFlow; rw [succOf_addNode]

theorem succOf_setSucc (g : Graph α ρ) (u : α) (s : List (α × ρ)) (x : α) :
    (g.setSucc u s).succOf x = if x = u then s else g.succOf x := by
  unfold setSucc succOf
  simp only [alGet?_alSet]
  split <;> rfl

/-- `add_flow`/`add_edge` sets exactly the flow `u → v` -/
theorem getFlow_addEdge (g : Graph α ρ) (u v : α) (r : ρ) (x y : α) :
    (g.addEdge u v r).getFlow x y = if x = u ∧ y = v then some r else g.getFlow x y := by
  unfold addEdge getFlow
  simp only [succOf_setSucc, succOf_addNode]
  by_cases hx : x = u
  · subst hx
    simp only [if_true, alGet?_alSet, true_and]
  · simp [hx]

/-- `remove_flow`/`remove_edge` deletes exactly the flow `u → v` -/
theorem getFlow_removeEdge (g : Graph α ρ) (u v x y : α) :
    (g.removeEdge u v).getFlow x y = if x = u ∧ y = v then none else g.getFlow x y := by
  unfold removeEdge getFlow
  simp only [succOf_setSucc]
  by_cases hx : x = u
  · subst hx
    simp only [if_true, alGet?_alErase, true_and]
  · simp [hx]

theorem alGet?_map_snd {β γ : Type} (l : List (α × β)) (f : β → γ) (x : α) :
    alGet? (l.map (fun p => (p.1, f p.2))) x = (alGet? l x).map f := by
  induction l with
  | nil => rfl
  | cons p l ih =>
    obtain ⟨k, w⟩ := p
    simp only [List.map_cons, alGet?]
    split
    · rfl
    · exact ih

/-- `remove_compartment`/`remove_node` deletes exactly the flows from and to `n` -/
theorem getFlow_removeNode (g : Graph α ρ) (n x y : α) :
    (g.removeNode n).getFlow x y = if x = n ∨ y = n then none else g.getFlow x y := by
  unfold removeNode getFlow succOf
  simp only
  rw [alGet?_map_snd (l := alErase g.adj n) (f := fun s => alErase s n), alGet?_alErase]
  by_cases hx : x = n
  · simp [hx, alGet?]
  · simp only [hx, if_false, false_or]
    cases hg : alGet? g.adj x with
    | none => simp [alGet?]
    | some s => simp only [Option.map_some, Option.getD_some, alGet?_alErase]

/-- substituting in the rates maps every flow pointwise -/
theorem getFlow_mapRates (g : Graph α ρ) (f : ρ → ρ) (x y : α) :
    (g.mapRates f).getFlow x y = (g.getFlow x y).map f := by
  unfold mapRates getFlow succOf
  simp only
  rw [alGet?_map_snd (l := g.adj) (f := fun s => s.map (fun q => (q.1, f q.2)))]
  cases hg : alGet? g.adj x with
  | none => simp [alGet?]
  | some s => simp only [Option.map_some, Option.getD_some]; exact alGet?_map_snd s f y

end Graph
end Pharmpy.C05
