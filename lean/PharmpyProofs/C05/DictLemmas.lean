import PharmpyProofs.C05.BuilderLemmas
/-
  Lemmas for the dict round trip: flows after a fold of `add_edge`, the edge list as a
  lookup table, node lists.
-/
namespace Pharmpy.C05
open Graph

section
variable {α ρ β : Type} [DecidableEq α]

theorem getFlow_foldl_addEdge (l : List β) (fu fv : β → α) (fr : β → ρ) : ∀ (g : Graph α ρ) (x y : α),
    (l.foldl (fun g e => g.addEdge (fu e) (fv e) (fr e)) g).getFlow x y
      = l.foldl (fun acc e => if x = fu e ∧ y = fv e then some (fr e) else acc) (g.getFlow x y) := by
  induction l with
  | nil => intro g x y; rfl
  | cons e l ih =>
    intro g x y
    simp only [List.foldl_cons, ih, getFlow_addEdge]

theorem foldl_nomatch (l : List (α × ρ)) (P : Prop) [Decidable P] (y : α) (init : Option ρ)
    (h : P → y ∉ l.map (·.1)) :
    l.foldl (fun acc q => if P ∧ y = q.1 then some q.2 else acc) init = init := by
  induction l generalizing init with
  | nil => rfl
  | cons q l ih =>
    simp only [List.foldl_cons]
    have hq : ¬ (P ∧ y = q.1) := by
      rintro ⟨hp, hy⟩; exact h hp (by simp [hy])
    simp only [hq, if_false]
    exact ih init (fun hp hm => h hp (by simp only [List.map_cons, List.mem_cons]; exact Or.inr hm))

theorem foldl_lookup (l : List (α × ρ)) (y : α) (init : Option ρ) (hnd : (l.map (·.1)).Nodup) :
    l.foldl (fun acc q => if True ∧ y = q.1 then some q.2 else acc) init
      = match alGet? l y with | some r => some r | none => init := by
  induction l generalizing init with
  | nil => rfl
  | cons q l ih =>
    obtain ⟨k, w⟩ := q
    simp only [List.map_cons, List.nodup_cons] at hnd
    simp only [List.foldl_cons, alGet?, true_and]
    by_cases hy : y = k
    · subst hy
      simp only [if_true]
      have := foldl_nomatch l True y (some w) (fun _ => hnd.1)
      simp only [true_and] at this
      exact this
    · simp only [hy, if_false]
      have := ih init hnd.2
      simp only [true_and] at this
      exact this

/-- reading the flow `x → y` off the edge list `G.edges` gives `get_flow` -/
theorem edges_lookup (adj : List (α × List (α × ρ))) (x y : α) (init : Option ρ)
    (h1 : (adj.map (·.1)).Nodup) (h3 : ∀ p ∈ adj, (p.2.map (·.1)).Nodup) :
    (adj.flatMap (fun p => p.2.map (fun q => (p.1, q.1, q.2)))).foldl
        (fun acc e => if x = e.1 ∧ y = e.2.1 then some e.2.2 else acc) init
      = match alGet? adj x with
        | some s => (match alGet? s y with | some r => some r | none => init)
        | none => init := by
  induction adj generalizing init with
  | nil => rfl
  | cons p adj ih =>
    obtain ⟨k, s⟩ := p
    simp only [List.map_cons, List.nodup_cons] at h1
    simp only [List.flatMap_cons, List.foldl_append, List.foldl_map, alGet?]
    by_cases hx : x = k
    · subst hx
      simp only [if_true]
      have hs := foldl_lookup s y init (h3 _ List.mem_cons_self)
      simp only [true_and] at hs
      simp only [true_and, hs]
      -- the remaining entries have a different source
      have hrest : ∀ (i : Option ρ), (adj.flatMap (fun p => p.2.map (fun q => (p.1, q.1, q.2)))).foldl
          (fun acc e => if x = e.1 ∧ y = e.2.1 then some e.2.2 else acc) i = i := by
        intro i
        rw [ih i h1.2 (fun p hp => h3 p (List.mem_cons_of_mem _ hp))]
        have : alGet? adj x = none := by
          cases hg : alGet? adj x with
          | none => rfl
          | some s' => exact absurd (List.mem_map.mpr ⟨_, alGet?_some_mem hg, rfl⟩) h1.1
        simp [this]
      exact hrest _
    · simp only [hx, if_false, false_and]
      have : s.foldl (fun acc (q : α × ρ) => acc) init = init := by
        clear h3; induction s with
        | nil => rfl
        | cons q s ihs => simpa using ihs
      rw [this]
      exact ih init h1.2 (fun p hp => h3 p (List.mem_cons_of_mem _ hp))

theorem getFlow_eq_edges_lookup {g : Graph α ρ} (h : g.WF) (x y : α) :
    g.edges.foldl (fun acc e => if x = e.1 ∧ y = e.2.1 then some e.2.2 else acc) none = g.getFlow x y := by
  unfold edges
  rw [edges_lookup g.adj x y none h.1 h.2.2]
  unfold getFlow succOf
  cases hg : alGet? g.adj x with
  | none => simp [alGet?]
  | some s =>
    simp only [Option.getD_some]
    cases alGet? s y <;> rfl

theorem nodes_addEdge_of_mem (g : Graph α ρ) (u v : α) (r : ρ) (hu : u ∈ g.nodes) (hv : v ∈ g.nodes) :
    (g.addEdge u v r).nodes = g.nodes := by
  unfold addEdge
  simp only
  have h1 : (g.addNode u) = g := by unfold addNode; simp [hu]
  have h2 : (g.addNode v) = g := by unfold addNode; simp [hv]
  rw [h1, h2]
  unfold setSucc nodes
  simp only
  rw [alSet_keys]
  simp [nodes] at hu
  simp [hu]

theorem nodes_foldl_addEdge_of_mem (l : List β) (fu fv : β → α) (fr : β → ρ) : ∀ (g : Graph α ρ),
    (∀ e ∈ l, fu e ∈ g.nodes ∧ fv e ∈ g.nodes) →
    (l.foldl (fun g e => g.addEdge (fu e) (fv e) (fr e)) g).nodes = g.nodes := by
  induction l with
  | nil => intro g _; rfl
  | cons e l ih =>
    intro g h
    simp only [List.foldl_cons]
    have he := h e List.mem_cons_self
    have hn := nodes_addEdge_of_mem g (fu e) (fv e) (fr e) he.1 he.2
    rw [ih _ (by intro e' he'; rw [hn]; exact h e' (List.mem_cons_of_mem _ he')), hn]

theorem mem_edges {g : Graph α ρ} (h : g.WF) {e : α × α × ρ} (he : e ∈ g.edges) :
    e.1 ∈ g.nodes ∧ e.2.1 ∈ g.nodes := by
  unfold edges at he
  simp only [List.mem_flatMap, List.mem_map] at he
  obtain ⟨p, hp, q, hq, rfl⟩ := he
  exact ⟨mem_nodes_of_mem_adj hp, h.2.1 p hp q hq⟩

end
end Pharmpy.C05
