import PharmpyProofs.C05.MatrixLemmas
import PharmpyProofs.C05.OrderLemmas
import PharmpyProofs.C05.DictLemmas
import PharmpyProofs.C05.RelabelLemmas
import PharmpyProofs.C05.SubsLemmas
import PharmpyProofs.C05.CollectLemmas
/-
  C05 helper lemmas that sit directly under the property theorems.
-/
namespace Pharmpy.C05
open Graph

section
variable {ε : Type} [DecidableEq ε]

theorem mem_sortByName (xs : List (Node ε)) (x : Node ε) : x ∈ sortByName xs ↔ x ∈ xs :=
  (List.mergeSort_perm xs _).mem_iff

theorem nodup_sortByName {xs : List (Node ε)} (h : xs.Nodup) : (sortByName xs).Nodup :=
  (List.mergeSort_perm xs _).nodup_iff.mpr h

theorem comps_nodup {g : CGraph ε} (h : g.WF) : (comps g).Nodup := by
  unfold comps
  exact List.Pairwise.filter _ h.1

theorem mem_dosingStep (cn : String) (acc : List (Node ε)) (n x : Node ε)
    (h : x ∈ dosingStep cn acc n) : x ∈ acc ∨ x = n := by
  unfold dosingStep at h
  split at h
  · split at h
    · simp only [List.mem_append, List.mem_singleton] at h
      rcases h with (h | h) | h
      · exact Or.inl (List.dropLast_subset _ h)
      · exact Or.inr h
      · exact Or.inl (List.mem_of_mem_drop h)
    · simp only [List.mem_cons] at h
      rcases h with h | h
      · exact Or.inr h
      · exact Or.inl h
  · simp only [List.mem_append, List.mem_singleton] at h
    exact h

theorem mem_foldl_dosingStep (cn : String) (l : List (Node ε)) : ∀ (acc : List (Node ε)) (x : Node ε),
    x ∈ l.foldl (dosingStep cn) acc → x ∈ acc ∨ x ∈ l := by
  induction l with
  | nil => intro acc x h; exact Or.inl h
  | cons n l ih =>
    intro acc x h
    simp only [List.foldl_cons] at h
    rcases ih _ x h with h | h
    · rcases mem_dosingStep cn acc n x h with h | h
      · exact Or.inl h
      · exact Or.inr (h ▸ List.mem_cons_self)
    · exact Or.inr (List.mem_cons_of_mem _ h)

theorem dosing_mem_comps (g : CGraph ε) (ds : List (Node ε)) (h : dosingCompartments g = .ok ds) :
    ∀ x ∈ ds, x ∈ comps g := by
  unfold dosingCompartments at h
  simp only at h
  split at h
  · cases h
  · split at h
    · cases h
    · simp only [Except.ok.injEq] at h
      subst h
      intro x hx
      rcases mem_foldl_dosingStep _ _ _ x hx with hx | hx
      · simp at hx
      · exact (mem_sortByName _ _).mp (List.mem_filter.mp hx).1

theorem orderNbrs_closed {g : CGraph ε} (h : g.WF) : ∀ x, x ∈ comps g → ∀ y ∈ orderNbrs g x, y ∈ comps g := by
  intro x _ y hy
  unfold orderNbrs at hy
  rw [mem_sortByName, List.mem_filter] at hy
  unfold comps
  rw [List.mem_filter]
  exact ⟨Graph.succs_mem_nodes h hy.1, hy.2⟩


theorem getD_idxOf {α : Type} [DecidableEq α] (l : List α) (a d : α) (h : a ∈ l) : l.getD (l.idxOf a) d = a := by
  induction l with
  | nil => simp at h
  | cons b l ih =>
    rw [List.idxOf_cons]
    by_cases hb : b = a
    · simp [hb]
    · have : a ∈ l := by
        simp only [List.mem_cons] at h
        rcases h with h | h
        · exact absurd h.symm hb
        · exact h
      have hbeq : (b == a) = false := by simpa using hb
      simp only [hbeq, cond_false, List.getD_eq_getElem?_getD, List.getElem?_cons_succ]
      simpa [List.getD_eq_getElem?_getD] using ih this

theorem foldl_congr_mem {α β : Type} (l : List β) (f f' : α → β → α) (init : α)
    (h : ∀ acc, ∀ e ∈ l, f acc e = f' acc e) : l.foldl f init = l.foldl f' init := by
  induction l generalizing init with
  | nil => rfl
  | cons e l ih =>
    simp only [List.foldl_cons]
    rw [h init e List.mem_cons_self]
    exact ih _ (fun acc e' he' => h acc e' (List.mem_cons_of_mem _ he'))

theorem nodes_foldl_addNodes (l : List (Node ε)) : ∀ (g : CGraph ε),
    (∀ n ∈ l, n.isOutput = false) → l.Nodup → (∀ n ∈ l, n ∉ g.nodes) →
    (l.foldl (fun g n => if n.isOutput then g else g.addNode n) g).nodes = g.nodes ++ l
    ∧ ∀ x y, (l.foldl (fun g n => if n.isOutput then g else g.addNode n) g).getFlow x y = g.getFlow x y := by
  induction l with
  | nil => intro g _ _ _; simp
  | cons n l ih =>
    intro g ho hnd hdis
    simp only [List.foldl_cons]
    have hn : n.isOutput = false := ho n List.mem_cons_self
    simp only [hn, Bool.false_eq_true, if_false]
    have hnn : n ∉ g.nodes := hdis n List.mem_cons_self
    have hnodes : (g.addNode n).nodes = g.nodes ++ [n] := by rw [nodes_addNode]; simp [hnn]
    rw [List.nodup_cons] at hnd
    obtain ⟨i1, i2⟩ := ih (g.addNode n) (fun m hm => ho m (List.mem_cons_of_mem _ hm)) hnd.2 (by
      intro m hm; rw [hnodes]; simp only [List.mem_append, List.mem_singleton, not_or]
      exact ⟨hdis m (List.mem_cons_of_mem _ hm), fun h => hnd.1 (h ▸ hm)⟩)
    refine ⟨by rw [i1, hnodes]; simp, fun x y => by rw [i2, getFlow_addNode]⟩


theorem nodes_mapRates {α ρ : Type} [DecidableEq α] (g : Graph α ρ) (f : ρ → ρ) : (g.mapRates f).nodes = g.nodes := by
  unfold mapRates nodes; simp [List.map_map, Function.comp_def]

theorem nodes_filter_comps (g : CGraph ε) :
    g.nodes.filter (fun n => (comps g).contains n) = comps g := by
  unfold comps
  apply List.filter_congr
  intro n hn
  simp [List.mem_filter, hn]


end

section
variable {R : Type} [CommRing R] {α : Type}

theorem row_dot (nodes : List α) (flow : α → α → R) (out amount : α → R) (p : α × Nat)
    (hp : p ∈ nodes.zipIdx) :
    dot (nodes.zipIdx.map (fun frm =>
          if frm.2 ≠ p.2 then flow frm.1 p.1 else diagEntry nodes flow out frm.1)) (nodes.map amount)
      = (nodes.map (fun d => flow d p.1 * amount d)).sum
        - ((nodes.map (fun d => flow p.1 d)).sum + out p.1) * amount p.1 - flow p.1 p.1 * amount p.1 := by
  unfold dot
  rw [List.zipWith_map, zipWith_zipIdx_self]
  have h1 : (nodes.zipIdx.map (fun q : α × Nat =>
        (if q.2 ≠ p.2 then flow q.1 p.1 else diagEntry nodes flow out q.1) * amount q.1))
      = nodes.zipIdx.map (fun q : α × Nat =>
        if q.2 ≠ p.2 then (fun c => flow c p.1 * amount c) q.1 else (fun c => diagEntry nodes flow out c * amount c) q.1) := by
    apply List.map_congr_left
    intro q _
    split <;> rfl
  rw [h1, sum_zipIdx_one (fun c => flow c p.1 * amount c) (fun c => diagEntry nodes flow out c * amount c) nodes 0 p.2 p.1 (Nat.zero_le _) (by simpa using List.mem_zipIdx_iff_getElem?.mp hp)]
  simp only [diagEntry, foldl_sub_eq]
  ring


theorem inflow_total_eq_outflow_total (nodes : List α) (flow : α → α → R) (amount : α → R) :
    (nodes.map (fun c => (nodes.map (fun d => flow d c * amount d)).sum)).sum
      = (nodes.map (fun c => (nodes.map (fun d => flow c d)).sum * amount c)).sum := by
  rw [sum_comm]
  congr 1
  apply List.map_congr_left
  intro c _
  rw [sum_map_mul_right]


end

end Pharmpy.C05
