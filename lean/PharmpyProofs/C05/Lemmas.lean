import PharmpyModel.C05.Model
import PharmpyModel.C05.Matrix
namespace Pharmpy.C05
end Pharmpy.C05
