import PharmpyModel.C05.Model
/-
  Invariants of the breadth-first search and of the `while remaining:` loop of
  `_order_compartments` (core Lean only).
-/
namespace Pharmpy.C05

variable {α : Type} [DecidableEq α]

theorem bfsVisit_spec (cs : List α) : ∀ (q seen : List α), seen.Nodup →
    (bfsVisit cs (q, seen)).2.Nodup
    ∧ (∀ x, x ∈ (bfsVisit cs (q, seen)).2 ↔ x ∈ seen ∨ x ∈ cs)
    ∧ (∀ x, x ∈ (bfsVisit cs (q, seen)).1 → x ∈ q ∨ x ∈ cs) := by
  induction cs with
  | nil => intro q seen h; simp [bfsVisit, h]
  | cons c cs ih =>
    intro q seen h
    unfold bfsVisit
    by_cases hc : c ∈ seen
    · simp only [hc, if_true]
      obtain ⟨h1, h2, h3⟩ := ih q seen h
      refine ⟨h1, ?_, ?_⟩
      · intro x; rw [h2 x]; simp only [List.mem_cons]
        constructor
        · rintro (hx | hx); exact Or.inl hx; exact Or.inr (Or.inr hx)
        · rintro (hx | hx | hx); exact Or.inl hx; exact Or.inl (hx ▸ hc); exact Or.inr hx
      · intro x hx; rcases h3 x hx with hx | hx
        · exact Or.inl hx
        · exact Or.inr (List.mem_cons_of_mem _ hx)
    · simp only [hc, if_false]
      have hnd : (seen ++ [c]).Nodup := by
        rw [List.nodup_append]
        refine ⟨h, by simp, ?_⟩
        intro a ha b hb; simp at hb; subst hb; intro hab; exact hc (hab ▸ ha)
      obtain ⟨h1, h2, h3⟩ := ih (q ++ [c]) (seen ++ [c]) hnd
      refine ⟨h1, ?_, ?_⟩
      · intro x; rw [h2 x]; simp only [List.mem_append, List.mem_cons, List.mem_singleton, List.not_mem_nil, or_false]
        constructor
        · rintro ((hx | hx) | hx); exact Or.inl hx; exact Or.inr (Or.inl hx); exact Or.inr (Or.inr hx)
        · rintro (hx | hx | hx); exact Or.inl (Or.inl hx); exact Or.inl (Or.inr hx); exact Or.inr hx
      · intro x hx; rcases h3 x hx with hx | hx
        · simp only [List.mem_append, List.mem_singleton] at hx
          rcases hx with hx | hx
          · exact Or.inl hx
          · exact Or.inr (hx ▸ List.mem_cons_self)
        · exact Or.inr (List.mem_cons_of_mem _ hx)

/-- `P` is any property closed under the neighbour function (here: "is a compartment of the graph") -/
theorem bfsLoop_spec (nbrs : α → List α) (P : α → Prop) (hP : ∀ x, P x → ∀ y ∈ nbrs x, P y) :
    ∀ (fuel : Nat) (q seen : List α), seen.Nodup → (∀ x ∈ q, P x) → (∀ x ∈ seen, P x) →
      (bfsLoop nbrs fuel q seen).Nodup ∧ (∀ x ∈ bfsLoop nbrs fuel q seen, P x)
      ∧ (∀ x ∈ seen, x ∈ bfsLoop nbrs fuel q seen) := by
  intro fuel
  induction fuel with
  | zero => intro q seen h _ hs; simp [bfsLoop, h]; exact hs
  | succ n ih =>
    intro q seen h hq hs
    cases q with
    | nil => simp [bfsLoop, h]; exact hs
    | cons p q =>
      simp only [bfsLoop]
      obtain ⟨h1, h2, h3⟩ := bfsVisit_spec (nbrs p) q seen h
      have hp : P p := hq p List.mem_cons_self
      have hq' : ∀ x ∈ (bfsVisit (nbrs p) (q, seen)).1, P x := by
        intro x hx; rcases h3 x hx with hx | hx
        · exact hq x (List.mem_cons_of_mem _ hx)
        · exact hP p hp x hx
      have hs' : ∀ x ∈ (bfsVisit (nbrs p) (q, seen)).2, P x := by
        intro x hx; rcases (h2 x).mp hx with hx | hx
        · exact hs x hx
        · exact hP p hp x hx
      obtain ⟨r1, r2, r3⟩ := ih _ _ h1 hq' hs'
      exact ⟨r1, r2, fun x hx => r3 x ((h2 x).mpr (Or.inl hx))⟩

theorem bfs_spec (nbrs : α → List α) (P : α → Prop) (hP : ∀ x, P x → ∀ y ∈ nbrs x, P y)
    (fuel : Nat) (src : α) (hsrc : P src) :
    (bfs nbrs fuel src).Nodup ∧ (∀ x ∈ bfs nbrs fuel src, P x) ∧ src ∈ bfs nbrs fuel src := by
  have hP1 : ∀ x ∈ [src], P x := by intro x hx; simp at hx; exact hx ▸ hsrc
  obtain ⟨h1, h2, h3⟩ := bfsLoop_spec nbrs P hP fuel [src] [src] (by simp) hP1 hP1
  exact ⟨h1, h2, h3 src (by simp)⟩


section
variable {ε : Type} [DecidableEq ε]

theorem absorb_spec (comp : Node ε) (cs : List (Node ε)) : ∀ (ns rm : List (Node ε)), ns.Nodup →
    (absorb comp cs (ns, rm)).1.Nodup
    ∧ (∀ x, x ∈ (absorb comp cs (ns, rm)).1 ↔ x ∈ ns ∨ x ∈ cs)
    ∧ (∀ x ∈ (absorb comp cs (ns, rm)).2, x ∈ rm)
    ∧ (∀ x ∈ rm, x ∈ (absorb comp cs (ns, rm)).2 ∨ x ∈ (absorb comp cs (ns, rm)).1)
    ∧ (absorb comp cs (ns, rm)).2.length ≤ rm.length := by
  induction cs with
  | nil => intro ns rm h; simp [absorb, h]; intro x hx; exact Or.inl hx
  | cons c cs ih =>
    intro ns rm h
    unfold absorb
    by_cases hc : c ∈ ns
    · simp only [hc, if_true]
      obtain ⟨h1, h2, h3, h4, h5⟩ := ih ns rm h
      refine ⟨h1, ?_, h3, h4, h5⟩
      intro x; rw [h2 x]; simp only [List.mem_cons]
      constructor
      · rintro (hx | hx); exact Or.inl hx; exact Or.inr (Or.inr hx)
      · rintro (hx | hx | hx); exact Or.inl hx; exact Or.inl (hx ▸ hc); exact Or.inr hx
    · simp only [hc, if_false]
      have hnd : (ns ++ [c]).Nodup := by
        rw [List.nodup_append]
        refine ⟨h, by simp, ?_⟩
        intro a ha b hb; simp at hb; subst hb; intro hab; exact hc (hab ▸ ha)
      obtain ⟨h1, h2, h3, h4, h5⟩ := ih (ns ++ [c]) (if c = comp then rm else rm.erase c) hnd
      have hsub : ∀ x ∈ (if c = comp then rm else rm.erase c), x ∈ rm := by
        intro x hx; split at hx
        · exact hx
        · exact List.mem_of_mem_erase hx
      refine ⟨h1, ?_, fun x hx => hsub x (h3 x hx), ?_, ?_⟩
      · intro x; rw [h2 x]; simp only [List.mem_append, List.mem_cons, List.mem_singleton, List.not_mem_nil, or_false]
        constructor
        · rintro ((hx | hx) | hx); exact Or.inl hx; exact Or.inr (Or.inl hx); exact Or.inr (Or.inr hx)
        · rintro (hx | hx | hx); exact Or.inl (Or.inl hx); exact Or.inl (Or.inr hx); exact Or.inr hx
      · intro x hx
        by_cases hxc : x = c
        · right; rw [h2 x]; left; simp [hxc]
        · have : x ∈ (if c = comp then rm else rm.erase c) := by
            split
            · exact hx
            · exact (List.mem_erase_of_ne hxc).mpr hx
          exact h4 x this
      · refine Nat.le_trans h5 ?_
        split
        · exact Nat.le_refl _
        · exact List.length_erase_le

/-- the `while remaining:` loop: with enough fuel everything in `remaining` ends up in the
    answer, which stays duplicate-free and inside `P` -/
theorem remainingLoop_spec (nbrs : Node ε → List (Node ε)) (bf : Nat) (P : Node ε → Prop)
    (hP : ∀ x, P x → ∀ y ∈ nbrs x, P y) :
    ∀ (fuel : Nat) (rm ns : List (Node ε)), rm.length < fuel → ns.Nodup → (∀ x ∈ ns, P x) → (∀ x ∈ rm, P x) →
      (remainingLoop nbrs bf fuel rm ns).Nodup ∧ (∀ x ∈ remainingLoop nbrs bf fuel rm ns, P x)
      ∧ (∀ x ∈ ns, x ∈ remainingLoop nbrs bf fuel rm ns) ∧ (∀ x ∈ rm, x ∈ remainingLoop nbrs bf fuel rm ns) := by
  intro fuel
  induction fuel with
  | zero => intro rm ns h; omega
  | succ n ih =>
    intro rm ns hlen hnd hns hrm
    cases rm with
    | nil => simp [remainingLoop, hnd]; exact hns
    | cons comp rm =>
      simp only [remainingLoop]
      have hcomp : P comp := hrm comp List.mem_cons_self
      obtain ⟨b1, b2, b3⟩ := bfs_spec nbrs P hP bf comp hcomp
      obtain ⟨a1, a2, a3, a4, a5⟩ := absorb_spec comp (bfs nbrs bf comp) ns rm hnd
      have hlen' : (absorb comp (bfs nbrs bf comp) (ns, rm)).2.length < n := by
        simp only [List.length_cons] at hlen; omega
      have hns' : ∀ x ∈ (absorb comp (bfs nbrs bf comp) (ns, rm)).1, P x := by
        intro x hx; rcases (a2 x).mp hx with hx | hx
        · exact hns x hx
        · exact b2 x hx
      have hrm' : ∀ x ∈ (absorb comp (bfs nbrs bf comp) (ns, rm)).2, P x :=
        fun x hx => hrm x (List.mem_cons_of_mem _ (a3 x hx))
      obtain ⟨r1, r2, r3, r4⟩ := ih _ _ hlen' a1 hns' hrm'
      refine ⟨r1, r2, fun x hx => r3 x ((a2 x).mpr (Or.inl hx)), ?_⟩
      intro x hx
      simp only [List.mem_cons] at hx
      rcases hx with hx | hx
      · exact r3 x ((a2 x).mpr (Or.inr (hx ▸ b3)))
      · rcases a4 x hx with h | h
        · exact r4 x h
        · exact r3 x h
end

end Pharmpy.C05
