import PharmpyProofs.C05.DictLemmas
/-
  Relabelling (`nx.relabel_nodes(copy=False)` with a fresh label) keeps every flow.
-/
namespace Pharmpy.C05
open Graph
variable {α ρ : Type} [DecidableEq α]

theorem alGet?_of_mem_nodup {κ ν : Type} [DecidableEq κ] {l : List (κ × ν)} {k : κ} {v : ν}
    (hnd : (l.map (·.1)).Nodup) (h : (k, v) ∈ l) : alGet? l k = some v := by
  induction l with
  | nil => simp at h
  | cons p l ih =>
    obtain ⟨k', w⟩ := p
    simp only [List.map_cons, List.nodup_cons] at hnd
    unfold alGet?
    simp only [List.mem_cons, Prod.mk.injEq] at h
    rcases h with ⟨h1, h2⟩ | h
    · simp [h1, h2]
    · have : k ≠ k' := fun hk => hnd.1 (hk ▸ List.mem_map.mpr ⟨(k, v), h, rfl⟩)
      simp [this, ih hnd.2 h]

theorem foldl_char {β γ : Type} (l : List β) (cond : β → Prop) [DecidablePred cond] (val : β → γ)
    (T : Option γ) : ∀ (init : Option γ), (∀ e ∈ l, cond e → some (val e) = T) →
    ((∃ e ∈ l, cond e) ∨ init = T) →
    l.foldl (fun acc e => if cond e then some (val e) else acc) init = T := by
  induction l with
  | nil => intro init _ h; rcases h with ⟨e, he, _⟩ | h; simp at he; exact h
  | cons e l ih =>
    intro init hA hB
    simp only [List.foldl_cons]
    apply ih _ (fun e' he' => hA e' (List.mem_cons_of_mem _ he'))
    by_cases hc : cond e
    · right; simp only [hc, if_true]; exact hA e List.mem_cons_self hc
    · simp only [hc, if_false]
      rcases hB with ⟨e', he', hce'⟩ | hB
      · simp only [List.mem_cons] at he'
        rcases he' with he' | he'
        · exact absurd (he' ▸ hce') hc
        · exact Or.inl ⟨e', he', hce'⟩
      · exact Or.inr hB

/-- Flows survive relabelling: after `old` is replaced by a fresh `new` (what set_dose,
    add_dose, remove_dose, move_dose, set_lag_time, set_bioavailability, set_input do),
    the flow between the renamed endpoints is the flow between the original ones. -/
theorem getFlow_relabel1 {g : Graph α ρ} (h : g.WF) (old new : α) (hold : old ∈ g.nodes) (hnew : new ∉ g.nodes)
    (x y : α) (hx : x ∈ g.nodes) (hy : y ∈ g.nodes) :
    (g.relabel1 old new).getFlow (if x = old then new else x) (if y = old then new else y) = g.getFlow x y := by
  have hne : new ≠ old := fun e => hnew (e ▸ hold)
  have hxn : x ≠ new := fun e => hnew (e ▸ hx)
  have hyn : y ≠ new := fun e => hnew (e ▸ hy)
  -- renaming is injective on the nodes
  have hinj : ∀ a b, a ∈ g.nodes → b ∈ g.nodes → (if a = old then new else a) = (if b = old then new else b) → a = b := by
    intro a b ha hb hab
    by_cases h1 : a = old <;> by_cases h2 : b = old <;> simp only [h1, h2, if_true, if_false] at hab
    · rw [h1, h2]
    · exact absurd (hab ▸ hb) hnew
    · exact absurd (hab ▸ ha) hnew
    · exact hab
  have hrn : ∀ a, a ∈ g.nodes → (if a = old then new else a) = new → a = old := by
    intro a ha hab
    by_cases h1 : a = old
    · exact h1
    · simp only [h1, if_false] at hab; exact absurd (hab ▸ ha) hnew
  have hadj1 : (g.addNode new).adj = g.adj ++ [(new, [])] := by unfold addNode; simp [hnew]
  unfold relabel1
  simp only [hold, if_true, hne, if_false]
  unfold addEdges
  have hfold := getFlow_foldl_addEdge ((g.addNode new).relabelOut old new ++ (g.addNode new).relabelIn old new)
    (fun e : α × α × ρ => e.1) (fun e => e.2.1) (fun e => e.2.2) ((g.addNode new).removeNode old)
    (if x = old then new else x) (if y = old then new else y)
  rw [hfold]
  refine foldl_char _ (fun e : α × α × ρ => (if x = old then new else x) = e.1 ∧ (if y = old then new else y) = e.2.1)
      (fun e : α × α × ρ => e.2.2) (g.getFlow x y) _ ?_ ?_
  · -- every matching edge carries the original flow
    intro e he hc
    simp only [List.mem_append] at he
    rcases he with he | he
    · unfold relabelOut at he
      rw [succOf_addNode] at he
      simp only [List.mem_map] at he
      obtain ⟨p, hp, rfl⟩ := he
      simp only at hc
      have hxo : x = old := hrn x hx hc.1
      have hpn : p.1 ∈ g.nodes := succOf_targets h old p hp
      have hyp : y = p.1 := by
        apply hinj y p.1 hy hpn
        rw [hc.2]
        by_cases hop : old = p.1
        · simp [hop]
        · have : ¬ p.1 = old := fun e => hop e.symm
          simp [hop, this]
      subst hxo; subst hyp
      unfold getFlow
      exact (alGet?_of_mem_nodup (succOf_keys_nodup h x) hp).symm
    · unfold relabelIn at he
      simp only [List.mem_filterMap, Option.map_eq_some_iff] at he
      obtain ⟨p, hp, r, hr, rfl⟩ := he
      simp only at hc
      rw [hadj1, List.mem_append] at hp
      rcases hp with hp | hp
      · have hyo : y = old := hrn y hy hc.2
        have hpn : p.1 ∈ g.nodes := mem_nodes_of_mem_adj hp
        have hxp : x = p.1 := by
          apply hinj x p.1 hx hpn
          rw [hc.1]
          by_cases hop : old = p.1
          · simp [hop]
          · have : ¬ p.1 = old := fun e => hop e.symm
            simp [hop, this]
        subst hyo
        unfold getFlow succOf
        have : alGet? g.adj x = some p.2 := alGet?_of_mem_nodup h.1 (by rw [hxp]; exact hp)
        rw [this]; exact hr.symm
      · simp only [List.mem_singleton] at hp
        subst hp
        simp [alGet?] at hr
  · -- either some edge matches or the untouched part already has the flow
    have hbase : ((g.addNode new).removeNode old).getFlow (if x = old then new else x) (if y = old then new else y)
        = g.getFlow (if x = old then new else x) (if y = old then new else y) := by
      rw [getFlow_removeNode, getFlow_addNode]
      have h1 : ¬ (if x = old then new else x) = old := by
        split
        · exact hne
        · assumption
      have h2 : ¬ (if y = old then new else y) = old := by
        split
        · exact hne
        · assumption
      simp [h1, h2]
    have hnone_src : ∀ z, g.getFlow new z = none := by
      intro z
      unfold getFlow succOf
      have : alGet? g.adj new = none := by
        cases hg : alGet? g.adj new with
        | none => rfl
        | some s => exact absurd (mem_nodes_of_mem_adj (alGet?_some_mem hg)) hnew
      simp [this, alGet?]
    have hnone_tgt : ∀ z, g.getFlow z new = none := by
      intro z
      cases hg : g.getFlow z new with
      | none => rfl
      | some r =>
        unfold getFlow at hg
        exact absurd (succOf_targets h z _ (alGet?_some_mem hg)) hnew
    by_cases hxo : x = old
    · cases hf : g.getFlow x y with
      | none => right; rw [hbase]; simp only [hxo, if_true]; exact hnone_src _
      | some r =>
        left
        refine ⟨(new, (if y = old then new else y), r), ?_, ?_⟩
        · rw [List.mem_append]; left
          unfold relabelOut
          rw [succOf_addNode]
          simp only [List.mem_map]
          unfold getFlow at hf
          refine ⟨(y, r), hxo ▸ alGet?_some_mem hf, ?_⟩
          by_cases hyo : y = old
          · simp [hyo]
          · have : ¬ old = y := fun e => hyo e.symm
            simp [hyo, this]
        · simp [hxo]
    · by_cases hyo : y = old
      · cases hf : g.getFlow x y with
        | none => right; rw [hbase]; simp only [hyo, if_true]; exact hnone_tgt _
        | some r =>
          left
          refine ⟨((if x = old then new else x), new, r), ?_, ?_⟩
          · rw [List.mem_append]; right
            unfold relabelIn
            simp only [List.mem_filterMap, Option.map_eq_some_iff]
            unfold getFlow at hf
            rcases succOf_cases g x with h0 | ⟨s, hs, h1⟩
            · rw [h0] at hf; simp [alGet?] at hf
            · refine ⟨(x, s), by rw [hadj1]; exact List.mem_append_left _ hs, r, by rw [← hyo, ← h1]; exact hf, ?_⟩
              have : ¬ old = x := fun e => hxo e.symm
              simp [hxo, this]
          · simp [hyo]
      · right; rw [hbase]; simp [hxo, hyo]


theorem filter_singleton_of_nodup (l : List α) (a : α) (p : α → Bool) (hp : ∀ n, p n = true ↔ n = a)
    (hnd : l.Nodup) (ha : a ∈ l) : l.filter p = [a] := by
  induction l with
  | nil => simp at ha
  | cons b l ih =>
    rw [List.nodup_cons] at hnd
    simp only [List.mem_cons] at ha
    by_cases hb : b = a
    · subst hb
      have hpb : p b = true := (hp b).mpr rfl
      have : l.filter p = [] := by
        rw [List.filter_eq_nil_iff]
        intro n hn hpn
        exact hnd.1 ((hp n).mp hpn ▸ hn)
      rw [List.filter_cons, hpb, this]; rfl
    · have hal : a ∈ l := by
        rcases ha with ha | ha
        · exact absurd ha.symm hb
        · exact ha
      have hpb : p b = false := by
        cases hpb : p b with
        | false => rfl
        | true => exact absurd ((hp b).mp hpb) hb
      rw [List.filter_cons, hpb]
      exact ih hnd.2 hal

/-- a one-entry mapping `{old: new}` with `old` in the graph and `new` fresh is one `relabel1` -/
theorem relabel_single {g : Graph α ρ} (h : g.WF) (old new : α) (hold : old ∈ g.nodes) (hnew : new ∉ g.nodes) :
    g.relabel [(old, new)] = some (g.relabel1 old new) := by
  have hne : old ≠ new := fun e => hnew (e ▸ hold)
  unfold relabel relabelOrder
  simp only [List.map_cons, List.map_nil, List.all_cons, List.all_nil, Bool.and_true]
  have : (!([new].contains old)) = true := by simp [hne]
  simp only [this, if_true, Option.map_some]
  rw [filter_singleton_of_nodup g.nodes old _ (by intro n; simp) h.1 hold]
  simp [alGet?]

theorem nodes_relabel1 {g : Graph α ρ} (h : g.WF) (old new : α) (hold : old ∈ g.nodes) (hnew : new ∉ g.nodes) :
    (g.relabel1 old new).nodes = g.nodes.filter (fun n => decide (n ≠ old)) ++ [new] := by
  have hne : new ≠ old := fun e => hnew (e ▸ hold)
  have hn1 : (g.addNode new).nodes = g.nodes ++ [new] := by rw [nodes_addNode]; simp [hnew]
  have hbase : ((g.addNode new).removeNode old).nodes = g.nodes.filter (fun n => decide (n ≠ old)) ++ [new] := by
    rw [nodes_removeNode, hn1, List.filter_append]
    simp [hne]
  have hmem : ∀ z, z ∈ g.nodes → (if old = z then new else z) ∈ ((g.addNode new).removeNode old).nodes := by
    intro z hz
    rw [hbase]
    by_cases hz' : old = z
    · simp [hz']
    · have : z ≠ old := fun e => hz' e.symm
      simp [hz', List.mem_filter, hz, this]
  have hnewmem : new ∈ ((g.addNode new).removeNode old).nodes := by rw [hbase]; simp
  unfold relabel1
  simp only [hold, if_true, hne, if_false]
  unfold addEdges
  rw [nodes_foldl_addEdge_of_mem _ (fun e : α × α × ρ => e.1) (fun e => e.2.1) (fun e => e.2.2), hbase]
  intro e he
  simp only [List.mem_append] at he
  rcases he with he | he
  · unfold relabelOut at he
    rw [succOf_addNode] at he
    simp only [List.mem_map] at he
    obtain ⟨p, hp, rfl⟩ := he
    exact ⟨hnewmem, hmem p.1 (succOf_targets h old p hp)⟩
  · unfold relabelIn at he
    simp only [List.mem_filterMap, Option.map_eq_some_iff] at he
    obtain ⟨p, hp, r, hr, rfl⟩ := he
    refine ⟨?_, hnewmem⟩
    have hadj1 : (g.addNode new).adj = g.adj ++ [(new, [])] := by unfold addNode; simp [hnew]
    rw [hadj1, List.mem_append] at hp
    rcases hp with hp | hp
    · exact hmem p.1 (mem_nodes_of_mem_adj hp)
    · simp only [List.mem_singleton] at hp; subst hp; simp [alGet?] at hr

/-- a mapping `{c: c}` changes nothing (`new == old: continue`) -/
theorem relabel_identity (g : Graph α ρ) (a : α) : g.relabel [(a, a)] = some g := by
  unfold relabel relabelOrder
  simp only [List.map_cons, List.map_nil, List.all_cons, List.all_nil, Bool.and_true]
  have h1 : (!([a].contains a)) = false := by simp
  simp only [h1, Bool.false_eq_true, if_false, decide_true, Bool.true_or, if_true, List.reverse_cons,
    List.reverse_nil, List.nil_append, Option.map_some, List.foldl_cons, List.foldl_nil, alGet?]
  unfold relabel1
  by_cases ha : a ∈ g.nodes
  · simp [ha, addNode]
  · simp [ha]

end Pharmpy.C05
