import Mathlib.Tactic.Ring
import PharmpyModel.C05.Collect
/-
  `collect` regroups and loses nothing: value, keys.
-/
namespace Pharmpy.C05

variable {κ : Type} [DecidableEq κ]

theorem evalMonomials_collectAdd {R : Type} [CommRing R] (v : κ → R) (l : List (κ × R)) (k : κ) (c : R) :
    evalMonomials v (collectAdd l k c) = evalMonomials v l + v k * c := by
  induction l with
  | nil => simp [collectAdd, evalMonomials]
  | cons p l ih =>
    obtain ⟨k', c'⟩ := p
    unfold collectAdd
    by_cases hk : k = k'
    · subst hk
      simp only [if_true, evalMonomials, List.map_cons, List.sum_cons]; ring
    · simp only [hk, if_false]
      simp only [evalMonomials, List.map_cons, List.sum_cons] at ih ⊢
      rw [ih]; ring

theorem evalMonomials_foldl_collectAdd {R : Type} [CommRing R] (v : κ → R) (ms : List (κ × R)) :
    ∀ acc : List (κ × R),
      evalMonomials v (ms.foldl (fun acc m => collectAdd acc m.1 m.2) acc) = evalMonomials v acc + evalMonomials v ms := by
  induction ms with
  | nil => intro acc; simp [evalMonomials]
  | cons m ms ih =>
    intro acc
    simp only [List.foldl_cons, ih, evalMonomials_collectAdd]
    simp only [evalMonomials, List.map_cons, List.sum_cons]; ring

variable {ρ : Type} [Add ρ]

theorem keys_collectAdd (l : List (κ × ρ)) (k : κ) (c : ρ) :
    (collectAdd l k c).map (·.1) = if k ∈ l.map (·.1) then l.map (·.1) else l.map (·.1) ++ [k] := by
  induction l with
  | nil => simp [collectAdd]
  | cons p l ih =>
    obtain ⟨k', c'⟩ := p
    unfold collectAdd
    by_cases hk : k = k'
    · simp [hk]
    · simp only [hk, if_false, List.map_cons, ih, List.mem_cons, false_or]
      split <;> simp

theorem keys_foldl_collectAdd (ms : List (κ × ρ)) : ∀ acc : List (κ × ρ), (acc.map (·.1)).Nodup →
    ((ms.foldl (fun acc m => collectAdd acc m.1 m.2) acc).map (·.1)).Nodup
    ∧ ∀ k, k ∈ (ms.foldl (fun acc m => collectAdd acc m.1 m.2) acc).map (·.1) ↔ k ∈ acc.map (·.1) ∨ k ∈ ms.map (·.1) := by
  induction ms with
  | nil => intro acc h; simp [h]
  | cons m ms ih =>
    intro acc h
    simp only [List.foldl_cons]
    have hnd : ((collectAdd acc m.1 m.2).map (·.1)).Nodup := by
      rw [keys_collectAdd]
      split
      · exact h
      · rename_i hm
        rw [List.nodup_append]
        refine ⟨h, by simp, ?_⟩
        intro a ha b hb; simp at hb; subst hb; intro hab; exact hm (hab ▸ ha)
    obtain ⟨i1, i2⟩ := ih _ hnd
    refine ⟨i1, ?_⟩
    intro k
    rw [i2 k, keys_collectAdd]
    simp only [List.map_cons, List.mem_cons]
    split
    · rename_i hm
      constructor
      · rintro (h1 | h1); exact Or.inl h1; exact Or.inr (Or.inr h1)
      · rintro (h1 | h1 | h1); exact Or.inl h1; exact Or.inl (h1 ▸ hm); exact Or.inr h1
    · simp only [List.mem_append, List.mem_singleton]
      constructor
      · rintro ((h1 | h1) | h1); exact Or.inl h1; exact Or.inr (Or.inl h1); exact Or.inr (Or.inr h1)
      · rintro (h1 | h1 | h1); exact Or.inl (Or.inl h1); exact Or.inl (Or.inr h1); exact Or.inr h1

end Pharmpy.C05
