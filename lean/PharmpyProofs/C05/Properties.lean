import PharmpyProofs.C05.Lemmas
import PharmpyModel.Core.Expr
/-
  C05 — Compartmental system graph and its differential equations always agree.

  The model (`PharmpyModel/C05`) mirrors `CompartmentalSystemBuilder`,
  `CompartmentalSystem._order_compartments`, `compartmental_matrix`, `amounts`,
  `zero_order_inputs`, `eqs`, `to_dict`/`from_dict` and the networkx operations under them.
  `orderCompartments g` is the one order shared by names, amounts, inputs, matrix rows
  and columns and equations (in the model by construction: the driver derives all of them
  from the same list; the correspondence run checks that the code does too).
-/
namespace Pharmpy.C05
open Graph

/-! ### the graph is always well formed -/

section
variable {ε : Type} [DecidableEq ε]

/-- Every graph reachable from `CompartmentalSystemBuilder()` by any sequence of builder
    operations, `subs` and dict round trips (refused operations leave it unchanged) has
    distinct nodes, edges between nodes only, and one rate per (source, destination). -/
theorem wf_reachable (ops : List (Op ε)) : (runOps ops).WF := WF_runOps ops

/-- a refused operation does not change the builder -/
theorem refused_op_unchanged (g : CGraph ε) (op : Op ε) (e : Err) (h : op.apply g = .error e) :
    op.step g = g := by
  unfold Op.step; rw [h]

/-! ### one consistent order: `_order_compartments` is a permutation of the compartments -/

variable [ExprLike ε]

theorem order_is_permutation (g : CGraph ε) (h : g.WF) :
    (orderCompartments g).Nodup ∧ ∀ x, x ∈ orderCompartments g ↔ x ∈ comps g := by
  have hfallback : (sortByName (comps g)).Nodup ∧ ∀ x, x ∈ sortByName (comps g) ↔ x ∈ comps g :=
    ⟨nodup_sortByName (comps_nodup h), mem_sortByName _⟩
  unfold orderCompartments
  split
  · exact hfallback
  · exact hfallback
  · rename_i d ds hd
    have hdc : d ∈ comps g := dosing_mem_comps g _ hd d List.mem_cons_self
    have hcl := orderNbrs_closed h
    obtain ⟨b1, b2, b3⟩ := bfs_spec (orderNbrs g) (· ∈ comps g) hcl (g.nodes.length + 1) d hdc
    simp only
    generalize hn0 : bfs (orderNbrs g) (g.nodes.length + 1) d = nodes0 at b1 b2 b3
    generalize hrem : sortByName (List.filter hasInput (List.filter (fun n => decide (n ∉ nodes0)) (comps g))) ++
        sortByName (List.filter (fun n => !hasInput n) (List.filter (fun n => decide (n ∉ nodes0)) (comps g))) = remaining
    have hremP : ∀ x ∈ remaining, x ∈ comps g := by
      intro x hx; subst hrem
      simp only [List.mem_append, mem_sortByName, List.mem_filter] at hx
      rcases hx with hx | hx <;> exact hx.1.1
    have hcover : ∀ x ∈ comps g, x ∈ nodes0 ∨ x ∈ remaining := by
      intro x hx
      by_cases hx0 : x ∈ nodes0
      · exact Or.inl hx0
      · right; subst hrem
        simp only [List.mem_append, mem_sortByName, List.mem_filter]
        by_cases hi : hasInput x
        · left; exact ⟨⟨hx, by simpa using hx0⟩, hi⟩
        · right; exact ⟨⟨hx, by simpa using hx0⟩, by simpa using hi⟩
    obtain ⟨r1, r2, r3, r4⟩ := remainingLoop_spec (orderNbrs g) (g.nodes.length + 1) (· ∈ comps g) hcl
      (remaining.length + 1) remaining nodes0 (Nat.lt_succ_self _) b1 b2 hremP
    refine ⟨r1, fun x => ⟨r2 x, fun hx => ?_⟩⟩
    rcases hcover x hx with hx | hx
    · exact r3 x hx
    · exact r4 x hx

/-- the same for every system that can be built: any number of compartments, any flows,
    doses or not, central compartment or not -/
theorem order_is_permutation_reachable (ops : List (Op ε)) :
    (orderCompartments (runOps ops)).Perm (comps (runOps ops)) := by
  have h := order_is_permutation (runOps ops) (wf_reachable ops)
  exact (List.perm_ext_iff_of_nodup h.1 (comps_nodup (wf_reachable ops))).mpr h.2

/-- `Output` is never listed; names, amounts and inputs have one entry per compartment -/
theorem order_excludes_output (g : CGraph ε) (h : g.WF) :
    Node.output ∉ orderCompartments g ∧ (compartmentNames g).length = (comps g).length := by
  obtain ⟨h1, h2⟩ := order_is_permutation g h
  refine ⟨fun hx => ?_, ?_⟩
  · have := (h2 _).mp hx
    unfold comps at this
    simp [Node.isOutput] at this
  · unfold compartmentNames
    rw [List.length_map]
    exact ((List.perm_ext_iff_of_nodup h1 (comps_nodup h)).mpr h2).length_eq

end

/-! ### the matrix form is inflow − outflow + input; mass balance -/

section
variable {R : Type} [CommRing R] {α : Type}

/-- Entrywise, for ANY list of nodes (any length), any flow function into any commutative
    ring: `(M·A + u)[i] = inflows − outflows + input` of compartment `nodes[i]`, minus
    `r(c,c)·A_c` for a self-loop — the code subtracts a self-loop rate on the diagonal and
    adds it nowhere.  (Indices as in the code; duplicates in `nodes` would be harmless.) -/
theorem matrix_is_rhs (nodes : List α) (flow : α → α → R) (out amount input : α → R) :
    odeRhs nodes flow out amount input
      = nodes.map (fun c => specRhs nodes flow out amount input c - flow c c * amount c) := by
  unfold odeRhs compartmentalMatrix
  rw [List.zipWith_map_left, zipWith_zipIdx_self]
  have hmap : ∀ h : α → R, nodes.map h = nodes.zipIdx.map (fun p => h p.1) := by
    intro h
    conv => lhs; rw [← List.zipIdx_map_fst 0 nodes, List.map_map]
    rfl
  rw [hmap (fun c => specRhs nodes flow out amount input c - flow c c * amount c)]
  apply List.map_congr_left
  intro p hp
  simp only [row_dot nodes flow out amount p hp, specRhs]
  ring

/-- without self-loops the equations are exactly inflow − outflow + input -/
theorem matrix_is_rhs_no_selfloops (nodes : List α) (flow : α → α → R) (out amount input : α → R)
    (h : ∀ c ∈ nodes, flow c c = 0) :
    odeRhs nodes flow out amount input = nodes.map (specRhs nodes flow out amount input) := by
  rw [matrix_is_rhs]
  apply List.map_congr_left
  intro c hc
  rw [h c hc]; ring

/-- the specification does not depend on how the compartments are listed -/
theorem spec_independent_of_listing {l₁ l₂ : List α} (hp : l₁.Perm l₂) (flow : α → α → R)
    (out amount input : α → R) (c : α) :
    specRhs l₁ flow out amount input c = specRhs l₂ flow out amount input c := by
  unfold specRhs
  rw [sum_map_perm _ hp, sum_map_perm _ hp]

/-- Mass balance: the sum of all rates of change (inputs aside) is minus the output flows,
    minus the self-loop terms. -/
theorem mass_balance (nodes : List α) (flow : α → α → R) (out amount : α → R) :
    (odeRhs nodes flow out amount (fun _ => 0)).sum
      = - (nodes.map (fun c => out c * amount c)).sum - (nodes.map (fun c => flow c c * amount c)).sum := by
  rw [matrix_is_rhs]
  have h : ∀ c, specRhs nodes flow out amount (fun _ => 0) c - flow c c * amount c
      = ((nodes.map (fun d => flow d c * amount d)).sum - (nodes.map (fun d => flow c d)).sum * amount c)
        - (out c * amount c + flow c c * amount c) := by
    intro c; simp only [specRhs]; ring
  simp only [h]
  rw [sum_map_sub, sum_map_sub, sum_map_add, inflow_total_eq_outflow_total]
  ring

theorem mass_balance_no_selfloops (nodes : List α) (flow : α → α → R) (out amount : α → R)
    (h : ∀ c ∈ nodes, flow c c = 0) :
    (odeRhs nodes flow out amount (fun _ => 0)).sum = - (nodes.map (fun c => out c * amount c)).sum := by
  rw [mass_balance]
  have : (nodes.map (fun c => flow c c * amount c)).sum = 0 := by
    have h0 : nodes.map (fun c => flow c c * amount c) = nodes.map (fun _ => (0 : R)) := by
      apply List.map_congr_left; intro c hc; rw [h c hc]; ring
    rw [h0]
    clear h h0
    induction nodes with
    | nil => rfl
    | cons a l ih => simp only [List.map_cons, List.sum_cons, ih]; ring
  rw [this]; ring

/-- the full statement (no side condition) is false of the code: one compartment with a
    self-loop of rate 1 and amount 1 loses mass although nothing flows out -/
theorem mass_balance_selfloop_witness :
    (odeRhs [()] (fun _ _ => (1 : Int)) (fun _ => 0) (fun _ => 1) (fun _ => 0)).sum
      ≠ - ([()].map (fun _ => (0 : Int) * 1)).sum := by decide

end

/-! ### the reported equations: `canonical_ode_rhs` is a value-preserving regrouping -/

section
variable {κ : Type} [DecidableEq κ] {R : Type} [CommRing R]

/-- `CompartmentalSystem.eqs` reports `canonical_ode_rhs((M·A+u)[i])`: the monomials of the expanded entry
    regrouped by key (product of powers of amount functions).  For EVERY list of monomials (any keys: `1`,
    `A`, `A**2`, `sqrt(A)`, `A*B`, …), every valuation of the keys and coefficients in any commutative ring,
    the canonical form has the value of the original sum. -/
theorem canonical_rhs_value (v : κ → R) (ms : List (κ × R)) :
    evalMonomials v (collectBy ms) = evalMonomials v ms := by
  unfold collectBy
  rw [evalMonomials_foldl_collectAdd]
  simp [evalMonomials]

/-- so the reported equation has the value of the matrix entry it was computed from, whatever the
    decomposition into monomials -/
theorem canonical_eqs_value (v : κ → R) (ms : List (κ × R)) (entry : R) (h : evalMonomials v ms = entry) :
    evalMonomials v (collectBy ms) = entry := by rw [canonical_rhs_value, h]

omit [CommRing R] in
/-- canonical: exactly one term per key … -/
theorem canonical_rhs_one_term_per_key [Add R] (ms : List (κ × R)) : ((collectBy ms).map (·.1)).Nodup :=
  (keys_foldl_collectAdd ms [] (by simp)).1

omit [CommRing R] in
/-- … and every key of the input is kept (none is dropped, power keys included) -/
theorem canonical_rhs_keeps_every_key [Add R] (ms : List (κ × R)) (k : κ) :
    k ∈ (collectBy ms).map (·.1) ↔ k ∈ ms.map (·.1) := by
  have := (keys_foldl_collectAdd ms [] (by simp)).2 k
  simpa [collectBy] using this

/-- rebuilding the sum from a subset of the keys (e.g. only the plain amounts and `1`) is NOT value
    preserving: keys 1 = `A`, 2 = `A**2` with `A = 2`; monomials `3·A + 5·A**2` -/
theorem canonical_rhs_dropping_key_witness :
    evalMonomials (fun k : Nat => (2 : Int) ^ k)
        ((collectBy [(1, 3), (2, 5)]).filter (fun g => decide (g.1 ∈ [0, 1])))
      ≠ evalMonomials (fun k : Nat => (2 : Int) ^ k) [(1, 3), (2, 5)] := by decide

end

/-! ### substitution commutes with forming the equations -/

section
variable {R R' : Type} [CommRing R] [CommRing R'] {α : Type}

/-- `M_σ·A_σ + u_σ = σ(M·A + u)`: forming the right-hand sides commutes with every ring homomorphism `σ` applied to
    rates, amounts and inputs (a substitution of symbols / amount functions by expressions, read in any
    commutative ring, is one); together with `subs_homomorphism` the equations of `cs.subs(σ)` are `σ` of the
    equations of `cs`. -/
theorem odeRhs_hom (h : R →+* R') (nodes : List α) (flow : α → α → R) (out amount input : α → R) :
    odeRhs nodes (fun x y => h (flow x y)) (fun x => h (out x)) (fun x => h (amount x)) (fun x => h (input x))
      = (odeRhs nodes flow out amount input).map h := by
  rw [matrix_is_rhs, matrix_is_rhs, List.map_map]
  apply List.map_congr_left
  intro c _
  simp only [Function.comp_def, specRhs, map_sub, map_add, map_mul, map_list_sum', List.map_map]
end

/-- substitution lemma for the wire expression language (atoms are symbols AND applied functions such as
    `A_CENTRAL(t)`): evaluating a substituted expression = evaluating the original in the substituted
    environment, for every interpretation of the operations -/
theorem expr_subst_semantics {β : Type} (I : Pharmpy.Interp β) (ρ : Pharmpy.Env β) (σ : Pharmpy.Sym → Option Pharmpy.Expr)
    (e : Pharmpy.Expr) :
    Pharmpy.Expr.eval I ρ (Pharmpy.Expr.subst σ e) =
      Pharmpy.Expr.eval I (fun x => match σ x with | some t => Pharmpy.Expr.eval I ρ t | none => ρ x) e := by
  induction e with
  | lit n => simp [Pharmpy.Expr.subst, Pharmpy.Expr.eval]
  | sym s =>
    simp only [Pharmpy.Expr.subst, Pharmpy.Expr.eval]
    cases h : σ s <;> simp [Pharmpy.Expr.eval]
  | f1 f a ih => simp [Pharmpy.Expr.subst, Pharmpy.Expr.eval, ih]
  | f2 f a b iha ihb => simp [Pharmpy.Expr.subst, Pharmpy.Expr.eval, iha, ihb]
  | f3 f a b c iha ihb ihc => simp [Pharmpy.Expr.subst, Pharmpy.Expr.eval, iha, ihb, ihc]

/-! ### the equations of every buildable system -/

section
variable {ε : Type} [DecidableEq ε] [ExprLike ε] {R : Type} [CommRing R]

/-- For every system reachable through the builder, every interpretation of rates, amounts
    and inputs in a commutative ring: the right-hand sides in the reported order are, entry
    by entry, inflows − outflows + input taken over the compartments of the graph. -/
theorem system_equations_spec (ops : List (Op ε)) (flow : Node ε → Node ε → R) (out amount input : Node ε → R) :
    odeRhs (orderCompartments (runOps ops)) flow out amount input
      = (orderCompartments (runOps ops)).map (fun c =>
          specRhs (comps (runOps ops)) flow out amount input c - flow c c * amount c) := by
  rw [matrix_is_rhs]
  apply List.map_congr_left
  intro c _
  rw [spec_independent_of_listing (order_is_permutation_reachable ops)]

end

/-! ### frame of the builder operations -/

section
variable {ε : Type} [DecidableEq ε]

/-- `add_flow(s, d, r)` sets the flow `s → d` and no other -/
theorem add_flow_frame (g : CGraph ε) (s : Comp ε) (d : Node ε) (r : ε) (x y : Node ε) :
    (addFlow g s d r).getFlow x y = if x = .comp s ∧ y = d then some r else g.getFlow x y :=
  getFlow_addEdge g _ _ r x y

/-- `remove_flow(s, d)` removes the flow `s → d` and no other -/
theorem remove_flow_frame (g g' : CGraph ε) (s : Comp ε) (d : Node ε) (h : removeFlow g s d = .ok g')
    (x y : Node ε) : g'.getFlow x y = if x = .comp s ∧ y = d then none else g.getFlow x y := by
  unfold removeFlow at h
  split at h
  · simp only [Except.ok.injEq] at h; subst h; exact getFlow_removeEdge g _ _ x y
  · cases h

/-- `add_compartment` changes no flow -/
theorem add_compartment_frame (g : CGraph ε) (c : Comp ε) (x y : Node ε) :
    (addCompartment g c).getFlow x y = g.getFlow x y := getFlow_addNode g _ x y

/-- `remove_compartment(c)` removes exactly the flows from and to `c`, and `c` itself -/
theorem remove_compartment_frame (g g' : CGraph ε) (c : Comp ε) (h : removeCompartment g c = .ok g') :
    g'.nodes = g.nodes.filter (fun n => decide (n ≠ .comp c))
    ∧ ∀ x y, g'.getFlow x y = if x = .comp c ∨ y = .comp c then none else g.getFlow x y := by
  unfold removeCompartment at h
  split at h
  · simp only [Except.ok.injEq] at h; subst h
    exact ⟨nodes_removeNode g _, getFlow_removeNode g _⟩
  · cases h

/-- the rate substitution of `subs` maps every flow pointwise and keeps the edge set -/
theorem subs_maps_flows (g : CGraph ε) (f : ε → ε) (x y : Node ε) :
    (g.mapRates f).getFlow x y = (g.getFlow x y).map f := getFlow_mapRates g f x y

/-- `CompartmentalSystem.subs` as graph surgery (rates replaced, then
    `relabel_nodes(G, {c: c.subs(σ) for c in _comps(G)}, copy=False)` with the mapping IN NODE ORDER,
    /repo 459172f), for every well-formed graph, every rate map and every compartment map `f` whose
    changed images are new to the graph and pairwise distinct (true when names are distinct, a
    substituted compartment keeping its name):
    * it succeeds and the graph stays well formed;
    * node order afterwards — a function of the graph and of WHICH compartments change only: the
      unchanged nodes in place, then the changed ones re-added at the end, in their original relative
      order when every compartment changes (keys and values of the mapping are disjoint: networkx visits
      the nodes in node order) and in REVERSED original order when some compartment is unchanged
      (networkx then visits the reversed topological order of the mapping);
    * every flow is kept between the renamed endpoints, its rate mapped pointwise; no flow appears. -/
theorem subs_spec (g : CGraph ε) (h : g.WF) (rate : ε → ε) (f : Node ε → Node ε)
    (hfresh : ∀ n ∈ comps g, f n ≠ n → f n ∉ g.nodes)
    (hinj : (((comps g).filter (fun n => decide (f n ≠ n))).map f).Nodup) :
    ∃ g', subsGraph g rate f = .ok g' ∧ g'.WF
      ∧ g'.nodes = g.nodes.filter (fun n => decide (n ∉ (comps g).filter (fun n => decide (f n ≠ n))))
          ++ (if (comps g).filter (fun n => decide (f n ≠ n)) = comps g
              then (comps g).filter (fun n => decide (f n ≠ n))
              else ((comps g).filter (fun n => decide (f n ≠ n))).reverse).map f
      ∧ ∀ x y, x ∈ g.nodes → y ∈ g.nodes →
          g'.getFlow (if x ∈ (comps g).filter (fun n => decide (f n ≠ n)) then f x else x)
                     (if y ∈ (comps g).filter (fun n => decide (f n ≠ n)) then f y else y)
            = (g.getFlow x y).map rate := by
  generalize hch : (comps g).filter (fun n => decide (f n ≠ n)) = changed at *
  have hcn : (comps g).Nodup := comps_nodup h
  have hwf0 : (g.mapRates rate).WF := WF_mapRates h rate
  have hn0 : (g.mapRates rate).nodes = g.nodes := nodes_mapRates g rate
  have hchsub : ∀ n ∈ changed, n ∈ comps g ∧ f n ≠ n := by
    intro n hn; rw [← hch, List.mem_filter] at hn; exact ⟨hn.1, by simpa using hn.2⟩
  have hcomps_nodes : ∀ n ∈ comps g, n ∈ g.nodes := by
    intro n hn; unfold comps at hn; exact (List.mem_filter.mp hn).1
  -- the order in which the loop visits the keys, and what it amounts to
  have hloop : ∃ olds, (olds = (if changed = comps g then changed else changed.reverse))
      ∧ (g.mapRates rate).relabel (subsMapping g f) = some (relabelFold (g.mapRates rate) f olds) := by
    unfold relabel relabelOrder subsMapping
    simp only [List.map_map, Function.comp_def, List.map_id']
    by_cases hall : changed = comps g
    · refine ⟨changed, by simp [hall], ?_⟩
      have hc1 : ((comps g).all fun k => !(List.map f (comps g)).contains k) = true := by
        rw [List.all_eq_true]
        intro k hk
        simp only [Bool.not_eq_true', List.contains_eq_mem, decide_eq_false_iff_not, List.mem_map, not_exists, not_and]
        intro n hn hfn
        have hnc : n ∈ changed := hall ▸ hn
        exact hfresh n hn (hchsub n hnc).2 (hfn ▸ hcomps_nodes k hk)
      simp only [hc1, if_true, Option.map_some, Option.some.injEq]
      rw [hn0, nodes_filter_comps]
      refine (relabel_loop_eq _ f (comps g) (comps g) hcn (fun o ho => ho)).trans ?_
      rw [relabelFold_filter, hch]
    · refine ⟨changed.reverse, by simp [hall], ?_⟩
      -- some compartment is unchanged: keys and values overlap
      have hex : ∃ n0 ∈ comps g, f n0 = n0 := by
        by_contra hne
        apply hall
        rw [← hch]
        apply List.filter_eq_self.mpr
        intro n hn
        simp only [ne_eq, decide_eq_true_eq]
        intro hfn
        exact hne ⟨n, hn, hfn⟩
      obtain ⟨n0, hn0c, hfn0⟩ := hex
      have hc1 : ((comps g).all fun k => !(List.map f (comps g)).contains k) = false := by
        rw [List.all_eq_false]
        refine ⟨n0, hn0c, ?_⟩
        simp only [Bool.not_eq_true, Bool.not_eq_false', List.contains_eq_mem, decide_eq_true_eq, List.mem_map]
        exact ⟨n0, hn0c, hfn0⟩
      have hc2 : ((comps g).map (fun n => (n, f n))).all (fun p => decide (p.2 = p.1) || !((comps g).contains p.2)) = true := by
        rw [List.all_eq_true]
        intro p hp
        obtain ⟨n, hn, rfl⟩ := List.mem_map.mp hp
        by_cases hfn : f n = n
        · simp [hfn]
        · have : f n ∉ comps g := fun hm => hfresh n hn hfn (hcomps_nodes _ hm)
          simp [hfn, this]
      simp only [hc1, Bool.false_eq_true, if_false, hc2, if_true, Option.map_some, Option.some.injEq]
      refine (relabel_loop_eq _ f (comps g) (comps g).reverse hcn (fun o ho => List.mem_reverse.mp ho)).trans ?_
      rw [relabelFold_filter, List.filter_reverse, hch]
  obtain ⟨olds, holds, hrel⟩ := hloop
  -- olds is `changed` up to order
  have hmem : ∀ n, n ∈ olds ↔ n ∈ changed := by
    intro n; rw [holds]; split
    · rfl
    · exact List.mem_reverse
  have hchnd : changed.Nodup := by rw [← hch]; exact List.Pairwise.filter _ hcn
  have holdsnd : olds.Nodup := by
    rw [holds]; split
    · exact hchnd
    · exact (List.reverse_perm changed).nodup_iff.mpr hchnd
  have hmapnd : (olds.map f).Nodup := by
    rw [holds]; split
    · exact hinj
    · rw [List.map_reverse]; exact (List.reverse_perm _).nodup_iff.mpr hinj
  obtain ⟨s1, s2, s3⟩ := relabelFold_spec f olds (g.mapRates rate) hwf0 holdsnd
    (fun o ho => hn0 ▸ hcomps_nodes o (hchsub o ((hmem o).mp ho)).1)
    (fun o ho => hn0 ▸ hfresh o (hchsub o ((hmem o).mp ho)).1 (hchsub o ((hmem o).mp ho)).2)
    hmapnd
  refine ⟨relabelFold (g.mapRates rate) f olds, ?_, s1, ?_, ?_⟩
  · unfold subsGraph relabelE; rw [hrel]
  · rw [s2, hn0, ← holds]
    congr 1
    apply List.filter_congr
    intro n _
    simp [hmem n]
  · intro x y hx hy
    have := s3 x y (hn0 ▸ hx) (hn0 ▸ hy)
    simp only [hmem] at this
    rw [this, getFlow_mapRates]

/-- `subs` is a homomorphism on the graph: for EVERY map `σ` on the expression language (symbols, amount
    functions and compound subexpressions are all just what `σ` does to an expression) applied to every rate and
    every compartment field, the flow between the substituted endpoints is `σ` of the original flow, no flow
    appears or disappears, the nodes are exactly the substituted nodes, and the amount of a substituted
    compartment is `σ` of its amount (by definition of `Comp.mapExpr`). -/
theorem subs_homomorphism (g : CGraph ε) (h : g.WF) (σ : ε → ε)
    (hfresh : ∀ n ∈ comps g, Node.mapExpr σ n ≠ n → Node.mapExpr σ n ∉ g.nodes)
    (hinj : (((comps g).filter (fun n => decide (Node.mapExpr σ n ≠ n))).map (Node.mapExpr σ)).Nodup) :
    ∃ g', subsSigma g σ = .ok g' ∧ g'.WF
      ∧ (∀ n, n ∈ g'.nodes ↔ ∃ m ∈ g.nodes, n = Node.mapExpr σ m)
      ∧ ∀ x y, x ∈ g.nodes → y ∈ g.nodes →
          g'.getFlow (Node.mapExpr σ x) (Node.mapExpr σ y) = (g.getFlow x y).map σ := by
  obtain ⟨g', h1, h2, h3, h4⟩ := subs_spec g h σ (Node.mapExpr σ) hfresh hinj
  generalize hch : (comps g).filter (fun n => decide (Node.mapExpr σ n ≠ n)) = changed at *
  have hmemch : ∀ n, n ∈ changed ↔ n ∈ comps g ∧ Node.mapExpr σ n ≠ n := by
    intro n; rw [← hch, List.mem_filter]; simp
  -- outside `changed` the node map is the identity (on nodes of the graph)
  have hid : ∀ n, n ∈ g.nodes → n ∉ changed → Node.mapExpr σ n = n := by
    intro n hn hnc
    cases n with
    | output => rfl
    | comp c =>
      by_contra hne
      exact hnc ((hmemch _).mpr ⟨by unfold comps; rw [List.mem_filter]; exact ⟨hn, rfl⟩, hne⟩)
  have hren : ∀ n, n ∈ g.nodes → (if n ∈ changed then Node.mapExpr σ n else n) = Node.mapExpr σ n := by
    intro n hn
    by_cases hc : n ∈ changed
    · simp [hc]
    · simp [hc, hid n hn hc]
  have hchnodes : ∀ n, n ∈ changed → n ∈ g.nodes := by
    intro n hn; have := ((hmemch n).mp hn).1; unfold comps at this; exact (List.mem_filter.mp this).1
  refine ⟨g', h1, h2, ?_, ?_⟩
  · intro n
    rw [h3, List.mem_append, List.mem_filter, List.mem_map]
    constructor
    · rintro (⟨hn, hnc⟩ | ⟨m, hm, rfl⟩)
      · have hnc' : n ∉ changed := by simpa using hnc
        exact ⟨n, hn, (hid n hn hnc').symm⟩
      · have hmc : m ∈ changed := by
          split at hm
          · exact hm
          · exact List.mem_reverse.mp hm
        exact ⟨m, hchnodes m hmc, rfl⟩
    · rintro ⟨m, hm, rfl⟩
      by_cases hc : m ∈ changed
      · right
        refine ⟨m, ?_, rfl⟩
        split
        · exact hc
        · exact List.mem_reverse.mpr hc
      · left
        rw [hid m hm hc]
        exact ⟨hm, by simpa using hc⟩
  · intro x y hx hy
    have := h4 x y hx hy
    rw [hren x hx, hren y hy] at this
    exact this

example (σ : ε → ε) (c : Comp ε) : (c.mapExpr σ).amount = σ c.amount ∧ (c.mapExpr σ).input = σ c.input := ⟨rfl, rfl⟩

/-- Relabelling one compartment by a value not yet in the graph — what `set_dose`, `add_dose`,
    `remove_dose`, `set_lag_time`, `set_bioavailability`, `set_input` do (each is
    `relabel_nodes(G, {c: c.replace(field=…)}, copy=False)`, see the `rfl` examples below) —
    succeeds, moves the compartment to the end of the node order, keeps all other nodes in
    order, and keeps EVERY flow (between the renamed endpoints), including self-loops and
    flows to `output`. -/
theorem relabel_preserves_flows (g : CGraph ε) (h : g.WF) (c c' : Comp ε)
    (hc : Node.comp c ∈ g.nodes) (hc' : Node.comp c' ∉ g.nodes) :
    ∃ g', relabelE g [(.comp c, .comp c')] = .ok g'
      ∧ g'.nodes = g.nodes.filter (fun n => decide (n ≠ .comp c)) ++ [.comp c']
      ∧ ∀ x y, x ∈ g.nodes → y ∈ g.nodes →
          g'.getFlow (if x = .comp c then .comp c' else x) (if y = .comp c then .comp c' else y) = g.getFlow x y := by
  refine ⟨g.relabel1 (.comp c) (.comp c'), ?_, nodes_relabel1 h _ _ hc hc', ?_⟩
  · unfold relabelE; rw [relabel_single h _ _ hc hc']
  · intro x y hx hy; exact getFlow_relabel1 h _ _ hc hc' x y hx hy

/-- setting a field to the value it already has changes nothing -/
theorem relabel_same_value (g : CGraph ε) (c : Comp ε) : relabelE g [(.comp c, .comp c)] = .ok g := by
  unfold relabelE; rw [relabel_identity]

example (g : CGraph ε) (c : Comp ε) (e : ε) :
    setLagTime g c e = relabelE g [(.comp c, .comp { c with lagTime := e })] := rfl
example (g : CGraph ε) (c : Comp ε) (e : ε) :
    setBioavailability g c e = relabelE g [(.comp c, .comp { c with bioavailability := e })] := rfl
example (g : CGraph ε) (c : Comp ε) (e : ε) :
    setInput g c e = relabelE g [(.comp c, .comp { c with input := e })] := rfl
example (g : CGraph ε) (c : Comp ε) (ds : List (Dose ε)) :
    setDose g c ds = relabelE g [(.comp c, .comp { c with doses := ds })] := rfl
example (g : CGraph ε) (c : Comp ε) (ds : List (Dose ε)) :
    addDose g c ds = relabelE g [(.comp c, .comp { c with doses := c.dosesView ++ ds })] := rfl

/-! ### serialisation -/

/-- `from_dict(to_dict(cs))` has the same nodes in the same order and the same flows, for
    every well-formed graph whose first node is `output` (true of every builder graph: the
    builder starts with `output` and only compartments are ever removed or relabelled; the
    correspondence run compares the node order after every operation). -/
theorem dict_roundtrip (g : CGraph ε) (h : g.WF) (hout : ∃ rest, g.nodes = .output :: rest) :
    (fromDict (toDict g)).nodes = g.nodes
    ∧ ∀ x y, (fromDict (toDict g)).getFlow x y = g.getFlow x y := by
  obtain ⟨rest, hrest⟩ := hout
  have hnd : (Node.output :: rest).Nodup := hrest ▸ h.1
  rw [List.nodup_cons] at hnd
  have hrest_no : ∀ n ∈ rest, n.isOutput = false := by
    intro n hn
    cases n with
    | output => exact absurd hn hnd.1
    | comp c => rfl
  -- the skeleton: all nodes, no flows
  have hnb : (newBuilder : CGraph ε).nodes = [.output] := by
    simp [newBuilder, Graph.addNode, Graph.empty, Graph.nodes]
  have hnbf : ∀ x y, (newBuilder : CGraph ε).getFlow x y = none := by
    intro x y; simp [newBuilder, getFlow_addNode]; simp [Graph.getFlow, Graph.succOf, Graph.empty, alGet?]
  obtain ⟨s1, s2⟩ := nodes_foldl_addNodes rest (newBuilder : CGraph ε) hrest_no hnd.2 (by
    intro n hn; rw [hnb]; simp only [List.mem_singleton]; intro hno; exact hnd.1 (hno ▸ hn))
  have hg0 : (g.nodes.foldl (fun g n => if n.isOutput then g else g.addNode n) (newBuilder : CGraph ε))
      = rest.foldl (fun g n => if n.isOutput then g else g.addNode n) (newBuilder : CGraph ε) := by
    rw [hrest]; simp [Node.isOutput]
  have hmemE : ∀ e ∈ g.edges, g.nodes.getD (g.nodes.idxOf e.1) Node.output = e.1
      ∧ g.nodes.getD (g.nodes.idxOf e.2.1) Node.output = e.2.1 := by
    intro e he
    have := mem_edges h he
    exact ⟨getD_idxOf _ _ _ this.1, getD_idxOf _ _ _ this.2⟩
  unfold fromDict toDict
  simp only [List.foldl_map]
  rw [hg0]
  constructor
  · rw [nodes_foldl_addEdge_of_mem, s1, hnb, hrest]; rfl
    intro e he
    have := mem_edges h he
    rw [(hmemE e he).1, (hmemE e he).2, s1, hnb]
    simpa [hrest] using this
  · intro x y
    rw [getFlow_foldl_addEdge, s2, hnbf]
    rw [foldl_congr_mem g.edges _ (fun acc e => if x = e.1 ∧ y = e.2.1 then some e.2.2 else acc) none (by
      intro acc e he
      rw [(hmemE e he).1, (hmemE e he).2])]
    exact getFlow_eq_edges_lookup h x y

end

/-! ### non-vacuity: a concrete three-compartment system -/

section
local instance : ExprLike Int := ⟨fun e => e == 0⟩

private def cDepot : Comp Int := ⟨"DEPOT", 1, [.bolus 100 1], 0, 0, 1⟩
private def cCentral : Comp Int := ⟨"CENTRAL", 2, [], 0, 0, 1⟩
private def cPeri : Comp Int := ⟨"PERIPHERAL", 3, [], 0, 0, 1⟩
private def exOps : List (Op Int) :=
  [.addCompartment cPeri, .addCompartment cCentral, .addCompartment cDepot,
   .addFlow cCentral (.comp cPeri) 12, .addFlow cPeri (.comp cCentral) 21,
   .addFlow cDepot (.comp cCentral) 7, .addFlow cCentral .output 5]

-- the hypotheses of `dict_roundtrip` and `order_is_permutation` hold of it, and it is not trivial
example : (runOps exOps).WF := wf_reachable exOps
example : (orderCompartments (runOps exOps)).Perm (comps (runOps exOps)) := order_is_permutation_reachable exOps
example : (runOps exOps).nodes.head? = some Node.output := by decide +kernel
-- the hypotheses of `subs_spec` are satisfiable with some compartments changed and some not
private def exF (n : Node Int) : Node Int :=
  if n = .comp cDepot then .comp { cDepot with doses := [.bolus 200 1] }
  else if n = .comp cPeri then .comp { cPeri with lagTime := 9 } else n
example : (∀ n ∈ comps (runOps exOps), exF n ≠ n → exF n ∉ (runOps exOps).nodes)
    ∧ (((comps (runOps exOps)).filter (fun n => decide (exF n ≠ n))).map exF).Nodup
    ∧ ((comps (runOps exOps)).filter (fun n => decide (exF n ≠ n))).length = 2 := by decide +kernel
example : ∃ ops : List (Op Int), (comps (runOps ops)).length = 3 ∧ (runOps ops).edges.length = 4 :=
  ⟨exOps, by decide +kernel⟩
end

end Pharmpy.C05
