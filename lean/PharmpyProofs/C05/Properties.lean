import PharmpyProofs.C05.Lemmas
namespace Pharmpy.C05
theorem placeholder_nodes_empty : (Graph.empty : Graph Nat Nat).nodes = [] := rfl
end Pharmpy.C05
