import PharmpyProofs.C05.GraphLemmas
/-
  Every builder operation (and `subs`, and the dict round trip) keeps the graph
  well formed, hence so does every operation sequence.
-/
namespace Pharmpy.C05
open Graph
variable {ε : Type} [DecidableEq ε]

theorem WF_newBuilder : (newBuilder : CGraph ε).WF := WF_addNode WF_empty _

theorem WF_relabelE {g g' : CGraph ε} (h : g.WF) (m : List (Node ε × Node ε))
    (hr : relabelE g m = .ok g') : g'.WF := by
  unfold relabelE at hr
  cases hm : g.relabel m with
  | none => simp [hm] at hr
  | some g'' =>
    simp only [hm, Except.ok.injEq] at hr
    subst hr
    exact WF_relabel h m hm

theorem WF_foldl_addNodes (l : List (Node ε)) : ∀ {g : CGraph ε}, g.WF →
    (l.foldl (fun g n => if n.isOutput then g else g.addNode n) g).WF := by
  induction l with
  | nil => intro g h; exact h
  | cons n l ih =>
    intro g h
    simp only [List.foldl_cons]
    apply ih
    split
    · exact h
    · exact WF_addNode h n

theorem WF_foldl_addEdges' {β : Type} (l : List β) (fu fv : β → Node ε) (fr : β → ε) : ∀ {g : CGraph ε}, g.WF →
    (l.foldl (fun g e => g.addEdge (fu e) (fv e) (fr e)) g).WF := by
  induction l with
  | nil => intro g h; exact h
  | cons e l ih => intro g h; exact ih (WF_addEdge h _ _ _)

theorem WF_fromDict (d : List (Node ε) × List (Nat × Nat × ε)) : (fromDict d).WF := by
  unfold fromDict
  exact WF_foldl_addEdges' d.2 _ _ _ (WF_foldl_addNodes d.1 WF_newBuilder)

theorem WF_apply {g g' : CGraph ε} (h : g.WF) (op : Op ε) (hr : op.apply g = .ok g') : g'.WF := by
  cases op with
  | addCompartment c =>
    simp only [Op.apply, Except.ok.injEq] at hr; subst hr; exact WF_addNode h _
  | removeCompartment c =>
    simp only [Op.apply, removeCompartment] at hr
    split at hr
    · simp only [Except.ok.injEq] at hr; subst hr; exact WF_removeNode h _
    · cases hr
  | addFlow s d r =>
    simp only [Op.apply, Except.ok.injEq] at hr; subst hr; exact WF_addEdge h _ _ _
  | removeFlow s d =>
    simp only [Op.apply, removeFlow] at hr
    split at hr
    · simp only [Except.ok.injEq] at hr; subst hr; exact WF_removeEdge h _ _
    · cases hr
  | moveDose s d a =>
    simp only [Op.apply, moveDose] at hr
    split at hr
    · cases hr
    · exact WF_relabelE h _ hr
  | setDose c ds => exact WF_relabelE h _ hr
  | addDose c ds => exact WF_relabelE h _ hr
  | removeDose c a => exact WF_relabelE h _ hr
  | setLagTime c e => exact WF_relabelE h _ hr
  | setBioavailability c e => exact WF_relabelE h _ hr
  | setInput c e => exact WF_relabelE h _ hr
  | subs rates table => exact WF_relabelE (WF_mapRates h _) _ hr
  | roundtrip =>
    simp only [Op.apply, Except.ok.injEq] at hr; subst hr; exact WF_fromDict _

theorem WF_step {g : CGraph ε} (h : g.WF) (op : Op ε) : (op.step g).WF := by
  unfold Op.step
  split
  · rename_i g' hg; exact WF_apply h op hg
  · exact h

theorem WF_runOps (ops : List (Op ε)) : (runOps ops).WF := by
  unfold runOps
  suffices ∀ (g : CGraph ε), g.WF → (ops.foldl Op.step g).WF from this _ WF_newBuilder
  induction ops with
  | nil => intro g h; exact h
  | cons op ops ih => intro g h; exact ih _ (WF_step h op)

end Pharmpy.C05
