import PharmpyProofs.C12.Lemmas
/-
  C12 — doses: "every component generated or reachable by transformations converts to a dictionary
  and back to an equal object" and "the key differs whenever statements differ", for the dose
  components (`Bolus`, `Infusion`, `Compartment`) reached through `Infusion.create` and `subs`.

  `f : E → E` is `Expr.subs(substitutions)`: an arbitrary function, in particular one sending a
  symbol to the integer expression 0.  `truthy : E → Bool` is `Expr.__bool__` (`expr != 0`).
-/
namespace Pharmpy.C12

section
variable {E M : Type} {c : Codec E M}

/-! ### `to_dict` separates doses: different doses, different dicts (hence different keys) -/

theorem to_dict_injective_dose (h : c.Lawful) (a b : Dose E) (heq : a.toDict c = b.toDict c) : a = b := by
  have ha := Dose.from_to h a
  have hb := Dose.from_to h b
  rw [heq, hb] at ha
  exact (Option.some.inj ha).symm

theorem to_dict_injective_compartment (h : c.Lawful) (a b : Compartment E) (heq : a.toDict c = b.toDict c) :
    a = b := by
  have ha := Compartment.from_to h a
  have hb := Compartment.from_to h b
  rw [heq, hb] at ha
  exact (Option.some.inj ha).symm

/-- an infusion given by its rate and one given by its duration never share a dict, whatever the
    two expressions are (equal, zero, ...) -/
theorem to_dict_separates_rate_from_duration (a a' : E) (n n' : Int) (r d : E) :
    Infusion.toDict c { amount := a, admid := n, rate := some r, duration := none }
      ≠ Infusion.toDict c { amount := a', admid := n', rate := none, duration := some d } := by
  simp [Infusion.toDict, serOpt]

/-! ### Doses reached by `create` and `subs` -/

/-- `Infusion.create` succeeds exactly when one of rate / duration is given, and stores the fields as given -/
theorem infusion_create_spec (a : E) (n : Int) (r d : Option E) :
    Infusion.create a n r d
      = if r.isSome != d.isSome then some { amount := a, admid := n, rate := r, duration := d } else none := by
  cases r <;> cases d <;> simp [Infusion.create]

theorem infusion_create_wf (a : E) (n : Int) (r d : Option E) (i : Infusion E)
    (hc : Infusion.create a n r d = some i) : i.WF = true := by
  cases r <;> cases d <;> simp [Infusion.create] at hc <;> subst hc <;> simp [Infusion.WF]

/-- `subs` keeps the invariant and keeps *which* of rate / duration is given, for every substitution -/
theorem infusion_subs_wf (f : E → E) (i i' : Infusion E) (hs : i.subs f = some i') :
    i'.WF = true ∧ i'.rate.isSome = i.rate.isSome := by
  obtain ⟨a, n, r, d⟩ := i
  cases r <;> cases d <;> simp [Infusion.subs] at hs <;> subst hs <;> simp [Infusion.WF]

/-- `subs` succeeds on every well-formed infusion -/
theorem infusion_subs_total (f : E → E) (i : Infusion E) (hwf : i.WF = true) : (i.subs f).isSome = true := by
  obtain ⟨a, n, r, d⟩ := i
  cases r <;> cases d <;> simp_all [Infusion.subs, Infusion.WF]

/-- the round trip holds for every dose reached by any substitution (in particular one that
    turns the rate or the duration into 0) -/
theorem from_to_dict_dose_subs (h : c.Lawful) (f : E → E) (d d' : Dose E) (_hs : d.subs f = some d') :
    Dose.fromDict c (d'.toDict c) = some d' :=
  Dose.from_to h d'

/-- and in the dict of the substituted infusion the rate is `null` exactly when the original had no
    rate: the value the substitution produces plays no role -/
theorem infusion_subs_to_dict_presence (f : E → E) (i i' : Infusion E) (hs : i.subs f = some i') :
    ((i'.toDict c).get? "rate" = some .null ↔ i.rate = none) ∧
    ((i'.toDict c).get? "duration" = some .null ↔ i.rate ≠ none) := by
  obtain ⟨a, n, r, d⟩ := i
  cases r <;> cases d <;> simp [Infusion.subs] at hs <;> subst hs <;>
    simp [Infusion.toDict, serOpt, Json.get?, List.lookup]

/-! ### Why the serialiser must test presence, not value -/

/-- `to_dict` is the presence-testing instance of the family -/
theorem to_dict_by_presence (i : Infusion E) : Infusion.toDictBy c (fun _ => true) i = i.toDict c := by
  obtain ⟨a, n, r, d⟩ := i
  cases r <;> cases d <;> simp [Infusion.toDictBy, Infusion.toDict, serOptBy, serOpt]

/-- Any value test that is false on some expression `z` (for `Expr.__bool__`: the integer 0) makes two
    different infusions share one dict — hence one `ModelHash` — ... -/
theorem to_dict_value_test_collision (truthy : E → Bool) (z : E) (hz : truthy z = false) (a : E) (n : Int) :
    Infusion.toDictBy c truthy { amount := a, admid := n, rate := some z, duration := none }
      = Infusion.toDictBy c truthy { amount := a, admid := n, rate := none, duration := some z }
    ∧ ({ amount := a, admid := n, rate := some z, duration := none } : Infusion E)
      ≠ { amount := a, admid := n, rate := none, duration := some z } := by
  simp [Infusion.toDictBy, serOptBy, hz]

/-- ... and breaks the round trip on both of them. -/
theorem to_dict_value_test_not_roundtrip (truthy : E → Bool) (z : E) (hz : truthy z = false) (a : E) (n : Int)
    (i : Infusion E) (hi : i = { amount := a, admid := n, rate := some z, duration := none } ∨
                           i = { amount := a, admid := n, rate := none, duration := some z }) :
    Infusion.fromDict c (Infusion.toDictBy c truthy i) ≠ some i := by
  rcases hi with rfl | rfl <;>
    simp [Infusion.fromDict, Infusion.toDictBy, serOptBy, hz, deStr, deOptStr, getInt, Json.get?, List.lookup,
      Json.asStr?, Json.asInt?] <;>
    intro x <;> cases hde : c.de (c.ser a) <;> simp [hde] at x
end

/-! ### Non-vacuity -/

example : Infusion.create "AMT" 1 none (some "D1") = some ⟨"AMT", 1, none, some "D1"⟩ := by decide

example : (Infusion.subs (fun e => if e = "D1" then "0" else e) ⟨"AMT", 1, none, some "D1"⟩)
    = some ⟨"AMT", 1, none, some "0"⟩ := by decide

example : Infusion.create "AMT" 1 (some "R1") (some "D1") = none := by decide

end Pharmpy.C12
