import PharmpyProofs.C12.CanonLemmas
import PharmpyProofs.C12.DerivLemmas
/-
  C12 — Serialisation round-trips; model hashes identify models.

  Property theorems about the executable model `PharmpyModel/C12/{Json,Model,Hash,Spec}.lean`.
  `c : Codec E M` is the expression/matrix printer-parser pair (`sympy.srepr` / `parse_expr`);
  `c.Lawful` is its round-trip law (monitored on the real sympy for every generated expression).
  All statements quantify over values of every size (lists of parameters, statements,
  compartments, flows, distributions, steps, columns of any length).
-/
namespace Pharmpy.C12

section
variable {E M : Type} [DecidableEq E] {c : Codec E M}

/-! ### `from_dict (to_dict x) = x` -/

omit [DecidableEq E] in
theorem from_to_dict_dose (h : c.Lawful) (d : Dose E) : Dose.fromDict c (d.toDict c) = some d :=
  Dose.from_to h d

omit [DecidableEq E] in
theorem from_to_dict_compartment (h : c.Lawful) (k : Compartment E) :
    Compartment.fromDict c (k.toDict c) = some k :=
  Compartment.from_to h k

/-- `CompartmentalSystem`: any number of compartments and flows, any insertion order. -/
theorem from_to_dict_compartmental_system (h : c.Lawful) (s : CompSys E) (hwf : s.g.WF) :
    CompSys.fromDict c (s.toDict c) = some s :=
  CompSys.from_to h s hwf

theorem from_to_dict_statements (h : c.Lawful) (ss : List (Stmt E)) (hg : ∀ s ∈ ss, s.Good) :
    Statements.fromDict c (Statements.toDict c ss) = some ss :=
  Statements.from_to h ss hg

theorem from_to_dict_parameters (ps : List Parameter) :
    Parameters.fromDict (Parameters.toDict ps) = some ps :=
  Parameters.from_to ps

omit [DecidableEq E] in
theorem from_to_dict_random_variables (h : c.Lawful) (r : RandomVariables E M) :
    RandomVariables.fromDict c (r.toDict c) = some r :=
  RandomVariables.from_to h r

/-- `ExecutionSteps`, full statement (true since /repo 118f2d1: derivatives are written as names
    and rebuilt as symbols): any number of steps, any derivatives. -/
theorem from_to_dict_steps (ss : List (Step E)) :
    Steps.fromDict (E := E) (Steps.toDict ss) = some ss :=
  Steps.from_to ss

/-- `DataInfo`: everything but the path, which `to_dict` deliberately does not write. -/
theorem from_to_dict_datainfo (di : DataInfo) :
    DataInfo.fromDict di.toDict = some { di with path := none } :=
  DataInfo.from_to di

/-- `initial_individual_estimates` (a DataFrame of any shape: one row per label, one cell per column):
    `pd.DataFrame(**split)` of `df.to_dict(orient='split')` gives the frame back, every label and
    cell unchanged.  Since /repo 31739c1 the dict has string keys only (`individual_estimates_keys`),
    so this is also the round trip through the JSON text. -/
theorem from_to_dict_individual_estimates (ie : IE) (hwf : ie.WF) : IE.fromDict ie.toDict = some ie :=
  IE.from_to ie hwf

/-- the dict of the individual estimates is JSON as it is: its keys are these three strings
    (before 31739c1 the integer index labels were dict keys, which JSON turns into strings) -/
theorem individual_estimates_keys (ie : IE) : ie.toDict.keys = ["index", "columns", "data"] := rfl

/-- `Model`: the content comes back; name, description and dataset path are reset. -/
theorem from_to_dict (h : c.Lawful) (m : Model E M) (hg : m.Good) :
    Model.fromDict c (m.toDict c) = some m.blank :=
  Model.from_to h m hg

/-- `to_dict ∘ from_dict ∘ to_dict = to_dict`: re-serialising a reloaded model gives the same dict
    (hence the same hash). -/
theorem to_dict_stable (h : c.Lawful) (m : Model E M) (hg : m.Good) :
    (Model.fromDict c (m.toDict c)).map (Model.toDict c) = some (m.toDict c) := by
  rw [Model.from_to h m hg]
  simp [Model.toDict_blank]

/-! ### The hash pre-image -/

variable {R : Type}

/-- name, description and dataset path do not occur in the pre-image -/
theorem encode_ignores_metadata (rd : R → Nat) (dumps : Json → String) (ds : Dataset R) (m : Model E M)
    (name description : String) (path : Option String) :
    encode c rd dumps ds { m with name := name, description := description,
                                  datainfo := { m.datainfo with path := path } }
      = encode c rd dumps ds m := by
  simp [encode, Model.blank]

/-- nor do they occur in `to_dict` itself -/
theorem to_dict_ignores_metadata (m : Model E M) (name description : String) (path : Option String) :
    Model.toDict c { m with name := name, description := description,
                            datainfo := { m.datainfo with path := path } } = m.toDict c := by
  simp [Model.toDict, DataInfo.toDict]

/-- Distinct parameters / random variables / statements / steps / datainfo / data give distinct
    pre-images: the pre-image determines the dataset and the model content. -/
theorem encode_injective (h : c.Lawful) (rd : R → Nat) (dumps : Json → String)
    (hrd : ∀ a b, rd a = rd b → a = b) (hdumps : ∀ a b, dumps a = dumps b → a = b)
    (ds ds' : Dataset R) (m m' : Model E M) (hg : m.Good) (hg' : m'.Good)
    (heq : encode c rd dumps ds m = encode c rd dumps ds' m') :
    ds = ds' ∧ m.blank = m'.blank := by
  obtain ⟨rows, cols, idx, dts⟩ := ds
  obtain ⟨rows', cols', idx', dts'⟩ := ds'
  simp only [encode, datasetChunks, List.append_assoc, List.cons_append, List.nil_append] at heq
  have hmap : ∀ (xs : List R), xs.map (fun r => Chunk.row (rd r)) = (xs.map rd).map Chunk.row := by
    intro xs; simp [List.map_map, Function.comp_def]
  rw [hmap rows, hmap rows'] at heq
  obtain ⟨h1, h2, h3⟩ := rows_append_inj Chunk.row (fun n => ⟨n, rfl⟩) _ _ _ _ _ _ heq
  have hrows : rows = rows' := by
    have h1' : rows.map rd = rows'.map rd :=
      map_inj_of_inj Chunk.row (fun a b hab => by simpa using hab) _ _ h1
    exact map_inj_of_inj rd hrd _ _ h1'
  simp only [List.cons.injEq, Chunk.text.injEq, and_true] at h3
  obtain ⟨h4, h5, h6⟩ := h3
  have hd := hdumps _ _ h6
  have e1 := Model.from_to h m.blank (Model.good_blank m hg)
  have e2 := Model.from_to h m'.blank (Model.good_blank m' hg')
  rw [hd, e2] at e1
  simp only [Model.blank_blank, Option.some.injEq] at e1
  exact ⟨by simp [hrows, h2, h4, h5], e1.symm⟩

/-- The numeric leaf encoder as an explicit hypothesis.  `json.dumps` is a structural printer
    `dumpsS` after `mapFlt num`, `num` the text written for a float.  If `num` is injective on
    floats (as `float.__repr__` is: it round-trips; checked leaf by leaf on every generated model)
    and the structural printer is injective, the pre-image determines dataset and content. -/
theorem encode_injective_leaf (h : c.Lawful) (rd : R → Nat) (num : Flt → String) (dumpsS : Json → String)
    (hrd : ∀ a b, rd a = rd b → a = b) (hnum : ∀ a b, num a = num b → a = b)
    (hS : ∀ a b, dumpsS a = dumpsS b → a = b)
    (ds ds' : Dataset R) (m m' : Model E M) (hg : m.Good) (hg' : m'.Good)
    (heq : encode c rd (fun j => dumpsS (j.mapFlt num)) ds m = encode c rd (fun j => dumpsS (j.mapFlt num)) ds' m') :
    ds = ds' ∧ m.blank = m'.blank :=
  encode_injective h rd _ hrd (fun a b hab => Json.mapFlt_inj num hnum a b (hS _ _ hab)) ds ds' m m' hg hg' heq

/-- The hypothesis is necessary: with a leaf encoder that maps two different floats to the same
    text (rounding to a fixed number of decimals, say) two models with different content — here:
    one individual estimate — have the same pre-image, for every dataset. -/
theorem encode_lossy_leaf_collision (rd : R → Nat) (num : Flt → String) (dumpsS : Json → String)
    (a b : Flt) (hab : a ≠ b) (hnum : num a = num b) (ds : Dataset R) (m : Model E M) :
    let ma := { m with initialIndividualEstimates := some { index := [.int 1], columns := ["ETA_1"], data := [[.flt a]] } }
    let mb := { m with initialIndividualEstimates := some { index := [.int 1], columns := ["ETA_1"], data := [[.flt b]] } }
    ma.blank ≠ mb.blank ∧
    encode c rd (fun j => dumpsS (j.mapFlt num)) ds ma = encode c rd (fun j => dumpsS (j.mapFlt num)) ds mb := by
  constructor
  · intro h
    have := congrArg (fun x => x.initialIndividualEstimates.map (fun ie => ie.data.map (fun r => r.map Json.floats))) h
    simp [Model.blank, Json.floats] at this
    exact hab this
  · simp [encode, Model.blank, Model.toDict, ieOptToDict, IE.toDict, Json.mapFlt, Json.mapFltObj, Json.mapFltList, hnum]

/-- conversely, equal data and equal content give equal pre-images (so the key is a function of
    content and data only) -/
theorem encode_congr (rd : R → Nat) (dumps : Json → String) (ds : Dataset R) (m m' : Model E M)
    (hm : m.blank = m'.blank) : encode c rd dumps ds m = encode c rd dumps ds m' := by
  simp [encode, hm]

end

/-! ### The full statements that are false of the code, with concrete witnesses -/

/-- the two witness systems satisfy the graph invariant -/
theorem witness_systems_wf : wSys1.g.WF ∧ wSys2.g.WF := by
  constructor <;> decide

/-- F4. `encode_canonical` (content-equal models have equal pre-images) is false:
    CENTRAL-then-PERIPHERAL and PERIPHERAL-then-CENTRAL are `==` but their `to_dict` differ. -/
theorem encode_not_canonical_witness :
    wSys1.eqv wSys2 = true ∧ wSys1.toDict strCodec ≠ wSys2.toDict strCodec := by
  constructor
  · decide
  · intro h
    have h' := congrArg (fun j => (j.get? "compartments").bind
      (fun a => a.asArr?.map (fun l => l.map (fun k => (k.get? "name").bind Json.asStr?)))) h
    revert h'
    decide

/-- The pre-118f2d1 variant (`to_dict` wrote `str(tuple)`, `from_dict` passed the value through):
    what came back as the `derivatives` field was not the field that was stored. -/
theorem from_to_dict_steps_pre_repair_witness :
    derivsToJsonPre pyTupleStr wStep.derivatives ≠ derivsToJson wStep.derivatives := by
  simp [derivsToJsonPre, derivsToJson, wStep]

/-! ### The intended repair: emit compartments and flows in a canonical order -/

section
variable {E M : Type} [DecidableEq E] {c : Codec E M}

/-- With the canonical emission order (`CompSys.canon`: `output` first, compartments by name, each
    adjacency by successor name) two `==` systems serialise identically, whatever the insertion
    orders of nodes and edges were (any number of compartments and flows). -/
theorem encode_repaired_canonical (s1 s2 : CompSys E) (h1 : s1.g.NamesDistinct) (h2 : s2.g.NamesDistinct)
    (h : s1.eqv s2 = true) : s1.canon.toDict c = s2.canon.toDict c := by
  simp only [CompSys.eqv, Bool.and_eq_true, decide_eq_true_eq] at h
  have hg := canon_eq_of_eqv s1.g s2.g h1 h2 h.2
  simp [CompSys.canon, CompSys.toDict, hg, h.1]

/-- The code as it is: `==` systems serialise identically when both already are in canonical order. -/
theorem encode_canonical_partial (s1 s2 : CompSys E) (h1 : s1.g.NamesDistinct) (h2 : s2.g.NamesDistinct)
    (hc1 : s1.canon = s1) (hc2 : s2.canon = s2) (h : s1.eqv s2 = true) : s1.toDict c = s2.toDict c := by
  have := encode_repaired_canonical (c := c) s1 s2 h1 h2 h
  rwa [hc1, hc2] at this

/-- The repaired key is a function of content: two models that are `==` (statements pairwise `==`
    with compartmental systems compared by content, everything else equal; name, description and
    path free) and share the dataset have the same repaired pre-image — whatever the construction
    order of their compartmental systems was. -/
theorem encode_repaired_canonical_model {R : Type} (rd : R → Nat) (dumps : Json → String) (ds : Dataset R)
    (m m' : Model E M) (h : m.SameContent m') :
    encodeRepaired c rd dumps ds m = encodeRepaired c rd dumps ds m' := by
  obtain ⟨hs, hrest⟩ := h
  have hmap : m.statements.map Stmt.canon = m'.statements.map Stmt.canon :=
    stmts_canon_eq _ _ hs Stmt.canon_eq_of_sameContent
  have : m.canonical.blank = m'.canonical.blank := by
    simp only [Model.canonical, Model.blank, Model.mk.injEq] at hrest ⊢
    simp [hmap, hrest]
  simp [encodeRepaired, encode, this]

end

/-- the repair removes the F4 witness -/
theorem encode_repaired_canonical_on_witness : wSys1.canon.toDict strCodec = wSys2.canon.toDict strCodec :=
  encode_repaired_canonical wSys1 wSys2 (by decide) (by decide) (by decide)

/-! ### Construction-order independence: `EstimationStep._canonicalize_derivatives` -/

/-- The canonical form does not depend on the order of the arguments inside each derivative
    (any number of derivatives of any order): `σ` rearranges every derivative arbitrarily. -/
theorem canonicalize_derivatives_inner_invariant (σ : List String → List String) (hσ : ∀ d, (σ d).Perm d)
    (ds : List (List String)) : canonDerivs (ds.map σ) = canonDerivs ds :=
  canonDerivs_inner σ hσ ds

/-- It does not depend on the order of the list of derivatives either — provided no two
    derivatives share their first (sorted) argument: the code sorts on `str(der[0])` only. -/
theorem canonicalize_derivatives_outer_invariant_partial (ds ds' : List (List String)) (hp : ds.Perm ds')
    (hnd : ((ds.map sortNames).map List.head?).Nodup) : canonDerivs ds = canonDerivs ds' :=
  canonDerivs_outer ds ds' hp hnd

/-- Without the side condition it is false: d/dEPS_1 and d²/(dEPS_1 dETA_1) — exactly what the default
    `add_derivative(model)` requests — stay in the order in which they were given. -/
theorem canonicalize_derivatives_outer_false_witness :
    [["EPS_1"], ["EPS_1", "ETA_1"]].Perm [["EPS_1", "ETA_1"], ["EPS_1"]] ∧
    canonDerivs [["EPS_1"], ["EPS_1", "ETA_1"]] ≠ canonDerivs [["EPS_1", "ETA_1"], ["EPS_1"]] := by
  constructor
  · exact List.Perm.swap _ _ _
  · decide

theorem canonicalize_derivatives_idempotent (ds r : List (List String)) (h : canonDerivs ds = some r) :
    canonDerivs r = some r :=
  canonDerivs_idem ds r h

/-- The repair (outer sort on the whole sorted name tuple) is invariant under permuting the list and
    permuting every inner tuple, and idempotent. -/
theorem canonicalize_derivatives_repaired_invariant (σ : List String → List String) (hσ : ∀ d, (σ d).Perm d)
    (ds ds' : List (List String)) (hp : ds.Perm ds') :
    canonDerivsRepaired (ds.map σ) = canonDerivsRepaired ds' :=
  canonDerivsRepaired_inv σ hσ ds ds' hp

theorem canonicalize_derivatives_repaired_idempotent (ds : List (List String)) :
    canonDerivsRepaired (canonDerivsRepaired ds) = canonDerivsRepaired ds :=
  canonDerivsRepaired_idem ds

/-! ### Non-vacuity: the hypotheses are satisfiable on non-trivial inputs -/

example : canonDerivs [["ETA_2"], ["ETA_1", "EPS_1"]] = canonDerivs [["EPS_1", "ETA_1"], ["ETA_2"]] := by decide

example : strCodec.Lawful := ⟨fun _ => rfl, fun _ => rfl⟩

example : CompSys.fromDict strCodec (wSys2.toDict strCodec) = some wSys2 :=
  from_to_dict_compartmental_system ⟨fun _ => rfl, fun _ => rfl⟩ wSys2 witness_systems_wf.2

example : (Stmt.ode wSys1).Good := witness_systems_wf.1

example : Steps.fromDict (E := String) (Steps.toDict [.est wStep]) = some [.est wStep] :=
  from_to_dict_steps [.est wStep]

end Pharmpy.C12
