import PharmpyProofs.C12.Lemmas
namespace Pharmpy.C12
variable {E M : Type} {c : Codec E M}

theorem from_to_dict_dose (h : c.Lawful) (d : Dose E) : Dose.fromDict c (d.toDict c) = some d :=
  Dose.from_to h d

end Pharmpy.C12
