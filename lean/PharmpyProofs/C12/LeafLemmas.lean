import PharmpyProofs.C12.Lemmas
/-
  C12 — numeric leaves: an injective leaf encoder keeps the dict injective; the DataFrame of
  initial individual estimates round-trips.
-/
namespace Pharmpy.C12

mutual
theorem Json.mapFlt_inj (num : Flt → String) (hnum : ∀ a b, num a = num b → a = b) :
    ∀ (a b : Json), a.mapFlt num = b.mapFlt num → a = b
  | .null, b => by cases b <;> simp [Json.mapFlt]
  | .bool x, b => by cases b <;> simp [Json.mapFlt]
  | .int x, b => by cases b <;> simp [Json.mapFlt]
  | .flt x, b => by
    cases b <;> simp [Json.mapFlt]
    exact hnum _ _
  | .str x, b => by cases b <;> simp [Json.mapFlt]
  | .arr xs, b => by
    cases b <;> simp [Json.mapFlt]
    exact Json.mapFltList_inj num hnum xs _
  | .obj kvs, b => by
    cases b <;> simp [Json.mapFlt]
    exact Json.mapFltObj_inj num hnum kvs _
theorem Json.mapFltList_inj (num : Flt → String) (hnum : ∀ a b, num a = num b → a = b) :
    ∀ (a b : List Json), Json.mapFltList num a = Json.mapFltList num b → a = b
  | [], b => by cases b <;> simp [Json.mapFltList]
  | x :: xs, b => by
    cases b with
    | nil => simp [Json.mapFltList]
    | cons y ys =>
      simp only [Json.mapFltList, List.cons.injEq]
      intro h
      exact ⟨Json.mapFlt_inj num hnum x y h.1, Json.mapFltList_inj num hnum xs ys h.2⟩
theorem Json.mapFltObj_inj (num : Flt → String) (hnum : ∀ a b, num a = num b → a = b) :
    ∀ (a b : List (String × Json)), Json.mapFltObj num a = Json.mapFltObj num b → a = b
  | [], b => by
    cases b with
    | nil => simp
    | cons y ys => obtain ⟨k, v⟩ := y; simp [Json.mapFltObj]
  | (k, v) :: r, b => by
    cases b with
    | nil => simp [Json.mapFltObj]
    | cons y ys =>
      obtain ⟨k', v'⟩ := y
      simp only [Json.mapFltObj, List.cons.injEq, Prod.mk.injEq]
      intro h
      exact ⟨⟨h.1.1, Json.mapFlt_inj num hnum v v' h.1.2⟩, Json.mapFltObj_inj num hnum r ys h.2⟩
end

theorem ieCol_from_to (index : List String) (c : String × List Json) (h : c.2.length = index.length) :
    ieColOf index (c.1, Json.obj (index.zip c.2)) = some c := by
  have h1 : (index.zip c.2).map Prod.fst = index := List.map_fst_zip (by omega)
  have h2 : (index.zip c.2).map Prod.snd = c.2 := List.map_snd_zip (by omega)
  simp [ieColOf, h1, h2]

theorem IE.from_to (ie : IE) (hwf : ie.WF) : IE.fromDict ie.toDict = some ie := by
  obtain ⟨index, cols⟩ := ie
  obtain ⟨hlen, hempty⟩ := hwf
  cases cols with
  | nil =>
    have : index = [] := hempty rfl
    simp [IE.toDict, IE.fromDict, this]
  | cons c0 rest =>
    have hall := allSome_map (fun (c : String × List Json) => (c.1, Json.obj (index.zip c.2))) (ieColOf index)
      (c0 :: rest) (fun c hc => ieCol_from_to index c (hlen c hc))
    have hc0 : c0.2.length = index.length := hlen c0 (by simp)
    have h1 : (index.zip c0.2).map Prod.fst = index := List.map_fst_zip (by omega)
    simp only [List.map_cons] at hall
    simp [IE.toDict, IE.fromDict, h1, hall]

theorem ieOpt_from_to (o : Option IE) (hwf : ∀ ie, o = some ie → ie.WF) :
    ieOptFromDict (ieOptToDict o) = some o := by
  cases o with
  | none => rfl
  | some ie =>
    have := IE.from_to ie (hwf ie rfl)
    cases hj : ie.toDict <;> simp [ieOptToDict, ieOptFromDict, hj] at this ⊢ <;> try exact this
    all_goals simp [IE.fromDict, hj] at this

end Pharmpy.C12
