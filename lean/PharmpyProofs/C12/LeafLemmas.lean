import PharmpyProofs.C12.Lemmas
/-
  C12 — numeric leaves: an injective leaf encoder keeps the dict injective; the DataFrame of
  initial individual estimates round-trips.
-/
namespace Pharmpy.C12

mutual
theorem Json.mapFlt_inj (num : Flt → String) (hnum : ∀ a b, num a = num b → a = b) :
    ∀ (a b : Json), a.mapFlt num = b.mapFlt num → a = b
  | .null, b => by cases b <;> simp [Json.mapFlt]
  | .bool x, b => by cases b <;> simp [Json.mapFlt]
  | .int x, b => by cases b <;> simp [Json.mapFlt]
  | .flt x, b => by
    cases b <;> simp [Json.mapFlt]
    exact hnum _ _
  | .str x, b => by cases b <;> simp [Json.mapFlt]
  | .arr xs, b => by
    cases b <;> simp [Json.mapFlt]
    exact Json.mapFltList_inj num hnum xs _
  | .obj kvs, b => by
    cases b <;> simp [Json.mapFlt]
    exact Json.mapFltObj_inj num hnum kvs _
theorem Json.mapFltList_inj (num : Flt → String) (hnum : ∀ a b, num a = num b → a = b) :
    ∀ (a b : List Json), Json.mapFltList num a = Json.mapFltList num b → a = b
  | [], b => by cases b <;> simp [Json.mapFltList]
  | x :: xs, b => by
    cases b with
    | nil => simp [Json.mapFltList]
    | cons y ys =>
      simp only [Json.mapFltList, List.cons.injEq]
      intro h
      exact ⟨Json.mapFlt_inj num hnum x y h.1, Json.mapFltList_inj num hnum xs ys h.2⟩
theorem Json.mapFltObj_inj (num : Flt → String) (hnum : ∀ a b, num a = num b → a = b) :
    ∀ (a b : List (String × Json)), Json.mapFltObj num a = Json.mapFltObj num b → a = b
  | [], b => by
    cases b with
    | nil => simp
    | cons y ys => obtain ⟨k, v⟩ := y; simp [Json.mapFltObj]
  | (k, v) :: r, b => by
    cases b with
    | nil => simp [Json.mapFltObj]
    | cons y ys =>
      obtain ⟨k', v'⟩ := y
      simp only [Json.mapFltObj, List.cons.injEq, Prod.mk.injEq]
      intro h
      exact ⟨⟨h.1.1, Json.mapFlt_inj num hnum v v' h.1.2⟩, Json.mapFltObj_inj num hnum r ys h.2⟩
end

theorem IE.from_to (ie : IE) (hwf : ie.WF) : IE.fromDict ie.toDict = some ie := by
  obtain ⟨index, columns, data⟩ := ie
  obtain ⟨h1, h2⟩ := hwf
  have hd := allSome_map' Json.arr Json.asArr? data (fun _ => rfl)
  have hc := allSome_map' Json.str Json.asStr? columns (fun _ => rfl)
  simp only at h1 h2
  simp [IE.fromDict, IE.toDict, getArr, Json.get?, List.lookup, Json.asArr?, hd, hc, h1]
  simpa using h2

theorem ieOpt_from_to (o : Option IE) (hwf : ∀ ie, o = some ie → ie.WF) :
    ieOptFromDict (ieOptToDict o) = some o := by
  cases o with
  | none => rfl
  | some ie =>
    have := IE.from_to ie (hwf ie rfl)
    cases hj : ie.toDict <;> simp [ieOptToDict, ieOptFromDict, hj] at this ⊢ <;> try exact this
    all_goals simp [IE.fromDict, getArr, Json.get?, hj] at this

end Pharmpy.C12
