import PharmpyProofs.C12.GraphLemmas
import PharmpyProofs.C12.LeafLemmas
/-
  C12 — statements, steps, model: `from_dict ∘ to_dict`, and list lemmas for the hash pre-image.
-/
namespace Pharmpy.C12
section
variable {E M : Type} [DecidableEq E] {c : Codec E M}

theorem Stmt.from_to (h : c.Lawful) (s : Stmt E) (hg : s.Good) : Stmt.fromDict c (s.toDict c) = some s := by
  cases s with
  | assign sy ex =>
    simp [Stmt.fromDict, Stmt.toDict, deStr, Json.get?, List.lookup, Json.asStr?, h.rt]
  | ode cs =>
    have := CompSys.from_to h cs hg
    simp [Stmt.fromDict, Stmt.toDict, this]
    simp [CompSys.toDict, Json.get?, List.lookup]

theorem Statements.from_to (h : c.Lawful) (ss : List (Stmt E)) (hg : ∀ s ∈ ss, s.Good) :
    Statements.fromDict c (Statements.toDict c ss) = some ss := by
  have := allSome_map (Stmt.toDict c) (Stmt.fromDict c) ss (fun s hs => Stmt.from_to h s (hg s hs))
  simp [Statements.fromDict, Statements.toDict, getArr, Json.get?, List.lookup, Json.asArr?, this]

omit [DecidableEq E] in
theorem Step.from_to (s : Step E) : Step.fromDict s.toDict = some s := by
  cases s with
  | est e =>
    have := EstStep.from_to e
    simp [Step.fromDict, Step.toDict, this]
    simp [EstStep.toDict, Json.get?, List.lookup]
  | sim e =>
    have := SimStep.from_to e
    simp [Step.fromDict, Step.toDict, this]
    simp [SimStep.toDict, Json.get?, List.lookup]

omit [DecidableEq E] in
theorem Steps.from_to (ss : List (Step E)) :
    Steps.fromDict (E := E) (Steps.toDict ss) = some ss := by
  have := allSome_map' (Step.toDict (E := E)) (Step.fromDict (E := E)) ss Step.from_to
  simp [Steps.fromDict, Steps.toDict, getArr, Json.get?, List.lookup, Json.asArr?, this]

theorem Model.from_to (h : c.Lawful) (m : Model E M) (hg : m.Good) :
    Model.fromDict c (m.toDict c) = some m.blank := by
  obtain ⟨name, desc, ps, rvs, sts, steps, di, vt, dvs, ot, ie⟩ := m
  have h1 := Parameters.from_to ps
  have h2 := RandomVariables.from_to h rvs
  have h3 := Statements.from_to h sts hg.1
  have h7 := ieOpt_from_to ie hg.2
  have h4 := Steps.from_to steps
  have h5 := DataInfo.from_to di
  have h6 := allSome_map' (fun (p : E × E) => (c.ser p.1, Json.str (c.ser p.2)))
      (obsPairOf c) ot (by intro p; simp [obsPairOf, Json.asStr?, h.rt])
  simp [Model.fromDict, Model.toDict, Model.blank, Json.get?, List.lookup, Json.asObj?, h1, h2, h3, h4, h5, h6, h7]

/-- `to_dict` reads neither the name, nor the description, nor the dataset path -/
theorem Model.toDict_blank (m : Model E M) : m.blank.toDict c = m.toDict c := by
  simp [Model.toDict, Model.blank, DataInfo.toDict]

omit [DecidableEq E] in
theorem Model.blank_blank (m : Model E M) : m.blank.blank = m.blank := rfl

theorem Model.good_blank (m : Model E M) (hg : m.Good) : m.blank.Good := hg

omit [DecidableEq E] in
theorem map_inj_of_inj {α β : Type} (f : α → β) (hf : ∀ a b, f a = f b → a = b) :
    ∀ (xs ys : List α), xs.map f = ys.map f → xs = ys := by
  intro xs
  induction xs with
  | nil => intro ys h; cases ys with
    | nil => rfl
    | cons y ys => simp at h
  | cons x xs ih => intro ys h; cases ys with
    | nil => simp at h
    | cons y ys =>
      simp only [List.map_cons, List.cons.injEq] at h
      rw [hf x y h.1, ih ys h.2]

/-- a list of row chunks followed by a text chunk determines the rows -/
theorem rows_append_inj (f : Nat → Chunk) (hf : ∀ n, ∃ k, f n = .row k) :
    ∀ (xs ys : List Nat) (s s' : String) (r r' : List Chunk),
      xs.map f ++ Chunk.text s :: r = ys.map f ++ Chunk.text s' :: r' →
      xs.map f = ys.map f ∧ s = s' ∧ r = r' := by
  intro xs
  induction xs with
  | nil =>
    intro ys s s' r r' heq
    cases ys with
    | nil => simpa using heq
    | cons y ys =>
      obtain ⟨k, hk⟩ := hf y
      simp [hk] at heq
  | cons x xs ih =>
    intro ys s s' r r' heq
    cases ys with
    | nil =>
      obtain ⟨k, hk⟩ := hf x
      simp [hk] at heq
    | cons y ys =>
      simp only [List.map_cons, List.cons_append, List.cons.injEq] at heq
      obtain ⟨h1, h2⟩ := heq
      obtain ⟨h3, h4, h5⟩ := ih ys s s' r r' h2
      exact ⟨by simp [h1, h3], h4, h5⟩

end
end Pharmpy.C12
