import PharmpyProofs.C12.Lemmas
import PharmpyModel.C12.Spec
/-
  C12 — the networkx-graph part of `CompartmentalSystem.from_dict ∘ to_dict`:
  re-adding the nodes and then the edges, in the order `to_dict` lists them,
  rebuilds the ordered dict-of-dicts exactly.
-/
namespace Pharmpy.C12
section
variable {E : Type} [DecidableEq E]

abbrev Adj (E : Type) := List (Node E × E)

def keysOf (g : Graph E) : List (Node E) := g.map Prod.fst

theorem Graph.hasNode_iff (g : Graph E) (n : Node E) : g.hasNode n = true ↔ n ∈ g.map Prod.fst := by
  induction g with
  | nil => simp [Graph.hasNode]
  | cons p ps ih =>
    simp only [Graph.hasNode, List.any_cons, Bool.or_eq_true, List.map_cons, List.mem_cons] at *
    rw [ih]
    constructor
    · rintro (h | h)
      · left; exact (by simpa using h : p.1 = n).symm
      · right; exact h
    · rintro (h | h)
      · left; simp [h]
      · right; exact h

theorem Graph.addNode_of_mem (g : Graph E) (n : Node E) (h : n ∈ g.map Prod.fst) : g.addNode n = g := by
  simp [Graph.addNode, (Graph.hasNode_iff g n).2 h]

theorem Graph.addNode_of_not_mem (g : Graph E) (n : Node E) (h : n ∉ g.map Prod.fst) :
    g.addNode n = g ++ [(n, [])] := by
  have : g.hasNode n = false := by
    cases hh : g.hasNode n with
    | false => rfl
    | true => exact absurd ((Graph.hasNode_iff g n).1 hh) h
  simp [Graph.addNode, this]

theorem adjSet_of_not_mem (ss : Adj E) (v : Node E) (r : E) (h : v ∉ ss.map Prod.fst) :
    adjSet ss v r = ss ++ [(v, r)] := by
  induction ss with
  | nil => rfl
  | cons p ps ih =>
    obtain ⟨w, r'⟩ := p
    simp only [List.map_cons, List.mem_cons, not_or] at h
    have hw : ¬ w = v := fun e => h.1 e.symm
    simp [adjSet, hw, ih h.2]

theorem map_update_unique (pre rest : Graph E) (u : Node E) (done : Adj E) (f : Adj E → Adj E)
    (h1 : u ∉ pre.map Prod.fst) (h2 : u ∉ rest.map Prod.fst) :
    (pre ++ (u, done) :: rest).map (fun p => if p.1 = u then (p.1, f p.2) else p)
      = pre ++ (u, f done) :: rest := by
  have hid : ∀ (l : Graph E), u ∉ l.map Prod.fst →
      l.map (fun p => if p.1 = u then (p.1, f p.2) else p) = l := by
    intro l hl
    induction l with
    | nil => rfl
    | cons p ps ih =>
      simp only [List.map_cons, List.mem_cons, not_or] at hl
      have hp : ¬ p.1 = u := fun e => hl.1 e.symm
      simp [hp, ih hl.2]
  simp [hid pre h1, hid rest h2]

theorem Graph.addEdge_known (pre rest : Graph E) (u v : Node E) (r : E) (done : Adj E)
    (h1 : u ∉ pre.map Prod.fst) (h2 : u ∉ rest.map Prod.fst)
    (hv : v ∈ pre.map Prod.fst ++ u :: rest.map Prod.fst) (hvd : v ∉ done.map Prod.fst) :
    Graph.addEdge (pre ++ (u, done) :: rest) u v r = pre ++ (u, done ++ [(v, r)]) :: rest := by
  have hu : u ∈ (pre ++ (u, done) :: rest).map Prod.fst := by simp
  have hv' : v ∈ (pre ++ (u, done) :: rest).map Prod.fst := by simpa using hv
  unfold Graph.addEdge
  simp only [Graph.addNode_of_mem _ _ hu, Graph.addNode_of_mem _ _ hv']
  rw [map_update_unique pre rest u done (fun ss => adjSet ss v r) h1 h2, adjSet_of_not_mem _ _ _ hvd]

abbrev stepEdge (g : Graph E) (e : Node E × Node E × E) : Graph E := g.addEdge e.1 e.2.1 e.2.2

theorem foldl_adj (pre rest : Graph E) (u : Node E)
    (h1 : u ∉ pre.map Prod.fst) (h2 : u ∉ rest.map Prod.fst) :
    ∀ (ss done : Adj E), ((done ++ ss).map Prod.fst).Nodup →
      (∀ q ∈ ss, q.1 ∈ pre.map Prod.fst ++ u :: rest.map Prod.fst) →
      (ss.map (fun q => (u, q.1, q.2))).foldl stepEdge (pre ++ (u, done) :: rest)
        = pre ++ (u, done ++ ss) :: rest := by
  intro ss
  induction ss with
  | nil => intro done _ _; simp
  | cons q qs ih =>
    intro done hnd hmem
    obtain ⟨v, r⟩ := q
    have hvd : v ∉ done.map Prod.fst := by
      intro hc
      simp only [List.map_append, List.map_cons] at hnd
      have := (List.nodup_append.1 hnd).2.2 v hc v (by simp)
      exact this rfl
    have hv := hmem (v, r) (by simp)
    simp only [List.map_cons, List.foldl_cons, stepEdge]
    rw [Graph.addEdge_known pre rest u v r done h1 h2 hv hvd]
    have := ih (done ++ [(v, r)]) (by simpa [List.append_assoc] using hnd)
      (fun q hq => hmem q (by simp [hq]))
    simpa [stepEdge, List.append_assoc] using this

def edgesOf (g : Graph E) : List (Node E × Node E × E) :=
  g.flatMap (fun p => p.2.map (fun q => (p.1, q.1, q.2)))

theorem foldl_graph : ∀ (post pre : Graph E), ((pre ++ post).map Prod.fst).Nodup →
    (∀ p ∈ post, (p.2.map Prod.fst).Nodup ∧ ∀ q ∈ p.2, q.1 ∈ (pre ++ post).map Prod.fst) →
    (edgesOf post).foldl stepEdge (pre ++ post.map (fun p => (p.1, []))) = pre ++ post := by
  intro post
  induction post with
  | nil => intro pre _ _; simp [edgesOf]
  | cons p ps ih =>
    intro pre hnd hwf
    obtain ⟨u, ss⟩ := p
    have hnd' : (pre.map Prod.fst ++ u :: ps.map Prod.fst).Nodup := by simpa using hnd
    have h1 : u ∉ pre.map Prod.fst := by
      intro hc
      exact (List.nodup_append.1 hnd').2.2 u hc u (by simp) rfl
    have h2 : u ∉ ps.map Prod.fst := by
      have := (List.nodup_append.1 hnd').2.1
      exact (List.nodup_cons.1 this).1
    have h2' : u ∉ (ps.map (fun p => (p.1, ([] : Adj E)))).map Prod.fst := by
      simpa [List.map_map, Function.comp_def] using h2
    obtain ⟨hss, hmem⟩ := hwf (u, ss) (by simp)
    have hmem' : ∀ q ∈ ss, q.1 ∈ pre.map Prod.fst ++ u :: (ps.map (fun p => (p.1, ([] : Adj E)))).map Prod.fst := by
      intro q hq
      have := hmem q hq
      simpa [List.map_map, Function.comp_def] using this
    have hstep := foldl_adj pre (ps.map (fun p => (p.1, ([] : Adj E)))) u h1 h2' ss [] (by simpa using hss) hmem'
    simp only [edgesOf, List.flatMap_cons, List.foldl_append, List.map_cons]
    rw [hstep]
    have := ih (pre ++ [(u, ss)]) (by simpa [List.append_assoc] using hnd)
      (fun p hp => by
        have := hwf p (by simp [hp])
        simpa [List.append_assoc] using this)
    simpa [edgesOf, List.append_assoc] using this

end
end Pharmpy.C12

namespace Pharmpy.C12
section
variable {E M : Type} [DecidableEq E] {c : Codec E M}

theorem getElem?_idxOf_of_mem {α : Type} [DecidableEq α] {a : α} : ∀ {l : List α}, a ∈ l → l[l.idxOf a]? = some a := by
  intro l
  induction l with
  | nil => intro h; cases h
  | cons b bs ih =>
    intro h
    by_cases hb : b = a
    · subst hb; simp [List.idxOf_cons]
    · have : a ∈ bs := by
        rcases List.mem_cons.1 h with h | h
        · exact absurd h.symm hb
        · exact h
      have hbeq : (b == a) = false := by simp [hb]
      simp [List.idxOf_cons, hbeq, ih this]

theorem pyIndex_idxOf {α : Type} [DecidableEq α] {a : α} {l : List α} (h : a ∈ l) :
    pyIndex l (l.idxOf a : Int) = some a := by
  simp [pyIndex, getElem?_idxOf_of_mem h]

theorem Node.from_to (h : c.Lawful) (n : Node E) : Node.fromDict c (n.toDict c) = some n := by
  cases n with
  | output => simp [Node.fromDict, Node.toDict, Json.get?, List.lookup]
  | comp k =>
    have := Compartment.from_to h k
    simp [Node.fromDict, Node.toDict, this]
    simp [Compartment.toDict, Json.get?, List.lookup]

theorem foldl_addNodes : ∀ (ns : List (Node E)) (acc : Graph E), Node.output ∈ acc.map Prod.fst →
    (acc.map Prod.fst ++ ns).Nodup →
    ns.foldl Graph.addComp acc = acc ++ ns.map (fun n => (n, [])) := by
  intro ns
  induction ns with
  | nil => intro acc _ _; simp
  | cons n ns ih =>
    intro acc hout hnd
    have hn : n ∉ acc.map Prod.fst := by
      intro hc
      exact (List.nodup_append.1 hnd).2.2 n hc n (by simp) rfl
    have hne : n ≠ .output := fun e => hn (e ▸ hout)
    have hstep : acc.addComp n = acc ++ [(n, [])] := by
      cases n with
      | output => exact absurd rfl hne
      | comp k => exact Graph.addNode_of_not_mem acc _ hn
    simp only [List.foldl_cons, hstep]
    rw [ih (acc ++ [(n, [])]) (by simp [hout]) (by simpa [List.append_assoc] using hnd)]
    simp [List.append_assoc]

theorem edges_from_to (h : c.Lawful) (g : Graph E)
    (hmem : ∀ p ∈ g, ∀ q ∈ p.2, q.1 ∈ g.map Prod.fst) :
    allSome (edgeFromJson c g.nodes) (g.edgeTriples.map (edgeJson c)) = some (edgesOf g) := by
  have hrw : g.edgeTriples.map (edgeJson c)
      = (edgesOf g).map (fun e => edgeJson c (g.nodes.idxOf e.1, g.nodes.idxOf e.2.1, e.2.2)) := by
    simp [Graph.edgeTriples, edgesOf, List.map_flatMap, List.map_map, Function.comp_def]
  rw [hrw]
  apply allSome_map
  intro e he
  obtain ⟨u, v, r⟩ := e
  simp only [edgesOf, List.mem_flatMap, List.mem_map] at he
  obtain ⟨p, hp, q, hq, heq⟩ := he
  have hu : u ∈ g.nodes := by
    have : p.1 = u := by simpa using congrArg (fun t => t.1) heq
    rw [← this]; exact List.mem_map.2 ⟨p, hp, rfl⟩
  have hv : v ∈ g.nodes := by
    have : q.1 = v := by simpa using congrArg (fun t => t.2.1) heq
    rw [← this]; exact hmem p hp q hq
  simp [edgeJson, edgeFromJson, pyIndex_idxOf hu, pyIndex_idxOf hv, h.rt]

theorem CompSys.from_to (h : c.Lawful) (s : CompSys E) (hwf : s.g.WF) :
    CompSys.fromDict c (s.toDict c) = some s := by
  obtain ⟨g, t⟩ := s
  obtain ⟨hnd, hhead, hadj⟩ := hwf
  have hnodes := allSome_map' (Node.toDict c) (Node.fromDict c) g.nodes (Node.from_to h)
  have hedges := edges_from_to h g (fun p hp => (hadj p hp).2)
  -- the graph starts with `output`
  cases g with
  | nil => simp at hhead
  | cons p0 g' =>
    obtain ⟨n0, ss0⟩ := p0
    have hn0 : n0 = .output := by simpa using hhead
    subst hn0
    have hfold := foldl_addNodes (g'.map Prod.fst) (Graph.builderInit (E := E)) (by simp [Graph.builderInit])
      (by simpa [Graph.builderInit] using hnd)
    have hg0 : (Graph.nodes ((Node.output, ss0) :: g')).foldl Graph.addComp (Graph.builderInit (E := E))
        = ([] : Graph E) ++ ((Node.output, ss0) :: g').map (fun p => (p.1, [])) := by
      simp only [Graph.nodes, List.map_cons, List.foldl_cons]
      have : (Graph.builderInit (E := E)).addComp Node.output = Graph.builderInit := rfl
      rw [this, hfold]
      simp [Graph.builderInit, List.map_map, Function.comp_def]
    have hbuild := foldl_graph ((Node.output, ss0) :: g') [] (by simpa using hnd)
      (fun p hp => by simpa using hadj p hp)
    simp only [CompSys.fromDict, CompSys.toDict, getArr, deStr, Json.get?, List.lookup, Json.asArr?, Json.asStr?]
    simp only [Option.bind_eq_bind, Option.bind_some, Option.pure_def, bind_pure_comp]
    simp [hnodes, hedges, hg0, h.rt]
    simpa [stepEdge] using hbuild

end
end Pharmpy.C12
