import PharmpyModel.C12.Model
/-
  C12 helper lemmas: comprehension round trips, per-class `from_dict ∘ to_dict`.
-/
namespace Pharmpy.C12

theorem allSome_map {α β : Type} (f : α → β) (g : β → Option α) (xs : List α)
    (h : ∀ a ∈ xs, g (f a) = some a) : allSome g (xs.map f) = some xs := by
  induction xs with
  | nil => rfl
  | cons a as ih =>
    have h1 := h a (by simp)
    have h2 := ih (fun b hb => h b (by simp [hb]))
    simp [allSome, h1, h2]

theorem allSome_map' {α β : Type} (f : α → β) (g : β → Option α) (xs : List α)
    (h : ∀ a, g (f a) = some a) : allSome g (xs.map f) = some xs :=
  allSome_map f g xs (fun a _ => h a)

section
variable {E M : Type} {c : Codec E M}

theorem deOptStr_serOpt (h : c.Lawful) (k : String) (o : Option E) (kvs : List (String × Json))
    (hk : kvs.lookup k = some (serOpt c o)) : deOptStr c (.obj kvs) k = some o := by
  cases o <;> simp [deOptStr, Json.get?, hk, serOpt, h.rt]

theorem Bolus.from_to (h : c.Lawful) (b : Bolus E) : Bolus.fromDict c (b.toDict c) = some b := by
  simp [Bolus.fromDict, Bolus.toDict, deStr, getInt, Json.get?, List.lookup, Json.asStr?, Json.asInt?, h.rt]

theorem Infusion.from_to (h : c.Lawful) (i : Infusion E) : Infusion.fromDict c (i.toDict c) = some i := by
  obtain ⟨a, ad, r, d⟩ := i
  cases r <;> cases d <;>
    simp [Infusion.fromDict, Infusion.toDict, deStr, deOptStr, serOpt, getInt, Json.get?, List.lookup,
      Json.asStr?, Json.asInt?, h.rt]

theorem Dose.from_to (h : c.Lawful) (d : Dose E) : Dose.fromDict c (d.toDict c) = some d := by
  cases d with
  | bolus b =>
    have := Bolus.from_to h b
    simp [Dose.fromDict, Dose.toDict, this]
    simp [Bolus.toDict, Json.get?, List.lookup]
  | infusion i =>
    have := Infusion.from_to h i
    simp [Dose.fromDict, Dose.toDict, this]
    simp [Infusion.toDict, Json.get?, List.lookup]

end
end Pharmpy.C12
