import PharmpyModel.C12.Spec
/-
  C12 helper lemmas: comprehension round trips, per-class `from_dict ∘ to_dict`.
-/
namespace Pharmpy.C12

theorem allSome_map {α β : Type} (f : α → β) (g : β → Option α) (xs : List α)
    (h : ∀ a ∈ xs, g (f a) = some a) : allSome g (xs.map f) = some xs := by
  induction xs with
  | nil => rfl
  | cons a as ih =>
    have h1 := h a (by simp)
    have h2 := ih (fun b hb => h b (by simp [hb]))
    simp [allSome, h1, h2]

theorem allSome_map' {α β : Type} (f : α → β) (g : β → Option α) (xs : List α)
    (h : ∀ a, g (f a) = some a) : allSome g (xs.map f) = some xs :=
  allSome_map f g xs (fun a _ => h a)

section
variable {E M : Type} {c : Codec E M}

theorem deOptStr_serOpt (h : c.Lawful) (k : String) (o : Option E) (kvs : List (String × Json))
    (hk : kvs.lookup k = some (serOpt c o)) : deOptStr c (.obj kvs) k = some o := by
  cases o <;> simp [deOptStr, Json.get?, hk, serOpt, h.rt]

theorem Bolus.from_to (h : c.Lawful) (b : Bolus E) : Bolus.fromDict c (b.toDict c) = some b := by
  simp [Bolus.fromDict, Bolus.toDict, deStr, getInt, Json.get?, List.lookup, Json.asStr?, Json.asInt?, h.rt]

theorem Infusion.from_to (h : c.Lawful) (i : Infusion E) : Infusion.fromDict c (i.toDict c) = some i := by
  obtain ⟨a, ad, r, d⟩ := i
  cases r <;> cases d <;>
    simp [Infusion.fromDict, Infusion.toDict, deStr, deOptStr, serOpt, getInt, Json.get?, List.lookup,
      Json.asStr?, Json.asInt?, h.rt]

theorem Dose.from_to (h : c.Lawful) (d : Dose E) : Dose.fromDict c (d.toDict c) = some d := by
  cases d with
  | bolus b =>
    have := Bolus.from_to h b
    simp [Dose.fromDict, Dose.toDict, this]
    simp [Bolus.toDict, Json.get?, List.lookup]
  | infusion i =>
    have := Infusion.from_to h i
    simp [Dose.fromDict, Dose.toDict, this]
    simp [Infusion.toDict, Json.get?, List.lookup]

end
end Pharmpy.C12

namespace Pharmpy.C12
section
variable {E M : Type} {c : Codec E M}

theorem Compartment.from_to (h : c.Lawful) (k : Compartment E) :
    Compartment.fromDict c (k.toDict c) = some k := by
  obtain ⟨name, amount, doses, input, lag, bio⟩ := k
  have hd := allSome_map' (Dose.toDict c) (Dose.fromDict c) doses (Dose.from_to h)
  cases doses with
  | nil =>
    simp [Compartment.fromDict, Compartment.toDict, deStr, getStr, Json.get?, List.lookup, Json.asStr?, h.rt]
  | cons d ds =>
    simp only [List.map_cons] at hd
    simp [Compartment.fromDict, Compartment.toDict, deStr, getStr, Json.get?, List.lookup, Json.asStr?, h.rt, hd]

theorem Parameter.from_to (p : Parameter) : Parameter.fromDict p.toDict = some p := by
  obtain ⟨n, i, l, u, f⟩ := p
  simp [Parameter.fromDict, Parameter.toDict, onlyKeys, Json.keys, kw, getStr, Json.get?, List.lookup,
    Json.asStr?, Json.asBool?]

theorem Parameters.from_to (ps : List Parameter) : Parameters.fromDict (Parameters.toDict ps) = some ps := by
  simp [Parameters.fromDict, Parameters.toDict, getArr, Json.get?, List.lookup, Json.asArr?,
    allSome_map' Parameter.toDict Parameter.fromDict ps Parameter.from_to]

theorem VarLevel.from_to (l : VarLevel) : VarLevel.fromDict l.toDict = some l := by
  obtain ⟨n, r, g⟩ := l
  cases g <;>
    simp [VarLevel.fromDict, VarLevel.toDict, onlyKeys, Json.keys, kw, getStr, Json.get?, List.lookup,
      Json.asStr?, Json.asBool?, optStr]

theorem Hierarchy.from_to (ls : List VarLevel) : Hierarchy.fromDict (Hierarchy.toDict ls) = some ls := by
  simp [Hierarchy.fromDict, Hierarchy.toDict, getArr, Json.get?, List.lookup, Json.asArr?,
    allSome_map' VarLevel.toDict VarLevel.fromDict ls VarLevel.from_to]

theorem Dist.from_to (h : c.Lawful) (d : Dist E M) : Dist.fromDict c (d.toDict c) = some d := by
  cases d with
  | normal n l m v =>
    simp [Dist.fromDict, Dist.toDict, deStr, getStr, Json.get?, List.lookup, Json.asStr?, h.rt]
  | joint ns l m v =>
    have hn := allSome_map' Json.str Json.asStr? ns (fun _ => rfl)
    simp [Dist.fromDict, Dist.toDict, getStr, getArr, Json.get?, List.lookup, Json.asStr?, Json.asArr?, h.rtM, hn]

theorem RandomVariables.from_to (h : c.Lawful) (r : RandomVariables E M) :
    RandomVariables.fromDict c (r.toDict c) = some r := by
  obtain ⟨ds, eta, eps⟩ := r
  simp [RandomVariables.fromDict, RandomVariables.toDict, getArr, Json.get?, List.lookup, Json.asArr?,
    Hierarchy.from_to, allSome_map' (Dist.toDict c) (Dist.fromDict c) ds (Dist.from_to h)]

theorem SimStep.from_to (s : SimStep) : SimStep.fromDict s.toDict = some s := by
  obtain ⟨n, seed, so, rt, at_, to⟩ := s
  simp [SimStep.fromDict, SimStep.toDict, onlyKeys, Json.keys, kw, Json.get?, List.lookup]

theorem ColumnInfo.from_to (k : ColumnInfo) : ColumnInfo.fromDict k.toDict = some k := by
  obtain ⟨a1, a2, a3, a4, a5, a6, a7, a8, a9⟩ := k
  simp [ColumnInfo.fromDict, ColumnInfo.toDict, getStr, Json.get?, List.lookup, Json.asStr?]

theorem DataInfo.from_to (di : DataInfo) : DataInfo.fromDict di.toDict = some { di with path := none } := by
  obtain ⟨cols, path, sep, mdt⟩ := di
  simp [DataInfo.fromDict, DataInfo.toDict, getArr, kw, Json.get?, List.lookup, Json.asArr?,
    allSome_map' ColumnInfo.toDict ColumnInfo.fromDict cols ColumnInfo.from_to]

theorem derivs_from_to (ds : List (List String)) : derivsOfJson (derivsToJson ds) = some ds := by
  simp only [derivsOfJson, derivsToJson]
  apply allSome_map
  intro d _
  simp only [derivOfJson]
  exact allSome_map' Json.str Json.asStr? d (fun _ => rfl)

omit c in
theorem EstStep.from_to (s : EstStep E) : EstStep.fromDict (s.toDict) = some s := by
  obtain ⟨a1, a2, a3, a4, a5, a6, a7, a8, a9, a10, ds, a12, a13, a14, a15, a16, a17, a18⟩ := s
  have hd := derivs_from_to ds
  simp [EstStep.fromDict, EstStep.toDict, onlyKeys, estKeys, Json.keys, kw, Json.get?, List.lookup, hd]

end
end Pharmpy.C12
