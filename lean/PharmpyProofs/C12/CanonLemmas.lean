import PharmpyProofs.C12.ModelLemmas
/-
  C12 — the repaired (canonical) emission order: content-equal graphs have equal canonical forms.
-/
namespace Pharmpy.C12

theorem keyLe_trans (a b c : Option String) : keyLe a b = true → keyLe b c = true → keyLe a c = true := by
  cases a <;> cases b <;> cases c <;> simp [keyLe]
  exact fun h1 h2 => String.le_trans h1 h2

theorem keyLe_total (a b : Option String) : (keyLe a b || keyLe b a) = true := by
  cases a <;> cases b <;> simp [keyLe]
  exact String.le_total _ _

theorem keyLe_antisymm (a b : Option String) : keyLe a b = true → keyLe b a = true → a = b := by
  cases a <;> cases b <;> simp [keyLe]
  exact fun h1 h2 => String.le_antisymm h1 h2

theorem eq_of_key_eq {α κ : Type} (f : α → κ) : ∀ (l : List α), (l.map f).Nodup →
    ∀ a ∈ l, ∀ b ∈ l, f a = f b → a = b := by
  intro l
  induction l with
  | nil => intro _ a ha; cases ha
  | cons x xs ih =>
    intro hnd a ha b hb hab
    simp only [List.map_cons, List.nodup_cons, List.mem_map, not_exists, not_and] at hnd
    rcases List.mem_cons.1 ha with ha1 | ha2 <;> rcases List.mem_cons.1 hb with hb1 | hb2
    · rw [ha1, hb1]
    · exact absurd (ha1 ▸ hab).symm (hnd.1 b hb2)
    · exact absurd (hb1 ▸ hab) (hnd.1 a ha2)
    · exact ih hnd.2 a ha2 b hb2 hab

theorem nodup_of_nodup_map {α κ : Type} (f : α → κ) : ∀ (l : List α), (l.map f).Nodup → l.Nodup := by
  intro l
  induction l with
  | nil => intro _; exact List.nodup_nil
  | cons x xs ih =>
    intro hnd
    simp only [List.map_cons, List.nodup_cons, List.mem_map, not_exists, not_and] at hnd
    exact List.nodup_cons.2 ⟨fun hx => hnd.1 x hx rfl, ih hnd.2⟩

/-- two duplicate-free lists with the same elements sort to the same list, when the order is a
    total preorder that is antisymmetric on those elements -/
theorem sort_eq_of_same_elems {α : Type} (le : α → α → Bool)
    (htrans : ∀ a b c, le a b = true → le b c = true → le a c = true)
    (htotal : ∀ a b, (le a b || le b a) = true)
    (l1 l2 : List α) (hn1 : l1.Nodup) (hn2 : l2.Nodup) (hmem : ∀ x, x ∈ l1 ↔ x ∈ l2)
    (hanti : ∀ a ∈ l1, ∀ b ∈ l1, le a b = true → le b a = true → a = b) :
    l1.mergeSort le = l2.mergeSort le := by
  have hperm : (l1.mergeSort le).Perm (l2.mergeSort le) :=
    ((List.mergeSort_perm l1 le).trans ((List.perm_ext_iff_of_nodup hn1 hn2).2 hmem)).trans
      (List.mergeSort_perm l2 le).symm
  refine List.Perm.eq_of_pairwise ?_ (List.pairwise_mergeSort htrans htotal l1)
    (List.pairwise_mergeSort htrans htotal l2) hperm
  intro a b ha hb hab hba
  have ha' : a ∈ l1 := List.mem_mergeSort.1 ha
  have hb' : b ∈ l1 := (hmem b).2 (List.mem_mergeSort.1 hb)
  exact hanti a ha' b hb' hab hba

section
variable {E : Type} [DecidableEq E]

theorem lookup_mem {β : Type} : ∀ (l : List (Node E × β)) (k : Node E) (v : β), l.lookup k = some v → (k, v) ∈ l := by
  intro l
  induction l with
  | nil => intro k v h; simp at h
  | cons p ps ih =>
    intro k v h
    obtain ⟨k', v'⟩ := p
    by_cases hk : k = k'
    · subst hk; simp [List.lookup] at h; simp [h]
    · have : (k == k') = false := by simp [hk]
      simp [List.lookup, this] at h
      exact List.mem_cons_of_mem _ (ih k v h)

theorem adjSub_mem (a b : List (Node E × E)) (h : adjSub a b = true) : ∀ q ∈ a, q ∈ b := by
  intro q hq
  simp only [adjSub, List.all_eq_true] at h
  have := h q hq
  exact lookup_mem b q.1 q.2 (by simpa using this)

def adjLe (a b : Node E × E) : Bool := nodeLe a.1 b.1
def entryLe (a b : Node E × List (Node E × E)) : Bool := nodeLe a.1 b.1

theorem sortAdj_eq (a b : List (Node E × E)) (ha : (a.map (fun q => q.1.key)).Nodup)
    (hb : (b.map (fun q => q.1.key)).Nodup) (h : adjEqv a b = true) :
    a.mergeSort adjLe = b.mergeSort adjLe := by
  simp only [adjEqv, Bool.and_eq_true] at h
  apply sort_eq_of_same_elems adjLe
    (fun x y z => keyLe_trans _ _ _) (fun x y => keyLe_total _ _) a b
    (nodup_of_nodup_map _ a ha) (nodup_of_nodup_map _ b hb)
    (fun x => ⟨adjSub_mem a b h.1 x, adjSub_mem b a h.2 x⟩)
  intro x hx y hy hxy hyx
  exact eq_of_key_eq (fun q : Node E × E => q.1.key) a ha x hx y hy (keyLe_antisymm _ _ hxy hyx)

def normEntry (p : Node E × List (Node E × E)) : Node E × List (Node E × E) := (p.1, p.2.mergeSort adjLe)

theorem Graph.canon_eq (g : Graph E) : g.canon = (g.map normEntry).mergeSort entryLe := rfl

theorem sub_norm_mem (g1 g2 : Graph E) (h1 : g1.NamesDistinct) (h2 : g2.NamesDistinct)
    (h : g1.sub g2 = true) : ∀ x ∈ g1.map normEntry, x ∈ g2.map normEntry := by
  intro x hx
  obtain ⟨p, hp, rfl⟩ := List.mem_map.1 hx
  simp only [Graph.sub, List.all_eq_true] at h
  have hp' := h p hp
  cases hl : g2.lookup p.1 with
  | none => simp [hl] at hp'
  | some ss =>
    simp only [hl] at hp'
    have hmem := lookup_mem g2 p.1 ss hl
    have := sortAdj_eq p.2 ss (h1.2 p hp) (h2.2 _ hmem) hp'
    exact List.mem_map.2 ⟨(p.1, ss), hmem, by simp [normEntry, this]⟩

theorem canon_eq_of_eqv (g1 g2 : Graph E) (h1 : g1.NamesDistinct) (h2 : g2.NamesDistinct)
    (h : g1.eqv g2 = true) : g1.canon = g2.canon := by
  simp only [Graph.eqv, Bool.and_eq_true] at h
  rw [Graph.canon_eq, Graph.canon_eq]
  have hk : ∀ (g : Graph E), (g.map normEntry).map (fun p => p.1.key) = g.map (fun p => p.1.key) := by
    intro g; simp [List.map_map, Function.comp_def, normEntry]
  apply sort_eq_of_same_elems entryLe
    (fun x y z => keyLe_trans _ _ _) (fun x y => keyLe_total _ _) _ _
    (nodup_of_nodup_map (fun p => p.1.key) _ (by rw [hk]; exact h1.1))
    (nodup_of_nodup_map (fun p => p.1.key) _ (by rw [hk]; exact h2.1))
    (fun x => ⟨sub_norm_mem g1 g2 h1 h2 h.1 x, sub_norm_mem g2 g1 h2 h1 h.2 x⟩)
  intro x hx y hy hxy hyx
  exact eq_of_key_eq (fun p : Node E × List (Node E × E) => p.1.key) _ (by rw [hk]; exact h1.1) x hx y hy
    (keyLe_antisymm _ _ hxy hyx)

theorem stmts_canon_eq (xs ys : List (Stmt E)) (h : StmtsSame xs ys)
    (hc : ∀ a b : Stmt E, a.SameContent b → a.canon = b.canon) : xs.map Stmt.canon = ys.map Stmt.canon := by
  induction h with
  | nil => rfl
  | cons hab _ ih => simp [hc _ _ hab, ih]

theorem Stmt.canon_eq_of_sameContent (a b : Stmt E) (h : a.SameContent b) : a.canon = b.canon := by
  cases a <;> cases b <;> simp only [Stmt.SameContent] at h
  · obtain ⟨h1, h2⟩ := h; simp [Stmt.canon, h1, h2]
  · obtain ⟨he, h1, h2⟩ := h
    simp only [CompSys.eqv, Bool.and_eq_true, decide_eq_true_eq] at he
    simp [Stmt.canon, CompSys.canon, canon_eq_of_eqv _ _ h1 h2 he.2, he.1]

end
end Pharmpy.C12
