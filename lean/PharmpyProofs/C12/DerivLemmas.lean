import PharmpyModel.C12.Derivs
import PharmpyProofs.C12.CanonLemmas
/-
  C12 — stable insertion sort: permutation, sortedness, canonicity.
-/
namespace Pharmpy.C12

section
variable {α : Type} (le : α → α → Bool)

theorem perm_insertBy (x : α) : ∀ l : List α, (insertBy le x l).Perm (x :: l)
  | [] => List.Perm.refl _
  | y :: ys => by
    simp only [insertBy]
    split
    · exact List.Perm.refl _
    · exact ((perm_insertBy x ys).cons y).trans (List.Perm.swap x y ys)

theorem perm_isort : ∀ l : List α, (isort le l).Perm l
  | [] => List.Perm.refl _
  | x :: xs => (perm_insertBy le x (isort le xs)).trans ((perm_isort xs).cons x)

theorem mem_isort {a : α} {l : List α} : a ∈ isort le l ↔ a ∈ l := (perm_isort le l).mem_iff

variable (htrans : ∀ a b c, le a b = true → le b c = true → le a c = true)
variable (htotal : ∀ a b, (le a b || le b a) = true)

include htrans htotal in
theorem pairwise_insertBy (x : α) : ∀ l : List α, l.Pairwise (fun a b => le a b = true) →
    (insertBy le x l).Pairwise (fun a b => le a b = true)
  | [], _ => by simp [insertBy]
  | y :: ys, h => by
    simp only [insertBy]
    have hy := List.pairwise_cons.1 h
    split
    · rename_i hxy
      exact List.pairwise_cons.2 ⟨fun b hb => by
        rcases List.mem_cons.1 hb with rfl | hb
        · exact hxy
        · exact htrans _ _ _ hxy (hy.1 b hb), h⟩
    · rename_i hxy
      have hyx : le y x = true := by
        have := htotal x y
        simp only [Bool.or_eq_true] at this
        rcases this with h1 | h1
        · exact absurd h1 hxy
        · exact h1
      exact List.pairwise_cons.2 ⟨fun b hb => by
        have := (perm_insertBy le x ys).mem_iff.1 hb
        rcases List.mem_cons.1 this with rfl | hb'
        · exact hyx
        · exact hy.1 b hb', pairwise_insertBy x ys hy.2⟩

include htrans htotal in
theorem pairwise_isort : ∀ l : List α, (isort le l).Pairwise (fun a b => le a b = true)
  | [] => List.Pairwise.nil
  | x :: xs => pairwise_insertBy le htrans htotal x _ (pairwise_isort xs)

theorem isort_of_sorted : ∀ l : List α, l.Pairwise (fun a b => le a b = true) → isort le l = l
  | [], _ => rfl
  | x :: xs, h => by
    have hx := List.pairwise_cons.1 h
    simp only [isort, isort_of_sorted xs hx.2]
    cases xs with
    | nil => rfl
    | cons y ys => simp [insertBy, hx.1 y (by simp)]

include htrans htotal in
/-- permuted inputs sort to the same list when the order is antisymmetric on the elements -/
theorem isort_eq_of_perm (l1 l2 : List α) (hp : l1.Perm l2)
    (hanti : ∀ a ∈ l1, ∀ b ∈ l1, le a b = true → le b a = true → a = b) :
    isort le l1 = isort le l2 := by
  have hperm : (isort le l1).Perm (isort le l2) := ((perm_isort le l1).trans hp).trans (perm_isort le l2).symm
  refine List.Perm.eq_of_pairwise ?_ (pairwise_isort le htrans htotal l1) (pairwise_isort le htrans htotal l2) hperm
  intro a b ha hb hab hba
  exact hanti a ((mem_isort le).1 ha) b (hp.mem_iff.2 ((mem_isort le).1 hb)) hab hba

end

theorem strLe_trans (a b c : String) : strLe a b = true → strLe b c = true → strLe a c = true := by
  simp only [strLe, decide_eq_true_eq]; exact String.le_trans
theorem strLe_total (a b : String) : (strLe a b || strLe b a) = true := by
  simp only [strLe, Bool.or_eq_true, decide_eq_true_eq]; exact String.le_total a b
theorem strLe_antisymm (a b : String) : strLe a b = true → strLe b a = true → a = b := by
  simp only [strLe, decide_eq_true_eq]; exact String.le_antisymm

theorem lexLe_trans (a b c : List String) : lexLe a b = true → lexLe b c = true → lexLe a c = true := by
  simp only [lexLe, decide_eq_true_eq]; exact List.le_trans
theorem lexLe_total (a b : List String) : (lexLe a b || lexLe b a) = true := by
  simp only [lexLe, Bool.or_eq_true, decide_eq_true_eq]; exact List.le_total a b
theorem lexLe_antisymm (a b : List String) : lexLe a b = true → lexLe b a = true → a = b := by
  simp only [lexLe, decide_eq_true_eq]; exact List.le_antisymm

theorem headLe_trans (a b c : List String) : headLe a b = true → headLe b c = true → headLe a c = true :=
  keyLe_trans _ _ _
theorem headLe_total (a b : List String) : (headLe a b || headLe b a) = true := keyLe_total _ _

theorem sortNames_perm (d d' : List String) (h : d.Perm d') : sortNames d = sortNames d' :=
  isort_eq_of_perm strLe strLe_trans strLe_total d d' h (fun a _ b _ => strLe_antisymm a b)

theorem sortNames_idem (d : List String) : sortNames (sortNames d) = sortNames d :=
  isort_of_sorted strLe _ (pairwise_isort strLe strLe_trans strLe_total d)

theorem sortNames_isEmpty (d : List String) : (sortNames d).isEmpty = d.isEmpty := by
  have hl : (sortNames d).length = d.length := (perm_isort strLe d).length_eq
  cases d with
  | nil => rfl
  | cons x xs =>
    cases h : sortNames (x :: xs) with
    | nil => rw [h] at hl; simp at hl
    | cons y ys => rfl

theorem any_isEmpty_perm (l1 l2 : List (List String)) (hp : l1.Perm l2) :
    l1.any List.isEmpty = l2.any List.isEmpty := by
  apply Bool.eq_iff_iff.2
  simp only [List.any_eq_true]
  exact ⟨fun ⟨x, hx, h⟩ => ⟨x, hp.mem_iff.1 hx, h⟩, fun ⟨x, hx, h⟩ => ⟨x, hp.mem_iff.2 hx, h⟩⟩

theorem any_isEmpty_map (σ : List String → List String) (hσ : ∀ d, (σ d).isEmpty = d.isEmpty)
    (ds : List (List String)) : (ds.map σ).any List.isEmpty = ds.any List.isEmpty := by
  induction ds with
  | nil => rfl
  | cons d ds ih => simp [List.any_cons, hσ d, ih]

theorem isEmpty_of_perm (a b : List String) (h : a.Perm b) : a.isEmpty = b.isEmpty := by
  have := h.length_eq
  cases a <;> cases b <;> simp_all

theorem canonDerivs_inner (σ : List String → List String) (hσ : ∀ d, (σ d).Perm d) (ds : List (List String)) :
    canonDerivs (ds.map σ) = canonDerivs ds := by
  have h1 : (ds.map σ).map sortNames = ds.map sortNames := by
    rw [List.map_map]; exact List.map_congr_left (fun d _ => sortNames_perm _ _ (hσ d))
  simp only [canonDerivs, h1, any_isEmpty_map σ (fun d => isEmpty_of_perm _ _ (hσ d)) ds]

theorem canonDerivs_outer (ds ds' : List (List String)) (hp : ds.Perm ds')
    (hnd : ((ds.map sortNames).map List.head?).Nodup) : canonDerivs ds = canonDerivs ds' := by
  have h1 : isort headLe (ds.map sortNames) = isort headLe (ds'.map sortNames) :=
    isort_eq_of_perm headLe headLe_trans headLe_total _ _ (hp.map sortNames)
      (fun a ha b hb hab hba => eq_of_key_eq List.head? _ hnd a ha b hb (keyLe_antisymm _ _ hab hba))
  simp only [canonDerivs, h1, any_isEmpty_perm ds ds' hp]

theorem canonDerivs_idem (ds r : List (List String)) (h : canonDerivs ds = some r) : canonDerivs r = some r := by
  unfold canonDerivs at h
  split at h
  · cases h
  · rename_i hne
    have hr : r = isort headLe (ds.map sortNames) := by simpa using h.symm
    have hmem : ∀ x ∈ r, ∃ d ∈ ds, x = sortNames d := by
      intro x hx
      rw [hr] at hx
      obtain ⟨d, hd, rfl⟩ := List.mem_map.1 ((mem_isort headLe).1 hx)
      exact ⟨d, hd, rfl⟩
    have hmap : r.map sortNames = r := by
      have : r.map sortNames = r.map id := List.map_congr_left (fun x hx => by
        obtain ⟨d, _, rfl⟩ := hmem x hx; exact sortNames_idem d)
      simpa using this
    have hany : r.any List.isEmpty = false := by
      apply Bool.eq_false_iff.2
      intro hc
      obtain ⟨x, hx, hxe⟩ := List.any_eq_true.1 hc
      obtain ⟨d, hd, rfl⟩ := hmem x hx
      rw [sortNames_isEmpty] at hxe
      exact hne (List.any_eq_true.2 ⟨d, hd, hxe⟩)
    have hsorted : isort headLe r = r := by
      rw [hr]; exact isort_of_sorted headLe _ (pairwise_isort headLe headLe_trans headLe_total _)
    simp [canonDerivs, hany, hmap, hsorted]

theorem canonDerivsRepaired_inv (σ : List String → List String) (hσ : ∀ d, (σ d).Perm d)
    (ds ds' : List (List String)) (hp : ds.Perm ds') :
    canonDerivsRepaired (ds.map σ) = canonDerivsRepaired ds' := by
  have h1 : (ds.map σ).map sortNames = ds.map sortNames := by
    rw [List.map_map]; exact List.map_congr_left (fun d _ => sortNames_perm _ _ (hσ d))
  simp only [canonDerivsRepaired, h1]
  exact isort_eq_of_perm lexLe lexLe_trans lexLe_total _ _ (hp.map sortNames)
    (fun a _ b _ => lexLe_antisymm a b)

theorem canonDerivsRepaired_idem (ds : List (List String)) :
    canonDerivsRepaired (canonDerivsRepaired ds) = canonDerivsRepaired ds := by
  have hmem : ∀ x ∈ canonDerivsRepaired ds, sortNames x = x := by
    intro x hx
    obtain ⟨d, _, rfl⟩ := List.mem_map.1 ((mem_isort lexLe).1 hx)
    exact sortNames_idem d
  have hmap : (canonDerivsRepaired ds).map sortNames = canonDerivsRepaired ds := by
    have : (canonDerivsRepaired ds).map sortNames = (canonDerivsRepaired ds).map id :=
      List.map_congr_left (fun x hx => hmem x hx)
    simpa using this
  show isort lexLe ((canonDerivsRepaired ds).map sortNames) = canonDerivsRepaired ds
  rw [hmap]
  exact isort_of_sorted lexLe _ (pairwise_isort lexLe lexLe_trans lexLe_total _)

end Pharmpy.C12
