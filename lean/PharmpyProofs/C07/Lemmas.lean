import PharmpyModel.C07.Model
import PharmpyProofs.C10.Lemmas
/-
  Helper lemmas for C07: the pending-substitution dictionary, the simulation
  invariant `Inv` (original environment = new environment overlaid with the
  values of the pending substitutions) and its preservation by the kinds of
  step the rewrites take (emit / defer / ODE).
-/
namespace Pharmpy.C07
open Pharmpy Expr

/-! ### run -/

theorem run_nil {α : Type} (I : Interp α) (ρ : Env α) : run I [] ρ = ρ := rfl

theorem run_cons {α : Type} (I : Interp α) (s : St) (ss : List St) (ρ : Env α) :
    run I (s :: ss) ρ = run I ss (s.exec I ρ) := rfl

theorem run_append {α : Type} (I : Interp α) (ss ts : List St) (ρ : Env α) :
    run I (ss ++ ts) ρ = run I ts (run I ss ρ) := by
  simp [run, List.foldl_append]

/-! ### Sub -/

namespace Sub

theorem get_del (σ : Sub) (x y : Sym) :
    (σ.del x).get y = if y = x then none else σ.get y := by
  induction σ with
  | nil => simp [del, get]
  | cons p σ ih =>
    obtain ⟨k, v⟩ := p
    unfold del at ih ⊢
    by_cases hk : k = x
    · subst hk
      simp only [List.filter_cons, bne_self_eq_false, Bool.false_eq_true, ↓reduceIte]
      rw [ih]
      by_cases hy : y = k
      · simp [hy]
      · simp [hy, get]
    · have : (k != x) = true := by simpa using hk
      simp only [List.filter_cons, this, ↓reduceIte, get]
      rw [ih]
      by_cases hy : y = k
      · subst hy; simp [hk]
      · simp [hy]

theorem get_set (σ : Sub) (x : Sym) (e : Expr) (y : Sym) :
    (σ.set x e).get y = if y = x then some e else σ.get y := by
  unfold set
  simp only [get]
  by_cases hy : y = x
  · simp [hy]
  · simp [hy, get_del]

theorem get_none_of_not_dom (σ : Sub) (y : Sym) (h : y ∉ σ.dom) : σ.get y = none := by
  induction σ with
  | nil => rfl
  | cons p σ ih =>
    obtain ⟨k, v⟩ := p
    simp only [dom, List.map_cons, List.mem_cons, not_or] at h
    simp only [get, h.1, ↓reduceIte]
    exact ih (by simpa [dom] using h.2)

theorem mem_dom_of_get (σ : Sub) (y : Sym) (t : Expr) (h : σ.get y = some t) : y ∈ σ.dom := by
  false_or_by_contra
  rename_i hn
  rw [get_none_of_not_dom σ y hn] at h
  cases h

theorem syms_of_get (σ : Sub) (y : Sym) (t : Expr) (h : σ.get y = some t) :
    ∀ z ∈ t.syms, z ∈ σ.rangeSyms := by
  induction σ with
  | nil => simp [get] at h
  | cons p σ ih =>
    obtain ⟨k, v⟩ := p
    intro z hz
    simp only [get] at h
    simp only [rangeSyms, List.flatMap_cons, List.mem_append]
    by_cases hy : y = k
    · simp [hy] at h; subst h; exact Or.inl hz
    · simp [hy] at h; exact Or.inr (ih h z hz)

theorem dom_del_subset (σ : Sub) (x y : Sym) (h : y ∈ (σ.del x).dom) : y ∈ σ.dom ∧ y ≠ x := by
  unfold del dom at h
  simp only [List.mem_map, List.mem_filter] at h
  obtain ⟨p, ⟨hp, hne⟩, rfl⟩ := h
  exact ⟨List.mem_map.mpr ⟨p, hp, rfl⟩, by simpa using hne⟩

theorem dom_set_subset (σ : Sub) (x : Sym) (e : Expr) (y : Sym) (h : y ∈ (σ.set x e).dom) :
    y = x ∨ (y ∈ σ.dom ∧ y ≠ x) := by
  unfold set at h
  simp only [dom, List.map_cons, List.mem_cons] at h
  rcases h with h | h
  · exact Or.inl h
  · exact Or.inr (dom_del_subset σ x y h)

end Sub

/-! ### the simulation invariant -/

/-- `ρo` (original program so far) is `ρn` (rewritten program so far)
    overlaid with the values of the pending substitutions. -/
def Inv {α : Type} (I : Interp α) (σ : Sub) (ρo ρn : Env α) : Prop :=
  ∀ y, ρo y = match σ.get y with
    | some t => eval I ρn t
    | none => ρn y

theorem Inv.refl {α : Type} (I : Interp α) (ρ : Env α) : Inv I [] ρ ρ := by
  intro y; simp [Sub.get]

/-- Substituting the pending values and evaluating in the new environment is
    evaluating in the original environment. -/
theorem Inv.eval_substE {α : Type} {I : Interp α} {σ : Sub} {ρo ρn : Env α}
    (h : Inv I σ ρo ρn) (e : Expr) : eval I ρn (substE σ e) = eval I ρo e := by
  unfold substE
  rw [Expr.eval_subst]
  congr 1
  funext y
  exact (h y).symm

/-- An expression reading no pending symbol has the same value in both. -/
theorem Inv.eval_fresh {α : Type} {I : Interp α} {σ : Sub} {ρo ρn : Env α}
    (h : Inv I σ ρo ρn) (e : Expr) (hf : ∀ y ∈ e.syms, y ∉ σ.dom) :
    eval I ρn e = eval I ρo e := by
  apply Expr.eval_congr
  intro y hy
  have := h y
  rw [Sub.get_none_of_not_dom σ y (hf y hy)] at this
  exact this.symm

theorem eval_set_fresh {α : Type} (I : Interp α) (ρ : Env α) (x : Sym) (v : α) (t : Expr)
    (h : x ∉ t.syms) : eval I (ρ.set x v) t = eval I ρ t := by
  apply Expr.eval_congr
  intro y hy
  unfold Env.set
  have : y ≠ x := fun hh => h (hh ▸ hy)
  simp [this]

/-- Emit `x = …` with value `v` on both sides while `x` is neither pending nor read by a pending value. -/
theorem Inv.emit {α : Type} {I : Interp α} {σ : Sub} {ρo ρn : Env α}
    (h : Inv I σ ρo ρn) (x : Sym) (v : α) (hx : σ.get x = none)
    (hr : x ∉ σ.rangeSyms) : Inv I σ (ρo.set x v) (ρn.set x v) := by
  intro y
  by_cases hy : y = x
  · subst hy; simp [hx, Env.set]
  · have := h y
    cases hg : σ.get y with
    | none => rw [hg] at this; simp [Env.set, hy, this]
    | some t =>
      rw [hg] at this
      have hxt : x ∉ t.syms := fun hh => hr (Sub.syms_of_get σ y t hg x hh)
      simp only [Env.set, hy, ↓reduceIte]
      rw [this]
      exact (eval_set_fresh I ρn x v t hxt).symm

/-- Emit `x = …` and `del current[x]`. -/
theorem Inv.emit_del {α : Type} {I : Interp α} {σ : Sub} {ρo ρn : Env α}
    (h : Inv I σ ρo ρn) (x : Sym) (v : α)
    (hr : x ∉ (σ.del x).rangeSyms) : Inv I (σ.del x) (ρo.set x v) (ρn.set x v) := by
  intro y
  rw [Sub.get_del]
  by_cases hy : y = x
  · subst hy; simp [Env.set]
  · simp only [hy, ↓reduceIte]
    have := h y
    cases hg : σ.get y with
    | none => rw [hg] at this; simp [Env.set, hy, this]
    | some t =>
      rw [hg] at this
      have hg' : (σ.del x).get y = some t := by rw [Sub.get_del]; simp [hy, hg]
      have hxt : x ∉ t.syms := fun hh => hr (Sub.syms_of_get _ y t hg' x hh)
      simp only [Env.set, hy, ↓reduceIte]
      rw [this]
      exact (eval_set_fresh I ρn x v t hxt).symm

/-- Defer: the original program assigns `x := v`, the rewritten one only
    records a pending value `t` that evaluates (now, in the new environment) to `v`. -/
theorem Inv.defer {α : Type} {I : Interp α} {σ : Sub} {ρo ρn : Env α}
    (h : Inv I σ ρo ρn) (x : Sym) (t : Expr) (v : α) (ht : eval I ρn t = v) :
    Inv I (σ.set x t) (ρo.set x v) ρn := by
  intro y
  rw [Sub.get_set]
  by_cases hy : y = x
  · subst hy; simp [Env.set, ht]
  · simp only [hy, ↓reduceIte, Env.set]
    exact h y

/-- An ODE system whose expressions have the same values on both sides and
    whose amounts are neither pending nor read by pending values. -/
theorem Inv.ode {α : Type} {I : Interp α} {σ : Sub} {ρo ρn : Env α}
    (h : Inv I σ ρo ρn) (a : List Sym) (r r' : List Expr)
    (hv : r'.map (eval I ρn) = r.map (eval I ρo))
    (ha : ∀ y ∈ a, σ.get y = none ∧ y ∉ σ.rangeSyms) :
    Inv I σ ((St.ode a r).exec I ρo) ((St.ode a r').exec I ρn) := by
  intro y
  simp only [St.exec]
  by_cases hy : y ∈ a
  · simp [hy, (ha y hy).1, hv]
  · simp only [hy, ↓reduceIte]
    have := h y
    cases hg : σ.get y with
    | none => rw [hg] at this; simpa using this
    | some t =>
      rw [hg] at this
      simp only
      rw [this]
      apply Expr.eval_congr
      intro z hz
      have hza : z ∉ a := fun hh => (ha z hh).2 (Sub.syms_of_get σ y t hg z hz)
      simp [hza]

theorem map_substE_eval {α : Type} {I : Interp α} {σ : Sub} {ρo ρn : Env α}
    (h : Inv I σ ρo ρn) (r : List Expr) :
    (r.map (substE σ)).map (eval I ρn) = r.map (eval I ρo) := by
  rw [List.map_map]
  apply List.map_congr_left
  intro e _
  exact h.eval_substE e

/-! ### assignedIn / lhs -/

theorem assignedIn_cons_assign (y x : Sym) (e : Expr) (rest : List St) :
    assignedIn y (.assign x e :: rest) = (x == y || assignedIn y rest) := by
  simp [assignedIn, assignsTo]

theorem assignedIn_cons_ode (y : Sym) (a : List Sym) (r : List Expr) (rest : List St) :
    assignedIn y (.ode a r :: rest) = assignedIn y rest := by
  simp [assignedIn, assignsTo]

theorem mem_lhs_iff (y : Sym) (ss : List St) : y ∈ lhs ss ↔ assignedIn y ss = true := by
  induction ss with
  | nil => simp [lhs, assignedIn]
  | cons s ss ih =>
    cases s with
    | assign x e =>
      simp only [lhs, List.mem_cons, assignedIn_cons_assign, Bool.or_eq_true, beq_iff_eq, ih]
      constructor
      · rintro (h | h)
        · exact Or.inl h.symm
        · exact Or.inr h
      · rintro (h | h)
        · exact Or.inl h.symm
        · exact Or.inr h
    | ode a r => simp only [lhs, assignedIn_cons_ode, ih]

/-! ### environments that agree off one symbol -/

theorem exec_agree_off {α : Type} (I : Interp α) (s : St) (x : Sym) (hx : x ∉ s.reads)
    (ρ ρ' : Env α) (h : ∀ y, y ≠ x → ρ y = ρ' y) :
    ∀ y, y ≠ x → s.exec I ρ y = s.exec I ρ' y := by
  intro y hy
  cases s with
  | assign z e =>
    have he : eval I ρ e = eval I ρ' e :=
      Expr.eval_congr I ρ ρ' e (fun w hw => h w (fun hh => hx (by simpa [St.reads, hh] using hw)))
    simp only [St.exec, Env.set, he]
    by_cases hz : y = z
    · simp [hz]
    · simp [hz, h y hy]
  | ode a r =>
    have hr : r.map (eval I ρ) = r.map (eval I ρ') := by
      apply List.map_congr_left
      intro e he
      apply Expr.eval_congr
      intro w hw
      apply h w
      intro hh
      apply hx
      simp only [St.reads, List.mem_flatMap]
      exact ⟨e, he, hh ▸ hw⟩
    simp only [St.exec, hr]
    by_cases hya : y ∈ a
    · simp [hya]
    · simp [hya, h y hy]

theorem run_agree_off {α : Type} (I : Interp α) (x : Sym) :
    ∀ (ss : List St) (ρ ρ' : Env α), (∀ s ∈ ss, x ∉ s.reads) → (∀ y, y ≠ x → ρ y = ρ' y) →
      ∀ y, y ≠ x → run I ss ρ y = run I ss ρ' y := by
  intro ss
  induction ss with
  | nil => intro ρ ρ' _ h; simpa [run_nil] using h
  | cons s ss ih =>
    intro ρ ρ' hs h
    rw [run_cons, run_cons]
    exact ih _ _ (fun t ht => hs t (List.mem_cons_of_mem _ ht))
      (exec_agree_off I s x (hs s (by simp)) ρ ρ' h)

/-! ### constant substitutions -/

theorem constSub_get (d : List (Sym × Int)) (y : Sym) (t : Expr) (h : (constSub d).get y = some t) :
    ∃ c, t = .lit c ∧ (y, c) ∈ d := by
  induction d with
  | nil => simp [constSub, Sub.get] at h
  | cons p d ih =>
    obtain ⟨k, c⟩ := p
    simp only [constSub, List.map_cons, Sub.get] at h
    by_cases hy : y = k
    · simp only [hy, ↓reduceIte, Option.some.injEq] at h
      exact ⟨c, h.symm, by simp [hy]⟩
    · simp only [hy, ↓reduceIte] at h
      obtain ⟨c', hc, hm⟩ := ih h
      exact ⟨c', hc, List.mem_cons_of_mem _ hm⟩

/-! ### renaming -/

theorem eval_renameE {α : Type} (I : Interp α) (r : Sym → Sym) (ρ' : Env α) (e : Expr) :
    eval I ρ' (renameE r e) = eval I (fun y => ρ' (r y)) e := by
  induction e with
  | lit n => simp [renameE, eval]
  | sym s => simp [renameE, eval]
  | f1 f a ih => simp [renameE, eval, ih]
  | f2 f a b iha ihb => simp [renameE, eval, iha, ihb]
  | f3 f a b c iha ihb ihc => simp [renameE, eval, iha, ihb, ihc]

/-! ### backwards expansion (get_observation_expression) -/

theorem expandBack_none (pre : List St) : pre.foldr expandStep (none : Option Expr) = none := by
  induction pre with
  | nil => rfl
  | cons s pre ih => simp only [List.foldr, ih]; cases s <;> rfl

/-! ### parameter mappings of the numeric evaluators -/

namespace PMap

theorem toSub_get (m : PMap) (n : Sym) : m.toSub.get n = m.value n := by
  induction m with
  | nil => rfl
  | cons p m ih =>
    obtain ⟨k, v⟩ := p
    simp only [toSub, List.map_cons, Sub.get, value]
    by_cases h : n = k.name
    · simp [h]
    · simp only [h, ↓reduceIte]; exact ih

theorem value_append (a b : PMap) (n : Sym) :
    (a ++ b).value n = match a.value n with
      | some v => some v
      | none => b.value n := by
  induction a with
  | nil => simp [value]
  | cons p a ih =>
    obtain ⟨k, v⟩ := p
    simp only [List.cons_append, value]
    by_cases h : n = k.name
    · simp [h]
    · simp only [h, ↓reduceIte]; exact ih

theorem atKey_str (m : PMap) (hs : ∀ p ∈ m, p.1.isStr = true) (n : Sym) :
    m.atKey (.str n) = m.value n := by
  induction m with
  | nil => rfl
  | cons p m ih =>
    obtain ⟨k, v⟩ := p
    have hk := hs (k, v) (by simp)
    have ih' := ih (fun q hq => hs q (List.mem_cons_of_mem _ hq))
    cases k with
    | str n' =>
      simp only [atKey, value, Key.name, Key.str.injEq]
      by_cases h : n = n'
      · simp [h]
      · simp only [h, ↓reduceIte]; exact ih'
    | symbol n' => simp [Key.isStr] at hk
    | expr n' => simp [Key.isStr] at hk

end PMap

theorem initsMap_any (inits : List (Sym × Expr)) (n : Sym) :
    ((initsMap inits).any (fun q => q.1 == Key.str n)) = ((initsMap inits).value n).isSome := by
  induction inits with
  | nil => rfl
  | cons p inits ih =>
    obtain ⟨k, v⟩ := p
    simp only [initsMap, List.map_cons, List.any_cons, PMap.value, Key.name] at ih ⊢
    by_cases h : n = k
    · subst h; simp
    · have : (Key.str k == Key.str n) = false := by
        simp only [beq_eq_false_iff_ne, ne_eq, Key.str.injEq]
        exact fun hh => h hh.symm
      simp only [this, Bool.false_or, h, ↓reduceIte]
      exact ih

theorem merged_base_value (inits : List (Sym × Expr)) (given : PMap) (n : Sym) :
    PMap.value ((initsMap inits).map (fun q => (q.1, (given.atKey q.1).getD q.2))) n =
      match (initsMap inits).value n with
      | some v0 => some ((given.atKey (.str n)).getD v0)
      | none => none := by
  induction inits with
  | nil => rfl
  | cons p inits ih =>
    obtain ⟨k, v⟩ := p
    simp only [initsMap, List.map_cons, PMap.value, Key.name] at ih ⊢
    by_cases h : n = k
    · subst h; simp
    · simp only [h, ↓reduceIte]; exact ih

theorem merged_rest_value (inits : List (Sym × Expr)) (given : PMap)
    (hs : ∀ p ∈ given, p.1.isStr = true) (n : Sym) (hn : (initsMap inits).value n = none) :
    PMap.value (given.filter (fun p => !((initsMap inits).any (fun q => q.1 == p.1)))) n = given.value n := by
  induction given with
  | nil => rfl
  | cons p given ih =>
    obtain ⟨k, v⟩ := p
    have hk := hs (k, v) (by simp)
    have ih' := ih (fun q hq => hs q (List.mem_cons_of_mem _ hq))
    cases k with
    | symbol n' => simp [Key.isStr] at hk
    | expr n' => simp [Key.isStr] at hk
    | str n' =>
      simp only [List.filter_cons, initsMap_any]
      by_cases h : n = n'
      · subst h
        simp [hn, PMap.value, Key.name]
      · by_cases hkeep : ((initsMap inits).value n').isSome = true
        · simp only [hkeep, Bool.not_true, Bool.false_eq_true, ↓reduceIte, PMap.value, Key.name, h]
          exact ih'
        · simp only [Bool.not_eq_true] at hkeep
          simp only [hkeep, Bool.not_false, ↓reduceIte, PMap.value, Key.name, h]
          exact ih'

/-! ### `{str(key): value …}` (normalise) -/

theorem pyInsert_isStr (m : PMap) (n : Sym) (v : Expr) (h : ∀ p ∈ m, p.1.isStr = true) :
    ∀ p ∈ pyInsert m (.str n) v, p.1.isStr = true := by
  intro p hp
  unfold pyInsert at hp
  split at hp
  · simp only [List.mem_map] at hp
    obtain ⟨q, hq, rfl⟩ := hp
    split <;> exact h q hq
  · simp only [List.mem_append, List.mem_singleton] at hp
    rcases hp with hp | hp
    · exact h p hp
    · subst hp; rfl

theorem normFrom_isStr (rest : PMap) :
    ∀ acc : PMap, (∀ p ∈ acc, p.1.isStr = true) →
      ∀ p ∈ rest.foldl (fun acc p => pyInsert acc (Key.str p.1.name) p.2) acc, p.1.isStr = true := by
  induction rest with
  | nil => intro acc h; simpa using h
  | cons q rest ih =>
    intro acc h
    simp only [List.foldl_cons]
    exact ih _ (pyInsert_isStr acc _ _ h)

theorem normalise_isStr (m : PMap) : ∀ p ∈ normalise m, p.1.isStr = true :=
  normFrom_isStr m [] (by simp)

theorem any_key_false_of_name (acc : PMap) (n : Sym) (h : n ∉ acc.map (fun p => p.1.name)) :
    acc.any (fun q => q.1 == Key.str n) = false := by
  rw [List.any_eq_false]
  intro q hq hk
  apply h
  simp only [List.mem_map]
  refine ⟨q, hq, ?_⟩
  have : q.1 = Key.str n := by simpa using hk
  rw [this]; rfl

theorem normFrom_value (n : Sym) (rest : PMap) :
    ∀ acc : PMap, (∀ p ∈ rest, p.1.name ∉ acc.map (fun q => q.1.name)) →
      (rest.map (fun p => p.1.name)).Nodup →
      PMap.value (rest.foldl (fun acc p => pyInsert acc (Key.str p.1.name) p.2) acc) n =
        match acc.value n with
        | some v => some v
        | none => rest.value n := by
  induction rest with
  | nil =>
    intro acc _ _
    simp only [List.foldl_nil]
    cases h : acc.value n <;> simp [PMap.value]
  | cons q rest ih =>
    intro acc hdis hnd
    obtain ⟨k, v⟩ := q
    simp only [List.map_cons, List.nodup_cons] at hnd
    have hk : k.name ∉ acc.map (fun q => q.1.name) := hdis (k, v) (by simp)
    have hins : pyInsert acc (Key.str k.name) v = acc ++ [(Key.str k.name, v)] := by
      simp [pyInsert, any_key_false_of_name acc k.name hk]
    simp only [List.foldl_cons, hins]
    rw [ih (acc ++ [(Key.str k.name, v)]) _ hnd.2]
    · rw [PMap.value_append]
      cases acc.value n with
      | some v0 => rfl
      | none =>
        have hn : (Key.str k.name).name = k.name := rfl
        simp only [PMap.value, hn]
        by_cases h : n = k.name
        · simp [h]
        · simp only [h, ↓reduceIte]
    · intro p hp
      have hn : (Key.str k.name).name = k.name := rfl
      simp only [List.map_append, List.map_cons, List.map_nil, List.mem_append, List.mem_singleton, hn, not_or]
      refine ⟨hdis p (List.mem_cons_of_mem _ hp), ?_⟩
      intro he
      apply hnd.1
      simp only [List.mem_map]
      exact ⟨p, hp, he⟩

/-- For a mapping with one entry per parameter name, normalising the keys to strings keeps every value. -/
theorem normalise_value (m : PMap) (hnd : (m.map (fun p => p.1.name)).Nodup) (n : Sym) :
    (normalise m).value n = m.value n := by
  unfold normalise
  rw [normFrom_value n m [] (by simp) hnd]
  rfl

/-! ### argument lists (eval_expr) -/

theorem assocGet_none_iff {α : Type} (l : List (Sym × α)) (y : Sym) :
    assocGet l y = none ↔ y ∉ l.map (fun p => p.1) := by
  induction l with
  | nil => simp [assocGet]
  | cons p l ih =>
    obtain ⟨k, v⟩ := p
    simp only [assocGet, List.map_cons, List.mem_cons, not_or]
    by_cases h : y = k
    · simp [h]
    · simp [h, ih]

theorem assocGet_some_iff {α : Type} (l : List (Sym × α)) (hnd : (l.map (fun p => p.1)).Nodup)
    (y : Sym) (v : α) : assocGet l y = some v ↔ (y, v) ∈ l := by
  induction l with
  | nil => simp [assocGet]
  | cons p l ih =>
    obtain ⟨k, w⟩ := p
    simp only [List.map_cons, List.nodup_cons] at hnd
    simp only [assocGet, List.mem_cons, Prod.mk.injEq]
    by_cases h : y = k
    · subst h
      simp only [↓reduceIte, Option.some.injEq, true_and]
      constructor
      · intro hw; exact Or.inl hw.symm
      · rintro (hw | hm)
        · exact hw.symm
        · exact absurd (List.mem_map.mpr ⟨(y, v), hm, rfl⟩) hnd.1
    · simp only [h, ↓reduceIte, false_and, false_or]
      exact ih hnd.2

end Pharmpy.C07
