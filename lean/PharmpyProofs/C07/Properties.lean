import PharmpyProofs.C07.Lemmas
/-
  C07 — Refactorings preserve the model function.  Property theorems only.

  Every theorem quantifies over an arbitrary carrier `α`, an arbitrary
  interpretation `I` of literals and named operations (real arithmetic with
  `exp`, `/`, piecewise selection …; the ODE solver is an uninterpreted
  operation), every statement list and every environment (parameter values,
  etas, epsilons, covariates, time).  "Same model function" = `run` yields the
  same environment.
-/
namespace Pharmpy.C07
open Pharmpy Expr

/-! ## make_declarative -/

/-- Simulation: the second loop of `make_declarative`, started in a state
    related by `Inv`, ends in the same environment as the original
    statements — provided the run never meets a stale capture. -/
theorem mdGo_sound {α : Type} (I : Interp α) :
    ∀ (rest : List St) (seen : List Sym) (cur : Sub) (ρo ρn : Env α),
      Inv I cur ρo ρn →
      (∀ y ∈ cur.dom, y ∈ seen) →
      (∀ y ∈ cur.dom, assignedIn y rest = true) →
      mdSafe seen cur rest = true →
      run I (mdGo seen cur rest) ρn = run I rest ρo := by
  intro rest
  induction rest with
  | nil =>
    intro seen cur ρo ρn hinv _ hlater _
    simp only [mdGo, run_nil]
    funext y
    have hy : y ∉ cur.dom := fun hh => by simpa [assignedIn] using hlater y hh
    have := hinv y
    rw [Sub.get_none_of_not_dom cur y hy] at this
    exact this.symm
  | cons s rest ih =>
    intro seen cur ρo ρn hinv hseen hlater hsafe
    cases s with
    | ode a r =>
      simp only [mdSafe, Bool.and_eq_true, List.all_eq_true] at hsafe
      simp only [mdGo, run_cons]
      apply ih seen cur _ _ _ hseen _ hsafe.2
      · apply hinv.ode a r _ (map_substE_eval hinv r)
        intro y hy
        have := hsafe.1 y hy
        simp only [Bool.not_eq_true', List.contains_eq_mem, decide_eq_false_iff_not] at this
        exact ⟨Sub.get_none_of_not_dom cur y this.1, this.2⟩
      · intro y hy
        simpa [assignedIn_cons_ode] using hlater y hy
    | assign x e =>
      have hval : eval I ρn (substE cur e) = eval I ρo e := hinv.eval_substE e
      by_cases hseenx : seen.contains x = true
      · -- not the first assignment of x
        by_cases hl : assignedIn x rest = true
        · -- in the middle: defer, substituted
          simp only [mdGo, mdSafe, hseenx, hl, Bool.not_true, Bool.false_and, Bool.false_eq_true,
            ↓reduceIte] at hsafe ⊢
          rw [run_cons]
          apply ih seen _ _ _ (hinv.defer x _ _ hval) _ _ hsafe
          · intro y hy
            rcases Sub.dom_set_subset cur x _ y hy with h | h
            · subst h; simpa using hseenx
            · exact hseen y h.1
          · intro y hy
            rcases Sub.dom_set_subset cur x _ y hy with h | h
            · subst h; exact hl
            · have := hlater y h.1
              rw [assignedIn_cons_assign] at this
              have hne : (x == y) = false := by simpa using fun hh : x = y => h.2 hh.symm
              simpa [hne] using this
        · -- last: emit and delete
          have hl' : assignedIn x rest = false := by simpa using hl
          simp only [mdGo, mdSafe, hseenx, hl', Bool.not_true, Bool.false_and, Bool.false_eq_true,
            ↓reduceIte, Bool.and_eq_true, Bool.not_eq_true', List.contains_eq_mem,
            decide_eq_false_iff_not] at hsafe ⊢
          rw [run_cons, run_cons]
          simp only [St.exec, hval]
          apply ih seen _ _ _ (hinv.emit_del x _ hsafe.1) _ _ hsafe.2
          · intro y hy
            exact hseen y (Sub.dom_del_subset cur x y hy).1
          · intro y hy
            have hd := Sub.dom_del_subset cur x y hy
            have := hlater y hd.1
            rw [assignedIn_cons_assign] at this
            have hne : (x == y) = false := by simpa using fun hh : x = y => hd.2 hh.symm
            simpa [hne] using this
      · -- first assignment of x
        have hseenx' : seen.contains x = false := by simpa using hseenx
        have hxdom : x ∉ cur.dom := fun hh => by
          have := hseen x hh
          simp [List.contains_eq_mem] at hseenx'
          exact hseenx' this
        by_cases hl : assignedIn x rest = true
        · -- first of several: defer, NOT substituted
          simp only [mdGo, mdSafe, hseenx', hl, Bool.not_true, Bool.not_false, Bool.and_false,
            Bool.false_eq_true, ↓reduceIte, Bool.and_eq_true, List.all_eq_true,
            Bool.not_eq_true', List.contains_eq_mem, decide_eq_false_iff_not] at hsafe ⊢
          rw [run_cons]
          have hfresh : eval I ρn e = eval I ρo e := hinv.eval_fresh e hsafe.1
          apply ih (x :: seen) _ _ _ (hinv.defer x e _ hfresh) _ _ hsafe.2
          · intro y hy
            rcases Sub.dom_set_subset cur x _ y hy with h | h
            · subst h; simp
            · exact List.mem_cons_of_mem _ (hseen y h.1)
          · intro y hy
            rcases Sub.dom_set_subset cur x _ y hy with h | h
            · subst h; exact hl
            · have := hlater y h.1
              rw [assignedIn_cons_assign] at this
              have hne : (x == y) = false := by simpa using fun hh : x = y => h.2 hh.symm
              simpa [hne] using this
        · -- assigned exactly once: emit
          have hl' : assignedIn x rest = false := by simpa using hl
          simp only [mdGo, mdSafe, hseenx', hl', Bool.not_false, Bool.and_self, ↓reduceIte,
            Bool.and_eq_true, Bool.not_eq_true', List.contains_eq_mem,
            decide_eq_false_iff_not] at hsafe ⊢
          rw [run_cons, run_cons]
          simp only [St.exec, hval]
          apply ih (x :: seen) _ _ _
            (hinv.emit x _ (Sub.get_none_of_not_dom cur x hxdom) hsafe.1) _ _ hsafe.2
          · intro y hy
            exact List.mem_cons_of_mem _ (hseen y hy)
          · intro y hy
            have := hlater y hy
            rw [assignedIn_cons_assign] at this
            have hne : (x == y) = false := by
              simpa using fun hh : x = y => hxdom (hh ▸ hy)
            simpa [hne] using this

/-- **make_declarative preserves the model function** on every statement list
    without a stale capture (`noStaleCapture`, decidable): for every
    interpretation and every initial environment the rewritten statements
    compute the same final value for *every* symbol. -/
theorem make_declarative_sound_partial {α : Type} (I : Interp α) (ss : List St)
    (h : noStaleCapture ss = true) (ρ : Env α) :
    run I (makeDeclarative ss) ρ = run I ss ρ :=
  mdGo_sound I ss [] [] ρ ρ (Inv.refl I ρ) (by simp [Sub.dom]) (by simp [Sub.dom]) h

/-- Everything the rewritten list assigns is assigned (later or now) in the input. -/
theorem mdGo_lhs_subset (rest : List St) :
    ∀ (seen : List Sym) (cur : Sub) (y : Sym), y ∈ lhs (mdGo seen cur rest) → assignedIn y rest = true := by
  induction rest with
  | nil => intro seen cur y h; simp [mdGo, lhs] at h
  | cons s rest ih =>
    intro seen cur y h
    cases s with
    | ode a r =>
      simp only [mdGo, lhs] at h
      rw [assignedIn_cons_ode]; exact ih _ _ y h
    | assign x e =>
      rw [assignedIn_cons_assign]
      simp only [mdGo] at h
      split at h
      · simp only [lhs, List.mem_cons] at h
        rcases h with h | h
        · simp [h]
        · simp [ih _ _ y h]
      · split at h
        · simp [ih _ _ y h]
        · split at h
          · simp [ih _ _ y h]
          · simp only [lhs, List.mem_cons] at h
            rcases h with h | h
            · simp [h]
            · simp [ih _ _ y h]

/-- **The result is declarative**: no symbol is assigned twice — for every input
    (no side-condition). -/
theorem mdGo_nodup (rest : List St) :
    ∀ (seen : List Sym) (cur : Sub), (lhs (mdGo seen cur rest)).Nodup := by
  induction rest with
  | nil => intro seen cur; simp [mdGo, lhs]
  | cons s rest ih =>
    intro seen cur
    cases s with
    | ode a r => simp only [mdGo, lhs]; exact ih _ _
    | assign x e =>
      simp only [mdGo]
      split
      · rename_i hc
        simp only [lhs, List.nodup_cons]
        refine ⟨fun hm => ?_, ih _ _⟩
        have := mdGo_lhs_subset rest _ _ x hm
        simp [this] at hc
      · split
        · exact ih _ _
        · split
          · exact ih _ _
          · rename_i h1 h2 h3
            simp only [lhs, List.nodup_cons]
            refine ⟨fun hm => ?_, ih _ _⟩
            exact h3 (mdGo_lhs_subset rest _ _ x hm)

theorem make_declarative_single_assignment (ss : List St) : (lhs (makeDeclarative ss)).Nodup :=
  mdGo_nodup ss [] []

/-- The integers with `add`; every other operation is irrelevant for the witnesses. -/
def IZ : Interp Int := ⟨id, fun f xs => match f, xs with
  | "add", [a, b] => a + b
  | "mul", [a, b] => a * b
  | _, _ => 0⟩

/-- **F8, the unrestricted statement is false of the code**: on
    `A=1; B=A; A=2; B=B+A; Y=P+B` the rewrite (as pharmpy performs it) is
    rejected by `noStaleCapture` and changes `Y` from `P+3` to `P+4`. -/
theorem make_declarative_witness :
    let ss : List St := [.assign "A" (.lit 1), .assign "B" (.sym "A"), .assign "A" (.lit 2),
      .assign "B" (.f2 "add" (.sym "B") (.sym "A")), .assign "Y" (.f2 "add" (.sym "P") (.sym "B"))]
    noStaleCapture ss = false ∧
    makeDeclarative ss = [.assign "A" (.lit 2), .assign "B" (.f2 "add" (.sym "A") (.sym "A")),
      .assign "Y" (.f2 "add" (.sym "P") (.sym "B"))] ∧
    run IZ ss (fun _ => 0) "Y" = 3 ∧ run IZ (makeDeclarative ss) (fun _ => 0) "Y" = 4 := by
  decide

/-- Second witness class (b): a pending value reads an input that is assigned
    before the pending symbol's last assignment: `X=W; W=5; X=X+1`. -/
theorem make_declarative_witness_reassigned_input :
    let ss : List St := [.assign "X" (.sym "W"), .assign "W" (.lit 5),
      .assign "X" (.f2 "add" (.sym "X") (.lit 1))]
    noStaleCapture ss = false ∧
    run IZ ss (fun _ => 0) "X" = 1 ∧ run IZ (makeDeclarative ss) (fun _ => 0) "X" = 6 := by
  decide

-- non-vacuity: pheno's shape (TVV re-assigned from itself) is safe and really rewritten
example : noStaleCapture [.assign "TVV" (.f2 "mul" (.sym "POP_VC") (.sym "WGT")),
    .assign "TVV" (.f3 "ite" (.f2 "lt" (.sym "APGR") (.lit 5))
      (.f2 "mul" (.sym "TVV") (.f2 "add" (.lit 1) (.sym "COVAPGR"))) (.sym "TVV")),
    .ode ["A_CENTRAL(t)"] [.f2 "div" (.sym "CL") (.sym "TVV")],
    .assign "F" (.f2 "div" (.sym "A_CENTRAL(t)") (.sym "TVV"))] = true := by decide
example : (makeDeclarative [.assign "T" (.sym "P"), .assign "T" (.f2 "mul" (.sym "T") (.sym "T")),
    .assign "Y" (.sym "T")]) = [.assign "T" (.f2 "mul" (.sym "P") (.sym "P")), .assign "Y" (.sym "T")] := by
  decide

/-! ## cleanup_model: inlining of `X = Y` -/

/-- Simulation for the inlining pass: the invariant is kept to the end; the
    final alias table tells how every original symbol is read off the new model. -/
theorem inlineGo_sound {α : Type} (I : Interp α) :
    ∀ (rest : List St) (cur : Sub) (ρo ρn : Env α),
      Inv I cur ρo ρn → inlineSafe cur rest = true →
      Inv I (inlineFinal cur rest) (run I rest ρo) (run I (inlineGo cur rest) ρn) := by
  intro rest
  induction rest with
  | nil => intro cur ρo ρn hinv _; simpa [inlineFinal, inlineGo, run_nil] using hinv
  | cons s rest ih =>
    intro cur ρo ρn hinv hsafe
    -- the generic "keep the statement, substituted" step
    have keep : ∀ (s : St), (s.defs.all (fun d => !cur.dom.contains d && !cur.rangeSyms.contains d)) = true →
        Inv I cur (s.exec I ρo) ((s.substAll cur).exec I ρn) := by
      intro s hs
      simp only [List.all_eq_true, Bool.and_eq_true, Bool.not_eq_true', List.contains_eq_mem,
        decide_eq_false_iff_not] at hs
      cases s with
      | assign x e =>
        have hx := hs x (by simp [St.defs])
        have hg : cur.get x = none := Sub.get_none_of_not_dom cur x hx.1
        simp only [St.substAll, lhsSubst, hg, St.exec, hinv.eval_substE e]
        exact hinv.emit x _ hg hx.2
      | ode a r =>
        have hg : ∀ y ∈ a, cur.get y = none := fun y hy =>
          Sub.get_none_of_not_dom cur y (hs y (by simpa [St.defs] using hy)).1
        have hmap : a.map (lhsSubst cur) = a := by
          conv => rhs; rw [← List.map_id a]
          apply List.map_congr_left
          intro y hy
          simp [lhsSubst, hg y hy]
        simp only [St.substAll, hmap]
        apply hinv.ode a r _ (map_substE_eval hinv r)
        intro y hy
        exact ⟨hg y hy, (hs y (by simpa [St.defs] using hy)).2⟩
    cases s with
    | ode a r =>
      simp only [inlineSafe, Bool.and_eq_true] at hsafe
      simp only [inlineGo, inlineFinal, run_cons]
      exact ih cur _ _ (keep _ hsafe.1) hsafe.2
    | assign x e =>
      cases e with
      | sym y =>
        by_cases hp : isPlainSym y = true
        · simp only [inlineSafe, hp, ↓reduceIte, Bool.and_eq_true, Bool.not_eq_true',
            List.contains_eq_mem, decide_eq_false_iff_not] at hsafe
          simp only [inlineGo, inlineFinal, hp, ↓reduceIte, run_cons]
          apply ih _ _ _ _ hsafe.2
          simp only [St.exec]
          apply hinv.defer x (.sym y)
          exact hinv.eval_fresh (.sym y) (by intro z hz; simp [Expr.syms] at hz; subst hz; exact hsafe.1)
        · have hp' : isPlainSym y = false := by simpa using hp
          simp only [inlineSafe, hp', Bool.false_eq_true, ↓reduceIte, Bool.and_eq_true] at hsafe
          simp only [inlineGo, inlineFinal, hp', Bool.false_eq_true, ↓reduceIte, run_cons]
          apply ih cur _ _ _ hsafe.2
          apply keep
          simp only [St.defs, List.all_cons, List.all_nil, Bool.and_true, Bool.and_eq_true]
          exact hsafe.1
      | lit n =>
        simp only [inlineSafe, Bool.and_eq_true] at hsafe
        simp only [inlineGo, inlineFinal, run_cons]
        exact ih cur _ _ (keep _ hsafe.1) hsafe.2
      | f1 f a =>
        simp only [inlineSafe, Bool.and_eq_true] at hsafe
        simp only [inlineGo, inlineFinal, run_cons]
        exact ih cur _ _ (keep _ hsafe.1) hsafe.2
      | f2 f a b =>
        simp only [inlineSafe, Bool.and_eq_true] at hsafe
        simp only [inlineGo, inlineFinal, run_cons]
        exact ih cur _ _ (keep _ hsafe.1) hsafe.2
      | f3 f a b c =>
        simp only [inlineSafe, Bool.and_eq_true] at hsafe
        simp only [inlineGo, inlineFinal, run_cons]
        exact ih cur _ _ (keep _ hsafe.1) hsafe.2

/-- **The inlining pass of cleanup_model preserves the model function** (no alias
    chains, no kept statement re-defining an alias or its target): every symbol
    that is not a dropped alias keeps its value, and a dropped alias `x` has
    the value of the symbol recorded for it in the final alias table. -/
theorem cleanup_inline_sound_partial {α : Type} (I : Interp α) (ss : List St)
    (h : inlineSafe [] ss = true) (ρ : Env α) :
    (∀ y, y ∉ (inlineFinal [] ss).dom → run I (cleanupInline ss) ρ y = run I ss ρ y) ∧
    (∀ x t, (inlineFinal [] ss).get x = some t →
        eval I (run I (cleanupInline ss) ρ) t = run I ss ρ x) := by
  have hinv := inlineGo_sound I ss [] ρ ρ (Inv.refl I ρ) h
  constructor
  · intro y hy
    have := hinv y
    rw [Sub.get_none_of_not_dom _ y hy] at this
    exact this.symm
  · intro x t hx
    have := hinv x
    rw [hx] at this
    exact this.symm

/-- **Alias chains break the pass** (as pharmpy performs it): on
    `A=W; C=A; D=C; Y=D+1` the result reads `C`, which no statement defines
    any more (pharmpy's model validation then raises `Symbol C is not defined`). -/
theorem cleanup_inline_chain_witness :
    let ss : List St := [.assign "A" (.sym "W"), .assign "C" (.sym "A"), .assign "D" (.sym "C"),
      .assign "Y" (.f2 "add" (.sym "D") (.lit 1))]
    inlineSafe [] ss = false ∧
    cleanupInline ss = [.assign "Y" (.f2 "add" (.sym "C") (.lit 1))] ∧
    run IZ ss (fun y => if y = "W" then 7 else 0) "Y" = 8 ∧
    run IZ (cleanupInline ss) (fun y => if y = "W" then 7 else 0) "Y" = 1 := by
  decide

-- non-vacuity: pheno's `V = VC; S1 = VC` is safe and both aliases are inlined
example : inlineSafe [] [.assign "VC" (.f2 "mul" (.sym "TVV") (.sym "E")), .assign "V" (.sym "VC"),
    .assign "S1" (.sym "VC"), .ode ["A_CENTRAL(t)"] [.f2 "div" (.sym "CL") (.sym "V")],
    .assign "F" (.f2 "div" (.sym "A_CENTRAL(t)") (.sym "S1"))] = true := by decide
example : cleanupInline [.assign "V" (.sym "VC"), .ode ["A(t)"] [.f2 "div" (.sym "CL") (.sym "V")],
    .assign "F" (.f2 "div" (.sym "A(t)") (.sym "V"))]
    = [.ode ["A(t)"] [.f2 "div" (.sym "CL") (.sym "VC")], .assign "F" (.f2 "div" (.sym "A(t)") (.sym "VC"))] := by
  decide

end Pharmpy.C07
