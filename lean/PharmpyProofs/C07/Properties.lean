import PharmpyProofs.C07.Lemmas
/-
  C07 — Refactorings preserve the model function.  Property theorems only.

  Every theorem quantifies over an arbitrary carrier `α`, an arbitrary
  interpretation `I` of literals and named operations (real arithmetic with
  `exp`, `/`, piecewise selection …; the ODE solver is an uninterpreted
  operation), every statement list and every environment (parameter values,
  etas, epsilons, covariates, time).  "Same model function" = `run` yields the
  same environment.
-/
namespace Pharmpy.C07
open Pharmpy Expr

/-! ## make_declarative

  `mdGoOld` / `makeDeclarativeOld` / `noStaleCaptureOld` model the code before the repair
  e5b2100 (`fix: make_declarative substitutes pending values into the first assignment of a
  reassigned symbol`); `mdGo` / `makeDeclarative` / `noStaleCapture` model the code as it is now. -/

/-- Simulation for the pre-repair loop: started in a state related by `Inv`, it ends in
    the same environment as the original statements — provided the run never
    meets a stale capture of kind (a) or (b). -/
theorem mdGoOld_sound {α : Type} (I : Interp α) :
    ∀ (rest : List St) (seen : List Sym) (cur : Sub) (ρo ρn : Env α),
      Inv I cur ρo ρn →
      (∀ y ∈ cur.dom, y ∈ seen) →
      (∀ y ∈ cur.dom, assignedIn y rest = true) →
      mdSafeOld seen cur rest = true →
      run I (mdGoOld seen cur rest) ρn = run I rest ρo := by
  intro rest
  induction rest with
  | nil =>
    intro seen cur ρo ρn hinv _ hlater _
    simp only [mdGoOld, run_nil]
    funext y
    have hy : y ∉ cur.dom := fun hh => by simpa [assignedIn] using hlater y hh
    have := hinv y
    rw [Sub.get_none_of_not_dom cur y hy] at this
    exact this.symm
  | cons s rest ih =>
    intro seen cur ρo ρn hinv hseen hlater hsafe
    cases s with
    | ode a r =>
      simp only [mdSafeOld, Bool.and_eq_true, List.all_eq_true] at hsafe
      simp only [mdGoOld, run_cons]
      apply ih seen cur _ _ _ hseen _ hsafe.2
      · apply hinv.ode a r _ (map_substE_eval hinv r)
        intro y hy
        have := hsafe.1 y hy
        simp only [Bool.not_eq_true', List.contains_eq_mem, decide_eq_false_iff_not] at this
        exact ⟨Sub.get_none_of_not_dom cur y this.1, this.2⟩
      · intro y hy
        simpa [assignedIn_cons_ode] using hlater y hy
    | assign x e =>
      have hval : eval I ρn (substE cur e) = eval I ρo e := hinv.eval_substE e
      by_cases hseenx : seen.contains x = true
      · -- not the first assignment of x
        by_cases hl : assignedIn x rest = true
        · -- in the middle: defer, substituted
          simp only [mdGoOld, mdSafeOld, hseenx, hl, Bool.not_true, Bool.false_and, Bool.false_eq_true,
            ↓reduceIte] at hsafe ⊢
          rw [run_cons]
          apply ih seen _ _ _ (hinv.defer x _ _ hval) _ _ hsafe
          · intro y hy
            rcases Sub.dom_set_subset cur x _ y hy with h | h
            · subst h; simpa using hseenx
            · exact hseen y h.1
          · intro y hy
            rcases Sub.dom_set_subset cur x _ y hy with h | h
            · subst h; exact hl
            · have := hlater y h.1
              rw [assignedIn_cons_assign] at this
              have hne : (x == y) = false := by simpa using fun hh : x = y => h.2 hh.symm
              simpa [hne] using this
        · -- last: emit and delete
          have hl' : assignedIn x rest = false := by simpa using hl
          simp only [mdGoOld, mdSafeOld, hseenx, hl', Bool.not_true, Bool.false_and, Bool.false_eq_true,
            ↓reduceIte, Bool.and_eq_true, Bool.not_eq_true', List.contains_eq_mem,
            decide_eq_false_iff_not] at hsafe ⊢
          rw [run_cons, run_cons]
          simp only [St.exec, hval]
          apply ih seen _ _ _ (hinv.emit_del x _ hsafe.1) _ _ hsafe.2
          · intro y hy
            exact hseen y (Sub.dom_del_subset cur x y hy).1
          · intro y hy
            have hd := Sub.dom_del_subset cur x y hy
            have := hlater y hd.1
            rw [assignedIn_cons_assign] at this
            have hne : (x == y) = false := by simpa using fun hh : x = y => hd.2 hh.symm
            simpa [hne] using this
      · -- first assignment of x
        have hseenx' : seen.contains x = false := by simpa using hseenx
        have hxdom : x ∉ cur.dom := fun hh => by
          have := hseen x hh
          simp [List.contains_eq_mem] at hseenx'
          exact hseenx' this
        by_cases hl : assignedIn x rest = true
        · -- first of several: defer, NOT substituted
          simp only [mdGoOld, mdSafeOld, hseenx', hl, Bool.not_true, Bool.not_false, Bool.and_false,
            Bool.false_eq_true, ↓reduceIte, Bool.and_eq_true, List.all_eq_true,
            Bool.not_eq_true', List.contains_eq_mem, decide_eq_false_iff_not] at hsafe ⊢
          rw [run_cons]
          have hfresh : eval I ρn e = eval I ρo e := hinv.eval_fresh e hsafe.1
          apply ih (x :: seen) _ _ _ (hinv.defer x e _ hfresh) _ _ hsafe.2
          · intro y hy
            rcases Sub.dom_set_subset cur x _ y hy with h | h
            · subst h; simp
            · exact List.mem_cons_of_mem _ (hseen y h.1)
          · intro y hy
            rcases Sub.dom_set_subset cur x _ y hy with h | h
            · subst h; exact hl
            · have := hlater y h.1
              rw [assignedIn_cons_assign] at this
              have hne : (x == y) = false := by simpa using fun hh : x = y => h.2 hh.symm
              simpa [hne] using this
        · -- assigned exactly once: emit
          have hl' : assignedIn x rest = false := by simpa using hl
          simp only [mdGoOld, mdSafeOld, hseenx', hl', Bool.not_false, Bool.and_self, ↓reduceIte,
            Bool.and_eq_true, Bool.not_eq_true', List.contains_eq_mem,
            decide_eq_false_iff_not] at hsafe ⊢
          rw [run_cons, run_cons]
          simp only [St.exec, hval]
          apply ih (x :: seen) _ _ _
            (hinv.emit x _ (Sub.get_none_of_not_dom cur x hxdom) hsafe.1) _ _ hsafe.2
          · intro y hy
            exact List.mem_cons_of_mem _ (hseen y hy)
          · intro y hy
            have := hlater y hy
            rw [assignedIn_cons_assign] at this
            have hne : (x == y) = false := by
              simpa using fun hh : x = y => hxdom (hh ▸ hy)
            simpa [hne] using this

/-- What held of the pre-repair code: sound under the stronger side-condition
    `noStaleCaptureOld` (clauses (a) and (b)). -/
theorem make_declarative_pre_repair_sound_partial {α : Type} (I : Interp α) (ss : List St)
    (h : noStaleCaptureOld ss = true) (ρ : Env α) :
    run I (makeDeclarativeOld ss) ρ = run I ss ρ :=
  mdGoOld_sound I ss [] [] ρ ρ (Inv.refl I ρ) (by simp [Sub.dom]) (by simp [Sub.dom]) h

/-- Simulation for the current loop (first and middle assignments both store the
    substituted expression): started in a state related by `Inv`, it ends in the
    same environment as the original statements whenever no emitted statement
    re-defines a symbol that a pending value reads (clause (b) only; it needs an
    *input* — data column or parameter — to be assigned after it was read). -/
theorem mdGo_sound {α : Type} (I : Interp α) :
    ∀ (rest : List St) (seen : List Sym) (cur : Sub) (ρo ρn : Env α),
      Inv I cur ρo ρn →
      (∀ y ∈ cur.dom, y ∈ seen) →
      (∀ y ∈ cur.dom, assignedIn y rest = true) →
      mdSafe seen cur rest = true →
      run I (mdGo seen cur rest) ρn = run I rest ρo := by
  intro rest
  induction rest with
  | nil =>
    intro seen cur ρo ρn hinv _ hlater _
    simp only [mdGo, run_nil]
    funext y
    have hy : y ∉ cur.dom := fun hh => by simpa [assignedIn] using hlater y hh
    have := hinv y
    rw [Sub.get_none_of_not_dom cur y hy] at this
    exact this.symm
  | cons s rest ih =>
    intro seen cur ρo ρn hinv hseen hlater hsafe
    cases s with
    | ode a r =>
      simp only [mdSafe, Bool.and_eq_true, List.all_eq_true] at hsafe
      simp only [mdGo, run_cons]
      apply ih seen cur _ _ _ hseen _ hsafe.2
      · apply hinv.ode a r _ (map_substE_eval hinv r)
        intro y hy
        have := hsafe.1 y hy
        simp only [Bool.not_eq_true', List.contains_eq_mem, decide_eq_false_iff_not] at this
        exact ⟨Sub.get_none_of_not_dom cur y this.1, this.2⟩
      · intro y hy
        simpa [assignedIn_cons_ode] using hlater y hy
    | assign x e =>
      have hval : eval I ρn (substE cur e) = eval I ρo e := hinv.eval_substE e
      by_cases hl : assignedIn x rest = true
      · -- assigned again later: defer, substituted
        simp only [mdGo, mdSafe, hl, Bool.not_true, Bool.and_false, Bool.false_eq_true,
          ↓reduceIte] at hsafe ⊢
        rw [run_cons]
        apply ih (x :: seen) _ _ _ (hinv.defer x _ _ hval) _ _ hsafe
        · intro y hy
          rcases Sub.dom_set_subset cur x _ y hy with h | h
          · subst h; simp
          · exact List.mem_cons_of_mem _ (hseen y h.1)
        · intro y hy
          rcases Sub.dom_set_subset cur x _ y hy with h | h
          · subst h; exact hl
          · have := hlater y h.1
            rw [assignedIn_cons_assign] at this
            have hne : (x == y) = false := by simpa using fun hh : x = y => h.2 hh.symm
            simpa [hne] using this
      · have hl' : assignedIn x rest = false := by simpa using hl
        by_cases hseenx : seen.contains x = true
        · -- last of several: emit and delete
          simp only [mdGo, mdSafe, hseenx, hl', Bool.not_true, Bool.false_and, Bool.false_eq_true,
            ↓reduceIte, Bool.and_eq_true, Bool.not_eq_true', List.contains_eq_mem,
            decide_eq_false_iff_not] at hsafe ⊢
          rw [run_cons, run_cons]
          simp only [St.exec, hval]
          apply ih seen _ _ _ (hinv.emit_del x _ hsafe.1) _ _ hsafe.2
          · intro y hy
            exact hseen y (Sub.dom_del_subset cur x y hy).1
          · intro y hy
            have hd := Sub.dom_del_subset cur x y hy
            have := hlater y hd.1
            rw [assignedIn_cons_assign] at this
            have hne : (x == y) = false := by simpa using fun hh : x = y => hd.2 hh.symm
            simpa [hne] using this
        · -- assigned exactly once: emit
          have hseenx' : seen.contains x = false := by simpa using hseenx
          have hxdom : x ∉ cur.dom := fun hh => by
            have := hseen x hh
            simp [List.contains_eq_mem] at hseenx'
            exact hseenx' this
          simp only [mdGo, mdSafe, hseenx', hl', Bool.not_false, Bool.and_self, ↓reduceIte,
            Bool.and_eq_true, Bool.not_eq_true', List.contains_eq_mem,
            decide_eq_false_iff_not] at hsafe ⊢
          rw [run_cons, run_cons]
          simp only [St.exec, hval]
          apply ih (x :: seen) _ _ _
            (hinv.emit x _ (Sub.get_none_of_not_dom cur x hxdom) hsafe.1) _ _ hsafe.2
          · intro y hy
            exact List.mem_cons_of_mem _ (hseen y hy)
          · intro y hy
            have := hlater y hy
            rw [assignedIn_cons_assign] at this
            have hne : (x == y) = false := by
              simpa using fun hh : x = y => hxdom (hh ▸ hy)
            simpa [hne] using this

/-- **make_declarative preserves the model function** on every statement list
    without a stale capture (`noStaleCapture`, decidable, clause (b) only): for
    every interpretation and every initial environment the rewritten
    statements compute the same final value for *every* symbol. -/
theorem make_declarative_sound_partial {α : Type} (I : Interp α) (ss : List St)
    (h : noStaleCapture ss = true) (ρ : Env α) :
    run I (makeDeclarative ss) ρ = run I ss ρ :=
  mdGo_sound I ss [] [] ρ ρ (Inv.refl I ρ) (by simp [Sub.dom]) (by simp [Sub.dom]) h

-- the current code handles F8's program (rejected by `noStaleCaptureOld`), giving B = 1 + A, A = 2
example : noStaleCapture [.assign "A" (.lit 1), .assign "B" (.sym "A"), .assign "A" (.lit 2),
    .assign "B" (.f2 "add" (.sym "B") (.sym "A")), .assign "Y" (.f2 "add" (.sym "P") (.sym "B"))] = true ∧
    makeDeclarative [.assign "A" (.lit 1), .assign "B" (.sym "A"), .assign "A" (.lit 2),
    .assign "B" (.f2 "add" (.sym "B") (.sym "A")), .assign "Y" (.f2 "add" (.sym "P") (.sym "B"))]
    = [.assign "A" (.lit 2), .assign "B" (.f2 "add" (.lit 1) (.sym "A")),
       .assign "Y" (.f2 "add" (.sym "P") (.sym "B"))] := by decide

/-- Everything the rewritten list assigns is assigned (later or now) in the input. -/
theorem mdGo_lhs_subset (rest : List St) :
    ∀ (seen : List Sym) (cur : Sub) (y : Sym), y ∈ lhs (mdGo seen cur rest) → assignedIn y rest = true := by
  induction rest with
  | nil => intro seen cur y h; simp [mdGo, lhs] at h
  | cons s rest ih =>
    intro seen cur y h
    cases s with
    | ode a r =>
      simp only [mdGo, lhs] at h
      rw [assignedIn_cons_ode]; exact ih _ _ y h
    | assign x e =>
      rw [assignedIn_cons_assign]
      simp only [mdGo] at h
      split at h
      · simp only [lhs, List.mem_cons] at h
        rcases h with h | h
        · simp [h]
        · simp [ih _ _ y h]
      · split at h
        · simp [ih _ _ y h]
        · simp only [lhs, List.mem_cons] at h
          rcases h with h | h
          · simp [h]
          · simp [ih _ _ y h]

/-- **The result is declarative**: no symbol is assigned twice — for every input
    (no side-condition). -/
theorem mdGo_nodup (rest : List St) :
    ∀ (seen : List Sym) (cur : Sub), (lhs (mdGo seen cur rest)).Nodup := by
  induction rest with
  | nil => intro seen cur; simp [mdGo, lhs]
  | cons s rest ih =>
    intro seen cur
    cases s with
    | ode a r => simp only [mdGo, lhs]; exact ih _ _
    | assign x e =>
      simp only [mdGo]
      split
      · rename_i hc
        simp only [lhs, List.nodup_cons]
        refine ⟨fun hm => ?_, ih _ _⟩
        have := mdGo_lhs_subset rest _ _ x hm
        simp [this] at hc
      · split
        · exact ih _ _
        · rename_i h1 h2
          simp only [lhs, List.nodup_cons]
          refine ⟨fun hm => ?_, ih _ _⟩
          exact h2 (mdGo_lhs_subset rest _ _ x hm)

theorem make_declarative_single_assignment (ss : List St) : (lhs (makeDeclarative ss)).Nodup :=
  mdGo_nodup ss [] []

/-- The integers with `add`; every other operation is irrelevant for the witnesses. -/
def IZ : Interp Int := ⟨id, fun f xs => match f, xs with
  | "add", [a, b] => a + b
  | "mul", [a, b] => a * b
  | _, _ => 0⟩

/-- **F8 (repaired in /repo by e5b2100), a theorem about the pre-repair variant**: on
    `A=1; B=A; A=2; B=B+A; Y=P+B` the rewrite as pharmpy performed it is
    rejected by `noStaleCaptureOld` and changes `Y` from `P+3` to `P+4`; the
    current code is accepted by `noStaleCapture` and keeps `Y = P+3`. -/
theorem make_declarative_witness :
    let ss : List St := [.assign "A" (.lit 1), .assign "B" (.sym "A"), .assign "A" (.lit 2),
      .assign "B" (.f2 "add" (.sym "B") (.sym "A")), .assign "Y" (.f2 "add" (.sym "P") (.sym "B"))]
    noStaleCaptureOld ss = false ∧
    makeDeclarativeOld ss = [.assign "A" (.lit 2), .assign "B" (.f2 "add" (.sym "A") (.sym "A")),
      .assign "Y" (.f2 "add" (.sym "P") (.sym "B"))] ∧
    run IZ ss (fun _ => 0) "Y" = 3 ∧ run IZ (makeDeclarativeOld ss) (fun _ => 0) "Y" = 4 ∧
    noStaleCapture ss = true ∧ run IZ (makeDeclarative ss) (fun _ => 0) "Y" = 3 := by
  decide

/-- **The unrestricted statement is still false of the current code**, witness
    class (b): a pending value reads an input that is assigned before the
    pending symbol's last assignment: `X=W; W=5; X=X+1`. -/
theorem make_declarative_witness_reassigned_input :
    let ss : List St := [.assign "X" (.sym "W"), .assign "W" (.lit 5),
      .assign "X" (.f2 "add" (.sym "X") (.lit 1))]
    noStaleCapture ss = false ∧
    run IZ ss (fun _ => 0) "X" = 1 ∧ run IZ (makeDeclarative ss) (fun _ => 0) "X" = 6 := by
  decide

-- non-vacuity: pheno's shape (TVV re-assigned from itself) is safe and really rewritten
example : noStaleCapture [.assign "TVV" (.f2 "mul" (.sym "POP_VC") (.sym "WGT")),
    .assign "TVV" (.f3 "ite" (.f2 "lt" (.sym "APGR") (.lit 5))
      (.f2 "mul" (.sym "TVV") (.f2 "add" (.lit 1) (.sym "COVAPGR"))) (.sym "TVV")),
    .ode ["A_CENTRAL(t)"] [.f2 "div" (.sym "CL") (.sym "TVV")],
    .assign "F" (.f2 "div" (.sym "A_CENTRAL(t)") (.sym "TVV"))] = true := by decide
example : (makeDeclarative [.assign "T" (.sym "P"), .assign "T" (.f2 "mul" (.sym "T") (.sym "T")),
    .assign "Y" (.sym "T")]) = [.assign "T" (.f2 "mul" (.sym "P") (.sym "P")), .assign "Y" (.sym "T")] := by
  decide

/-! ## cleanup_model: inlining of `X = Y` -/

/-- Simulation for the inlining pass: the invariant is kept to the end; the
    final alias table tells how every original symbol is read off the new model. -/
theorem inlineGo_sound {α : Type} (I : Interp α) :
    ∀ (rest : List St) (cur : Sub) (ρo ρn : Env α),
      Inv I cur ρo ρn → inlineSafe cur rest = true →
      Inv I (inlineFinal cur rest) (run I rest ρo) (run I (inlineGo cur rest) ρn) := by
  intro rest
  induction rest with
  | nil => intro cur ρo ρn hinv _; simpa [inlineFinal, inlineGo, run_nil] using hinv
  | cons s rest ih =>
    intro cur ρo ρn hinv hsafe
    -- the generic "keep the statement, substituted" step
    have keep : ∀ (s : St), (s.defs.all (fun d => !cur.dom.contains d && !cur.rangeSyms.contains d)) = true →
        Inv I cur (s.exec I ρo) ((s.substAll cur).exec I ρn) := by
      intro s hs
      simp only [List.all_eq_true, Bool.and_eq_true, Bool.not_eq_true', List.contains_eq_mem,
        decide_eq_false_iff_not] at hs
      cases s with
      | assign x e =>
        have hx := hs x (by simp [St.defs])
        have hg : cur.get x = none := Sub.get_none_of_not_dom cur x hx.1
        simp only [St.substAll, lhsSubst, hg, St.exec, hinv.eval_substE e]
        exact hinv.emit x _ hg hx.2
      | ode a r =>
        have hg : ∀ y ∈ a, cur.get y = none := fun y hy =>
          Sub.get_none_of_not_dom cur y (hs y (by simpa [St.defs] using hy)).1
        have hmap : a.map (lhsSubst cur) = a := by
          conv => rhs; rw [← List.map_id a]
          apply List.map_congr_left
          intro y hy
          simp [lhsSubst, hg y hy]
        simp only [St.substAll, hmap]
        apply hinv.ode a r _ (map_substE_eval hinv r)
        intro y hy
        exact ⟨hg y hy, (hs y (by simpa [St.defs] using hy)).2⟩
    cases s with
    | ode a r =>
      simp only [inlineSafe, Bool.and_eq_true] at hsafe
      simp only [inlineGo, inlineFinal, run_cons]
      exact ih cur _ _ (keep _ hsafe.1) hsafe.2
    | assign x e =>
      cases e with
      | sym y =>
        simp only [inlineSafe, Bool.and_eq_true, Bool.not_eq_true',
          List.contains_eq_mem, decide_eq_false_iff_not] at hsafe
        simp only [inlineGo, inlineFinal, run_cons]
        apply ih _ _ _ _ hsafe.2
        simp only [St.exec]
        apply hinv.defer x (.sym y)
        exact hinv.eval_fresh (.sym y) (by intro z hz; simp [Expr.syms] at hz; subst hz; exact hsafe.1)
      | lit n =>
        simp only [inlineSafe, Bool.and_eq_true] at hsafe
        simp only [inlineGo, inlineFinal, run_cons]
        exact ih cur _ _ (keep _ hsafe.1) hsafe.2
      | f1 f a =>
        simp only [inlineSafe, Bool.and_eq_true] at hsafe
        simp only [inlineGo, inlineFinal, run_cons]
        exact ih cur _ _ (keep _ hsafe.1) hsafe.2
      | f2 f a b =>
        simp only [inlineSafe, Bool.and_eq_true] at hsafe
        simp only [inlineGo, inlineFinal, run_cons]
        exact ih cur _ _ (keep _ hsafe.1) hsafe.2
      | f3 f a b c =>
        simp only [inlineSafe, Bool.and_eq_true] at hsafe
        simp only [inlineGo, inlineFinal, run_cons]
        exact ih cur _ _ (keep _ hsafe.1) hsafe.2

/-- **The inlining pass of cleanup_model preserves the model function** (no alias
    chains, no kept statement re-defining an alias or its target): every symbol
    that is not a dropped alias keeps its value, and a dropped alias `x` has
    the value of the symbol recorded for it in the final alias table. -/
theorem cleanup_inline_sound_partial {α : Type} (I : Interp α) (ss : List St)
    (h : inlineSafe [] ss = true) (ρ : Env α) :
    (∀ y, y ∉ (inlineFinal [] ss).dom → run I (cleanupInline ss) ρ y = run I ss ρ y) ∧
    (∀ x t, (inlineFinal [] ss).get x = some t →
        eval I (run I (cleanupInline ss) ρ) t = run I ss ρ x) := by
  have hinv := inlineGo_sound I ss [] ρ ρ (Inv.refl I ρ) h
  constructor
  · intro y hy
    have := hinv y
    rw [Sub.get_none_of_not_dom _ y hy] at this
    exact this.symm
  · intro x t hx
    have := hinv x
    rw [hx] at this
    exact this.symm

/-- **Alias chains break the pass** (as pharmpy performs it): on
    `A=W; C=A; D=C; Y=D+1` the result reads `C`, which no statement defines
    any more (pharmpy's model validation then raises `Symbol C is not defined`). -/
theorem cleanup_inline_chain_witness :
    let ss : List St := [.assign "A" (.sym "W"), .assign "C" (.sym "A"), .assign "D" (.sym "C"),
      .assign "Y" (.f2 "add" (.sym "D") (.lit 1))]
    inlineSafe [] ss = false ∧
    cleanupInline ss = [.assign "Y" (.f2 "add" (.sym "C") (.lit 1))] ∧
    run IZ ss (fun y => if y = "W" then 7 else 0) "Y" = 8 ∧
    run IZ (cleanupInline ss) (fun y => if y = "W" then 7 else 0) "Y" = 1 := by
  decide

-- non-vacuity: pheno's `V = VC; S1 = VC` is safe and both aliases are inlined
example : inlineSafe [] [.assign "VC" (.f2 "mul" (.sym "TVV") (.sym "E")), .assign "V" (.sym "VC"),
    .assign "S1" (.sym "VC"), .ode ["A_CENTRAL(t)"] [.f2 "div" (.sym "CL") (.sym "V")],
    .assign "F" (.f2 "div" (.sym "A_CENTRAL(t)") (.sym "S1"))] = true := by decide
example : cleanupInline [.assign "V" (.sym "VC"), .ode ["A(t)"] [.f2 "div" (.sym "CL") (.sym "V")],
    .assign "F" (.f2 "div" (.sym "A(t)") (.sym "V"))]
    = [.ode ["A(t)"] [.f2 "div" (.sym "CL") (.sym "VC")], .assign "F" (.f2 "div" (.sym "A(t)") (.sym "VC"))] := by
  decide

/-! ## replace_non_random_rvs / replace_fixed_thetas -/

/-- **Substituting constants**: if the environment gives every replaced
    symbol the constant it is replaced by, and no statement defines a replaced
    symbol, `statements.subs(d)` computes the same environment. -/
theorem subst_constants_sound {α : Type} (I : Interp α) (d : List (Sym × Int)) :
    ∀ (ss : List St) (ρ : Env α),
      (∀ x c, (x, c) ∈ d → ρ x = I.lit c) →
      (∀ s ∈ ss, ∀ y ∈ s.defs, y ∉ (constSub d).dom) →
      run I (substConsts d ss) ρ = run I ss ρ := by
  intro ss
  induction ss with
  | nil => intro ρ _ _; rfl
  | cons s ss ih =>
    intro ρ hρ hdefs
    have hsub : ∀ e : Expr, eval I ρ (substE (constSub d) e) = eval I ρ e := by
      intro e
      unfold substE
      rw [Expr.eval_subst]
      congr 1
      funext y
      cases hg : (constSub d).get y with
      | none => rfl
      | some t =>
        obtain ⟨c, rfl, hm⟩ := constSub_get d y t hg
        simp [eval, hρ y c hm]
    have hstep : (s.substAll (constSub d)).exec I ρ = s.exec I ρ := by
      cases s with
      | assign x e =>
        have hx : (constSub d).get x = none :=
          Sub.get_none_of_not_dom _ x (hdefs (.assign x e) (by simp) x (by simp [St.defs]))
        simp only [St.substAll, lhsSubst, hx, St.exec, hsub]
      | ode a r =>
        have hmap : a.map (lhsSubst (constSub d)) = a := by
          conv => rhs; rw [← List.map_id a]
          apply List.map_congr_left
          intro y hy
          have : (constSub d).get y = none :=
            Sub.get_none_of_not_dom _ y (hdefs (.ode a r) (by simp) y (by simpa [St.defs] using hy))
          simp [lhsSubst, this]
        have hr : (r.map (substE (constSub d))).map (eval I ρ) = r.map (eval I ρ) := by
          rw [List.map_map]
          apply List.map_congr_left
          intro e _; exact hsub e
        simp only [St.substAll, hmap, St.exec, hr]
    simp only [substConsts, List.map_cons, run_cons]
    rw [hstep]
    apply ih
    · intro x c hm
      have hxd : x ∈ (constSub d).dom := by
        simp only [constSub, Sub.dom, List.map_map, List.mem_map]
        exact ⟨(x, c), hm, rfl⟩
      have hnd : x ∉ s.defs := fun hh => hdefs s (by simp) x hh hxd
      cases s with
      | assign z e =>
        have : x ≠ z := by simpa [St.defs] using hnd
        simp [St.exec, Env.set, this, hρ x c hm]
      | ode a r =>
        have : x ∉ a := by simpa [St.defs] using hnd
        simp [St.exec, this, hρ x c hm]
    · intro t ht; exact hdefs t (List.mem_cons_of_mem _ ht)

/-- **Which symbols replace_non_random_rvs substitutes**: exactly the parameters and random
    variables of distributions *all* of whose parameters are fixed to zero. -/
theorem non_random_syms_spec (zf : List Sym) (dists : List Dist) (x : Sym) :
    x ∈ nonRandomSyms zf dists ↔
      ∃ d ∈ dists, (∀ p ∈ d.params, p ∈ zf) ∧ (x ∈ d.params ∨ x ∈ d.rvs) := by
  simp only [nonRandomSyms, removedDists, List.mem_flatMap, List.mem_filter, Dist.allZeroFix,
    List.all_eq_true, List.contains_eq_mem, decide_eq_true_eq, List.mem_append]
  constructor
  · rintro ⟨d, ⟨hd, hz⟩, hx⟩; exact ⟨d, hd, hz, hx⟩
  · rintro ⟨d, hd, hz, hx⟩; exact ⟨d, ⟨hd, hz⟩, hx⟩

/-- **A random variable with variability is never replaced**: if the (only) distribution `x`
    belongs to has a parameter that is not fixed to zero — e.g. a joint block whose covariance
    alone is fixed to 0 — `x` is not substituted. -/
theorem random_rv_not_replaced (zf : List Sym) (dists : List Dist) (x : Sym)
    (h : ∀ d ∈ dists, (x ∈ d.params ∨ x ∈ d.rvs) → ∃ p ∈ d.params, p ∉ zf) :
    x ∉ nonRandomSyms zf dists := by
  rw [non_random_syms_spec]
  rintro ⟨d, hd, hz, hx⟩
  obtain ⟨p, hp, hnz⟩ := h d hd hx
  exact hnz (hz p hp)

/-- **replace_non_random_rvs preserves the model function** on every environment the
    distributions allow: where the random variables (and parameters) of the all-zero-fixed
    distributions are 0, the rewritten statements compute the same environment. -/
theorem replace_non_random_rvs_sound {α : Type} (I : Interp α) (zf : List Sym) (dists : List Dist)
    (ss : List St) (ρ : Env α)
    (hρ : ∀ x ∈ nonRandomSyms zf dists, ρ x = I.lit 0)
    (hdefs : ∀ s ∈ ss, ∀ y ∈ s.defs, y ∉ nonRandomSyms zf dists) :
    run I (replaceNonRandom zf dists ss) ρ = run I ss ρ := by
  apply subst_constants_sound
  · intro x c hm
    simp only [nonRandomConsts, List.mem_map, Prod.mk.injEq] at hm
    obtain ⟨y, hy, rfl, rfl⟩ := hm
    exact hρ y hy
  · intro s hs y hy hd
    apply hdefs s hs y hy
    simp only [constSub, nonRandomConsts, Sub.dom, List.map_map, List.mem_map, Function.comp] at hd
    obtain ⟨z, hz, rfl⟩ := hd
    exact hz

-- non-vacuity: a BLOCK(2) whose covariance alone is fixed to 0 is kept (nothing substituted);
-- with every element fixed to 0 both etas are replaced; univariate zero variance: that eta only
example : nonRandomSyms ["COV"] [⟨["E1", "E2"], ["V1", "COV", "V2"]⟩, ⟨["EPS"], ["SIG"]⟩] = [] := by decide
example : nonRandomSyms ["V1", "COV", "V2"] [⟨["E1", "E2"], ["V1", "COV", "V2"]⟩, ⟨["EPS"], ["SIG"]⟩]
    = ["V1", "COV", "V2", "E1", "E2"] := by decide
example : replaceNonRandom ["V2"] [⟨["E1"], ["V1"]⟩, ⟨["E2"], ["V2"]⟩]
    [.assign "CL" (.f2 "mul" (.sym "T") (.f1 "exp" (.sym "E1"))), .assign "V" (.f2 "add" (.sym "T") (.sym "E2"))]
    = [.assign "CL" (.f2 "mul" (.sym "T") (.f1 "exp" (.sym "E1"))), .assign "V" (.f2 "add" (.sym "T") (.lit 0))] := by
  decide

/-- **Prepending `theta = value`** (replace_fixed_thetas): assignments of closed
    expressions whose value is what the environment already holds change nothing. -/
theorem prepend_fixed_sound {α : Type} (I : Interp α) (ss : List St) (ρ : Env α) :
    ∀ (d : List (Sym × Expr)), (∀ p ∈ d, eval I ρ p.2 = ρ p.1) →
      run I (prependConsts d ss) ρ = run I ss ρ := by
  intro d
  induction d with
  | nil => intro _; rfl
  | cons p d ih =>
    intro h
    have hp := h p (by simp)
    have : (St.assign p.1 p.2).exec I ρ = ρ := by
      funext y
      simp only [St.exec, Env.set, hp]
      by_cases hy : y = p.1 <;> simp [hy]
    simp only [prependConsts, List.map_cons, List.cons_append, run_cons, this]
    exact ih (fun q hq => h q (List.mem_cons_of_mem _ hq))

/-! ## rename_symbols / greekify_model -/

/-- **Renaming commutes with execution** when the renaming is injective on a
    universe `U` that contains every symbol of the statements and fixes the
    ODE amounts: started from environments that correspond under the
    renaming, the renamed statements compute at `r y` what the original
    compute at `y`. -/
theorem rename_sound {α : Type} (I : Interp α) (r : Sym → Sym) (U : Sym → Prop)
    (hinj : ∀ a b, U a → U b → r a = r b → a = b) :
    ∀ (ss : List St) (ρ ρ' : Env α),
      (∀ s ∈ ss, (∀ y ∈ s.defs, U y) ∧ (∀ y ∈ s.reads, U y)) →
      (∀ s ∈ ss, ∀ a es, s = St.ode a es → ∀ y ∈ a, r y = y) →
      (∀ y, U y → ρ' (r y) = ρ y) →
      ∀ y, U y → run I (renameAll r ss) ρ' (r y) = run I ss ρ y := by
  intro ss
  induction ss with
  | nil => intro ρ ρ' _ _ h; simpa [renameAll, run_nil] using h
  | cons s ss ih =>
    intro ρ ρ' hU hamt h
    simp only [renameAll, List.map_cons, run_cons]
    apply ih _ _ (fun t ht => hU t (List.mem_cons_of_mem _ ht))
      (fun t ht => hamt t (List.mem_cons_of_mem _ ht))
    have hUs := hU s (by simp)
    have hev : ∀ e : Expr, (∀ y ∈ e.syms, U y) → eval I ρ' (renameE r e) = eval I ρ e := by
      intro e he
      rw [eval_renameE]
      exact Expr.eval_congr I _ _ e (fun y hy => h y (he y hy))
    intro y hy
    cases s with
    | assign x e =>
      have hx : U x := hUs.1 x (by simp [St.defs])
      simp only [St.rename, St.exec, Env.set, hev e hUs.2]
      by_cases hyx : y = x
      · simp [hyx]
      · have : r y ≠ r x := fun hh => hyx (hinj y x hy hx hh)
        simp [hyx, this, h y hy]
    | ode a es =>
      have hfix := hamt (St.ode a es) (by simp) a es rfl
      have hes : (es.map (renameE r)).map (eval I ρ') = es.map (eval I ρ) := by
        rw [List.map_map]
        apply List.map_congr_left
        intro e he
        apply hev
        intro z hz
        apply hUs.2
        simp only [St.reads, List.mem_flatMap]
        exact ⟨e, he, hz⟩
      simp only [St.rename, St.exec, hes]
      by_cases hya : y ∈ a
      · simp [hya, hfix y hya]
      · have : r y ∉ a := by
          intro hh
          have hz : U (r y) := hUs.1 _ (by simpa [St.defs] using hh)
          have := hinj (r y) y hz hy (hfix _ hh)
          exact hya (this ▸ hh)
        simp [hya, this, h y hy]

/-- A clashing (non-injective) renaming is not preserving: `rename {A ↦ B}` on
    `A=1; B=2; Y=A+B` changes `Y` from 3 to 4 ("make sure that no name clash occur"). -/
theorem rename_clash_witness :
    let ss : List St := [.assign "A" (.lit 1), .assign "B" (.lit 2),
      .assign "Y" (.f2 "add" (.sym "A") (.sym "B"))]
    let t : List (Sym × Sym) := [("A", "B")]
    injectiveOn t ["A", "B", "Y"] = false ∧
    run IZ ss (fun _ => 0) "Y" = 3 ∧ run IZ (renameAll (tableFn t) ss) (fun _ => 0) "Y" = 4 := by
  decide

/-- `injectiveOn` (what the harness evaluates) implies the hypothesis of `rename_sound`. -/
theorem injectiveOn_spec (t : List (Sym × Sym)) (univ : List Sym) (h : injectiveOn t univ = true) :
    ∀ a b, a ∈ univ → b ∈ univ → tableFn t a = tableFn t b → a = b := by
  intro a b ha hb hab
  simp only [injectiveOn, List.all_eq_true, Bool.or_eq_true, beq_iff_eq, bne_iff_ne, ne_eq] at h
  rcases h a ha b hb with h | h
  · exact h
  · exact absurd hab h

/-! ## remove_unused_parameters_and_rvs -/

/-- **A parameter / random variable no statement reads does not influence any
    other symbol**: its value (hence its removal from the model) is irrelevant. -/
theorem remove_unused_sound {α : Type} (I : Interp α) (ss : List St) (x : Sym)
    (hx : ∀ s ∈ ss, x ∉ s.reads) (ρ : Env α) (v : α) :
    ∀ y, y ≠ x → run I ss (ρ.set x v) y = run I ss ρ y :=
  run_agree_off I x ss _ _ hx (fun y hy => by simp [Env.set, hy])

/-! ## mu_reference_model -/

/-- **Statement surgery of mu-referencing**: replacing `x = e` (statement `k`)
    by `mu = m; x = e'` preserves every symbol other than `mu`, given the
    defining equation of the `solve` step (`e'` with `mu := m` has the value
    of `e`) and that `mu` is read by no later statement. -/
theorem mu_reference_sound {α : Type} (I : Interp α) (ss : List St) (k : Nat) (x mu : Sym)
    (e m e' : Expr) (hk : ss[k]? = some (.assign x e))
    (hsolve : ∀ ρ : Env α, eval I (ρ.set mu (eval I ρ m)) e' = eval I ρ e)
    (hfresh : ∀ s ∈ ss.drop (k + 1), mu ∉ s.reads) (ρ : Env α) :
    ∀ y, y ≠ mu → run I (muInsert ss k mu m e') ρ y = run I ss ρ y := by
  have hsplit : ss = ss.take k ++ .assign x e :: ss.drop (k + 1) := by
    have hlt : k < ss.length := by
      false_or_by_contra
      rename_i hn
      rw [List.getElem?_eq_none (by omega)] at hk
      cases hk
    have hget : ss[k] = .assign x e := by
      have := List.getElem?_eq_getElem hlt
      rw [this] at hk
      exact Option.some.inj hk
    calc ss = ss.take k ++ ss.drop k := (List.take_append_drop k ss).symm
      _ = ss.take k ++ ss[k] :: ss.drop (k + 1) := by rw [List.drop_eq_getElem_cons hlt]
      _ = _ := by rw [hget]
  intro y hy
  unfold muInsert
  rw [hk]
  simp only
  conv => rhs; rw [hsplit]
  simp only [List.append_assoc, run_append, List.cons_append, List.nil_append, run_cons]
  apply run_agree_off I mu _ _ _ hfresh _ y hy
  intro z hz
  simp only [St.exec, hsolve]
  simp only [Env.set]
  by_cases hzx : z = x
  · simp [hzx]
  · simp [hzx, hz]

/-! ## get_observation_expression and the prediction extractors -/

/-- Backwards expansion over a prefix evaluates (initially) to the value after the prefix. -/
theorem expandBack_sound {α : Type} (I : Interp α) (pre : List St) :
    ∀ (e r : Expr) (ρ : Env α), expandBack pre e = some r →
      eval I ρ r = eval I (run I pre ρ) e := by
  induction pre using snoc_induction with
  | nil => intro e r ρ h; simp [expandBack] at h; subst h; rfl
  | append_singleton pre s ih =>
    intro e r ρ h
    unfold expandBack at h
    rw [List.foldr_append] at h
    cases s with
    | ode a es =>
      simp only [List.foldr, expandStep] at h
      rw [expandBack_none] at h
      cases h
    | assign x t =>
      simp only [List.foldr, expandStep] at h
      have h' : expandBack pre (Expr.subst1 x t e) = some r := h
      rw [ih _ _ ρ h', run_append, Expr.eval_subst1]
      rfl

/-- Symbols not defined by any statement keep their value. -/
theorem run_not_defined {α : Type} (I : Interp α) (x : Sym) :
    ∀ (ss : List St) (ρ : Env α), (∀ s ∈ ss, x ∉ s.defs) → run I ss ρ x = ρ x := by
  intro ss
  induction ss with
  | nil => intro ρ _; rfl
  | cons s ss ih =>
    intro ρ h
    rw [run_cons, ih _ (fun t ht => h t (List.mem_cons_of_mem _ ht))]
    have h1 := h s (by simp)
    cases s with
    | assign z e =>
      have : x ≠ z := by simpa [St.defs] using h1
      simp [St.exec, Env.set, this]
    | ode a r =>
      have : x ∉ a := by simpa [St.defs] using h1
      simp [St.exec, this]

theorem firstIndex_lt (dv : Sym) : ∀ (ss : List St) (i : Nat), firstIndex dv ss = some i → i < ss.length := by
  intro ss
  induction ss with
  | nil => intro i h; simp [firstIndex] at h
  | cons s ss ih =>
    intro i h
    cases s with
    | assign x e =>
      simp only [firstIndex] at h
      by_cases hx : x = dv
      · simp [hx] at h; subst h; simp
      · simp only [hx, ↓reduceIte, Option.map_eq_some_iff] at h
        obtain ⟨j, hj, rfl⟩ := h
        have := ih j hj
        simp; omega
    | ode a r =>
      simp only [firstIndex, Option.map_eq_some_iff] at h
      obtain ⟨j, hj, rfl⟩ := h
      have := ih j hj
      simp; omega

/-- **get_observation_expression is the observation** when the DV is defined
    once (`obsSafe`): the returned expression, evaluated in the initial
    environment, is the value of the DV after executing all statements. -/
theorem obs_expr_sound_partial {α : Type} (I : Interp α) (ss : List St) (dv : Sym) (r : Expr)
    (hsafe : obsSafe ss dv = true) (h : obsExpr ss dv = some r) (ρ : Env α) :
    eval I ρ r = run I ss ρ dv := by
  unfold obsExpr at h
  unfold obsSafe at hsafe
  cases hi : firstIndex dv ss with
  | none => simp [hi] at h
  | some i =>
    simp only [hi] at h hsafe
    have hlt := firstIndex_lt dv ss i hi
    cases hs : ss[i]? with
    | none => simp [hs] at h
    | some s =>
      cases s with
      | ode a es => simp [hs] at h
      | assign x t =>
        simp only [hs, Bool.and_eq_true] at h hsafe
        have hs1 : ∀ s ∈ ss.drop (i + 1), dv ∉ s.defs := by
          intro s hm
          have := List.all_eq_true.mp hsafe.1 s hm
          simpa using this
        have hs2 : dv ∉ t.syms := by simpa using hsafe.2
        have hx : x = dv := by
          -- the statement found by firstIndex assigns dv
          clear h hsafe hlt hs1 hs2
          induction ss generalizing i with
          | nil => simp at hs
          | cons s0 ss ih =>
            cases s0 with
            | assign z e =>
              simp only [firstIndex] at hi
              by_cases hz : z = dv
              · simp [hz] at hi; subst hi; simp at hs; exact hs.1 ▸ hz
              · simp only [hz, ↓reduceIte, Option.map_eq_some_iff] at hi
                obtain ⟨j, hj, rfl⟩ := hi
                exact ih j hj (by simpa using hs)
            | ode a es =>
              simp only [firstIndex, Option.map_eq_some_iff] at hi
              obtain ⟨j, hj, rfl⟩ := hi
              exact ih j hj (by simpa using hs)
        subst hx
        have htake : ss.take (i + 1) = ss.take i ++ [.assign x t] := by
          rw [List.take_add_one, hs]; rfl
        have hval := expandBack_sound I (ss.take (i + 1)) t r ρ h
        have hsplit : ss = ss.take (i + 1) ++ ss.drop (i + 1) := (List.take_append_drop _ _).symm
        conv => rhs; rw [hsplit, run_append]
        rw [run_not_defined I x _ _ hs1, hval, htake, run_append, run_cons, run_nil]
        simp only [St.exec]
        rw [eval_set_fresh I _ x _ t hs2]
        simp [Env.set]

/-- **The extractor takes the *first* assignment of the DV**: on
    `Y=F; Y=Y+1` it returns `F` although the observation is `F+1`. -/
theorem obs_expr_first_assignment_witness :
    let ss : List St := [.assign "Y" (.sym "F"), .assign "Y" (.f2 "add" (.sym "Y") (.lit 1))]
    obsSafe ss "Y" = false ∧ obsExpr ss "Y" = some (.sym "F") ∧
    run IZ ss (fun y => if y = "F" then 5 else 0) "Y" = 6 ∧
    eval IZ (fun y => if y = "F" then 5 else 0) (.sym "F") = 5 := by
  decide

/-- **Individual / population prediction expressions**: setting the listed random
    variables to zero in the observation expression gives the observation at
    the environment where those variables are zero. -/
theorem pred_expr_sound_partial {α : Type} (I : Interp α) (ss : List St) (dv : Sym) (zero : List Sym)
    (r : Expr) (hsafe : obsSafe ss dv = true) (h : predExpr ss dv zero = some r) (ρ : Env α) :
    eval I ρ r = run I ss (fun y => if y ∈ zero then I.lit 0 else ρ y) dv := by
  unfold predExpr at h
  cases ho : obsExpr ss dv with
  | none => simp [ho] at h
  | some r0 =>
    simp only [ho, Option.map_some, Option.some.injEq] at h
    subst h
    rw [← obs_expr_sound_partial I ss dv r0 hsafe ho]
    unfold substE
    rw [Expr.eval_subst]
    congr 1
    funext y
    induction zero with
    | nil => simp [zeroSub, Sub.get]
    | cons z zero ih =>
      simp only [zeroSub, List.map_cons, Sub.get, List.mem_cons]
      by_cases hy : y = z
      · simp [hy, eval]
      · simp only [hy, ↓reduceIte, false_or]
        exact ih

/-! ## numeric evaluators: the `parameters` mapping -/

/-- **An evaluator is `eval` under the environment its mapping denotes**: substituting the
    mapping and evaluating is evaluating with every parameter NAME the mapping mentions bound
    to the mapping's value at that name. -/
theorem evaluator_is_eval_under_mapping {α : Type} (I : Interp α) (ρ : Env α) (m : PMap) (e : Expr) :
    eval I ρ (evalWith m e) = eval I (overlay I ρ m) e := by
  unfold evalWith substE overlay
  rw [Expr.eval_subst]
  congr 1
  funext y
  rw [PMap.toSub_get]
  cases m.value y <;> rfl

/-- **Key-form invariance** (the obligation K checks on the real evaluators): the result depends
    on the mapping only through its value at each parameter name — whether the keys are strings,
    sympy symbols or pharmpy `Expr` symbols, and in which order, is irrelevant. -/
theorem evaluator_key_form_invariant {α : Type} (I : Interp α) (ρ : Env α) (m₁ m₂ : PMap)
    (h : ∀ n, m₁.value n = m₂.value n) (e : Expr) :
    eval I ρ (evalWith m₁ e) = eval I ρ (evalWith m₂ e) := by
  rw [evaluator_is_eval_under_mapping, evaluator_is_eval_under_mapping]
  congr 1
  funext y
  simp [overlay, h y]

/-- **evaluate_population_prediction / evaluate_individual_prediction equal direct evaluation**
    (DV defined once): the value is the DV after executing the statements in the environment
    where the mapped parameters have the mapped values and the listed random variables are 0. -/
theorem evaluate_prediction_sound_partial {α : Type} (I : Interp α) (ss : List St) (dv : Sym)
    (zero : List Sym) (m : PMap) (r : Expr) (hsafe : obsSafe ss dv = true)
    (h : evaluatePred ss dv zero m = some r) (ρ : Env α) :
    eval I ρ r = run I ss (fun y => if y ∈ zero then I.lit 0 else overlay I ρ m y) dv := by
  unfold evaluatePred at h
  cases hp : predExpr ss dv zero with
  | none => simp [hp] at h
  | some r0 =>
    simp only [hp, Option.map_some, Option.some.injEq] at h
    subst h
    rw [evaluator_is_eval_under_mapping]
    exact pred_expr_sound_partial I ss dv zero r0 hsafe hp _

/-- **evaluate_expression equals direct evaluation** of the expression after the statements,
    in the environment the mapping denotes. -/
theorem evaluate_expression_sound {α : Type} (I : Interp α) (ss : List St) (e r : Expr) (m : PMap)
    (h : evaluateExpression ss e m = some r) (ρ : Env α) :
    eval I ρ r = eval I (run I ss (overlay I ρ m)) e := by
  unfold evaluateExpression at h
  cases hp : expandBack ss e with
  | none => simp [hp] at h
  | some r0 =>
    simp only [hp, Option.map_some, Option.some.injEq] at h
    subst h
    rw [evaluator_is_eval_under_mapping]
    exact expandBack_sound I ss e r0 _ hp

/-- `{**inits, **given}` is "given over inits" by name when `given` is keyed by strings
    (what held of evaluate_expression before 20af928, and the core of the current code). -/
theorem merged_mapping_str_keys (inits : List (Sym × Expr)) (given : PMap)
    (hs : ∀ p ∈ given, p.1.isStr = true) (n : Sym) :
    (mergedMappingOld inits (some given)).value n =
      match given.value n with
      | some v => some v
      | none => (initsMap inits).value n := by
  simp only [mergedMappingOld, pyMerge]
  rw [PMap.value_append, merged_base_value, PMap.atKey_str given hs]
  cases hb : (initsMap inits).value n with
  | some v0 => cases hg : given.value n <;> simp
  | none =>
    simp only
    rw [merged_rest_value inits given hs n hb]
    cases hg : given.value n <;> simp

/-- **evaluate_expression's mapping (since 20af928) is "given over inits" by NAME for every key
    form**: for a mapping with one entry per parameter name — keyed by strings, sympy symbols,
    `Expr` symbols or any mixture — the merged mapping gives each name the caller's value if there
    is one and the initial estimate otherwise. -/
theorem merged_mapping_by_name (inits : List (Sym × Expr)) (given : PMap)
    (hnd : (given.map (fun p => p.1.name)).Nodup) (n : Sym) :
    (mergedMapping inits (some given)).value n =
      match given.value n with
      | some v => some v
      | none => (initsMap inits).value n := by
  have := merged_mapping_str_keys inits (normalise given) (normalise_isStr given) n
  simp only [mergedMappingOld] at this
  simp only [mergedMapping]
  rw [this, normalise_value given hnd n]

/-- **evaluate_expression equals direct evaluation for every key form** (full statement, no
    side-condition on the keys): the result is the expression after the statements, in the
    environment where each parameter has the caller's value if given and its initial estimate
    otherwise. -/
theorem evaluate_expression_by_name {α : Type} (I : Interp α) (ss : List St) (e r : Expr)
    (inits : List (Sym × Expr)) (given : PMap) (hnd : (given.map (fun p => p.1.name)).Nodup)
    (h : evaluateExpression ss e (mergedMapping inits (some given)) = some r) (ρ : Env α) :
    eval I ρ r = eval I (run I ss (overlay I ρ (given ++ initsMap inits))) e := by
  rw [evaluate_expression_sound I ss e r _ h ρ]
  congr 2
  funext y
  simp only [overlay, merged_mapping_by_name inits given hnd y, PMap.value_append]
  cases given.value y <;> rfl

/-- **The pre-repair merge lost symbol-keyed entries** (evaluate_expression before 20af928;
    the change seeded as C07c put the same merge into every evaluator): the initial estimate
    stays in front of the caller's entry for the same name and `subs` lets the first entry win.
    The current mapping and the direct mapping give the caller's value. -/
theorem merged_mapping_symbol_keys_witness :
    let inits : List (Sym × Expr) := [("TH", .lit 1)]
    (mergedMappingOld inits (some [(Key.str "TH", .lit 5)])).value "TH" = some (.lit 5) ∧
    (mergedMappingOld inits (some [(Key.symbol "TH", .lit 5)])).value "TH" = some (.lit 1) ∧
    (mergedMappingOld inits (some [(Key.expr "TH", .lit 5)])).value "TH" = some (.lit 1) ∧
    (mergedMapping inits (some [(Key.symbol "TH", .lit 5)])).value "TH" = some (.lit 5) ∧
    (mergedMapping inits (some [(Key.expr "TH", .lit 5)])).value "TH" = some (.lit 5) ∧
    (directMapping inits (some [(Key.symbol "TH", .lit 5)])).value "TH" = some (.lit 5) ∧
    eval IZ (fun _ => 0) (evalWith (mergedMappingOld inits (some [(Key.symbol "TH", .lit 5)]))
      (.f2 "add" (.sym "TH") (.sym "W"))) = 1 ∧
    eval IZ (fun _ => 0) (evalWith (mergedMapping inits (some [(Key.symbol "TH", .lit 5)]))
      (.f2 "add" (.sym "TH") (.sym "W"))) = 5 := by
  decide

-- non-vacuity: str-, symbol- and Expr-keyed mappings in different orders denote the same values
example : ∀ n, PMap.value [(Key.str "A", Expr.lit 2), (Key.symbol "B", Expr.lit 3)] n
    = PMap.value [(Key.expr "B", Expr.lit 3), (Key.symbol "A", Expr.lit 2)] n := by
  intro n
  simp only [PMap.value, Key.name]
  by_cases ha : n = "A" <;> by_cases hb : n = "B" <;> simp_all

/-! ## eval_expr: the data arrays are bound to the symbols by name -/

/-- **Binding by name**: with distinct symbols, a symbol paired with a value is bound to it. -/
theorem eval_expr_binds_by_name {α : Type} (pairs : List (Sym × α)) (dflt : Env α)
    (hnd : (pairs.map (fun p => p.1)).Nodup) (y : Sym) (v : α) (h : (y, v) ∈ pairs) :
    bindEnv pairs dflt y = v := by
  simp [bindEnv, (assocGet_some_iff pairs hnd y v).mpr h]

/-- **The order of the argument list is irrelevant**: permuting symbols and data arrays
    *consistently* (the same permutation of the pairs) denotes the same environment, hence the
    same value of every expression — for argument lists of every length. -/
theorem eval_expr_perm_invariant {α : Type} (I : Interp α) (e : Expr) (pairs pairs' : List (Sym × α))
    (dflt : Env α) (hp : pairs.Perm pairs') (hnd : (pairs.map (fun p => p.1)).Nodup) :
    e.eval I (bindEnv pairs dflt) = e.eval I (bindEnv pairs' dflt) := by
  have hnd' : (pairs'.map (fun p => p.1)).Nodup := (hp.map _).nodup_iff.mp hnd
  congr 1
  funext y
  simp only [bindEnv]
  cases h : assocGet pairs y with
  | some v =>
    have hm : (y, v) ∈ pairs' := hp.mem_iff.mp ((assocGet_some_iff pairs hnd y v).mp h)
    rw [(assocGet_some_iff pairs' hnd' y v).mpr hm]
  | none =>
    have hk : y ∉ pairs'.map (fun p => p.1) := fun hh =>
      (assocGet_none_iff pairs y).mp h ((hp.map _).mem_iff.mpr hh)
    rw [(assocGet_none_iff pairs' y).mpr hk]

/-- Stated for `evalRow`: reordering the symbol list and the data list by the same permutation
    of their pairs does not change the value at a record. -/
theorem eval_row_order_invariant {α : Type} (I : Interp α) (e : Expr) (syms syms' : List Sym)
    (data data' : List α) (dflt : Env α) (hp : (syms.zip data).Perm (syms'.zip data'))
    (hnd : ((syms.zip data).map (fun p => p.1)).Nodup) :
    evalRow I e syms data dflt = evalRow I e syms' data' dflt :=
  eval_expr_perm_invariant I e _ _ dflt hp hnd

/-- **An inconsistent order changes the value**: the symbols sorted one way, the data passed
    in another (the twelve-symbol shape `__tmp0 … __tmp11` sorted as strings puts `__tmp10`,
    `__tmp11` before `__tmp2`), on an expression that is not symmetric in its arguments. -/
theorem eval_row_inconsistent_order_witness :
    let syms := ["__tmp0", "__tmp1", "__tmp10", "__tmp11", "__tmp2", "__tmp3"]
    let idx  := ["__tmp0", "__tmp1", "__tmp2", "__tmp3", "__tmp10", "__tmp11"]
    let data : List Int := [1, 2, 3, 4, 5, 6]
    let e : Expr := .f2 "add" (.f2 "mul" (.sym "__tmp2") (.lit 10)) (.sym "__tmp10")
    evalRow IZ e idx data (fun _ => 0) = 35 ∧ evalRow IZ e syms data (fun _ => 0) = 53 := by
  decide

-- non-vacuity: a consistent reordering of three pairs
example : evalRow IZ (.f2 "add" (.f2 "mul" (.sym "A") (.lit 10)) (.sym "B")) ["A", "B", "C"] [1, 2, 3] (fun _ => 0)
    = evalRow IZ (.f2 "add" (.f2 "mul" (.sym "A") (.lit 10)) (.sym "B")) ["C", "A", "B"] [3, 1, 2] (fun _ => 0) := by decide

/-! ## relation to the shared statement type -/

/-- C07's statements extend the shared core: on embedded core statements `run` agrees. -/
theorem run_ofCore {α : Type} (I : Interp α) :
    ∀ (ss : List Stmt) (ρ : Env α), run I (ss.map St.ofCore) ρ = Pharmpy.run I ss ρ := by
  intro ss
  induction ss with
  | nil => intro ρ; rfl
  | cons s ss ih =>
    intro ρ
    simp only [List.map_cons, run_cons, Pharmpy.run_cons, ih]
    congr 1
    cases s with
    | assign x e => rfl
    | ode a r =>
      funext y
      simp [St.ofCore, St.exec, Stmt.exec, List.map_map, Function.comp_def, eval]

end Pharmpy.C07
