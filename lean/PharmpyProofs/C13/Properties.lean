import PharmpyProofs.C13.Lemmas
import PharmpyModel.Generated.C13Consts
namespace Pharmpy.C13

/-- T6: the separator regex in the source is the one `sepLen` was written for. -/
theorem sep_regex_is_modelled : Generated.sepRegex = " *, *| *[\\t] *| +" := by decide

end Pharmpy.C13
