import PharmpyProofs.C13.Lemmas
import PharmpyModel.Generated.C13Consts
/-
  C13 — property theorems.  Model: PharmpyModel/C13/{Split,Number,Reader}.lean
  (mirror of dataset.py and of the pandas python engine it calls); spec: `tok`,
  `specNumber`, `specRow` (docs/NONMEM.rst).
-/
namespace Pharmpy.C13

/-! ## T6: the constants in the source are the ones the model was written for -/

theorem sep_regex_is_modelled : Generated.sepRegex = " *, *| *[\\t] *| +" := by decide
theorem comment_regex_is_modelled :
    Generated.commentAt = "^[ \\t]*[A-Za-z#@].*(\\n|$)" ∧ Generated.commentPrefix = "^[" ∧
    Generated.commentSuffix = "].*(\\n|$)" ∧ Generated.commentEscaped = true := by decide
theorem spacetab_blank_regex_is_modelled :
    Generated.spaceTab = " \\t" ∧ Generated.blankLine = "^[ \\t]*\\n" := by decide
theorem short_regex_is_modelled :
    Generated.shortRegex = "([+\\-]?)([^+\\-dD]*)([+-])([^+\\-dD]*)" ∧
    Generated.shortMatchFn = "fullmatch" := by decide
theorem item_limit_is_modelled : Generated.itemLimit = itemLimit := by decide
theorem special_columns_are_modelled :
    Generated.specialCols.map String.toList = timeName :: dateNames ∧
    Generated.dateCols.map String.toList = dateNames := by decide
theorem operator_table_is_modelled :
    Generated.opTable =
      [("OP_EQ", "==", "float"), ("OP_GT", ">", "float"), ("OP_GT_EQ", ">=", "float"),
       ("OP_LT", "<", "float"), ("OP_LT_EQ", "<=", "float"), ("OP_NE", "!=", "float"),
       ("OP_STR_EQ", "==", "str"), ("OP_STR_NE", "!=", "str")] := by decide

theorem reserved_names_are_modelled : Generated.reservedNames.map String.toList = reservedNames := by decide

/-! ## splitting a row -/

/-- **split_matches_rules.** For every row (any length) that has no space directly
    before a TAB (NM-TRAN's error) and whose ends, after removing spaces, are not
    TABs / control white space: what pandas' python engine hands to pharmpy
    (`re.split(' *, *| *[\t] *| +', line.strip())`) is exactly the item list of
    the documented tokenizer. -/
theorem split_matches_rules (l : Str) (h1 : noSpTab l = true) (h2 : edgeOk l = true) :
    lineItems l = specItems l := by
  unfold lineItems specItems reSplit
  rw [pyStrip_eq_spStrip h2, tok_lead_spStrip l,
      tok_lead_eq_item _ (spStrip_no_space_head l)]
  exact split_eq_tok_item _ _ (Nat.le_refl _) (noSpTab_spStrip h1) (noTrailSp_spStrip l)

/-- the documented tokenizer itself ignores the spaces at both ends of a row -/
theorem spec_ignores_edge_spaces (l : Str) : specItems l = specItems (spStrip l) :=
  tok_lead_spStrip l

/-- Without the edge hypothesis the statement is false of the code: a leading
    TAB is removed by `strip()` although the rules make it a delimiter. -/
theorem split_edge_tab_witness :
    lineItems "\t1,2".toList = ["1".toList, "2".toList] ∧
    specItems "\t1,2".toList = ["".toList, "1".toList, "2".toList] ∧
    noSpTab "\t1,2".toList = true ∧ edgeOk "\t1,2".toList = false := by decide

example : noSpTab " 1 ,  2\t 3   4, ,5, ".toList = true ∧ edgeOk " 1 ,  2\t 3   4, ,5, ".toList = true ∧
    specItems " 1 ,  2\t 3   4, ,5, ".toList = ["1", "2", "3", "4", "", "5", ""].map String.toList := by decide


/-! ## items: NULL and the 24 character limit -/

/-- **item_limit.** An item is refused as too long exactly when, after NULL
    substitution (None, `.` and the empty item stand for the NULL value), it has
    more than 24 characters — the characters absorbed by delimiters never count
    because they are not part of the item (`split_matches_rules`). -/
theorem item_limit (null missing : Str) (x : Option Str) :
    convertItem null missing x = .error .tooLong ↔ (normItem null x).length > 24 := by
  unfold convertItem
  simp only [itemLimit]
  by_cases h : (normItem null x).length > 24
  · simp [h]
  · simp only [h, if_false, iff_false]
    split
    · simp
    · split <;> simp

/-- NULL items take the NULL value before anything else is looked at. -/
theorem null_items (null : Str) :
    normItem null none = null ∧ normItem null (some ['.']) = null ∧ normItem null (some []) = null := by
  simp [normItem]

/-! ## padding and stripping to the $INPUT columns -/

/-- every row handed to the filters has exactly the `$INPUT` columns -/
theorem table_width (n : Nat) (null : Str) (lines : List Str) (t : List (List (Option Str)))
    (h : buildTable n null lines = .ok t) : ∀ r ∈ t, r.length = n := by
  unfold buildTable at h
  cases hp : pandasTable lines with
  | error e => simp [hp] at h
  | ok wr =>
    obtain ⟨w, rows⟩ := wr
    simp only [hp] at h
    injection h with h
    intro r hr
    rw [← h] at hr
    obtain ⟨r0, hr0, rfl⟩ := List.mem_map.mp hr
    apply shapeRow_length
    simp only [pandasTable] at hp
    generalize List.filter (fun r => !isEmptyRow r) (List.map lineItems lines) = rs at hp
    cases rs with
    | nil => simp at hp
    | cons r1 tl =>
      simp only [Except.ok.injEq, Prod.mk.injEq] at hp
      obtain ⟨hw, hrows⟩ := hp
      rw [← hrows] at hr0
      obtain ⟨r2, _, rfl⟩ := List.mem_map.mp hr0
      rw [← hw]; exact padTo_length _ _

theorem normItem_some_null (null : Str) : normItem null (some null) = null := by
  simp [normItem]

/-- **pad_strip_partial.** `w` = number of items of the first row (pandas' table
    width), `n` = number of `$INPUT` columns. For a row whose items fit the
    table width, or when the table is at least as wide as `$INPUT`, the row
    pharmpy builds reads (after NULL substitution) exactly as the documented
    row: the first `n` items, padded with NULL; surplus items discarded. -/
theorem pad_strip_partial (n w : Nat) (null : Str) (its : List Str) (h : its.length ≤ w ∨ n ≤ w) :
    (shapeRow n w null (padTo w (its.map some))).map (normItem null) =
    (specRow n its).map (fun t => normItem null (some t)) := by
  apply List.ext_getElem?
  intro i
  simp only [shapeRow, padTo, specRow, List.map_take, List.map_append, List.map_replicate,
    List.map_map, normItem_some_null, List.length_map]
  have e1 : normItem null (some ([] : Str)) = null := by simp [normItem]
  have e2 : normItem null none = null := rfl
  simp only [e1, e2]
  simp only [List.getElem?_take, List.getElem?_append, List.getElem?_replicate, List.length_take,
    List.length_append, List.length_replicate, List.length_map, List.getElem?_map]
  grind

example : (shapeRow 3 5 ['0'] (padTo 5 (["1", "2", "3", "4", "5"].map String.toList |>.map some))).map (normItem ['0'])
    = ["1", "2", "3"].map String.toList ∧
    (shapeRow 4 2 ['0'] (padTo 2 (["1"].map String.toList |>.map some))).map (normItem ['0'])
    = ["1", "0", "0", "0"].map String.toList := by decide

/-- The full statement ("short rows are padded with NULL, surplus items are
    discarded, row by row") is false of the code: pandas takes the table width
    from the first row, so a short first row cuts every later row. -/
theorem pad_strip_witness :
    buildTable 4 ['0'] ["1,2".toList, "4,5,6,7".toList] =
      .ok [[some ['1'], some ['2'], some ['0'], some ['0']], [some ['4'], some ['5'], some ['0'], some ['0']]] ∧
    specTable 4 ["1,2".toList, "4,5,6,7".toList] = [[['1'], ['2'], [], []], [['4'], ['5'], ['6'], ['7']]] := by
  decide

/-! ## IGNORE / ACCEPT -/

/-- **filters_in_order.** If the filter list can be applied, the result is the
    rows that pass every filter (IGNORE: no condition holds; ACCEPT: every
    condition holds), in their original order. -/
theorem filters_in_order (names : List Str) (null missing : Str) (ig : Bool) :
    ∀ (fs : List Filt) (rows out : List (List (Option Str))),
      applyFilters names null missing ig fs rows = .ok out →
      out = rows.filter (fun r => fs.all (fun f => keeps names null missing ig f r)) := by
  intro fs
  induction fs with
  | nil =>
    intro rows out h
    simp [applyFilters] at h
    subst h
    exact (List.filter_eq_self.mpr (by simp)).symm
  | cons f fs ih =>
    intro rows out h
    simp only [applyFilters] at h
    by_cases hq : (!f.op.isStr && rows.isEmpty && signedVal f) = true
    · simp [hq] at h
    · simp only [hq] at h
      cases hf : applyFilter names null missing ig f rows with
      | error e => simp [hf] at h
      | ok rows' =>
        simp only [hf] at h
        rw [ih rows' out h, applyFilter_ok _ _ _ _ _ _ _ hf, List.filter_filter]
        congr 1
        funext r
        simp [Bool.and_comm]

/-- **Order matters for errors.** A conversion error can only come from a row
    that passed every earlier filter: "an illegal item gets ignored before it
    needs to be parsed". -/
theorem filters_error_reached (names : List Str) (null missing : Str) (ig : Bool) :
    ∀ (fs : List Filt) (rows : List (List (Option Str))) (e : RErr),
      applyFilters names null missing ig fs rows = .error e →
      e = .signedOnEmpty ∨
      ∃ pre f post r, fs = pre ++ f :: post ∧ r ∈ rows ∧
        pre.all (fun g => keeps names null missing ig g r) = true ∧
        condHolds names null missing f r = .error e := by
  intro fs
  induction fs with
  | nil => intro rows e h; simp [applyFilters] at h
  | cons f fs ih =>
    intro rows e h
    simp only [applyFilters] at h
    by_cases hq : (!f.op.isStr && rows.isEmpty && signedVal f) = true
    · simp only [hq, if_true] at h
      injection h with h; exact Or.inl h.symm
    · simp only [hq] at h
      cases hf : applyFilter names null missing ig f rows with
      | error e' =>
        simp only [hf] at h
        injection h with h
        obtain ⟨r, hm, hc⟩ := applyFilter_error _ _ _ _ _ _ _ hf
        exact Or.inr ⟨[], f, fs, r, rfl, hm, rfl, by rw [hc, h]⟩
      | ok rows' =>
        simp only [hf] at h
        rcases ih rows' e h with h1 | ⟨pre, g, post, r, hfs, hm, hall, hc⟩
        · exact Or.inl h1
        · have hrows := applyFilter_ok _ _ _ _ _ _ _ hf
          rw [hrows] at hm
          have hm' := List.mem_filter.mp hm
          refine Or.inr ⟨f :: pre, g, post, r, by rw [hfs]; rfl, hm'.1, ?_, hc⟩
          simp [List.all_cons, hm'.2, hall]

/-- concrete: the same two IGNORE conditions succeed in one order and raise in the other -/
theorem filter_order_witness :
    let names := [['A'], ['C']]
    let rows := [[some ['1'], some ['x']], [some ['2'], some ['7']]]
    let fText : Filt := ⟨['C'], .seq, ['x']⟩
    let fNum : Filt := ⟨['C'], .gt, ['8']⟩
    applyFilters names ['0'] "-99".toList true [fText, fNum] rows = .ok [[some ['2'], some ['7']]] ∧
    applyFilters names ['0'] "-99".toList true [fNum, fText] rows = .error .item := by
  decide +kernel

/-! ## $INPUT synonyms in the $DATA filters (`replace_synonym_in_filters`) -/

/-- the function is an order-preserving map over the filter list -/
theorem replace_synonyms_map (repl : List (Str × Str)) (fs : List Filt) :
    replaceSynonyms repl fs = fs.map (renameFilter repl) := by
  induction fs with
  | nil => rfl
  | cons f fs ih => simp [replaceSynonyms, ih]

theorem replace_synonyms_length (repl : List (Str × Str)) (fs : List Filt) :
    (replaceSynonyms repl fs).length = fs.length := by
  simp [replace_synonyms_map]

/-- **order**: the i-th filter handed to the reader is the i-th filter written in `$DATA`
    (renamed if its column has a synonym) — for every list and position. -/
theorem replace_synonyms_order (repl : List (Str × Str)) (fs : List Filt) (i : Nat) :
    (replaceSynonyms repl fs)[i]? = (fs[i]?).map (renameFilter repl) := by
  simp [replace_synonyms_map]

/-- operator and value are never touched; a filter on a column without synonym is unchanged;
    a filter on a reserved name with a synonym is moved to the synonym -/
theorem rename_filter_spec (repl : List (Str × Str)) (f : Filt) :
    (renameFilter repl f).op = f.op ∧ (renameFilter repl f).val = f.val ∧
    (lookupSyn repl f.col = none → renameFilter repl f = f) ∧
    (∀ s, lookupSyn repl f.col = some s → (renameFilter repl f).col = s) := by
  unfold renameFilter
  cases h : lookupSyn repl f.col with
  | none => simp
  | some s => simp

/-- **model-level filters_in_order**: with synonyms, the rows returned are those passing every
    written filter (after renaming), in their original order -/
theorem model_filters_in_order (names : List Str) (null missing : Str) (ig : Bool)
    (repl : List (Str × Str)) (fs : List Filt) (rows out : List (List (Option Str)))
    (h : applyFilters names null missing ig (replaceSynonyms repl fs) rows = .ok out) :
    out = rows.filter (fun r => fs.all (fun f => keeps names null missing ig (renameFilter repl f) r)) := by
  rw [filters_in_order names null missing ig _ rows out h, replace_synonyms_map]
  congr 1
  funext r
  simp only [List.all_map]
  rfl

/-- **model-level order of errors**: a conversion error comes from a row that passed every filter
    written before the failing one ("an illegal item gets ignored before it needs to be parsed"),
    also when some of the filters are written with `$INPUT` synonyms. -/
theorem model_filters_error_reached (names : List Str) (null missing : Str) (ig : Bool)
    (repl : List (Str × Str)) (fs : List Filt) (rows : List (List (Option Str))) (e : RErr)
    (h : applyFilters names null missing ig (replaceSynonyms repl fs) rows = .error e) :
    e = .signedOnEmpty ∨
    ∃ pre f post r, fs = pre ++ f :: post ∧ r ∈ rows ∧
      pre.all (fun g => keeps names null missing ig (renameFilter repl g) r) = true ∧
      condHolds names null missing (renameFilter repl f) r = .error e := by
  rcases filters_error_reached names null missing ig _ rows e h with h1 | ⟨pre', g, post', r, hfs, hm, hall, hc⟩
  · exact Or.inl h1
  · right
    rw [replace_synonyms_map] at hfs
    obtain ⟨pre, tl, hsplit, hpre, htl⟩ := List.map_eq_append_iff.mp hfs
    obtain ⟨f, post, htl2, hf, _⟩ := List.map_eq_cons_iff.mp htl
    refine ⟨pre, f, post, r, by rw [hsplit, htl2], hm, ?_, by rw [hf]; exact hc⟩
    rw [← hpre] at hall
    simpa [List.all_map] using hall

theorem synonym_filter_order_witness :
    let opts : List InOpt := [⟨"ID".toList, none⟩, ⟨"CONC".toList, some "DV".toList⟩, ⟨"WGT".toList, none⟩]
    let fs : List Filt := [⟨"DV".toList, .seq, "EXCL".toList⟩, ⟨"WGT".toList, .gt, "100".toList⟩]
    (parseColumnInfo opts 1).map (fun c => (c.names, replaceSynonyms c.repl fs)) =
      some (["ID", "CONC", "WGT"].map String.toList,
            [⟨"CONC".toList, .seq, "EXCL".toList⟩, ⟨"WGT".toList, .gt, "100".toList⟩]) := by
  decide

/-! ## write / read histories (file system as a map path ↦ content) -/

theorem fs_get_set_same (fs : FS) (p c : Str) : (fs.set p c).get p = some c := by
  induction fs with
  | nil => simp [FS.set, FS.get]
  | cons h r ih =>
    obtain ⟨q, d⟩ := h
    by_cases hq : q = p
    · simp [FS.set, FS.get, hq]
    · simp [FS.set, FS.get, hq, ih]

theorem fs_get_set_other (fs : FS) (p c q : Str) (h : q ≠ p) : (fs.set p c).get q = fs.get q := by
  induction fs with
  | nil => simp [FS.set, FS.get, Ne.symm h]
  | cons hd r ih =>
    obtain ⟨x, d⟩ := hd
    by_cases hx : x = p
    · subst hx
      simp [FS.set, FS.get, Ne.symm h]
    · by_cases hxq : x = q
      · subst hxq
        simp [FS.set, FS.get, h]
      · simp [FS.set, FS.get, hx, hxq, ih]

/-- **write_csv_overwrites.** A forced `write_csv` always succeeds; afterwards the target holds the
    rendering of the model's dataset — whatever the file system held before and whatever
    `datainfo.path` said —, `datainfo.path` is the target, no other file changed. -/
theorem write_csv_overwrites (fs : FS) (st : MState) (t : Target) :
    ∃ s', writeCsv fs st t true = .ok s' ∧
      s'.1.get (resolve st t) = some (renderCsv st.dataset) ∧
      s'.2.path = some (resolve st t) ∧ s'.2.dataset = st.dataset ∧
      ∀ q, q ≠ resolve st t → s'.1.get q = fs.get q := by
  refine ⟨(fs.set (resolve st t) (renderCsv st.dataset), { st with path := some (resolve st t) }), ?_, ?_, rfl, rfl, ?_⟩
  · simp [writeCsv]
  · exact fs_get_set_same _ _ _
  · intro q hq; exact fs_get_set_other _ _ _ _ hq

/-- without `force` the write is refused exactly when the target exists -/
theorem write_csv_refuses (fs : FS) (st : MState) (t : Target) :
    writeCsv fs st t false = .error .fileExists ↔ (fs.get (resolve st t)).isSome = true := by
  unfold writeCsv
  cases h : (fs.get (resolve st t)).isSome <;> simp [h]

/-- every successful `write_csv` leaves the file `datainfo.path` points at in step with the dataset -/
theorem insync_after_write (fs : FS) (st : MState) (t : Target) (force : Bool) (s' : FS × MState)
    (h : writeCsv fs st t force = .ok s') : InSync s' := by
  unfold writeCsv at h
  by_cases hc : (!force && (fs.get (resolve st t)).isSome) = true
  · simp [hc] at h
  · simp only [hc] at h
    injection h with h
    subst h
    intro p hp
    simp only [Option.some.injEq] at hp
    subst hp
    exact fs_get_set_same _ _ _

/-- every operation except "new dataset, same datainfo" keeps file and dataset in step -/
theorem insync_step (s : FS × MState) (op : HOp) (h : InSync s) (hop : ∀ f, op ≠ .setData f true) :
    InSync (hstep s op) := by
  cases op with
  | write t force =>
    simp only [hstep]
    cases hw : writeCsv s.1 s.2 t force with
    | ok s' => exact insync_after_write _ _ _ _ _ hw
    | error e => exact h
  | setData f keep =>
    cases keep with
    | true => exact absurd rfl (hop f)
    | false => intro p hp; simp [hstep, setData] at hp
  | writeModel mp force =>
    simp only [hstep, writeModel]
    cases hp : s.2.path with
    | none =>
      simp only
      split
      · rename_i s' heq
        exact insync_after_write _ _ _ _ _ heq
      · exact h
    | some q =>
      intro p hp2
      simp only at hp2 ⊢
      exact h p (by rw [hp]; exact hp2)

theorem history_insync (ops : List HOp) (s : FS × MState) (h : InSync s)
    (hops : ∀ op ∈ ops, ∀ f, op ≠ .setData f true) : InSync (hrun s ops) := by
  induction ops generalizing s with
  | nil => exact h
  | cons op ops ih =>
    simp only [hrun, List.foldl_cons]
    exact ih (hstep s op) (insync_step s op h (hops op (by simp))) (fun o ho => hops o (by simp [ho]))

/-- **after any history** (including datasets replaced with the datainfo kept), a forced
    `write_csv` puts the *current* dataset at its target. -/
theorem history_forced_write_current (s : FS × MState) (ops : List HOp) (t : Target) :
    (hstep (hrun s ops) (.write t true)).1.get (resolve (hrun s ops).2 t) =
        some (renderCsv (hrun s ops).2.dataset) ∧
    InSync (hstep (hrun s ops) (.write t true)) := by
  obtain ⟨s', hw, hget, _, _, _⟩ := write_csv_overwrites (hrun s ops).1 (hrun s ops).2 t
  simp only [hstep, hw]
  exact ⟨hget, insync_after_write _ _ _ _ _ hw⟩

/-- **render then split = id** (row level): what `write_csv` writes for a row — the items joined
    by commas — is split by the reader into exactly those items, for every row of non-empty
    items free of white space and commas. -/
theorem split_rendered_row (items : List Str) (hne : items ≠ [])
    (hp : ∀ w ∈ items, w ≠ [] ∧ ∀ c ∈ w, isPlain c = true) :
    lineItems (joinWith ',' items) = items ∧ specItems (joinWith ',' items) = items := by
  have hchars := joinWith_chars items (fun w hw => (hp w hw).2)
  have hnosp : ∀ c ∈ joinWith ',' items, c ≠ ' ' := by
    intro c hc
    rcases hchars c hc with h | h
    · exact (plain_props c h).1
    · rw [h]; decide
  -- first and last character
  obtain ⟨x, xs, hx⟩ := List.exists_cons_of_ne_nil hne
  have hxx := hp x (by rw [hx]; simp)
  obtain ⟨c0, cs0, hc0⟩ := List.exists_cons_of_ne_nil hxx.1
  obtain ⟨t0, ht0⟩ := joinWith_head x xs c0 cs0 hc0
  rw [← hx] at ht0
  have hc0p := plain_props c0 (hxx.2 c0 (by rw [hc0]; simp))
  obtain ⟨t, c, ht, hc⟩ := joinWith_last items hne hp
  have hcp := plain_props c hc
  have hstrip : spStrip (joinWith ',' items) = joinWith ',' items := by
    unfold spStrip
    rw [dropSp_of_no_space _ hnosp, dropSp_of_no_space _ (fun c hc => hnosp c (by simpa using hc))]
    simp
  have hedge : edgeOk (joinWith ',' items) = true := by
    unfold edgeOk
    simp only [hstrip]
    have h1 : (match joinWith ',' items with | c :: _ => !isPyWs c | [] => true) = true := by
      rw [ht0]; simp [hc0p.2.2]
    have h2 : (match (joinWith ',' items).reverse with | c :: _ => !isPyWs c | [] => true) = true := by
      rw [ht]; simp [hcp.2.2]
    rw [Bool.and_eq_true]
    exact ⟨h1, h2⟩
  have hspec : specItems (joinWith ',' items) = items := by
    unfold specItems
    rw [tok_lead_eq_item _ (fun r e => hc0p.1 (by rw [ht0] at e; injection e with e1 _)), tok_join items hne hp]
  exact ⟨by rw [split_matches_rules_aux _ (noSpTab_of_no_space _ hnosp) hedge, hspec], hspec⟩


/-- the stale-file situation is real when the dataset is replaced with the datainfo kept and nothing is written -/
theorem stale_without_write_witness :
    let f1 : Frame := ⟨[['A']], [[['1']]]⟩
    let f2 : Frame := ⟨[['A']], [[['2']]]⟩
    let s0 : FS × MState := ([("d.csv".toList, renderCsv f1)], ⟨f1, some "d.csv".toList, "m".toList⟩)
    (hstep s0 (.setData f2 true)).1.get "d.csv".toList = some (renderCsv f1) ∧
    (hstep (hstep s0 (.setData f2 true)) (.write (.file "d.csv".toList) true)).1.get "d.csv".toList = some (renderCsv f2) := by
  decide

/-! ## numbers -/

/-- every text python's `float()` accepts (modelled alphabet) is a documented
    number form with the same value -/
theorem pyFloat_spec (s : Str) (v : Dec) (h : pyFloat s = some v) : specNumber s = some v := by
  have hs : ¬ (s = ['+'] ∨ s = ['-']) := by
    intro hh
    rcases hh with rfl | rfl <;> simp [pyFloat, takeSign, scanMant] at h
  unfold specNumber
  have hs' : (decide (s = ['+']) || decide (s = ['-'])) = false := by
    simpa using hs
  rw [if_neg (by simpa using hs)]
  unfold pyFloat at h
  revert h
  cases takeSign s with
  | mk neg s1 =>
    simp only
    cases scanMant s1 with
    | none => simp
    | some t =>
      obtain ⟨ip, fp, rest⟩ := t
      simp only
      cases rest with
      | nil => simp
      | cons c r =>
        simp only
        by_cases hc : (c = 'e' ∨ c = 'E')
        · have h1 : (decide (c = 'e') || decide (c = 'E')) = true := by simpa using hc
          have h2 : (decide (c = 'e') || decide (c = 'E') || decide (c = 'd') || decide (c = 'D')) = true := by
            simp [h1]
          simp only [h1, if_true]
          intro h; exact h
        · have h1 : (decide (c = 'e') || decide (c = 'E')) = false := by simpa using hc
          simp [h1]

/-- **short form.** For every digit string `m` (mantissa) and `e` (exponent), both
    non-empty: `m-e` / `m+e` is read as `m·10^(∓e)` — "2-1 means 2e-1". -/
theorem short_form_value (m e : Str) (sg : Char) (hm : ∀ c ∈ m, isDig c = true) (he : ∀ c ∈ e, isDig c = true)
    (hmne : m ≠ []) (hene : e ≠ []) (hsg : sg = '+' ∨ sg = '-') :
    convertFortran (m ++ sg :: e) =
      .ok ⟨false, digitsVal m, if sg = '-' then - (digitsVal e : Int) else (digitsVal e : Int)⟩ ∧
    specNumber (m ++ sg :: e) =
      some ⟨false, digitsVal m, if sg = '-' then - (digitsVal e : Int) else (digitsVal e : Int)⟩ := by
  obtain ⟨c0, m', rfl⟩ := List.exists_cons_of_ne_nil hmne
  have hc0 := isDig_props c0 (hm c0 (by simp))
  have hsgD : isDig sg = false := by rcases hsg with rfl | rfl <;> decide
  have hsgS : isSign sg = true := by rcases hsg with rfl | rfl <;> decide
  have hsgN : notSD sg = false := by rcases hsg with rfl | rfl <;> decide
  have hsg_e : sg ≠ 'e' ∧ sg ≠ 'E' ∧ sg ≠ 'd' ∧ sg ≠ 'D' ∧ sg ≠ '.' := by rcases hsg with rfl | rfl <;> decide
  have hc0m : c0 ≠ '-' ∧ c0 ≠ '+' := by
    have := hc0.2.1; simp [isSign] at this; exact ⟨this.2, this.1⟩
  have tw := takeWhile_all (p := isDig) (c0 :: m') sg e hm hsgD
  have twN := takeWhile_all (p := notSD) (c0 :: m') sg e (fun c hc => (isDig_props c (hm c hc)).1) hsgN
  have twE := takeWhile_all_end (p := notSD) e (fun c hc => (isDig_props c (he c hc)).1)
  have hall : e.all isDig = true := by simpa using he
  have heE : e.isEmpty = false := by cases e <;> simp_all
  have hts : takeSign ((c0 :: m') ++ sg :: e) = (false, (c0 :: m') ++ sg :: e) := by
    simp [takeSign, hc0m.1, hc0m.2]
  have hscan : scanMant ((c0 :: m') ++ sg :: e) = some (c0 :: m', [], sg :: e) := by
    simp only [scanMant, tw.1, tw.2]
    simp [hsg_e.2.2.2.2]
  have hexp : scanExp (sg :: e) = some (if sg = '-' then - (digitsVal e : Int) else (digitsVal e : Int)) := by
    rcases hsg with rfl | rfl <;> simp [scanExp, takeSign, heE, hall]
  have hpf : pyFloat ((c0 :: m') ++ sg :: e) = none := by
    simp only [pyFloat, hts, hscan]
    simp [hsg_e.1, hsg_e.2.1]
  have hmk : mkDec false (c0 :: m') [] (if sg = '-' then - (digitsVal e : Int) else (digitsVal e : Int)) =
      ⟨false, digitsVal (c0 :: m'), if sg = '-' then - (digitsVal e : Int) else (digitsVal e : Int)⟩ := by
    simp [mkDec]
  constructor
  · -- the code: float() fails, not a lone sign, the short-form regexp matches, float(m + 'E' + sign + e)
    have hlone : ¬ ((c0 :: m') ++ sg :: e = ['+'] ∨ (c0 :: m') ++ sg :: e = ['-']) := by
      intro h; rcases h with h | h <;> simp at h
    have hshort : shortForm ((c0 :: m') ++ sg :: e) = some ((c0 :: m') ++ 'E' :: sg :: e) := by
      have : shortTry none ((c0 :: m') ++ sg :: e) = some ((c0 :: m') ++ 'E' :: sg :: e) := by
        have hallN : e.all notSD = true := by
          simpa using fun c hc => (isDig_props c (he c hc)).1
        simp only [shortTry, twN.1, twN.2, hsgS, hallN]
        simp
      simp only [List.cons_append, shortForm, hc0.2.1]
      simpa using this
    have twE2 := takeWhile_all (p := isDig) (c0 :: m') 'E' (sg :: e) hm (by decide)
    have hpf2 : pyFloat ((c0 :: m') ++ 'E' :: sg :: e) =
        some (mkDec false (c0 :: m') [] (if sg = '-' then - (digitsVal e : Int) else (digitsVal e : Int))) := by
      have hts2 : takeSign ((c0 :: m') ++ 'E' :: sg :: e) = (false, (c0 :: m') ++ 'E' :: sg :: e) := by
        simp [takeSign, hc0m.1, hc0m.2]
      have hscan2 : scanMant ((c0 :: m') ++ 'E' :: sg :: e) = some (c0 :: m', [], 'E' :: sg :: e) := by
        simp only [scanMant, twE2.1, twE2.2]
        simp
      simp only [pyFloat, hts2, hscan2, hexp]
      simp
    unfold convertFortran
    rw [hpf]
    simp only [hshort, hpf2, hmk]
    simp [hlone]
  · have hlone : ¬ ((c0 :: m') ++ sg :: e = ['+'] ∨ (c0 :: m') ++ sg :: e = ['-']) := by
      intro h; rcases h with h | h <;> simp at h
    unfold specNumber
    rw [if_neg (by simpa using hlone)]
    simp only [hts, hscan]
    have h4 : (decide (sg = 'e') || decide (sg = 'E') || decide (sg = 'd') || decide (sg = 'D')) = false := by
      simp [hsg_e.1, hsg_e.2.1, hsg_e.2.2.1, hsg_e.2.2.2.1]
    simp only [h4, hsgS, heE, hall]
    simp [hmk]


/-- **fortran_number_sound** ("nothing else is accepted"). Whatever
    `convert_fortran_number` accepts — through `float()`, the lone sign, the anchored
    short form or the D → e replacement — is a number of the documented grammar, and
    the value returned is the documented value. For every item text (modelled alphabet). -/
theorem fortran_number_sound (s : Str) (v : Dec) (h : convertFortran s = .ok v) : specNumber s = some v := by
  unfold convertFortran at h
  cases hp : pyFloat s with
  | some v' =>
    simp only [hp] at h
    injection h with h
    subst h
    exact pyFloat_spec s v' hp
  | none =>
    simp only [hp] at h
    by_cases hl : (s = ['+'] ∨ s = ['-'])
    · have hl' : (decide (s = ['+']) || decide (s = ['-'])) = true := by simpa using hl
      rw [if_pos hl'] at h
      injection h with h
      subst h
      unfold specNumber
      rw [if_pos hl']
    · have hl' : ¬ (decide (s = ['+']) || decide (s = ['-'])) = true := by simpa using hl
      rw [if_neg hl'] at h
      cases hs : shortForm s with
      | some t =>
        simp only [hs] at h
        cases hpt : pyFloat t with
        | some v' =>
          simp only [hpt] at h
          injection h with h
          subst h
          exact shortForm_sound s t v' hl hs hpt
        | none => simp [hpt] at h
      | none =>
        simp only [hs] at h
        by_cases hd : (s.any (fun c => c = 'D' || c = 'd')) = true
        · rw [if_pos hd] at h
          cases hpd : pyFloat (s.map replD) with
          | some v' =>
            simp only [hpd] at h
            injection h with h
            subst h
            exact dBranch_sound s v' hl hpd
          | none => simp [hpd] at h
        · rw [if_neg hd] at h
          simp at h

/-- **fortran_number_complete.** Every documented number form (plain, E/e, D/d with any
    signs, short form `m±e`, lone sign) is accepted with its documented value. -/
theorem fortran_number_complete (s : Str) (v : Dec) (h : specNumber s = some v) : convertFortran s = .ok v := by
  by_cases hl : (s = ['+'] ∨ s = ['-'])
  · rcases hl with rfl | rfl
    · have : v = ⟨false, 0, 0⟩ := by simp [specNumber] at h; exact h.symm
      subst this; decide
    · have : v = ⟨false, 0, 0⟩ := by simp [specNumber] at h; exact h.symm
      subst this; decide
  · have hl' : ¬ (decide (s = ['+']) || decide (s = ['-'])) = true := by simpa using hl
    rw [specNumber_eq s hl] at h
    obtain ⟨pre, hpre⟩ := takeSign_suffix s
    have hpf := pyFloat_eq s
    have hts_map := takeSign_map_fD s
    -- how `shortForm` looks at the sign
    have hshort : ∀ t, shortTry (if (takeSign s).1 then some '-' else none) (takeSign s).2 = some t →
        (takeSign s).1 = true ∨ (∀ c r, (takeSign s).2 = c :: r → isSign c = false) → True := fun _ _ _ => trivial
    clear hshort
    generalize hneg : (takeSign s).1 = neg at h hpf hts_map
    generalize hs1 : (takeSign s).2 = s1 at h hpf hts_map hpre
    unfold specTail at h
    cases hm : scanMant s1 with
    | none => simp [hm] at h
    | some t3 =>
      obtain ⟨ip, fp, rest⟩ := t3
      simp only [hm] at h
      cases rest with
      | nil =>
        simp only [Option.some.injEq] at h
        have : pyFloat s = some v := by
          rw [hpf]; unfold pyTail; simp only [hm]; rw [h]
        unfold convertFortran; simp only [this]
      | cons x r =>
        simp only at h
        by_cases hxe : (decide (x = 'e') || decide (x = 'E')) = true
        · -- E exponent: float() itself
          have hx4 : (decide (x = 'e') || decide (x = 'E') || decide (x = 'd') || decide (x = 'D')) = true := by
            simp only [Bool.or_eq_true] at hxe ⊢; exact Or.inl (Or.inl hxe)
          rw [if_pos hx4] at h
          have : pyFloat s = some v := by
            rw [hpf]; unfold pyTail; simp only [hm]; rw [if_pos hxe]; exact h
          unfold convertFortran; simp only [this]
        · have hpnone : pyFloat s = none := by
            rw [hpf]; unfold pyTail; simp only [hm]; rw [if_neg hxe]
          by_cases hxd : (decide (x = 'd') || decide (x = 'D')) = true
          · -- D exponent: the replacement branch
            have hx4 : (decide (x = 'e') || decide (x = 'E') || decide (x = 'd') || decide (x = 'D')) = true := by
              simp only [Bool.or_eq_true, decide_eq_true_eq] at hxd ⊢
              rcases hxd with h1 | h1 <;> simp [h1]
            rw [if_pos hx4] at h
            cases he : scanExp r with
            | none => simp [he] at h
            | some e =>
              simp only [he, Option.some.injEq] at h
              obtain ⟨M, hM, _⟩ := scanMant_split s1 ip fp (x :: r) hm
              have hxD : isDch x = true := by
                simp only [Bool.or_eq_true, decide_eq_true_eq] at hxd
                rcases hxd with h1 | h1 <;> simp [isDch, h1]
              have hany : s.any isDch = true := by
                rw [hpre, hM]; simp [List.any_append, hxD]
              have hrx : replD x = 'e' := by
                rcases fD_cases x with ⟨_, h1, h2⟩ | ⟨h1, _⟩
                · simp only [Bool.or_eq_true, decide_eq_true_eq] at hxd
                  rcases hxd with h3 | h3
                  · exact absurd h3 h2
                  · exact absurd h3 h1
                · exact h1
              have hpd : pyFloat (s.map replD) = some v := by
                rw [pyFloat_eq, hts_map]
                simp only
                unfold pyTail
                rw [scanMant_map_fD, hm]
                simp only [Option.map_some, List.map_cons, hrx]
                have hE : (decide True || decide ('e' = 'E')) = true := by decide
                rw [if_pos hE, scanExp_map_fwd r e he]
                dsimp only
                rw [h]
              unfold convertFortran
              simp only [hpnone]
              rw [if_neg hl', shortForm_none_of_D s hany]
              simp only
              have hany' : (s.any fun c => decide (c = 'D') || decide (c = 'd')) = true := hany
              rw [if_pos hany', hpd]
          · -- short form
            have hx4 : ¬ (decide (x = 'e') || decide (x = 'E') || decide (x = 'd') || decide (x = 'D')) = true := by
              simp only [Bool.or_eq_true, decide_eq_true_eq, not_or] at hxe hxd ⊢
              exact ⟨⟨⟨hxe.1, hxe.2⟩, hxd.1⟩, hxd.2⟩
            rw [if_neg hx4] at h
            by_cases hsx : isSign x = true
            · rw [if_pos hsx] at h
              cases h1 : r.isEmpty with
              | true => simp [h1] at h
              | false =>
                cases h2 : r.all isDig with
                | false => simp [h1, h2] at h
                | true =>
                  simp only [h1, h2] at h
                  simp only [Bool.not_true, Bool.or_false, Bool.false_eq_true, if_false, Option.some.injEq] at h
                  obtain ⟨M, hM, hMn⟩ := scanMant_split s1 ip fp (x :: r) hm
                  have hx' : x = '+' ∨ x = '-' := by simpa [isSign] using hsx
                  have hxd1 : isDig x = false := by rcases hx' with rfl | rfl <;> decide
                  have hxd2 : x ≠ '.' := by rcases hx' with rfl | rfl <;> decide
                  have hmM : scanMant M = some (ip, fp, []) :=
                    scanMant_of_append M x r ip fp hxd1 hxd2 (by rw [← hM]; exact hm)
                  -- the text handed to float() and its value
                  have hval := pyFloat_shortText neg M x r ip fp hMn hmM hsx h1 h2
                  rw [h] at hval
                  -- shortForm s
                  have hsf : shortForm s = some ((if neg then ['-'] else []) ++ M ++ ['E', x] ++ r) := by
                    cases s with
                    | nil =>
                      have : s1 = [] := by rw [← hs1]; simp [takeSign]
                      rw [this] at hM; simp at hM
                    | cons c0 r0 =>
                      unfold shortForm
                      dsimp only
                      by_cases hsg : isSign c0 = true
                      · have hc' : c0 = '+' ∨ c0 = '-' := by simpa [isSign] using hsg
                        have hts : takeSign (c0 :: r0) = (decide (c0 = '-'), r0) := by
                          rcases hc' with rfl | rfl <;> simp [takeSign]
                        rw [hts] at hneg hs1
                        simp only at hneg hs1
                        rw [if_pos hsg, hs1, hM, shortTry_complete (some c0) M x r hMn hsx h2]
                        simp only
                        rcases hc' with rfl | rfl <;> simp [← hneg]
                      · have hsg' : isSign c0 = false := by simpa using hsg
                        rw [takeSign_not_sign c0 r0 hsg'] at hneg hs1
                        simp only at hneg hs1
                        simp only [hsg']
                        rw [hs1, hM, shortTry_complete none M x r hMn hsx h2]
                        simp [← hneg]
                  unfold convertFortran
                  simp only [hpnone]
                  rw [if_neg hl', hsf]
                  simp only [hval]
            · rw [if_neg hsx] at h
              simp at h


/-- **fortran_number_spec.** `convert_fortran_number` (after fix d532311) accepts exactly the
    documented number grammar, with the documented value: for every item text. -/
theorem fortran_number_spec (s : Str) (v : Dec) : convertFortran s = .ok v ↔ specNumber s = some v :=
  ⟨fortran_number_sound s v, fortran_number_complete s v⟩

/-- everything outside the documented grammar is refused -/
theorem fortran_number_rejects (s : Str) : convertFortran s = .error .valueError ↔ specNumber s = none := by
  constructor
  · intro h
    cases hs : specNumber s with
    | none => rfl
    | some v =>
      have := fortran_number_complete s v hs
      rw [h] at this
      cases this
  · intro h
    cases hc : convertFortran s with
    | ok v =>
      have := fortran_number_sound s v hc
      rw [h] at this
      cases this
    | error e => cases e; rfl

/-- a lone sign is 0 -/
theorem lone_sign_zero :
    convertFortran ['+'] = .ok ⟨false, 0, 0⟩ ∧ convertFortran ['-'] = .ok ⟨false, 0, 0⟩ := by decide

/-- (fixed d532311) a D exponent after a signed mantissa is read; before the fix the
    unanchored short-form match took the leading sign for the exponent sign. -/
theorem signed_d_accepted :
    convertFortran "-5D1".toList = .ok ⟨true, 5, 1⟩ ∧ specNumber "-5D1".toList = some ⟨true, 5, 1⟩ ∧
    convertFortran "+1d-3".toList = .ok ⟨false, 1, -3⟩ := by
  decide

/-- (fixed d532311) text after a short-form number is no longer ignored -/
theorem malformed_rejected :
    convertFortran "2-1-3".toList = .error .valueError ∧ specNumber "2-1-3".toList = none ∧
    convertFortran "2-1D5".toList = .error .valueError := by
  decide

/-- non-vacuity of `short_form_value`: its hypotheses hold for `25-13` -/
example : (∀ c ∈ "25".toList, isDig c = true) ∧ (∀ c ∈ "13".toList, isDig c = true) ∧
    convertFortran "25-13".toList = .ok ⟨false, 25, -13⟩ := by decide

example : convertFortran "2-1".toList = .ok ⟨false, 2, -1⟩ ∧ convertFortran "1.5D+2".toList = .ok ⟨false, 15, 1⟩ ∧
    specNumber "1.5D+2".toList = some ⟨false, 15, 1⟩ ∧ specNumber "-2+1".toList = some ⟨true, 2, 1⟩ := by decide

/-! ## NMTRANDataIO -/

/-- (fixed 8ee6a73) a blank newline-terminated line is reported wherever it is -/
theorem blank_line_reported (ic : Char) (contents : Str) (lines : List Str)
    (h : prefilter ic contents = .ok lines) : ∀ l ∈ keptTerm ic contents, isBlankLine l = false := by
  unfold prefilter at h
  by_cases h1 : ((keptTerm ic contents).any (fun l => !noSpTab l) || !noSpTab (keptLast ic contents)) = true
  · simp [h1] at h
  · by_cases h2 : blankHit (keptTerm ic contents) = true
    · simp [h1, h2] at h
    · intro l hl
      have h2' : (keptTerm ic contents).any isBlankLine = false := by simpa [blankHit] using h2
      have := List.any_eq_false.mp h2' l hl
      simpa using this

theorem blank_line_witness :
    prefilter '#' "1,2\n\n4,3\n".toList = .error .blankLine ∧
    prefilter '#' "1,2\n  \n4,3\n".toList = .error .blankLine ∧
    prefilter '#' "1,2\n4,3\n\n".toList = .error .blankLine := by decide

/-- **comment_text_irrelevant.** The outcome of a read — the table or the error — does not depend
    on the *text* of comment lines: two file texts with the same number of lines that agree on
    every line which is not a comment (and have comments at the same places) are read alike, for
    every IGNORE character, `$INPUT` list, NULL value and condition list. In particular a blank
    before a TAB, separators only, or an over-long item inside a comment line cannot raise. -/
theorem comment_text_irrelevant (ic : Char) (c1 c2 : Str)
    (hterm : LinesAgree ic (splitNl c1).dropLast (splitNl c2).dropLast)
    (hlast : SameUpToComment ic ((splitNl c1).getLast?.getD []) ((splitNl c2).getLast?.getD [])) :
    prefilter ic c1 = prefilter ic c2 ∧
    ∀ names drop null missing mode filters,
      readDataset c1 ic names drop null missing mode filters =
      readDataset c2 ic names drop null missing mode filters := by
  have hk : keptTerm ic c1 = keptTerm ic c2 := filter_comments_rel ic _ _ hterm
  have hl : keptLast ic c1 = keptLast ic c2 := by
    unfold keptLast
    rcases hlast with h | ⟨ha, hb⟩
    · simp only [h]
    · simp only [ha, hb, if_true]
  have hp : prefilter ic c1 = prefilter ic c2 := by
    unfold prefilter
    rw [hk, hl]
  refine ⟨hp, ?_⟩
  intro names drop null missing mode filters
  unfold readDataset
  rw [hp]

example : LinesAgree '#' ["#a \tb".toList, "1,2".toList] ["#x".toList, "1,2".toList] :=
  .cons (Or.inr (by decide)) (.cons (Or.inl rfl) .nil)

/-- the text of a comment may hold a blank before a TAB (an error in a data row) -/
theorem comment_space_tab_witness :
    prefilter '#' "# dose changed \there\n1,2\n".toList = .ok ["1,2".toList] ∧
    prefilter '@' "ID \tTIME\n1,2\n".toList = .ok ["1,2".toList] ∧
    prefilter '#' "1 \t2\n".toList = .error .spaceTab := by decide

/-- comment lines: IGNORE=c removes the lines starting with c — also an unterminated
    last line (fixed 82e4d59) and for a regex meta character (fixed 0a05222). -/
theorem comment_line_witness :
    prefilter '#' "#h\n1,2\n#x\n".toList = .ok ["1,2".toList] ∧
    prefilter '#' "1,2\n#x".toList = .ok ["1,2".toList] ∧
    prefilter '^' "^h\n1,2\n".toList = .ok ["1,2".toList] ∧
    prefilter '@' " ID,DV\n1,2\n".toList = .ok ["1,2".toList] := by decide

/-- no comment line survives the prefilter (terminated or not) -/
theorem comment_lines (ic : Char) (contents : Str) (lines : List Str)
    (h : prefilter ic contents = .ok lines) : ∀ l ∈ lines, isComment ic l = false := by
  unfold prefilter at h
  by_cases h1 : ((keptTerm ic contents).any (fun l => !noSpTab l) || !noSpTab (keptLast ic contents)) = true
  · simp [h1] at h
  · by_cases h2 : blankHit (keptTerm ic contents) = true
    · simp [h1, h2] at h
    · simp only [h1, h2] at h
      injection h with h
      intro l hl
      rw [← h] at hl
      rcases List.mem_append.mp hl with h3 | h3
      · have := (List.mem_filter.mp h3).2
        simpa using this
      · by_cases he : (keptLast ic contents).isEmpty = true
        · simp [he] at h3
        · have h4 : l = keptLast ic contents := by simpa [he] using h3
          subst h4
          unfold keptLast at he ⊢
          by_cases hc : isComment ic ((splitNl contents).getLast?.getD []) = true
          · simp [hc] at he
          · simpa [hc] using hc

end Pharmpy.C13
