import PharmpyModel.C13.WriteCode
/-
  C13 — property theorems for the clause "a dataset written by pharmpy for a model and read back
  through the generated code is equal to the model's dataset": the IGNORE character of the generated
  `$DATA` record removes the header line `write_csv` writes, whatever the first column label is
  (regular names, anonymous `_DROPn` columns, labels starting with `#`, `@`, `_`, digits, ...).
-/
namespace Pharmpy.C13

/-! ### helper lemmas (local) -/

theorem isAlpha_not_blank (c : Char) (h : isAlpha c = true) : c ≠ ' ' ∧ c ≠ '\t' := by
  constructor
  · rintro rfl; revert h; decide
  · rintro rfl; revert h; decide

theorem joinWith_prefix (l : Str) (rest : List Str) : ∃ t, joinWith ',' (l :: rest) = l ++ t := by
  cases rest with
  | nil => exact ⟨[], by simp [joinWith]⟩
  | cons y ys => exact ⟨',' :: joinWith ',' (y :: ys), by simp [joinWith]⟩

theorem splitNl_ne_nil (s : Str) : splitNl s ≠ [] := by
  induction s with
  | nil => simp [splitNl]
  | cons c r ih =>
    unfold splitNl
    split
    · simp
    · cases h : splitNl r with
      | nil => exact absurd h ih
      | cons f fs => simp [consHead]

theorem splitNl_line (a b : Str) (h : '\n' ∉ a) : splitNl (a ++ '\n' :: b) = a :: splitNl b := by
  induction a with
  | nil => simp [splitNl]
  | cons c r ih =>
    have hc : c ≠ '\n' := by intro e; exact h (by simp [e])
    have hr : '\n' ∉ r := by intro e; exact h (by simp [e])
    simp only [List.cons_append, splitNl, hc, if_false, ih hr, consHead]

theorem getLast_cons_ne {α : Type} (a : α) (xs : List α) (h : xs ≠ []) :
    (a :: xs).getLast? = xs.getLast? := by
  cases xs with
  | nil => exact absurd rfl h
  | cons b r => simp [List.getLast?_cons_cons]

/-! ### the character chosen from the first column label -/

/-- **ignore_char_skips_header.** For every first column label (any characters, any length) the
    character `set_ignore_character_from_header` chooses makes every line that starts with that label
    a comment line of the reader (`@`-rule for a letter, `IGNORE=c` rule otherwise). -/
theorem ignore_char_skips_header (l : Str) (ic : Char) (h : ignoreCharFromHeader l = some ic) :
    ∀ t, isComment ic (l ++ t) = true := by
  intro t
  cases l with
  | nil => simp [ignoreCharFromHeader] at h
  | cons c cs =>
    simp only [ignoreCharFromHeader, Option.some.injEq] at h
    by_cases hα : isAlpha c = true
    · obtain ⟨h1, h2⟩ := isAlpha_not_blank c hα
      simp only [hα, if_true] at h
      subst h
      simp [isComment, dropBlank, h1, h2, hα]
    · simp only [hα] at h
      subst h
      by_cases hat : c = '@'
      · subst hat
        simp [isComment, dropBlank]
      · simp [isComment, hat]

/-- the empty label is the only refusal (IndexError) -/
theorem ignore_char_defined (l : Str) : (ignoreCharFromHeader l).isSome = !l.isEmpty := by
  cases l <;> simp [ignoreCharFromHeader]

/-- **generated_ignore_skips_header.** For every frame (any number of columns and rows): the IGNORE
    character of the generated `$DATA` record makes the header line `write_csv` writes a comment. -/
theorem generated_ignore_skips_header (f : Frame) (ic : Char) (h : generatedIgnore f = some ic) :
    isComment ic (headerLine f) = true := by
  unfold generatedIgnore at h
  unfold headerLine
  cases hc : f.cols with
  | nil => simp [hc] at h
  | cons l rest =>
    simp only [hc] at h
    obtain ⟨t, ht⟩ := joinWith_prefix l rest
    rw [ht]
    exact ignore_char_skips_header l ic h t

/-- a frame with a non-empty first label always gets an IGNORE character -/
theorem generated_ignore_defined (f : Frame) (l : Str) (rest : List Str) (hc : f.cols = l :: rest)
    (hl : l ≠ []) : ∃ ic, generatedIgnore f = some ic := by
  cases l with
  | nil => exact absurd rfl hl
  | cons c cs => exact ⟨if isAlpha c then '@' else c, by simp [generatedIgnore, hc, ignoreCharFromHeader]⟩

theorem renderCsv_eq (f : Frame) : renderCsv f = headerLine f ++ '\n' :: dataLines f := by
  simp [renderCsv, headerLine, dataLines]

/-- **written_header_removed.** For every frame whose labels hold no newline: the prefilter of the
    reader, run with the generated IGNORE character on the file `write_csv` wrote, sees exactly what it
    sees on the data lines alone — the header line is gone, nothing else is touched. -/
theorem written_header_removed (f : Frame) (ic : Char) (h : generatedIgnore f = some ic)
    (hnl : '\n' ∉ headerLine f) :
    prefilter ic (renderCsv f) = prefilter ic (dataLines f) := by
  have hcom := generated_ignore_skips_header f ic h
  have hs := splitNl_line (headerLine f) (dataLines f) hnl
  have hne := splitNl_ne_nil (dataLines f)
  have hk : keptTerm ic (renderCsv f) = keptTerm ic (dataLines f) := by
    unfold keptTerm
    rw [renderCsv_eq, hs, List.dropLast_cons_of_ne_nil hne]
    simp [hcom]
  have hl : keptLast ic (renderCsv f) = keptLast ic (dataLines f) := by
    unfold keptLast
    rw [renderCsv_eq, hs, getLast_cons_ne _ _ hne]
  unfold prefilter
  rw [hk, hl]

/-- **written_file_read_back.** Reading the written file through the generated code (generated IGNORE
    character, any `$INPUT` names / DROP flags / NULL / missing-data token) is reading its data lines:
    the header never becomes a row and never raises. -/
theorem written_file_read_back (f : Frame) (ic : Char) (h : generatedIgnore f = some ic)
    (hnl : '\n' ∉ headerLine f) (names : List Str) (drop : List Bool) (null missing : Str) :
    readDataset (renderCsv f) ic names drop null missing 0 [] =
      readDataset (dataLines f) ic names drop null missing 0 [] := by
  unfold readDataset
  rw [written_header_removed f ic h hnl]

/-- the first anonymous DROP / SKIP column of `$INPUT` is called `_DROPn`; its header needs `IGNORE=_` -/
theorem anon_first_column_ignore (n : Nat) : ignoreCharFromHeader (anonName n) = some '_' := by
  simp [anonName, ignoreCharFromHeader, isAlpha]

/-- `$INPUT DROP ID …`: the label of the first column is `_DROP1` and the generated character is `_` -/
theorem anon_first_input_ignore (rest : List InOpt) (ci : ColInfo)
    (h : parseColumnInfo (⟨"DROP".toList, none⟩ :: rest) 1 = some ci) :
    ∃ names, ci.names = anonName 1 :: names ∧ generatedIgnore ⟨ci.names, []⟩ = some '_' := by
  simp only [parseColumnInfo] at h
  have hd : isDropWord "DROP".toList = true := by decide
  simp only [hd, if_true, Option.map_eq_some_iff] at h
  obtain ⟨c, _, hc⟩ := h
  subst hc
  exact ⟨c.names, rfl, by simp [generatedIgnore, anon_first_column_ignore]⟩

/-- the `@` rule does not remove a header that starts with `_`: choosing `@` for every label that is
    an identifier would keep the header line of `$INPUT DROP ID TIME DV` in the data -/
theorem underscore_header_witness :
    isComment '@' "_DROP1,ID,TIME,DV".toList = false ∧
    ignoreCharFromHeader "_DROP1".toList = some '_' ∧
    isComment '_' "_DROP1,ID,TIME,DV".toList = true := by decide

/-- non-vacuity: a three-column frame with an anonymous first column -/
example : generatedIgnore ⟨["_DROP1".toList, "ID".toList, "DV".toList], [["1".toList, "1".toList, "2.5".toList]]⟩ = some '_' ∧
    '\n' ∉ headerLine ⟨["_DROP1".toList, "ID".toList, "DV".toList], [["1".toList, "1".toList, "2.5".toList]]⟩ := by decide

example : generatedIgnore ⟨["ID".toList, "DV".toList], []⟩ = some '@' := by decide

end Pharmpy.C13
