import PharmpyModel.C13.Reader
namespace Pharmpy.C13
end Pharmpy.C13
