import PharmpyModel.Core.Expr
import PharmpyModel.C13.Reader
import PharmpyModel.C13.ModelLevel
import PharmpyModel.C13.History
/-
  Helper lemmas for C13 (core Lean only).
-/
namespace Pharmpy.C13

/-! ### spaces -/

theorem drop_spLen (s : Str) : s.drop (spLen s) = dropSp s := by
  induction s with
  | nil => simp [spLen, dropSp]
  | cons c r ih =>
    by_cases h : c = ' '
    · simp [spLen, dropSp, h, ih]
    · simp [spLen, dropSp, h]

theorem dropSp_length_le (s : Str) : (dropSp s).length ≤ s.length := by
  induction s with
  | nil => simp [dropSp]
  | cons c r ih =>
    by_cases h : c = ' '
    · simp [dropSp, h]; omega
    · simp [dropSp, h]

theorem dropSp_head (s : Str) (d : Char) (r : Str) (h : dropSp s = d :: r) : d ≠ ' ' := by
  induction s with
  | nil => simp [dropSp] at h
  | cons c t ih =>
    by_cases hc : c = ' '
    · simp [dropSp, hc] at h; exact ih h
    · simp [dropSp, hc] at h
      intro hd; exact hc (h.1 ▸ hd)

theorem dropSp_idem_of_head {c : Char} {r : Str} (h : c ≠ ' ') : dropSp (c :: r) = c :: r := by
  simp [dropSp, h]

theorem dropSp_space (r : Str) : dropSp (' ' :: r) = dropSp r := by
  simp [dropSp]

/-- last character is not a space -/
def noTrailSp : Str → Bool
  | [] => true
  | c :: r => if r.isEmpty then !(c = ' ') else noTrailSp r

theorem noTrailSp_tail {c : Char} {r : Str} (h : noTrailSp (c :: r) = true) : noTrailSp r = true := by
  cases r with
  | nil => rfl
  | cons d t => simpa [noTrailSp] using h

theorem noTrailSp_dropSp {s : Str} (h : noTrailSp s = true) : noTrailSp (dropSp s) = true := by
  induction s with
  | nil => simp [dropSp, noTrailSp]
  | cons c r ih =>
    by_cases hc : c = ' '
    · rw [hc, dropSp_space]; exact ih (noTrailSp_tail h)
    · rw [dropSp_idem_of_head hc]; exact h

theorem dropSp_ne_nil {s : Str} (h : noTrailSp s = true) (hne : s ≠ []) : dropSp s ≠ [] := by
  induction s with
  | nil => exact absurd rfl hne
  | cons c r ih =>
    by_cases hc : c = ' '
    · rw [hc, dropSp_space]
      cases r with
      | nil => simp [noTrailSp, hc] at h
      | cons d t => exact ih (noTrailSp_tail h) (by simp)
    · rw [dropSp_idem_of_head hc]; simp

theorem noSpTab_tail {c : Char} {r : Str} (h : noSpTab (c :: r) = true) : noSpTab r = true := by
  simp [noSpTab] at h; exact h.2

theorem noSpTab_dropSp {s : Str} (h : noSpTab s = true) : noSpTab (dropSp s) = true := by
  induction s with
  | nil => simp [dropSp, noSpTab]
  | cons c r ih =>
    by_cases hc : c = ' '
    · rw [hc, dropSp_space]; exact ih (noSpTab_tail h)
    · rw [dropSp_idem_of_head hc]; exact h

/-- after a space, the first non-space character is not a TAB -/
theorem dropSp_not_tab {r : Str} (h : noSpTab (' ' :: r) = true) (x : Str) : dropSp r ≠ '\t' :: x := by
  induction r with
  | nil => simp [dropSp]
  | cons d t ih =>
    by_cases hd : d = ' '
    · rw [hd, dropSp_space]
      apply ih
      rw [hd] at h
      exact noSpTab_tail h
    · rw [dropSp_idem_of_head hd]
      simp [noSpTab] at h
      intro heq
      injection heq with h1 _
      exact h.1 h1

/-! ### `re.split` unfolded -/

theorem splitGo_skip (k : Nat) (s : Str) : splitGo k s = splitGo 0 (s.drop k) := by
  induction k generalizing s with
  | zero => simp
  | succ k ih =>
    cases s with
    | nil => simp [splitGo]
    | cons c cs => simp [splitGo, ih cs]

theorem splitGo_cons (c : Char) (cs : Str) :
    splitGo 0 (c :: cs) =
      if sepLen (c :: cs) = 0 then consHead c (splitGo 0 cs)
      else [] :: splitGo 0 ((c :: cs).drop (sepLen (c :: cs))) := by
  rw [splitGo]
  cases h : sepLen (c :: cs) with
  | zero => simp
  | succ n => simp [splitGo_skip n cs]

/-! ### the documented tokenizer ignores spaces where the rules say so -/

theorem tok_gap_dropSp (s : Str) : tok .gap s = tok .gap (dropSp s) := by
  induction s with
  | nil => simp [dropSp]
  | cons c r ih =>
    by_cases hc : c = ' '
    · rw [hc, dropSp_space, tok]; simpa using ih
    · rw [dropSp_idem_of_head hc]

theorem tok_delim_dropSp (s : Str) : tok .delim s = tok .delim (dropSp s) := by
  induction s with
  | nil => simp [dropSp]
  | cons c r ih =>
    by_cases hc : c = ' '
    · rw [hc, dropSp_space, tok]; simpa using ih
    · rw [dropSp_idem_of_head hc]

theorem tok_lead_dropSp (s : Str) : tok .lead s = tok .lead (dropSp s) := by
  induction s with
  | nil => simp [dropSp]
  | cons c r ih =>
    by_cases hc : c = ' '
    · rw [hc, dropSp_space, tok]; simpa using ih
    · rw [dropSp_idem_of_head hc]

/-- when no space is pending, the states `delim` and `item` continue alike -/
theorem tok_delim_eq_item (s : Str) (h : ∀ r, s ≠ ' ' :: r) : tok .delim s = tok .item s := by
  cases s with
  | nil => simp [tok]
  | cons c r =>
    have hc : c ≠ ' ' := fun e => h r (by rw [e])
    simp [tok, hc]

theorem tok_lead_eq_item (s : Str) (h : ∀ r, s ≠ ' ' :: r) : tok .lead s = tok .item s := by
  cases s with
  | nil => simp [tok]
  | cons c r =>
    have hc : c ≠ ' ' := fun e => h r (by rw [e])
    simp [tok, hc]

theorem dropSp_no_space_head (s : Str) : ∀ r, dropSp s ≠ ' ' :: r := by
  intro r h
  exact dropSp_head s ' ' r h rfl


/-! ### core: `re.split` on a text without trailing space = the documented tokenizer -/

theorem sepLen_other {c : Char} {cs : Str} (h1 : c ≠ ' ') (h2 : isDelim c = false) :
    sepLen (c :: cs) = 0 := by
  simp [sepLen, dropSp, spLen, h1, h2]

theorem sepLen_delim {c : Char} {cs : Str} (h1 : c ≠ ' ') (h2 : isDelim c = true) :
    sepLen (c :: cs) = 1 + spLen cs := by
  simp [sepLen, dropSp, spLen, h1, h2]

theorem isDelim_ne_space {c : Char} (h : isDelim c = true) : c ≠ ' ' := by
  intro e; rw [e] at h; simp [isDelim] at h

theorem split_eq_tok_item (n : Nat) : ∀ s : Str, s.length ≤ n → noSpTab s = true → noTrailSp s = true →
    splitGo 0 s = tok .item s := by
  induction n with
  | zero =>
    intro s hl _ _
    cases s with
    | nil => simp [splitGo, tok]
    | cons c cs => simp at hl
  | succ n ih =>
    intro s hl hst htr
    cases s with
    | nil => simp [splitGo, tok]
    | cons c cs =>
      rw [splitGo_cons]
      by_cases hc : c = ' '
      · -- a run of spaces: either it leads to a comma (then the comma is the delimiter) or it is the delimiter
        subst hc
        have hne : dropSp (' ' :: cs) ≠ [] := dropSp_ne_nil htr (by simp)
        rw [dropSp_space] at hne
        cases hd : dropSp cs with
        | nil => exact absurd hd hne
        | cons d r =>
          have hdsp : d ≠ ' ' := dropSp_head cs d r hd
          have hdtab : d ≠ '\t' := by
            intro e; exact dropSp_not_tab hst r (by rw [hd, e])
          have hst' : noSpTab (d :: r) = true := by
            have := noSpTab_dropSp (noSpTab_tail hst); rwa [hd] at this
          have htr' : noTrailSp (d :: r) = true := by
            have := noTrailSp_dropSp (noTrailSp_tail htr); rwa [hd] at this
          have hlen : (d :: r).length ≤ cs.length := by
            have := dropSp_length_le cs; rwa [hd] at this
          have hgap : tok .gap cs = tok .gap (d :: r) := by rw [tok_gap_dropSp cs, hd]
          have hsl : sepLen (' ' :: cs) ≠ 0 := by
            simp only [sepLen, dropSp_space, hd, spLen]
            split <;> simp
          rw [if_neg hsl]
          have hitem : tok .item (' ' :: cs) = [] :: tok .gap cs := by simp [tok]
          rw [hitem, hgap]
          by_cases hdel : isDelim d = true
          · -- spaces, comma, spaces
            have hdrop : (' ' :: cs).drop (sepLen (' ' :: cs)) = dropSp r := by
              have h1 : sepLen (' ' :: cs) = spLen (' ' :: cs) + 1 + spLen r := by
                simp only [sepLen, dropSp_space, hd, hdel, if_true]
              have hA : (' ' :: cs).drop (spLen (' ' :: cs)) = d :: r := by
                rw [drop_spLen, dropSp_space, hd]
              have hB : (' ' :: cs).drop (spLen (' ' :: cs) + 1) = r := by
                rw [← List.drop_drop, hA]; rfl
              rw [h1, ← List.drop_drop, hB, drop_spLen]
            rw [hdrop]
            have hg : tok .gap (d :: r) = tok .delim r := by simp [tok, hdsp, hdel]
            rw [hg, tok_delim_dropSp r, tok_delim_eq_item _ (dropSp_no_space_head r)]
            congr 1
            apply ih
            · have := dropSp_length_le r; simp at hl hlen; omega
            · exact noSpTab_dropSp (noSpTab_tail hst')
            · exact noTrailSp_dropSp (noTrailSp_tail htr')
          · -- the spaces are the delimiter
            have hdel' : isDelim d = false := by simpa using hdel
            have hdrop : (' ' :: cs).drop (sepLen (' ' :: cs)) = d :: r := by
              have h1 : sepLen (' ' :: cs) = spLen (' ' :: cs) := by
                simp [sepLen, dropSp_space, hd, hdel']
              rw [h1, drop_spLen, dropSp_space, hd]
            rw [hdrop]
            have hg : tok .gap (d :: r) = tok .item (d :: r) := by simp [tok, hdsp, hdel']
            rw [hg]
            congr 1
            apply ih
            · simp at hl; omega
            · exact hst'
            · exact htr'
      · by_cases hdel : isDelim c = true
        · -- comma or TAB, then spaces
          have hsl : sepLen (c :: cs) = 1 + spLen cs := sepLen_delim hc hdel
          have hne : sepLen (c :: cs) ≠ 0 := by omega
          rw [if_neg hne, hsl]
          have hdrop : (c :: cs).drop (1 + spLen cs) = dropSp cs := by
            rw [← List.drop_drop]; simp [drop_spLen]
          rw [hdrop]
          have hitem : tok .item (c :: cs) = [] :: tok .delim cs := by simp [tok, hc, hdel]
          rw [hitem, tok_delim_dropSp cs, tok_delim_eq_item _ (dropSp_no_space_head cs)]
          congr 1
          apply ih
          · have := dropSp_length_le cs; simp at hl; omega
          · exact noSpTab_dropSp (noSpTab_tail hst)
          · exact noTrailSp_dropSp (noTrailSp_tail htr)
        · have hdel' : isDelim c = false := by simpa using hdel
          rw [sepLen_other hc hdel', if_pos rfl]
          have hitem : tok .item (c :: cs) = consHead c (tok .item cs) := by simp [tok, hc, hdel']
          rw [hitem]
          congr 1
          apply ih
          · simp at hl; omega
          · exact noSpTab_tail hst
          · exact noTrailSp_tail htr


/-! ### stripping the ends of the row -/

theorem spLen_dropSp_eq (s : Str) : s = List.replicate (spLen s) ' ' ++ dropSp s := by
  induction s with
  | nil => simp [spLen, dropSp]
  | cons c r ih =>
    by_cases hc : c = ' '
    · subst hc
      simp only [spLen, dropSp, if_true, List.replicate_succ, List.cons_append]
      rw [← ih]
    · simp [spLen, dropSp, hc]

/-- `dropSp l = spStrip l ++ (trailing spaces)` -/
theorem dropSp_eq_spStrip_append (l : Str) :
    ∃ k, dropSp l = spStrip l ++ List.replicate k ' ' := by
  refine ⟨spLen (dropSp l).reverse, ?_⟩
  have h := spLen_dropSp_eq (dropSp l).reverse
  have h2 := congrArg List.reverse h
  simp only [List.reverse_reverse, List.reverse_append, List.reverse_replicate] at h2
  exact h2

theorem tok_append_space (st : St) (t : Str) : tok st (t ++ [' ']) = tok st t := by
  induction t generalizing st with
  | nil => cases st <;> simp [tok]
  | cons c r ih =>
    cases st <;> by_cases hc : c = ' ' <;> by_cases hd : isDelim c = true <;>
      simp [tok, hc, hd, ih]

theorem tok_append_spaces (st : St) (t : Str) (k : Nat) :
    tok st (t ++ List.replicate k ' ') = tok st t := by
  induction k with
  | zero => simp
  | succ k ih =>
    rw [List.replicate_succ', ← List.append_assoc, tok_append_space, ih]

theorem noTrailSp_snoc (p : Str) (c : Char) : noTrailSp (p ++ [c]) = !(c = ' ') := by
  induction p with
  | nil => simp [noTrailSp]
  | cons d t ih =>
    have : (t ++ [c]).isEmpty = false := by cases t <;> simp
    simp [noTrailSp, this, ih]

theorem noTrailSp_reverse (y : Str) (h : ∀ r, y ≠ ' ' :: r) : noTrailSp y.reverse = true := by
  cases y with
  | nil => simp [noTrailSp]
  | cons c r =>
    have hc : c ≠ ' ' := fun e => h r (by rw [e])
    rw [List.reverse_cons, noTrailSp_snoc]
    simp [hc]

theorem noTrailSp_spStrip (l : Str) : noTrailSp (spStrip l) = true :=
  noTrailSp_reverse _ (dropSp_no_space_head _)

theorem noSpTab_prefix (a b : Str) (h : noSpTab (a ++ b) = true) : noSpTab a = true := by
  induction a with
  | nil => simp [noSpTab]
  | cons c t ih =>
    cases t with
    | nil => simp [noSpTab]
    | cons d u =>
      simp only [List.cons_append, noSpTab, Bool.and_eq_true] at h ⊢
      exact ⟨h.1, by simpa [noSpTab] using ih (by simpa [noSpTab] using h.2)⟩

theorem noSpTab_spStrip {l : Str} (h : noSpTab l = true) : noSpTab (spStrip l) = true := by
  obtain ⟨k, hk⟩ := dropSp_eq_spStrip_append l
  have := noSpTab_dropSp h
  rw [hk] at this
  exact noSpTab_prefix _ _ this

theorem spStrip_no_space_head (l : Str) : ∀ r, spStrip l ≠ ' ' :: r := by
  intro r h
  obtain ⟨k, hk⟩ := dropSp_eq_spStrip_append l
  rw [h] at hk
  exact dropSp_no_space_head l _ hk

theorem tok_lead_spStrip (l : Str) : tok .lead l = tok .lead (spStrip l) := by
  obtain ⟨k, hk⟩ := dropSp_eq_spStrip_append l
  rw [tok_lead_dropSp l, hk, tok_append_spaces]

/-! ### python's `strip()` vs stripping spaces -/

theorem dropWs_dropSp (s : Str) : dropWs s = dropWs (dropSp s) := by
  induction s with
  | nil => simp [dropSp]
  | cons c r ih =>
    by_cases hc : c = ' '
    · subst hc; rw [dropSp_space, dropWs]; simpa [isPyWs] using ih
    · rw [dropSp_idem_of_head hc]

theorem dropWs_eq_dropSp (z : Str)
    (h : (match dropSp z with | c :: _ => !isPyWs c | [] => true) = true) : dropWs z = dropSp z := by
  rw [dropWs_dropSp]
  cases hd : dropSp z with
  | nil => simp [dropWs]
  | cons c r =>
    rw [hd] at h
    have : isPyWs c = false := by simpa using h
    simp [dropWs, this]

theorem pyStrip_eq_spStrip {l : Str} (h : edgeOk l = true) : pyStrip l = spStrip l := by
  simp only [edgeOk, Bool.and_eq_true] at h
  obtain ⟨h1, h2⟩ := h
  have hlead : dropWs l = dropSp l := by
    apply dropWs_eq_dropSp
    obtain ⟨k, hk⟩ := dropSp_eq_spStrip_append l
    cases hs : spStrip l with
    | nil =>
      rw [hs] at hk
      cases k with
      | zero => simp at hk; rw [hk]
      | succ k =>
        exfalso
        rw [List.replicate_succ] at hk
        exact dropSp_no_space_head l _ (by simpa using hk)
    | cons c r =>
      rw [hs] at hk h1
      rw [hk]
      simpa using h1
  have htrail : dropWs (dropSp l).reverse = dropSp (dropSp l).reverse := by
    apply dropWs_eq_dropSp
    have : (spStrip l).reverse = dropSp (dropSp l).reverse := by simp [spStrip]
    rw [this] at h2
    exact h2
  simp only [pyStrip, spStrip, hlead, htrail]


/-! ### IGNORE / ACCEPT -/

/-- the row passes filter `f` (its condition can be evaluated and says "keep") -/
def keeps (names : List Str) (null missing : Str) (ig : Bool) (f : Filt) (r : List (Option Str)) : Bool :=
  match condHolds names null missing f r with
  | .ok b => b != ig
  | .error _ => false

theorem applyFilter_ok (names : List Str) (null missing : Str) (ig : Bool) (f : Filt) :
    ∀ rows out, applyFilter names null missing ig f rows = .ok out →
      out = rows.filter (keeps names null missing ig f) := by
  intro rows
  induction rows with
  | nil => intro out h; simp [applyFilter] at h; simp [h]
  | cons r rs ih =>
    intro out h
    simp only [applyFilter] at h
    cases hc : condHolds names null missing f r with
    | error e => simp [hc] at h
    | ok b =>
      cases hr : applyFilter names null missing ig f rs with
      | error e => simp [hc, hr] at h
      | ok rest =>
        simp only [hc, hr] at h
        have hrest := ih rest hr
        have hk : keeps names null missing ig f r = (b != ig) := by simp [keeps, hc]
        injection h with h
        rw [List.filter_cons, hk, ← hrest, ← h]

theorem applyFilter_error (names : List Str) (null missing : Str) (ig : Bool) (f : Filt) :
    ∀ rows e, applyFilter names null missing ig f rows = .error e →
      ∃ r, r ∈ rows ∧ condHolds names null missing f r = .error e := by
  intro rows
  induction rows with
  | nil => intro e h; simp [applyFilter] at h
  | cons r rs ih =>
    intro e h
    simp only [applyFilter] at h
    cases hc : condHolds names null missing f r with
    | error e' =>
      simp only [hc] at h
      injection h with h
      exact ⟨r, by simp, by rw [hc, h]⟩
    | ok b =>
      cases hr : applyFilter names null missing ig f rs with
      | error e' =>
        simp only [hc, hr] at h
        injection h with h
        obtain ⟨r', hm, hc'⟩ := ih e' hr
        exact ⟨r', by simp [hm], by rw [hc', h]⟩
      | ok rest => simp [hc, hr] at h

theorem padTo_length (w : Nat) (r : List (Option Str)) : (padTo w r).length = w := by
  simp [padTo]; omega

theorem shapeRow_length (n w : Nat) (null : Str) (r : List (Option Str)) (h : r.length = w) :
    (shapeRow n w null r).length = n := by
  simp [shapeRow, h]; omega


/-! ### digits -/

theorem isDig_props (c : Char) (h : isDig c = true) :
    notSD c = true ∧ isSign c = false ∧ c ≠ '.' ∧ c ≠ 'e' ∧ c ≠ 'E' := by
  simp only [isDig, Bool.and_eq_true, decide_eq_true_eq] at h
  obtain ⟨h1, h2⟩ := h
  have hv1 : 48 ≤ c.toNat := h1
  have hv2 : c.toNat ≤ 57 := h2
  refine ⟨?_, ?_, ?_, ?_, ?_⟩
  · simp only [notSD, Bool.not_eq_true', Bool.or_eq_false_iff, decide_eq_false_iff_not]
    refine ⟨⟨⟨?_, ?_⟩, ?_⟩, ?_⟩ <;> (intro e; subst e; revert hv1 hv2; decide)
  · simp only [isSign, Bool.or_eq_false_iff, decide_eq_false_iff_not]
    refine ⟨?_, ?_⟩ <;> (intro e; subst e; revert hv1 hv2; decide)
  all_goals (intro e; subst e; revert hv1 hv2; decide)

theorem takeWhile_all {p : Char → Bool} (m : Str) (d : Char) (r : Str)
    (hm : ∀ c ∈ m, p c = true) (hd : p d = false) :
    (m ++ d :: r).takeWhile p = m ∧ (m ++ d :: r).dropWhile p = d :: r := by
  induction m with
  | nil => simp [List.takeWhile, List.dropWhile, hd]
  | cons c t ih =>
    have hc : p c = true := hm c (by simp)
    have := ih (fun x hx => hm x (by simp [hx]))
    simp [List.takeWhile, List.dropWhile, hc, this]

theorem takeWhile_all_end {p : Char → Bool} (m : Str) (hm : ∀ c ∈ m, p c = true) :
    m.takeWhile p = m ∧ m.dropWhile p = [] := by
  induction m with
  | nil => simp
  | cons c t ih =>
    have hc : p c = true := hm c (by simp)
    have := ih (fun x hx => hm x (by simp [hx]))
    simp [List.takeWhile, List.dropWhile, hc, this]




/-! ### numbers: soundness of the short-form and D branches -/

theorem tw_stop {p : Char → Bool} (a : Str) (x : Char) (y : Str) (hx : p x = false) :
    (a ++ x :: y).takeWhile p = a.takeWhile p ∧ (a ++ x :: y).dropWhile p = a.dropWhile p ++ x :: y := by
  induction a with
  | nil => simp [List.takeWhile, List.dropWhile, hx]
  | cons c t ih =>
    by_cases hc : p c = true
    · simp [List.takeWhile, List.dropWhile, hc, ih]
    · have hc' : p c = false := by simpa using hc
      simp [List.takeWhile, List.dropWhile, hc']

/-- the mantissa scan only looks at digits and the point: a following character that is
    neither stays in the rest -/
theorem scanMant_append (a : Str) (x : Char) (y : Str) (hx1 : isDig x = false) (hx2 : x ≠ '.') :
    scanMant (a ++ x :: y) =
      (scanMant a).map (fun t => (t.1, t.2.1, t.2.2 ++ x :: y)) := by
  unfold scanMant
  simp only [(tw_stop (p := isDig) a x y hx1).1, (tw_stop (p := isDig) a x y hx1).2]
  cases hs2 : List.dropWhile isDig a with
  | nil =>
    simp only [List.nil_append, hx2, if_false]
    by_cases hip : (List.takeWhile isDig a).isEmpty = true <;> simp [hip]
  | cons c r =>
    simp only [List.cons_append]
    by_cases hc : c = '.'
    · simp only [hc, if_true, (tw_stop (p := isDig) r x y hx1).1, (tw_stop (p := isDig) r x y hx1).2]
      by_cases hq : ((List.takeWhile isDig a).isEmpty && (List.takeWhile isDig r).isEmpty) = true <;> simp [hq]
    · simp only [hc, if_false]
      by_cases hip : (List.takeWhile isDig a).isEmpty = true <;> simp [hip]


/-- `pyFloat` / `specNumber` after the optional sign -/
def pyTail (neg : Bool) (s1 : Str) : Option Dec :=
  match scanMant s1 with
  | none => none
  | some (ip, fp, rest) =>
    match rest with
    | [] => some (mkDec neg ip fp 0)
    | c :: r =>
      if c = 'e' || c = 'E' then
        match scanExp r with
        | some e => some (mkDec neg ip fp e)
        | none => none
      else none

def specTail (neg : Bool) (s1 : Str) : Option Dec :=
  match scanMant s1 with
  | none => none
  | some (ip, fp, rest) =>
    match rest with
    | [] => some (mkDec neg ip fp 0)
    | c :: r =>
      if c = 'e' || c = 'E' || c = 'd' || c = 'D' then
        (match scanExp r with
         | some e => some (mkDec neg ip fp e)
         | none => none)
      else if isSign c then
        (if r.isEmpty || !(r.all isDig) then none
         else some (mkDec neg ip fp (if c = '-' then - (digitsVal r : Int) else (digitsVal r : Int))))
      else none

theorem pyFloat_eq (s : Str) : pyFloat s = pyTail (takeSign s).1 (takeSign s).2 := by
  unfold pyFloat pyTail
  cases takeSign s with
  | mk neg s1 => rfl

theorem specNumber_eq (s : Str) (h : ¬ (s = ['+'] ∨ s = ['-'])) :
    specNumber s = specTail (takeSign s).1 (takeSign s).2 := by
  unfold specNumber specTail
  rw [if_neg (by simpa using h)]
  cases takeSign s with
  | mk neg s1 => rfl

theorem all_isDig_E (u z : Str) : (u ++ 'E' :: z).all isDig = false := by
  have hE : isDig 'E' = false := by decide
  simp [List.all_append, hE]

theorem scanExp_of_takeSign (s : Str) (neg : Bool) (w : Str) (h : takeSign s = (neg, w))
    (hw : w.all isDig = false) : scanExp s = none := by
  unfold scanExp
  simp only [h, hw]
  simp

theorem scanExp_noE (r z : Str) : scanExp (r ++ 'E' :: z) = none := by
  cases r with
  | nil =>
    exact scanExp_of_takeSign _ false ('E' :: z) (by simp [takeSign]) (all_isDig_E [] z)
  | cons c r' =>
    by_cases h1 : c = '-'
    · exact scanExp_of_takeSign _ true (r' ++ 'E' :: z) (by simp [takeSign, h1]) (all_isDig_E r' z)
    · by_cases h2 : c = '+'
      · exact scanExp_of_takeSign _ false (r' ++ 'E' :: z) (by simp [takeSign, h2]) (all_isDig_E r' z)
      · exact scanExp_of_takeSign _ false ((c :: r') ++ 'E' :: z) (by simp [takeSign, h1, h2])
          (all_isDig_E (c :: r') z)

theorem scanExp_sign (c : Char) (g4 : Str) (e : Int) (hc : isSign c = true) (h : scanExp (c :: g4) = some e) :
    g4.isEmpty = false ∧ g4.all isDig = true ∧
      e = (if c = '-' then - (digitsVal g4 : Int) else (digitsVal g4 : Int)) := by
  have hc' : c = '+' ∨ c = '-' := by simpa [isSign] using hc
  have hts : takeSign (c :: g4) = (decide (c = '-'), g4) := by
    rcases hc' with rfl | rfl <;> simp [takeSign]
  unfold scanExp at h
  simp only [hts] at h
  cases h1 : g4.isEmpty with
  | true => simp [h1] at h
  | false =>
    cases h2 : g4.all isDig with
    | false => simp [h1, h2] at h
    | true =>
      simp only [h1, h2] at h
      refine ⟨rfl, rfl, ?_⟩
      rcases hc' with rfl | rfl <;> simp at h <;> simp [← h]

/-- B: what `float(g2 + 'E' + sign + g4)` succeeding says about the pieces -/
theorem pyTail_short (neg : Bool) (g2 : Str) (c : Char) (g4 : Str) (v : Dec) (hc : isSign c = true)
    (h : pyTail neg (g2 ++ 'E' :: c :: g4) = some v) :
    ∃ ip fp, scanMant g2 = some (ip, fp, []) ∧ g4.isEmpty = false ∧ g4.all isDig = true ∧
      v = mkDec neg ip fp (if c = '-' then - (digitsVal g4 : Int) else (digitsVal g4 : Int)) := by
  unfold pyTail at h
  rw [scanMant_append g2 'E' (c :: g4) (by decide) (by decide)] at h
  cases hm : scanMant g2 with
  | none => simp [hm] at h
  | some t =>
    obtain ⟨ip, fp, r⟩ := t
    simp only [hm, Option.map_some] at h
    cases r with
    | nil =>
      simp only [List.nil_append] at h
      have hE : (decide ('E' = 'e') || decide True) = true := by decide
      rw [if_pos hE] at h
      cases he : scanExp (c :: g4) with
      | none => simp [he] at h
      | some e =>
        simp only [he] at h
        obtain ⟨h1, h2, h3⟩ := scanExp_sign c g4 e hc he
        refine ⟨ip, fp, rfl, h1, h2, ?_⟩
        injection h with h
        rw [← h, h3]
    | cons x r' =>
      exfalso
      simp only [List.cons_append] at h
      by_cases hx : (decide (x = 'e') || decide (x = 'E')) = true
      · simp only [hx, if_true, scanExp_noE] at h
        simp at h
      · simp [hx] at h

/-- C: the documented grammar reads the same pieces as the short form -/
theorem specTail_short (neg : Bool) (g2 ip fp : Str) (c : Char) (g4 : Str) (hc : isSign c = true)
    (hm : scanMant g2 = some (ip, fp, [])) (h1 : g4.isEmpty = false) (h2 : g4.all isDig = true) :
    specTail neg (g2 ++ c :: g4) =
      some (mkDec neg ip fp (if c = '-' then - (digitsVal g4 : Int) else (digitsVal g4 : Int))) := by
  have hc' : c = '+' ∨ c = '-' := by simpa [isSign] using hc
  have hcd : isDig c = false := by rcases hc' with rfl | rfl <;> decide
  have hcp : c ≠ '.' := by rcases hc' with rfl | rfl <;> decide
  unfold specTail
  rw [scanMant_append g2 c g4 hcd hcp, hm]
  simp only [Option.map_some, List.nil_append]
  have h4 : (decide (c = 'e') || decide (c = 'E') || decide (c = 'd') || decide (c = 'D')) = false := by
    rcases hc' with rfl | rfl <;> decide
  simp only [h4, hc, h1, h2]
  simp


theorem mem_takeWhile_holds (p : Char → Bool) (l : Str) (x : Char) (h : x ∈ l.takeWhile p) : p x = true := by
  induction l with
  | nil => simp at h
  | cons c r ih =>
    by_cases hc : p c = true
    · simp only [List.takeWhile, hc] at h
      rcases List.mem_cons.mp h with rfl | h'
      · exact hc
      · exact ih h'
    · have : p c = false := by simpa using hc
      simp [List.takeWhile, this] at h

theorem takeSign_not_sign (c : Char) (r : Str) (h : isSign c = false) : takeSign (c :: r) = (false, c :: r) := by
  have : c ≠ '+' ∧ c ≠ '-' := by simpa [isSign] using h
  simp [takeSign, this.1, this.2]

theorem notSD_not_sign (c : Char) (h : notSD c = true) : isSign c = false := by
  simp [notSD] at h
  simp [isSign, h.1.1.1, h.1.1.2]

/-- one attempt of the anchored short-form match, followed by a successful `float()`,
    yields a documented number with the same value -/
theorem shortTry_sound (g1 : Option Char) (rest t : Str) (v : Dec) (h : shortTry g1 rest = some t)
    (hp : pyFloat t = some v) : specTail (decide (g1 = some '-')) rest = some v := by
  unfold shortTry at h
  have hsplit := List.takeWhile_append_dropWhile (p := notSD) (l := rest)
  cases hd : List.dropWhile notSD rest with
  | nil => simp [hd] at h
  | cons c r3 =>
    simp only [hd] at h
    by_cases hq : (isSign c && r3.all notSD) = true
    · simp only [hq, if_true] at h
      injection h with h
      have hc : isSign c = true := by simp at hq; exact hq.1
      rw [hd] at hsplit
      -- the sign of t
      have hts : takeSign t = (decide (g1 = some '-'), List.takeWhile notSD rest ++ 'E' :: c :: r3) := by
        rw [← h]
        by_cases hg : g1 = some '-'
        · simp [hg, takeSign]
        · simp only [hg, if_false, List.nil_append, decide_false]
          cases hg2 : List.takeWhile notSD rest with
          | nil => simp [takeSign]
          | cons x xs =>
            have hx : notSD x = true := by
              have : x ∈ List.takeWhile notSD rest := by rw [hg2]; simp
              exact mem_takeWhile_holds _ _ _ this
            simpa using takeSign_not_sign x (xs ++ ['E', c] ++ r3) (notSD_not_sign x hx)
      rw [pyFloat_eq, hts] at hp
      obtain ⟨ip, fp, hm, h1, h2, hv⟩ := pyTail_short _ _ c r3 v hc hp
      rw [← hsplit, specTail_short _ _ ip fp c r3 hc hm h1 h2, hv]
    · simp [hq] at h


theorem specTail_sign_head (neg : Bool) (c : Char) (r : Str) (hc : isSign c = true) :
    specTail neg (c :: r) = none := by
  have hc' : c = '+' ∨ c = '-' := by simpa [isSign] using hc
  have hd : isDig c = false := by rcases hc' with rfl | rfl <;> decide
  have hp : c ≠ '.' := by rcases hc' with rfl | rfl <;> decide
  unfold specTail scanMant
  simp [List.takeWhile, List.dropWhile, hd, hp]

/-- the anchored short-form branch of `convert_fortran_number` only accepts documented numbers -/
theorem shortForm_sound (s t : Str) (v : Dec) (hl : ¬ (s = ['+'] ∨ s = ['-']))
    (hs : shortForm s = some t) (hp : pyFloat t = some v) : specNumber s = some v := by
  rw [specNumber_eq s hl]
  cases s with
  | nil => simp [shortForm] at hs
  | cons c0 r =>
    unfold shortForm at hs
    by_cases hsg : isSign c0 = true
    · have hc' : c0 = '+' ∨ c0 = '-' := by simpa [isSign] using hsg
      have hts : takeSign (c0 :: r) = (decide (c0 = '-'), r) := by
        rcases hc' with rfl | rfl <;> simp [takeSign]
      simp only [hsg, if_true] at hs
      cases h1 : shortTry (some c0) r with
      | some t' =>
        simp only [h1] at hs
        injection hs with hs
        subst hs
        have := shortTry_sound (some c0) r t' v h1 hp
        rw [hts]
        simpa using this
      | none =>
        simp only [h1] at hs
        have := shortTry_sound none (c0 :: r) t v hs hp
        rw [specTail_sign_head _ c0 r hsg] at this
        simp at this
    · have hsg' : isSign c0 = false := by simpa using hsg
      simp only [hsg'] at hs
      have := shortTry_sound none (c0 :: r) t v hs hp
      rw [takeSign_not_sign c0 r hsg']
      simpa using this


/-! ### the D → e branch -/

theorem fD_cases (c : Char) : (replD c = c ∧ c ≠ 'D' ∧ c ≠ 'd') ∨ (replD c = 'e' ∧ (c = 'D' ∨ c = 'd')) := by
  unfold replD
  by_cases h : (c = 'D' ∨ c = 'd')
  · right; rcases h with rfl | rfl <;> simp
  · left
    have h' : c ≠ 'D' ∧ c ≠ 'd' := by
      constructor <;> (intro e; exact h (by simp [e]))
    simp [h'.1, h'.2]

theorem fD_isDig (c : Char) : isDig (replD c) = isDig c := by
  rcases fD_cases c with ⟨h, _, _⟩ | ⟨h, h2⟩
  · rw [h]
  · rw [h]; rcases h2 with rfl | rfl <;> decide

theorem fD_of_isDig (c : Char) (h : isDig c = true) : replD c = c := by
  rcases fD_cases c with ⟨h1, _, _⟩ | ⟨_, h2⟩
  · exact h1
  · rcases h2 with rfl | rfl <;> simp [isDig] at h <;> revert h <;> decide

theorem fD_eq_char (c x : Char) (hx : x ≠ 'e') (hx1 : x ≠ 'D') (hx2 : x ≠ 'd') : replD c = x ↔ c = x := by
  rcases fD_cases c with ⟨h, h1, h2⟩ | ⟨h, h2⟩
  · rw [h]
  · rw [h]
    constructor
    · intro e; exact absurd e.symm hx
    · intro e; rcases h2 with rfl | rfl
      · exact absurd e.symm hx1
      · exact absurd e.symm hx2

theorem map_fD_digits (l : Str) (h : l.all isDig = true) : l.map replD = l := by
  induction l with
  | nil => rfl
  | cons c r ih =>
    simp only [List.all_cons, Bool.and_eq_true] at h
    simp [fD_of_isDig c h.1, ih h.2]

theorem tw_map_fD (l : Str) :
    (l.map replD).takeWhile isDig = l.takeWhile isDig ∧ (l.map replD).dropWhile isDig = (l.dropWhile isDig).map replD := by
  induction l with
  | nil => simp
  | cons c r ih =>
    by_cases hc : isDig c = true
    · have h1 : isDig (replD c) = true := by rw [fD_isDig]; exact hc
      simp [List.takeWhile, List.dropWhile, hc, h1, ih, fD_of_isDig c hc]
    · have hc' : isDig c = false := by simpa using hc
      have h1 : isDig (replD c) = false := by rw [fD_isDig]; exact hc'
      simp [List.takeWhile, List.dropWhile, hc', h1]

theorem scanMant_map_fD (s1 : Str) :
    scanMant (s1.map replD) = (scanMant s1).map (fun t => (t.1, t.2.1, t.2.2.map replD)) := by
  unfold scanMant
  simp only [(tw_map_fD s1).1, (tw_map_fD s1).2]
  cases hs2 : List.dropWhile isDig s1 with
  | nil =>
    simp only [List.map_nil]
    by_cases hip : (List.takeWhile isDig s1).isEmpty = true <;> simp [hip]
  | cons c r =>
    simp only [List.map_cons]
    have hdot : replD c = '.' ↔ c = '.' := fD_eq_char c '.' (by decide) (by decide) (by decide)
    by_cases hc : c = '.'
    · subst hc
      have e1 : replD '.' = '.' := by decide
      simp only [e1, if_true, (tw_map_fD r).1, (tw_map_fD r).2]
      by_cases hq : ((List.takeWhile isDig s1).isEmpty && (List.takeWhile isDig r).isEmpty) = true <;> simp [hq]
    · have : replD c ≠ '.' := fun e => hc (hdot.mp e)
      simp only [this, hc, if_false]
      by_cases hip : (List.takeWhile isDig s1).isEmpty = true <;> simp [hip]

theorem takeSign_map_fD (s : Str) : takeSign (s.map replD) = ((takeSign s).1, (takeSign s).2.map replD) := by
  cases s with
  | nil => simp [takeSign]
  | cons c r =>
    have hm : replD c = '-' ↔ c = '-' := fD_eq_char c '-' (by decide) (by decide) (by decide)
    have hp : replD c = '+' ↔ c = '+' := fD_eq_char c '+' (by decide) (by decide) (by decide)
    simp only [List.map_cons, takeSign]
    by_cases h1 : c = '-'
    · subst h1
      have e1 : replD '-' = '-' := by decide
      simp [e1]
    · have h1' : replD c ≠ '-' := fun e => h1 (hm.mp e)
      by_cases h2 : c = '+'
      · subst h2
        have e1 : replD '+' = '+' := by decide
        have e2 : replD '+' ≠ '-' := by decide
        simp [e1]
      · have h2' : replD c ≠ '+' := fun e => h2 (hp.mp e)
        simp [h1, h2, h1', h2']

theorem all_isDig_map_fD (w : Str) : (w.map replD).all isDig = w.all isDig := by
  induction w with
  | nil => rfl
  | cons c r ih => simp [List.all_cons, fD_isDig, ih]

theorem scanExp_map_fD (r : Str) (e : Int) (h : scanExp (r.map replD) = some e) : scanExp r = some e := by
  unfold scanExp at h ⊢
  rw [takeSign_map_fD] at h
  cases hts : takeSign r with
  | mk neg w =>
    simp only [hts] at h ⊢
    have hall := all_isDig_map_fD w
    cases hw : w.all isDig with
    | false =>
      rw [hw] at hall
      simp [hall] at h
    | true =>
      have := map_fD_digits w hw
      rw [this, hw] at h
      exact h


/-- the D → e branch only accepts documented numbers -/
theorem dBranch_sound (s : Str) (v : Dec) (hl : ¬ (s = ['+'] ∨ s = ['-']))
    (hp : pyFloat (s.map replD) = some v) : specNumber s = some v := by
  rw [specNumber_eq s hl]
  rw [pyFloat_eq, takeSign_map_fD] at hp
  simp only at hp
  generalize (takeSign s).1 = neg at hp ⊢
  generalize (takeSign s).2 = s1 at hp ⊢
  unfold pyTail at hp
  unfold specTail
  rw [scanMant_map_fD] at hp
  cases hm : scanMant s1 with
  | none => simp [hm] at hp
  | some t =>
    obtain ⟨ip, fp, rest⟩ := t
    simp only [hm, Option.map_some] at hp ⊢
    cases rest with
    | nil => simpa using hp
    | cons x r =>
      simp only [List.map_cons] at hp
      dsimp only
      by_cases hx : (decide (replD x = 'e') || decide (replD x = 'E')) = true
      · rw [if_pos hx] at hp
        have hx4 : (decide (x = 'e') || decide (x = 'E') || decide (x = 'd') || decide (x = 'D')) = true := by
          rcases fD_cases x with ⟨h, _, _⟩ | ⟨_, h2⟩
          · rw [h] at hx
            simp only [Bool.or_eq_true, decide_eq_true_eq] at hx ⊢
            rcases hx with h | h <;> simp [h]
          · rcases h2 with rfl | rfl <;> decide
        rw [if_pos hx4]
        cases he : scanExp (r.map replD) with
        | none => simp [he] at hp
        | some e =>
          simp only [he] at hp
          rw [scanExp_map_fD r e he]
          exact hp
      · rw [if_neg hx] at hp
        simp at hp



/-! ### numbers: completeness helpers -/

theorem notSD_of_dig_or_dot (c : Char) (h : isDig c = true ∨ c = '.') : notSD c = true := by
  rcases h with h | rfl
  · exact (isDig_props c h).1
  · decide

/-- the mantissa scan consumes a prefix made of digits and at most one point -/
theorem scanMant_split (s1 ip fp rest : Str) (h : scanMant s1 = some (ip, fp, rest)) :
    ∃ M, s1 = M ++ rest ∧ (∀ c ∈ M, notSD c = true) := by
  unfold scanMant at h
  have hsplit := List.takeWhile_append_dropWhile (p := isDig) (l := s1)
  have hipd : ∀ c ∈ List.takeWhile isDig s1, notSD c = true :=
    fun c hc => notSD_of_dig_or_dot c (Or.inl (mem_takeWhile_holds _ _ _ hc))
  cases hs2 : List.dropWhile isDig s1 with
  | nil =>
    simp only [hs2] at h
    split at h
    · exact absurd h (by simp)
    · simp only [Option.some.injEq, Prod.mk.injEq] at h
      refine ⟨List.takeWhile isDig s1, ?_, hipd⟩
      rw [← h.2.2, ← hs2]; exact hsplit.symm
  | cons c q =>
    simp only [hs2] at h
    by_cases hc : c = '.'
    · subst hc
      simp only [if_true] at h
      split at h
      · exact absurd h (by simp)
      · simp only [Option.some.injEq, Prod.mk.injEq] at h
        have hq2 := List.takeWhile_append_dropWhile (p := isDig) (l := q)
        refine ⟨List.takeWhile isDig s1 ++ '.' :: List.takeWhile isDig q, ?_, ?_⟩
        · rw [← h.2.2, List.append_assoc, List.cons_append, hq2, ← hs2]; exact hsplit.symm
        · intro x hx
          rcases List.mem_append.mp hx with h1 | h1
          · exact hipd x h1
          · rcases List.mem_cons.mp h1 with rfl | h2
            · decide
            · exact notSD_of_dig_or_dot x (Or.inl (mem_takeWhile_holds _ _ _ h2))
    · simp only [hc, if_false] at h
      split at h
      · exact absurd h (by simp)
      · simp only [Option.some.injEq, Prod.mk.injEq] at h
        refine ⟨List.takeWhile isDig s1, ?_, hipd⟩
        rw [← h.2.2, ← hs2]; exact hsplit.symm


theorem scanMant_of_append (M : Str) (x : Char) (r ip fp : Str) (hx1 : isDig x = false) (hx2 : x ≠ '.')
    (h : scanMant (M ++ x :: r) = some (ip, fp, x :: r)) : scanMant M = some (ip, fp, []) := by
  rw [scanMant_append M x r hx1 hx2] at h
  cases hm : scanMant M with
  | none => simp [hm] at h
  | some t =>
    obtain ⟨a, b, r0⟩ := t
    simp only [hm, Option.map_some, Option.some.injEq, Prod.mk.injEq] at h
    obtain ⟨h1, h2, h3⟩ := h
    have : r0 = [] := by
      have hl := congrArg List.length h3
      simp only [List.length_append, List.length_cons] at hl
      exact List.eq_nil_of_length_eq_zero (by omega)
    rw [h1, h2, this]

theorem scanExp_sign_fwd (c : Char) (g4 : Str) (hc : isSign c = true) (h1 : g4.isEmpty = false)
    (h2 : g4.all isDig = true) :
    scanExp (c :: g4) = some (if c = '-' then - (digitsVal g4 : Int) else (digitsVal g4 : Int)) := by
  have hc' : c = '+' ∨ c = '-' := by simpa [isSign] using hc
  have hts : takeSign (c :: g4) = (decide (c = '-'), g4) := by
    rcases hc' with rfl | rfl <;> simp [takeSign]
  unfold scanExp
  simp only [hts, h1, h2]
  rcases hc' with rfl | rfl <;> simp

theorem scanExp_map_fwd (r : Str) (e : Int) (h : scanExp r = some e) : scanExp (r.map replD) = some e := by
  unfold scanExp at h ⊢
  rw [takeSign_map_fD]
  cases hts : takeSign r with
  | mk neg w =>
    simp only [hts] at h ⊢
    cases hw : w.all isDig with
    | false => simp [hw] at h
    | true =>
      rw [map_fD_digits w hw]
      exact h

theorem shortTry_complete (g1 : Option Char) (M : Str) (x : Char) (r : Str)
    (hM : ∀ c ∈ M, notSD c = true) (hx : isSign x = true) (hr : r.all isDig = true) :
    shortTry g1 (M ++ x :: r) = some ((if g1 = some '-' then ['-'] else []) ++ M ++ ['E', x] ++ r) := by
  have hx' : x = '+' ∨ x = '-' := by simpa [isSign] using hx
  have hxN : notSD x = false := by rcases hx' with rfl | rfl <;> decide
  have tw := takeWhile_all (p := notSD) M x r hM hxN
  have hrN : r.all notSD = true := by
    simp only [List.all_eq_true] at hr ⊢
    exact fun c hc => (isDig_props c (hr c hc)).1
  unfold shortTry
  simp only [tw.1, tw.2, hx, hrN]
  simp

theorem pyFloat_shortText (neg : Bool) (M : Str) (x : Char) (r ip fp : Str)
    (hM : ∀ c ∈ M, notSD c = true) (hm : scanMant M = some (ip, fp, [])) (hx : isSign x = true)
    (h1 : r.isEmpty = false) (h2 : r.all isDig = true) :
    pyFloat ((if neg then ['-'] else []) ++ M ++ ['E', x] ++ r) =
      some (mkDec neg ip fp (if x = '-' then - (digitsVal r : Int) else (digitsVal r : Int))) := by
  have hts : takeSign ((if neg then ['-'] else []) ++ M ++ ['E', x] ++ r) = (neg, M ++ 'E' :: x :: r) := by
    cases neg with
    | true => simp [takeSign]
    | false =>
      simp only [Bool.false_eq_true, if_false, List.nil_append]
      cases M with
      | nil => simp [takeSign]
      | cons c cs =>
        have := takeSign_not_sign c (cs ++ ['E', x] ++ r) (notSD_not_sign c (hM c (by simp)))
        simpa using this
  rw [pyFloat_eq, hts]
  unfold pyTail
  rw [scanMant_append M 'E' (x :: r) (by decide) (by decide), hm]
  simp only [Option.map_some, List.nil_append]
  have hE : (decide ('E' = 'e') || decide ('E' = 'E')) = true := by decide
  simp only [scanExp_sign_fwd x r hx h1 h2]
  simp


def isDch (c : Char) : Bool := c = 'D' || c = 'd'

theorem notSD_not_D (c : Char) (h : notSD c = true) : isDch c = false := by
  simp [notSD] at h
  simp [isDch, h.1.2, h.2]

theorem shortTry_noD (g1 : Option Char) (rest t : Str) (h : shortTry g1 rest = some t) :
    rest.any isDch = false := by
  unfold shortTry at h
  have hsplit := List.takeWhile_append_dropWhile (p := notSD) (l := rest)
  cases hd : List.dropWhile notSD rest with
  | nil => simp [hd] at h
  | cons c r3 =>
    simp only [hd] at h
    by_cases hq : (isSign c && r3.all notSD) = true
    · simp only [Bool.and_eq_true] at hq
      rw [← hsplit, hd]
      simp only [List.any_append, List.any_cons, Bool.or_eq_false_iff]
      refine ⟨?_, ?_, ?_⟩
      · rw [List.any_eq_false]
        intro x hx
        simpa using notSD_not_D x (mem_takeWhile_holds _ _ _ hx)
      · have hc' : c = '+' ∨ c = '-' := by simpa [isSign] using hq.1
        rcases hc' with rfl | rfl <;> decide
      · rw [List.any_eq_false]
        intro x hx
        have := List.all_eq_true.mp hq.2 x hx
        simpa using notSD_not_D x this
    · simp [hq] at h

theorem shortForm_none_of_D (s : Str) (hD : s.any isDch = true) : shortForm s = none := by
  cases hs : shortForm s with
  | none => rfl
  | some t =>
    exfalso
    cases s with
    | nil => simp at hD
    | cons c0 r =>
      unfold shortForm at hs
      by_cases hsg : isSign c0 = true
      · simp only [hsg, if_true] at hs
        have hc' : c0 = '+' ∨ c0 = '-' := by simpa [isSign] using hsg
        have hc0 : isDch c0 = false := by rcases hc' with rfl | rfl <;> decide
        cases h1 : shortTry (some c0) r with
        | some t' =>
          have := shortTry_noD _ _ _ h1
          simp [List.any_cons, hc0, this] at hD
        | none =>
          simp only [h1] at hs
          have := shortTry_noD _ _ _ hs
          rw [this] at hD
          simp at hD
      · have hsg' : isSign c0 = false := by simpa using hsg
        simp only [hsg'] at hs
        have := shortTry_noD _ _ _ hs
        rw [this] at hD
        simp at hD

theorem takeSign_suffix (s : Str) : ∃ p, s = p ++ (takeSign s).2 := by
  cases s with
  | nil => exact ⟨[], by simp [takeSign]⟩
  | cons c r =>
    by_cases h1 : c = '-'
    · exact ⟨[c], by simp [takeSign, h1]⟩
    · by_cases h2 : c = '+'
      · exact ⟨[c], by simp [takeSign, h2]⟩
      · exact ⟨[], by simp [takeSign, h1, h2]⟩




/-! ### a rendered row is read back -/

theorem plain_props (c : Char) (h : isPlain c = true) : c ≠ ' ' ∧ isDelim c = false ∧ isPyWs c = false := by
  simp only [isPlain, Bool.and_eq_true, Bool.not_eq_true', decide_eq_false_iff_not] at h
  obtain ⟨h1, h2⟩ := h
  have hws := h1
  simp only [isPyWs, Bool.or_eq_false_iff, decide_eq_false_iff_not] at h1
  refine ⟨h1.1.1.1.1.1.1.1.1.1, ?_, hws⟩
  simp [isDelim, h2, h1.1.1.1.1.1.1.1.1.2]

theorem tok_item_word (w : Str) (hw : ∀ c ∈ w, isPlain c = true) : tok .item w = [w] := by
  induction w with
  | nil => simp [tok]
  | cons c r ih =>
    obtain ⟨h1, h2, _⟩ := plain_props c (hw c (by simp))
    simp [tok, h1, h2, ih (fun x hx => hw x (by simp [hx])), consHead]

theorem tok_item_word_comma (w rest : Str) (hw : ∀ c ∈ w, isPlain c = true) :
    tok .item (w ++ ',' :: rest) = w :: tok .delim rest := by
  induction w with
  | nil => simp [tok, isDelim]
  | cons c r ih =>
    obtain ⟨h1, h2, _⟩ := plain_props c (hw c (by simp))
    simp [tok, h1, h2, ih (fun x hx => hw x (by simp [hx])), consHead]

theorem joinWith_head (y : Str) (ys : List Str) (c : Char) (cs : Str) (hc : y = c :: cs) :
    ∃ t, joinWith ',' (y :: ys) = c :: t := by
  cases ys with
  | nil => exact ⟨cs, by simp [joinWith, hc]⟩
  | cons z zs => exact ⟨cs ++ ',' :: joinWith ',' (z :: zs), by simp [joinWith, hc]⟩

/-- the documented tokenizer reads a comma-joined row of plain items back as those items -/
theorem tok_join (items : List Str) (hne : items ≠ [])
    (hp : ∀ w ∈ items, w ≠ [] ∧ ∀ c ∈ w, isPlain c = true) :
    tok .item (joinWith ',' items) = items := by
  induction items with
  | nil => exact absurd rfl hne
  | cons x xs ih =>
    cases xs with
    | nil => simp [joinWith, tok_item_word x (hp x (by simp)).2]
    | cons y ys =>
      have hx := (hp x (by simp)).2
      have ihy := ih (by simp) (fun w hw => hp w (by simp [hw]))
      simp only [joinWith]
      rw [tok_item_word_comma x _ hx]
      have hy := hp y (by simp)
      obtain ⟨c, cs, hc⟩ := List.exists_cons_of_ne_nil hy.1
      have hcp := (plain_props c (hy.2 c (by rw [hc]; simp))).1
      obtain ⟨t, ht⟩ := joinWith_head y ys c cs hc
      have hhead : ∀ r, joinWith ',' (y :: ys) ≠ ' ' :: r := by
        intro r e
        rw [ht] at e
        injection e with e1 _
        exact hcp e1
      rw [tok_delim_eq_item _ hhead, ihy]


/-- `split_matches_rules`, restated here for the lemma file -/
theorem split_matches_rules_aux (l : Str) (h1 : noSpTab l = true) (h2 : edgeOk l = true) :
    lineItems l = specItems l := by
  unfold lineItems specItems reSplit
  rw [pyStrip_eq_spStrip h2, tok_lead_spStrip l, tok_lead_eq_item _ (spStrip_no_space_head l)]
  exact split_eq_tok_item _ _ (Nat.le_refl _) (noSpTab_spStrip h1) (noTrailSp_spStrip l)

theorem joinWith_chars (items : List Str) (hp : ∀ w ∈ items, ∀ c ∈ w, isPlain c = true) :
    ∀ c ∈ joinWith ',' items, isPlain c = true ∨ c = ',' := by
  induction items with
  | nil => simp [joinWith]
  | cons x xs ih =>
    cases xs with
    | nil => intro c hc; simp only [joinWith] at hc; exact Or.inl (hp x (by simp) c hc)
    | cons y ys =>
      intro c hc
      simp only [joinWith, List.mem_append, List.mem_cons] at hc
      rcases hc with h | h | h
      · exact Or.inl (hp x (by simp) c h)
      · exact Or.inr h
      · exact ih (fun w hw => hp w (by simp [hw])) c h

theorem joinWith_last (items : List Str) (hne : items ≠ [])
    (hp : ∀ w ∈ items, w ≠ [] ∧ ∀ c ∈ w, isPlain c = true) :
    ∃ t c, joinWith ',' items = t ++ [c] ∧ isPlain c = true := by
  induction items with
  | nil => exact absurd rfl hne
  | cons x xs ih =>
    cases xs with
    | nil =>
      have hx := hp x (by simp)
      have hr : x.reverse ≠ [] := by simpa using hx.1
      obtain ⟨c, t, hc⟩ := List.exists_cons_of_ne_nil hr
      have hxe : x = t.reverse ++ [c] := by
        have := congrArg List.reverse hc
        simpa using this
      refine ⟨t.reverse, c, by simp [joinWith, hxe], hx.2 c (by rw [hxe]; simp)⟩
    | cons y ys =>
      obtain ⟨t, c, ht, hc⟩ := ih (by simp) (fun w hw => hp w (by simp [hw]))
      exact ⟨x ++ ',' :: t, c, by simp [joinWith, ht], hc⟩

theorem noSpTab_of_no_space (l : Str) (h : ∀ c ∈ l, c ≠ ' ') : noSpTab l = true := by
  induction l with
  | nil => rfl
  | cons c r ih =>
    have hc : c ≠ ' ' := h c (by simp)
    have := ih (fun x hx => h x (by simp [hx]))
    cases r with
    | nil => simp [noSpTab]
    | cons d t =>
      rw [noSpTab, this]
      simp [hc]

theorem dropSp_of_no_space (l : Str) (h : ∀ c ∈ l, c ≠ ' ') : dropSp l = l := by
  cases l with
  | nil => rfl
  | cons c r => exact dropSp_idem_of_head (h c (by simp))



/-! ### comment lines -/

/-- two lines that are either the same or both comments -/
def SameUpToComment (ic : Char) (a b : Str) : Prop :=
  a = b ∨ (isComment ic a = true ∧ isComment ic b = true)

/-- line lists of equal length that agree line by line up to the text of comments -/
inductive LinesAgree (ic : Char) : List Str → List Str → Prop where
  | nil : LinesAgree ic [] []
  | cons {a b : Str} {l1 l2 : List Str} : SameUpToComment ic a b → LinesAgree ic l1 l2 →
      LinesAgree ic (a :: l1) (b :: l2)

theorem filter_comments_rel (ic : Char) (l1 l2 : List Str) (h : LinesAgree ic l1 l2) :
    l1.filter (fun l => !isComment ic l) = l2.filter (fun l => !isComment ic l) := by
  induction h with
  | nil => rfl
  | cons hab _ ih =>
    rcases hab with rfl | ⟨ha, hb⟩
    · simp [List.filter_cons, ih]
    · simp [List.filter_cons, ha, hb, ih]

end Pharmpy.C13
