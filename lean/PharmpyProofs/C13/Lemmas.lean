import PharmpyModel.Core.Expr
import PharmpyModel.C13.Reader
/-
  Helper lemmas for C13 (core Lean only).
-/
namespace Pharmpy.C13

/-! ### spaces -/

theorem drop_spLen (s : Str) : s.drop (spLen s) = dropSp s := by
  induction s with
  | nil => simp [spLen, dropSp]
  | cons c r ih =>
    by_cases h : c = ' '
    · simp [spLen, dropSp, h, ih]
    · simp [spLen, dropSp, h]

theorem dropSp_length_le (s : Str) : (dropSp s).length ≤ s.length := by
  induction s with
  | nil => simp [dropSp]
  | cons c r ih =>
    by_cases h : c = ' '
    · simp [dropSp, h]; omega
    · simp [dropSp, h]

theorem dropSp_head (s : Str) (d : Char) (r : Str) (h : dropSp s = d :: r) : d ≠ ' ' := by
  induction s with
  | nil => simp [dropSp] at h
  | cons c t ih =>
    by_cases hc : c = ' '
    · simp [dropSp, hc] at h; exact ih h
    · simp [dropSp, hc] at h
      intro hd; exact hc (h.1 ▸ hd)

theorem dropSp_idem_of_head {c : Char} {r : Str} (h : c ≠ ' ') : dropSp (c :: r) = c :: r := by
  simp [dropSp, h]

theorem dropSp_space (r : Str) : dropSp (' ' :: r) = dropSp r := by
  simp [dropSp]

/-- last character is not a space -/
def noTrailSp : Str → Bool
  | [] => true
  | c :: r => if r.isEmpty then !(c = ' ') else noTrailSp r

theorem noTrailSp_tail {c : Char} {r : Str} (h : noTrailSp (c :: r) = true) : noTrailSp r = true := by
  cases r with
  | nil => rfl
  | cons d t => simpa [noTrailSp] using h

theorem noTrailSp_dropSp {s : Str} (h : noTrailSp s = true) : noTrailSp (dropSp s) = true := by
  induction s with
  | nil => simp [dropSp, noTrailSp]
  | cons c r ih =>
    by_cases hc : c = ' '
    · rw [hc, dropSp_space]; exact ih (noTrailSp_tail h)
    · rw [dropSp_idem_of_head hc]; exact h

theorem dropSp_ne_nil {s : Str} (h : noTrailSp s = true) (hne : s ≠ []) : dropSp s ≠ [] := by
  induction s with
  | nil => exact absurd rfl hne
  | cons c r ih =>
    by_cases hc : c = ' '
    · rw [hc, dropSp_space]
      cases r with
      | nil => simp [noTrailSp, hc] at h
      | cons d t => exact ih (noTrailSp_tail h) (by simp)
    · rw [dropSp_idem_of_head hc]; simp

theorem noSpTab_tail {c : Char} {r : Str} (h : noSpTab (c :: r) = true) : noSpTab r = true := by
  simp [noSpTab] at h; exact h.2

theorem noSpTab_dropSp {s : Str} (h : noSpTab s = true) : noSpTab (dropSp s) = true := by
  induction s with
  | nil => simp [dropSp, noSpTab]
  | cons c r ih =>
    by_cases hc : c = ' '
    · rw [hc, dropSp_space]; exact ih (noSpTab_tail h)
    · rw [dropSp_idem_of_head hc]; exact h

/-- after a space, the first non-space character is not a TAB -/
theorem dropSp_not_tab {r : Str} (h : noSpTab (' ' :: r) = true) (x : Str) : dropSp r ≠ '\t' :: x := by
  induction r with
  | nil => simp [dropSp]
  | cons d t ih =>
    by_cases hd : d = ' '
    · rw [hd, dropSp_space]
      apply ih
      rw [hd] at h
      exact noSpTab_tail h
    · rw [dropSp_idem_of_head hd]
      simp [noSpTab] at h
      intro heq
      injection heq with h1 _
      exact h.1 h1

/-! ### `re.split` unfolded -/

theorem splitGo_skip (k : Nat) (s : Str) : splitGo k s = splitGo 0 (s.drop k) := by
  induction k generalizing s with
  | zero => simp
  | succ k ih =>
    cases s with
    | nil => simp [splitGo]
    | cons c cs => simp [splitGo, ih cs]

theorem splitGo_cons (c : Char) (cs : Str) :
    splitGo 0 (c :: cs) =
      if sepLen (c :: cs) = 0 then consHead c (splitGo 0 cs)
      else [] :: splitGo 0 ((c :: cs).drop (sepLen (c :: cs))) := by
  rw [splitGo]
  cases h : sepLen (c :: cs) with
  | zero => simp
  | succ n => simp [splitGo_skip n cs]

/-! ### the documented tokenizer ignores spaces where the rules say so -/

theorem tok_gap_dropSp (s : Str) : tok .gap s = tok .gap (dropSp s) := by
  induction s with
  | nil => simp [dropSp]
  | cons c r ih =>
    by_cases hc : c = ' '
    · rw [hc, dropSp_space, tok]; simpa using ih
    · rw [dropSp_idem_of_head hc]

theorem tok_delim_dropSp (s : Str) : tok .delim s = tok .delim (dropSp s) := by
  induction s with
  | nil => simp [dropSp]
  | cons c r ih =>
    by_cases hc : c = ' '
    · rw [hc, dropSp_space, tok]; simpa using ih
    · rw [dropSp_idem_of_head hc]

theorem tok_lead_dropSp (s : Str) : tok .lead s = tok .lead (dropSp s) := by
  induction s with
  | nil => simp [dropSp]
  | cons c r ih =>
    by_cases hc : c = ' '
    · rw [hc, dropSp_space, tok]; simpa using ih
    · rw [dropSp_idem_of_head hc]

/-- when no space is pending, the states `delim` and `item` continue alike -/
theorem tok_delim_eq_item (s : Str) (h : ∀ r, s ≠ ' ' :: r) : tok .delim s = tok .item s := by
  cases s with
  | nil => simp [tok]
  | cons c r =>
    have hc : c ≠ ' ' := fun e => h r (by rw [e])
    simp [tok, hc]

theorem tok_lead_eq_item (s : Str) (h : ∀ r, s ≠ ' ' :: r) : tok .lead s = tok .item s := by
  cases s with
  | nil => simp [tok]
  | cons c r =>
    have hc : c ≠ ' ' := fun e => h r (by rw [e])
    simp [tok, hc]

theorem dropSp_no_space_head (s : Str) : ∀ r, dropSp s ≠ ' ' :: r := by
  intro r h
  exact dropSp_head s ' ' r h rfl


/-! ### core: `re.split` on a text without trailing space = the documented tokenizer -/

theorem sepLen_other {c : Char} {cs : Str} (h1 : c ≠ ' ') (h2 : isDelim c = false) :
    sepLen (c :: cs) = 0 := by
  simp [sepLen, dropSp, spLen, h1, h2]

theorem sepLen_delim {c : Char} {cs : Str} (h1 : c ≠ ' ') (h2 : isDelim c = true) :
    sepLen (c :: cs) = 1 + spLen cs := by
  simp [sepLen, dropSp, spLen, h1, h2]

theorem isDelim_ne_space {c : Char} (h : isDelim c = true) : c ≠ ' ' := by
  intro e; rw [e] at h; simp [isDelim] at h

theorem split_eq_tok_item (n : Nat) : ∀ s : Str, s.length ≤ n → noSpTab s = true → noTrailSp s = true →
    splitGo 0 s = tok .item s := by
  induction n with
  | zero =>
    intro s hl _ _
    cases s with
    | nil => simp [splitGo, tok]
    | cons c cs => simp at hl
  | succ n ih =>
    intro s hl hst htr
    cases s with
    | nil => simp [splitGo, tok]
    | cons c cs =>
      rw [splitGo_cons]
      by_cases hc : c = ' '
      · -- a run of spaces: either it leads to a comma (then the comma is the delimiter) or it is the delimiter
        subst hc
        have hne : dropSp (' ' :: cs) ≠ [] := dropSp_ne_nil htr (by simp)
        rw [dropSp_space] at hne
        cases hd : dropSp cs with
        | nil => exact absurd hd hne
        | cons d r =>
          have hdsp : d ≠ ' ' := dropSp_head cs d r hd
          have hdtab : d ≠ '\t' := by
            intro e; exact dropSp_not_tab hst r (by rw [hd, e])
          have hst' : noSpTab (d :: r) = true := by
            have := noSpTab_dropSp (noSpTab_tail hst); rwa [hd] at this
          have htr' : noTrailSp (d :: r) = true := by
            have := noTrailSp_dropSp (noTrailSp_tail htr); rwa [hd] at this
          have hlen : (d :: r).length ≤ cs.length := by
            have := dropSp_length_le cs; rwa [hd] at this
          have hgap : tok .gap cs = tok .gap (d :: r) := by rw [tok_gap_dropSp cs, hd]
          have hsl : sepLen (' ' :: cs) ≠ 0 := by
            simp only [sepLen, dropSp_space, hd, spLen]
            split <;> simp
          rw [if_neg hsl]
          have hitem : tok .item (' ' :: cs) = [] :: tok .gap cs := by simp [tok]
          rw [hitem, hgap]
          by_cases hdel : isDelim d = true
          · -- spaces, comma, spaces
            have hdrop : (' ' :: cs).drop (sepLen (' ' :: cs)) = dropSp r := by
              have h1 : sepLen (' ' :: cs) = spLen (' ' :: cs) + 1 + spLen r := by
                simp only [sepLen, dropSp_space, hd, hdel, if_true]
              have hA : (' ' :: cs).drop (spLen (' ' :: cs)) = d :: r := by
                rw [drop_spLen, dropSp_space, hd]
              have hB : (' ' :: cs).drop (spLen (' ' :: cs) + 1) = r := by
                rw [← List.drop_drop, hA]; rfl
              rw [h1, ← List.drop_drop, hB, drop_spLen]
            rw [hdrop]
            have hg : tok .gap (d :: r) = tok .delim r := by simp [tok, hdsp, hdel]
            rw [hg, tok_delim_dropSp r, tok_delim_eq_item _ (dropSp_no_space_head r)]
            congr 1
            apply ih
            · have := dropSp_length_le r; simp at hl hlen; omega
            · exact noSpTab_dropSp (noSpTab_tail hst')
            · exact noTrailSp_dropSp (noTrailSp_tail htr')
          · -- the spaces are the delimiter
            have hdel' : isDelim d = false := by simpa using hdel
            have hdrop : (' ' :: cs).drop (sepLen (' ' :: cs)) = d :: r := by
              have h1 : sepLen (' ' :: cs) = spLen (' ' :: cs) := by
                simp [sepLen, dropSp_space, hd, hdel']
              rw [h1, drop_spLen, dropSp_space, hd]
            rw [hdrop]
            have hg : tok .gap (d :: r) = tok .item (d :: r) := by simp [tok, hdsp, hdel']
            rw [hg]
            congr 1
            apply ih
            · simp at hl; omega
            · exact hst'
            · exact htr'
      · by_cases hdel : isDelim c = true
        · -- comma or TAB, then spaces
          have hsl : sepLen (c :: cs) = 1 + spLen cs := sepLen_delim hc hdel
          have hne : sepLen (c :: cs) ≠ 0 := by omega
          rw [if_neg hne, hsl]
          have hdrop : (c :: cs).drop (1 + spLen cs) = dropSp cs := by
            rw [← List.drop_drop]; simp [drop_spLen]
          rw [hdrop]
          have hitem : tok .item (c :: cs) = [] :: tok .delim cs := by simp [tok, hc, hdel]
          rw [hitem, tok_delim_dropSp cs, tok_delim_eq_item _ (dropSp_no_space_head cs)]
          congr 1
          apply ih
          · have := dropSp_length_le cs; simp at hl; omega
          · exact noSpTab_dropSp (noSpTab_tail hst)
          · exact noTrailSp_dropSp (noTrailSp_tail htr)
        · have hdel' : isDelim c = false := by simpa using hdel
          rw [sepLen_other hc hdel', if_pos rfl]
          have hitem : tok .item (c :: cs) = consHead c (tok .item cs) := by simp [tok, hc, hdel']
          rw [hitem]
          congr 1
          apply ih
          · simp at hl; omega
          · exact noSpTab_tail hst
          · exact noTrailSp_tail htr


/-! ### stripping the ends of the row -/

theorem spLen_dropSp_eq (s : Str) : s = List.replicate (spLen s) ' ' ++ dropSp s := by
  induction s with
  | nil => simp [spLen, dropSp]
  | cons c r ih =>
    by_cases hc : c = ' '
    · subst hc
      simp only [spLen, dropSp, if_true, List.replicate_succ, List.cons_append]
      rw [← ih]
    · simp [spLen, dropSp, hc]

/-- `dropSp l = spStrip l ++ (trailing spaces)` -/
theorem dropSp_eq_spStrip_append (l : Str) :
    ∃ k, dropSp l = spStrip l ++ List.replicate k ' ' := by
  refine ⟨spLen (dropSp l).reverse, ?_⟩
  have h := spLen_dropSp_eq (dropSp l).reverse
  have h2 := congrArg List.reverse h
  simp only [List.reverse_reverse, List.reverse_append, List.reverse_replicate] at h2
  exact h2

theorem tok_append_space (st : St) (t : Str) : tok st (t ++ [' ']) = tok st t := by
  induction t generalizing st with
  | nil => cases st <;> simp [tok]
  | cons c r ih =>
    cases st <;> by_cases hc : c = ' ' <;> by_cases hd : isDelim c = true <;>
      simp [tok, hc, hd, ih]

theorem tok_append_spaces (st : St) (t : Str) (k : Nat) :
    tok st (t ++ List.replicate k ' ') = tok st t := by
  induction k with
  | zero => simp
  | succ k ih =>
    rw [List.replicate_succ', ← List.append_assoc, tok_append_space, ih]

theorem noTrailSp_snoc (p : Str) (c : Char) : noTrailSp (p ++ [c]) = !(c = ' ') := by
  induction p with
  | nil => simp [noTrailSp]
  | cons d t ih =>
    have : (t ++ [c]).isEmpty = false := by cases t <;> simp
    simp [noTrailSp, this, ih]

theorem noTrailSp_reverse (y : Str) (h : ∀ r, y ≠ ' ' :: r) : noTrailSp y.reverse = true := by
  cases y with
  | nil => simp [noTrailSp]
  | cons c r =>
    have hc : c ≠ ' ' := fun e => h r (by rw [e])
    rw [List.reverse_cons, noTrailSp_snoc]
    simp [hc]

theorem noTrailSp_spStrip (l : Str) : noTrailSp (spStrip l) = true :=
  noTrailSp_reverse _ (dropSp_no_space_head _)

theorem noSpTab_prefix (a b : Str) (h : noSpTab (a ++ b) = true) : noSpTab a = true := by
  induction a with
  | nil => simp [noSpTab]
  | cons c t ih =>
    cases t with
    | nil => simp [noSpTab]
    | cons d u =>
      simp only [List.cons_append, noSpTab, Bool.and_eq_true] at h ⊢
      exact ⟨h.1, by simpa [noSpTab] using ih (by simpa [noSpTab] using h.2)⟩

theorem noSpTab_spStrip {l : Str} (h : noSpTab l = true) : noSpTab (spStrip l) = true := by
  obtain ⟨k, hk⟩ := dropSp_eq_spStrip_append l
  have := noSpTab_dropSp h
  rw [hk] at this
  exact noSpTab_prefix _ _ this

theorem spStrip_no_space_head (l : Str) : ∀ r, spStrip l ≠ ' ' :: r := by
  intro r h
  obtain ⟨k, hk⟩ := dropSp_eq_spStrip_append l
  rw [h] at hk
  exact dropSp_no_space_head l _ hk

theorem tok_lead_spStrip (l : Str) : tok .lead l = tok .lead (spStrip l) := by
  obtain ⟨k, hk⟩ := dropSp_eq_spStrip_append l
  rw [tok_lead_dropSp l, hk, tok_append_spaces]

/-! ### python's `strip()` vs stripping spaces -/

theorem dropWs_dropSp (s : Str) : dropWs s = dropWs (dropSp s) := by
  induction s with
  | nil => simp [dropSp]
  | cons c r ih =>
    by_cases hc : c = ' '
    · subst hc; rw [dropSp_space, dropWs]; simpa [isPyWs] using ih
    · rw [dropSp_idem_of_head hc]

theorem dropWs_eq_dropSp (z : Str)
    (h : (match dropSp z with | c :: _ => !isPyWs c | [] => true) = true) : dropWs z = dropSp z := by
  rw [dropWs_dropSp]
  cases hd : dropSp z with
  | nil => simp [dropWs]
  | cons c r =>
    rw [hd] at h
    have : isPyWs c = false := by simpa using h
    simp [dropWs, this]

theorem pyStrip_eq_spStrip {l : Str} (h : edgeOk l = true) : pyStrip l = spStrip l := by
  simp only [edgeOk, Bool.and_eq_true] at h
  obtain ⟨h1, h2⟩ := h
  have hlead : dropWs l = dropSp l := by
    apply dropWs_eq_dropSp
    obtain ⟨k, hk⟩ := dropSp_eq_spStrip_append l
    cases hs : spStrip l with
    | nil =>
      rw [hs] at hk
      cases k with
      | zero => simp at hk; rw [hk]
      | succ k =>
        exfalso
        rw [List.replicate_succ] at hk
        exact dropSp_no_space_head l _ (by simpa using hk)
    | cons c r =>
      rw [hs] at hk h1
      rw [hk]
      simpa using h1
  have htrail : dropWs (dropSp l).reverse = dropSp (dropSp l).reverse := by
    apply dropWs_eq_dropSp
    have : (spStrip l).reverse = dropSp (dropSp l).reverse := by simp [spStrip]
    rw [this] at h2
    exact h2
  simp only [pyStrip, spStrip, hlead, htrail]


/-! ### IGNORE / ACCEPT -/

/-- the row passes filter `f` (its condition can be evaluated and says "keep") -/
def keeps (names : List Str) (null missing : Str) (ig : Bool) (f : Filt) (r : List (Option Str)) : Bool :=
  match condHolds names null missing f r with
  | .ok b => b != ig
  | .error _ => false

theorem applyFilter_ok (names : List Str) (null missing : Str) (ig : Bool) (f : Filt) :
    ∀ rows out, applyFilter names null missing ig f rows = .ok out →
      out = rows.filter (keeps names null missing ig f) := by
  intro rows
  induction rows with
  | nil => intro out h; simp [applyFilter] at h; simp [h]
  | cons r rs ih =>
    intro out h
    simp only [applyFilter] at h
    cases hc : condHolds names null missing f r with
    | error e => simp [hc] at h
    | ok b =>
      cases hr : applyFilter names null missing ig f rs with
      | error e => simp [hc, hr] at h
      | ok rest =>
        simp only [hc, hr] at h
        have hrest := ih rest hr
        have hk : keeps names null missing ig f r = (b != ig) := by simp [keeps, hc]
        injection h with h
        rw [List.filter_cons, hk, ← hrest, ← h]

theorem applyFilter_error (names : List Str) (null missing : Str) (ig : Bool) (f : Filt) :
    ∀ rows e, applyFilter names null missing ig f rows = .error e →
      ∃ r, r ∈ rows ∧ condHolds names null missing f r = .error e := by
  intro rows
  induction rows with
  | nil => intro e h; simp [applyFilter] at h
  | cons r rs ih =>
    intro e h
    simp only [applyFilter] at h
    cases hc : condHolds names null missing f r with
    | error e' =>
      simp only [hc] at h
      injection h with h
      exact ⟨r, by simp, by rw [hc, h]⟩
    | ok b =>
      cases hr : applyFilter names null missing ig f rs with
      | error e' =>
        simp only [hc, hr] at h
        injection h with h
        obtain ⟨r', hm, hc'⟩ := ih e' hr
        exact ⟨r', by simp [hm], by rw [hc', h]⟩
      | ok rest => simp [hc, hr] at h

theorem padTo_length (w : Nat) (r : List (Option Str)) : (padTo w r).length = w := by
  simp [padTo]; omega

theorem shapeRow_length (n w : Nat) (null : Str) (r : List (Option Str)) (h : r.length = w) :
    (shapeRow n w null r).length = n := by
  simp [shapeRow, h]; omega


/-! ### digits -/

theorem isDig_props (c : Char) (h : isDig c = true) :
    notSD c = true ∧ isSign c = false ∧ c ≠ '.' ∧ c ≠ 'e' ∧ c ≠ 'E' := by
  simp only [isDig, Bool.and_eq_true, decide_eq_true_eq] at h
  obtain ⟨h1, h2⟩ := h
  have hv1 : 48 ≤ c.toNat := h1
  have hv2 : c.toNat ≤ 57 := h2
  refine ⟨?_, ?_, ?_, ?_, ?_⟩
  · simp only [notSD, Bool.not_eq_true', Bool.or_eq_false_iff, decide_eq_false_iff_not]
    refine ⟨⟨⟨?_, ?_⟩, ?_⟩, ?_⟩ <;> (intro e; subst e; revert hv1 hv2; decide)
  · simp only [isSign, Bool.or_eq_false_iff, decide_eq_false_iff_not]
    refine ⟨?_, ?_⟩ <;> (intro e; subst e; revert hv1 hv2; decide)
  all_goals (intro e; subst e; revert hv1 hv2; decide)

theorem takeWhile_all {p : Char → Bool} (m : Str) (d : Char) (r : Str)
    (hm : ∀ c ∈ m, p c = true) (hd : p d = false) :
    (m ++ d :: r).takeWhile p = m ∧ (m ++ d :: r).dropWhile p = d :: r := by
  induction m with
  | nil => simp [List.takeWhile, List.dropWhile, hd]
  | cons c t ih =>
    have hc : p c = true := hm c (by simp)
    have := ih (fun x hx => hm x (by simp [hx]))
    simp [List.takeWhile, List.dropWhile, hc, this]

theorem takeWhile_all_end {p : Char → Bool} (m : Str) (hm : ∀ c ∈ m, p c = true) :
    m.takeWhile p = m ∧ m.dropWhile p = [] := by
  induction m with
  | nil => simp
  | cons c t ih =>
    have hc : p c = true := hm c (by simp)
    have := ih (fun x hx => hm x (by simp [hx]))
    simp [List.takeWhile, List.dropWhile, hc, this]



end Pharmpy.C13
