import PharmpyModel.C10.DepGraph
import PharmpyProofs.C10.Lemmas
/-
  C10 — "the reported dependencies of a symbol always include every parameter,
  random variable and data column its value can depend on", for the model-level
  queries depends_on / has_random_effect (modeling/expressions.py), which use
  `_dependency_graph` + `reachable_from`.

  Main theorem `depGraph_sound`: for EVERY list of assignments (any length, any
  reassignment pattern, self references), interpretation and pair of
  environments: if the environments agree on every assigned symbol and on every
  symbol reachable from `K` in `depGraph ss`, the final value of `K` is the
  same.  Hence (`depends_on_false_no_influence`) a never-assigned symbol
  (parameter, eta, data column) outside a closed set containing `K` — which is
  what `depends_on == False` reports — has no influence on `K`.
-/
namespace Pharmpy.C10
open Pharmpy

/-- Edge `a → b` of the graph. -/
def GEdge (G : Graph) (a b : Sym) : Prop := ∃ v, G.lookup a = some v ∧ b ∈ v

/-- Reachability (reflexive-transitive closure), what `reachable_from` computes. -/
inductive Reach (G : Graph) (a : Sym) : Sym → Prop
  | refl : Reach G a a
  | tail {b c : Sym} : Reach G a b → GEdge G b c → Reach G a c

theorem Reach.head {G : Graph} {a b c : Sym} (h : GEdge G a b) (r : Reach G b c) : Reach G a c := by
  induction r with
  | refl => exact .tail .refl h
  | tail _ e ih => exact .tail ih e

/-! ### lookup lemmas -/

theorem lookup_append_single (G : Graph) (x y : Sym) (v : List Sym) :
    (G ++ [(x, v)]).lookup y = match G.lookup y with
      | some w => some w
      | none => if y = x then some v else none := by
  induction G with
  | nil =>
    by_cases h : y = x
    · subst h; simp [List.lookup]
    · have : (y == x) = false := by simpa using h
      simp [List.lookup, this, h]
  | cons p G ih =>
    obtain ⟨k, w⟩ := p
    by_cases h : y = k
    · subst h; simp [List.lookup]
    · have : (y == k) = false := by simpa using h
      simp only [List.cons_append, List.lookup, this]
      exact ih

theorem lookup_map_val (G : Graph) (f : Sym → List Sym → List Sym) (y : Sym) :
    (G.map (fun p => (p.1, f p.1 p.2))).lookup y = (G.lookup y).map (f y) := by
  induction G with
  | nil => rfl
  | cons p G ih =>
    obtain ⟨k, w⟩ := p
    by_cases h : y = k
    · subst h; simp [List.lookup]
    · have : (y == k) = false := by simpa using h
      simp only [List.map_cons, List.lookup, this]
      exact ih

theorem gset_eq (G : Graph) (x : Sym) (v : List Sym) :
    gset G x v = G.map (fun p => (p.1, (fun k w => if k = x then v else w) p.1 p.2)) := by
  unfold gset
  apply List.map_congr_left
  intro p _
  by_cases h : p.1 = x <;> simp [h]

/-- Successors after a first definition of `x`. -/
theorem lookup_step_new (G : Graph) (x : Sym) (e : Expr) (h : G.lookup x = none) (y : Sym) :
    (graphStep G (.assign x e)).lookup y = if y = x then some e.syms else G.lookup y := by
  simp only [graphStep, h]
  rw [lookup_append_single]
  by_cases hy : y = x
  · subst hy; simp [h]
  · simp only [hy, if_false]
    cases G.lookup y <;> rfl

/-- Successors after a redefinition of `x` with previous definition `prev`. -/
theorem lookup_step_redef (G : Graph) (x : Sym) (e : Expr) (prev : List Sym)
    (h : G.lookup x = some prev) (y : Sym) :
    (graphStep G (.assign x e)).lookup y =
      if y = x then some (expand x prev e.syms) else (G.lookup y).map (expand x prev) := by
  simp only [graphStep, h]
  rw [lookup_map_val (gset G x e.syms) (fun _ w => expand x prev w) y, gset_eq,
    lookup_map_val G (fun k w => if k = x then e.syms else w) y]
  by_cases hy : y = x
  · subst hy; simp [h]
  · simp only [hy, if_false]
    cases G.lookup y <;> simp

theorem mem_expand_of_ne {x : Sym} {prev v : List Sym} {b : Sym} (hb : b ∈ v) (hne : b ≠ x) :
    b ∈ expand x prev v := by
  unfold expand
  split
  · exact List.mem_append_left _ (List.mem_filter.mpr ⟨hb, by simpa using hne⟩)
  · exact hb

theorem mem_expand_prev {x : Sym} {prev v : List Sym} {d : Sym} (hx : x ∈ v) (hd : d ∈ prev) :
    d ∈ expand x prev v := by
  unfold expand
  rw [if_pos hx]
  exact List.mem_append_right _ hd

/-! ### path contraction: inlining the previous definition of `x` keeps every
      symbol other than `x` reachable -/

theorem reach_redef (G : Graph) (x : Sym) (e : Expr) (prev : List Sym) (h : G.lookup x = some prev)
    (a : Sym) (ha : a ≠ x) (b : Sym) (r : Reach G a b) :
    (b ≠ x → Reach (graphStep G (.assign x e)) a b) ∧
    (b = x → ∀ d ∈ prev, d ≠ x → Reach (graphStep G (.assign x e)) a d) := by
  induction r with
  | refl => exact ⟨fun _ => .refl, fun hb => absurd hb ha⟩
  | @tail c b _ hcb ih =>
    obtain ⟨v, hv, hbv⟩ := hcb
    by_cases hc : c = x
    · -- the edge leaves x: b ∈ prev
      subst hc
      rw [h] at hv
      cases hv
      refine ⟨fun hb => ih.2 rfl b hbv hb, fun _ d hd hdx => ih.2 rfl d hd hdx⟩
    · have hrc := ih.1 hc
      have hl : (graphStep G (.assign x e)).lookup c = some (expand x prev v) := by
        rw [lookup_step_redef G x e prev h c]; simp [hc, hv]
      refine ⟨fun hb => .tail hrc ⟨_, hl, mem_expand_of_ne hbv hb⟩, ?_⟩
      intro hb d hd _
      subst hb
      exact .tail hrc ⟨_, hl, mem_expand_prev hbv hd⟩

/-- From the redefined symbol itself: everything its new right-hand side reaches and
    everything its previous definition reached stays reachable. -/
theorem reach_redef_self (G : Graph) (x : Sym) (e : Expr) (prev : List Sym) (h : G.lookup x = some prev)
    (s : Sym) (hs : s ∈ e.syms ∨ (x ∈ e.syms ∧ s ∈ prev)) (hsx : s ≠ x) (b : Sym) (hb : b ≠ x)
    (r : Reach G s b) : Reach (graphStep G (.assign x e)) x b := by
  have hl : (graphStep G (.assign x e)).lookup x = some (expand x prev e.syms) := by
    rw [lookup_step_redef G x e prev h x]; simp
  have hedge : GEdge (graphStep G (.assign x e)) x s := by
    refine ⟨_, hl, ?_⟩
    rcases hs with hs | ⟨hx, hs⟩
    · exact mem_expand_of_ne hs hsx
    · exact mem_expand_prev hx hs
  exact Reach.head hedge ((reach_redef G x e prev h s hsx b r).1 hb)

theorem reach_new (G : Graph) (x : Sym) (e : Expr) (h : G.lookup x = none) (a b : Sym)
    (r : Reach G a b) : Reach (graphStep G (.assign x e)) a b := by
  induction r with
  | refl => exact .refl
  | @tail c b _ hcb ih =>
    obtain ⟨v, hv, hbv⟩ := hcb
    refine .tail ih ⟨v, ?_, hbv⟩
    rw [lookup_step_new G x e h c]
    have : c ≠ x := by intro hc; subst hc; rw [h] at hv; cases hv
    simp [this, hv]

/-! ### keys of the graph = assigned symbols -/

def allAssign (ss : List Stmt) : Prop := ∀ s ∈ ss, ∃ x e, s = Stmt.assign x e

theorem depGraph_snoc (ss : List Stmt) (s : Stmt) : depGraph (ss ++ [s]) = graphStep (depGraph ss) s := by
  simp [depGraph, List.foldl_append]

theorem lookup_step_none (G : Graph) (x : Sym) (e : Expr) (y : Sym) :
    (graphStep G (.assign x e)).lookup y = none ↔ (G.lookup y = none ∧ y ≠ x) := by
  cases h : G.lookup x with
  | none =>
    rw [lookup_step_new G x e h y]
    by_cases hy : y = x
    · subst hy; simp
    · simp [hy]
  | some prev =>
    rw [lookup_step_redef G x e prev h y]
    by_cases hy : y = x
    · subst hy; simp
    · simp [hy]

/-- A symbol without entry in the graph was never assigned: it still has its initial value. -/
theorem run_of_not_key {α : Type} (I : Interp α) (ss : List Stmt) (hA : allAssign ss) (y : Sym)
    (h : (depGraph ss).lookup y = none) (ρ : Env α) : run I ss ρ y = ρ y := by
  induction ss using snoc_induction with
  | nil => rfl
  | append_singleton ss s ih =>
    obtain ⟨x, e, rfl⟩ := hA s (by simp)
    have hA' : allAssign ss := fun t ht => hA t (List.mem_append_left _ ht)
    rw [depGraph_snoc, lookup_step_none] at h
    rw [run_snoc]
    simp only [Stmt.exec, Env.set, h.2, if_false]
    exact ih hA' h.1

/-! ### the property -/

/-- **Soundness of `_dependency_graph` + `reachable_from`.**  For every list of assignments:
    two environments that agree on every assigned symbol and on everything reachable from
    `K` give `K` the same final value. -/
theorem depGraph_sound {α : Type} (I : Interp α) (ss : List Stmt) (hA : allAssign ss) (ρ ρ' : Env α)
    (hT : ∀ s ∈ ss, ∀ d ∈ s.defs, ρ d = ρ' d) :
    ∀ K v, (depGraph ss).lookup K = some v →
      (∀ y, Reach (depGraph ss) K y → ρ y = ρ' y) → run I ss ρ K = run I ss ρ' K := by
  induction ss using snoc_induction with
  | nil => intro K v h; simp [depGraph] at h
  | append_singleton ss s ih =>
    obtain ⟨x, e, rfl⟩ := hA s (by simp)
    have hA' : allAssign ss := fun t ht => hA t (List.mem_append_left _ ht)
    have hT' : ∀ s ∈ ss, ∀ d ∈ s.defs, ρ d = ρ' d := fun t ht => hT t (List.mem_append_left _ ht)
    have hx : ρ x = ρ' x := hT (.assign x e) (by simp) x (by simp [Stmt.defs])
    have ih := ih hA' hT'
    -- value of any symbol `s` before the statement, given reachability facts
    have hval : ∀ s, (∀ y, y ≠ x → Reach (depGraph ss) s y → ρ y = ρ' y) →
        run I ss ρ s = run I ss ρ' s := by
      intro s hs
      cases hk : (depGraph ss).lookup s with
      | none => rw [run_of_not_key I ss hA' s hk, run_of_not_key I ss hA' s hk]
                by_cases hsx : s = x
                · rw [hsx]; exact hx
                · exact hs s hsx .refl
      | some w =>
        apply ih s w hk
        intro y hy
        by_cases hyx : y = x
        · rw [hyx]; exact hx
        · exact hs y hyx hy
    intro K v hK hR
    rw [depGraph_snoc] at hK hR
    rw [run_snoc, run_snoc]
    by_cases hKx : K = x
    · -- the assigned symbol: its new value reads the old values of e.syms
      subst hKx
      simp only [Stmt.exec, Env.set, if_true]
      apply Expr.eval_congr
      intro s hs
      apply hval
      intro y hyx hy
      apply hR
      cases hp : (depGraph ss).lookup K with
      | none =>
        have hl : (graphStep (depGraph ss) (.assign K e)).lookup K = some e.syms := by
          rw [lookup_step_new _ K e hp K]; simp
        exact Reach.head ⟨_, hl, hs⟩ (reach_new _ K e hp s y hy)
      | some prev =>
        by_cases hsK : s = K
        · -- self reference: the old value of K, reached through prev
          subst hsK
          -- decompose the path s = K → d → … → y with d ∈ prev
          have : ∀ z, Reach (depGraph ss) s z → z ≠ s →
              Reach (graphStep (depGraph ss) (.assign s e)) s z := by
            intro z rz
            induction rz with
            | refl => intro h; exact absurd rfl h
            | @tail c b rc hcb ihz =>
              intro hb
              obtain ⟨w, hw, hbw⟩ := hcb
              by_cases hc : c = s
              · subst hc
                rw [hp] at hw; cases hw
                exact reach_redef_self _ c e prev hp b (Or.inr ⟨hs, hbw⟩) hb b hb .refl
              · have hrc := ihz hc
                have hl : (graphStep (depGraph ss) (.assign s e)).lookup c = some (expand s prev w) := by
                  rw [lookup_step_redef _ s e prev hp c]; simp [hc, hw]
                exact .tail hrc ⟨_, hl, mem_expand_of_ne hbw hb⟩
          exact this y hy hyx
        · exact reach_redef_self _ K e prev hp s (Or.inl hs) hsK y hyx hy
    · -- another symbol keeps its value; its reachable set only lost x
      simp only [Stmt.exec, Env.set, hKx, if_false]
      apply hval
      intro y hyx hy
      apply hR
      cases hp : (depGraph ss).lookup x with
      | none => exact reach_new _ x e hp K y hy
      | some prev => exact (reach_redef _ x e prev hp K hKx y hy).1 hyx

/-- A closed set containing `K` contains everything reachable from `K`
    (`closedUnder` is what the driver checks on every `reachFrom` answer). -/
theorem reach_subset_closed (G : Graph) (S : List Sym) (hc : closedUnder G S = true) (a : Sym)
    (ha : a ∈ S) (b : Sym) (r : Reach G a b) : b ∈ S := by
  induction r with
  | refl => exact ha
  | @tail c b _ hcb ih =>
    obtain ⟨v, hv, hbv⟩ := hcb
    unfold closedUnder at hc
    rw [List.all_eq_true] at hc
    have h1 := hc c ih
    rw [List.all_eq_true] at h1
    have : b ∈ succOf G c := by simp [succOf, hv, hbv]
    simpa using h1 b this

/-- **depends_on == False means no influence.**  `S` = the reported closed set of `K`.
    If two environments differ at most on symbols that are never assigned and lie outside
    `S` (e.g. only at one parameter / eta / data column `z ∉ S`), `K` gets the same value. -/
theorem depends_on_false_no_influence {α : Type} (I : Interp α) (ss : List Stmt) (hA : allAssign ss)
    (K : Sym) (v : List Sym) (hK : (depGraph ss).lookup K = some v)
    (S : List Sym) (hc : closedUnder (depGraph ss) S = true) (hKS : K ∈ S)
    (ρ ρ' : Env α)
    (hdiff : ∀ y, ρ y ≠ ρ' y → y ∉ S ∧ ∀ s ∈ ss, y ∉ s.defs) :
    run I ss ρ K = run I ss ρ' K := by
  apply depGraph_sound I ss hA ρ ρ' _ K v hK
  · intro y hy
    apply Classical.byContradiction
    intro hne
    exact (hdiff y hne).1 (reach_subset_closed _ S hc K hKS y hy)
  · intro s hs d hd
    apply Classical.byContradiction
    intro hne
    exact (hdiff d hne).2 s hs hd

-- non-vacuity: the chained-redefinition program  A=TH1*exp(ETA1); X=A*WGT; Y=X+TH2; X=TH2; A=0
def chainProg : List Stmt :=
  [.assign "A" (.f2 "mul" (.sym "TH1") (.f1 "exp" (.sym "ETA1"))), .assign "X" (.f2 "mul" (.sym "A") (.sym "WGT")),
   .assign "Y" (.f2 "add" (.sym "X") (.sym "TH2")), .assign "X" (.sym "TH2"), .assign "A" (.lit 0)]

example : (depGraph chainProg).lookup "Y" = some ["TH2", "WGT", "TH1", "ETA1"] := by decide
example : dependsOnAny chainProg "Y" ["ETA1"] = some true := by decide
example : closedUnder (depGraph chainProg) (reachFrom (depGraph chainProg) "Y") = true := by decide

/-- The variant that visits only the recorded users of the redefined symbol (reverse index filled
    from literal right-hand sides) loses ETA1 for Y on that program: Y keeps a stale reference to A. -/
theorem users_index_variant_witness :
    (depGraphIdx chainProg).lookup "Y" = some ["TH2", "A", "WGT"] ∧
    (reachFrom (depGraphIdx chainProg) "Y").contains "ETA1" = false := by decide

end Pharmpy.C10
