import PharmpyModel.C10.Model
/-
  Helper lemmas for C10: substitution lemma, congruence of evaluation,
  `run` over append.
-/
namespace Pharmpy
open Expr

theorem Expr.eval_subst {α : Type} (I : Interp α) (ρ : Env α) (σ : Sym → Option Expr) (e : Expr) :
    eval I ρ (subst σ e) =
      eval I (fun x => match σ x with | some t => eval I ρ t | none => ρ x) e := by
  induction e with
  | lit n => simp [subst, eval]
  | sym s =>
    simp only [subst, eval]
    cases h : σ s <;> simp [eval]
  | f1 f a ih => simp [subst, eval, ih]
  | f2 f a b iha ihb => simp [subst, eval, iha, ihb]
  | f3 f a b c iha ihb ihc => simp [subst, eval, iha, ihb, ihc]

theorem Expr.eval_subst1 {α : Type} (I : Interp α) (ρ : Env α) (x : Sym) (t e : Expr) :
    eval I ρ (subst1 x t e) = eval I (ρ.set x (eval I ρ t)) e := by
  unfold subst1
  rw [Expr.eval_subst]
  congr 1
  funext y
  unfold Env.set
  by_cases h : y = x <;> simp [h]

theorem Expr.eval_congr {α : Type} (I : Interp α) (ρ ρ' : Env α) (e : Expr)
    (h : ∀ y ∈ e.syms, ρ y = ρ' y) : eval I ρ e = eval I ρ' e := by
  induction e with
  | lit n => simp [eval]
  | sym s => simp [eval]; exact h s (by simp [syms])
  | f1 f a ih =>
    simp only [eval]; rw [ih (fun y hy => h y (by simpa [syms] using hy))]
  | f2 f a b iha ihb =>
    simp only [eval]
    rw [iha (fun y hy => h y (by simp [syms, hy])), ihb (fun y hy => h y (by simp [syms, hy]))]
  | f3 f a b c iha ihb ihc =>
    simp only [eval]
    rw [iha (fun y hy => h y (by simp [syms, hy])), ihb (fun y hy => h y (by simp [syms, hy])),
        ihc (fun y hy => h y (by simp [syms, hy]))]

theorem run_nil {α : Type} (I : Interp α) (ρ : Env α) : run I [] ρ = ρ := rfl

theorem run_cons {α : Type} (I : Interp α) (s : Stmt) (ss : List Stmt) (ρ : Env α) :
    run I (s :: ss) ρ = run I ss (s.exec I ρ) := rfl

theorem run_append {α : Type} (I : Interp α) (ss ts : List Stmt) (ρ : Env α) :
    run I (ss ++ ts) ρ = run I ts (run I ss ρ) := by
  simp [run, List.foldl_append]

theorem run_snoc {α : Type} (I : Interp α) (ss : List Stmt) (s : Stmt) (ρ : Env α) :
    run I (ss ++ [s]) ρ = s.exec I (run I ss ρ) := by
  simp [run, List.foldl]

/-- Induction on lists from the right (core-only replacement for Mathlib's
    `List.reverseRecOn`). -/
theorem snoc_induction {β : Type} {P : List β → Prop} (nil : P [])
    (append_singleton : ∀ (l : List β) (a : β), P l → P (l ++ [a])) : ∀ l, P l := by
  have h : ∀ l : List β, P l.reverse := by
    intro l
    induction l with
    | nil => simpa using nil
    | cons a l ih => simpa using append_singleton _ a ih
  intro l
  simpa using h l.reverse

end Pharmpy
