import PharmpyProofs.C10.Lemmas
/-
  Graph-level facts about the dependency graph used by
  `remove_symbol_definitions`: edges go to smaller indices, the one-pass
  `closure` contains its seed and is closed under successors.
-/
namespace Pharmpy.C10
open Pharmpy

theorem edge_lt {ss : List Stmt} {i j : Nat} (h : edge ss i j = true) : j < i := by
  unfold edge at h
  split at h
  · simp at h; exact h.1
  · cases h

theorem edge_lt_len {ss : List Stmt} {i j : Nat} (h : edge ss i j = true) : i < ss.length := by
  unfold edge at h
  split at h
  · rename_i si sj hi hj
    by_cases hlt : i < ss.length
    · exact hlt
    · have : ss[i]? = none := by simp; omega
      rw [this] at hi; cases hi
  · cases h

theorem mem_succs {ss : List Stmt} {i j : Nat} : j ∈ succs ss i ↔ edge ss i j = true := by
  unfold succs
  simp only [List.mem_filter, List.mem_range]
  constructor
  · exact fun h => h.2
  · exact fun h => ⟨edge_lt h, h⟩

/-- One step of the descending pass. -/
def cstep (ss : List Stmt) (mark : List Nat) (u : Nat) : List Nat :=
  if mark.contains u then mark ++ succs ss u else mark

theorem closure_eq (ss : List Stmt) (seed : List Nat) :
    closure ss seed = (List.range ss.length).reverse.foldl (cstep ss) seed := rfl

theorem cstep_mono (ss : List Stmt) (mark : List Nat) (u x : Nat) (h : x ∈ mark) : x ∈ cstep ss mark u := by
  unfold cstep; split <;> simp [h]

theorem foldl_cstep_mono (ss : List Stmt) (us : List Nat) (mark : List Nat) (x : Nat) (h : x ∈ mark) :
    x ∈ us.foldl (cstep ss) mark := by
  induction us generalizing mark with
  | nil => exact h
  | cons u us ih => exact ih _ (cstep_mono ss mark u x h)

/-- New marks created while processing nodes `us` are successors of nodes in `us`. -/
theorem foldl_cstep_new (ss : List Stmt) (us : List Nat) (mark : List Nat) (x : Nat)
    (h : x ∈ us.foldl (cstep ss) mark) : x ∈ mark ∨ ∃ u ∈ us, edge ss u x = true := by
  induction us generalizing mark with
  | nil => exact Or.inl h
  | cons u us ih =>
    rcases ih (cstep ss mark u) h with h1 | ⟨w, hw, he⟩
    · unfold cstep at h1
      split at h1
      · rcases List.mem_append.mp h1 with h2 | h2
        · exact Or.inl h2
        · exact Or.inr ⟨u, by simp, mem_succs.mp h2⟩
      · exact Or.inl h1
    · exact Or.inr ⟨w, List.mem_cons_of_mem _ hw, he⟩

/-- Descending list `[n-1, …, 0]` processed from the left: every processed node that ends
    up marked has all its successors marked. -/
theorem foldl_cstep_closed (ss : List Stmt) :
    ∀ (us : List Nat) (mark : List Nat),
      us.Pairwise (· > ·) →
      ∀ u ∈ us, u ∈ us.foldl (cstep ss) mark → ∀ v, edge ss u v = true → v ∈ us.foldl (cstep ss) mark := by
  intro us
  induction us with
  | nil => intro mark _ u hu; cases hu
  | cons a us ih =>
    intro mark hp u hu hum v hev
    have hpa : ∀ b ∈ us, a > b := (List.pairwise_cons.mp hp).1
    have hpu : us.Pairwise (· > ·) := (List.pairwise_cons.mp hp).2
    simp only [List.foldl_cons] at hum ⊢
    rcases List.mem_cons.mp hu with rfl | hu'
    · -- u = a is processed first: it is marked at the end iff it is marked now
      have hin : u ∈ cstep ss mark u ∨ ∃ w ∈ us, edge ss w u = true :=
        foldl_cstep_new ss us _ u hum
      have hmark : u ∈ mark := by
        rcases hin with h1 | ⟨w, hw, he⟩
        · unfold cstep at h1
          split at h1
          · rcases List.mem_append.mp h1 with h2 | h2
            · exact h2
            · have := edge_lt (mem_succs.mp h2); omega
          · exact h1
        · have := edge_lt he; have := hpa w hw; omega
      have : v ∈ cstep ss mark u := by
        unfold cstep
        have hc : mark.contains u = true := by simpa using hmark
        rw [if_pos hc]
        exact List.mem_append_right _ (mem_succs.mpr hev)
      exact foldl_cstep_mono ss us _ v this
    · exact ih (cstep ss mark a) hpu u hu' hum v hev

theorem range_reverse_pairwise (n : Nat) : (List.range n).reverse.Pairwise (· > ·) := by
  rw [List.pairwise_reverse]
  exact List.pairwise_lt_range

/-- `closure` contains its seed … -/
theorem seed_subset_closure (ss : List Stmt) (seed : List Nat) (x : Nat) (h : x ∈ seed) :
    x ∈ closure ss seed := by
  rw [closure_eq]; exact foldl_cstep_mono ss _ seed x h

/-- … and is closed under successors. -/
theorem closure_closed (ss : List Stmt) (seed : List Nat) (u v : Nat)
    (hu : u ∈ closure ss seed) (he : edge ss u v = true) : v ∈ closure ss seed := by
  rw [closure_eq] at hu ⊢
  have hlt := edge_lt_len he
  exact foldl_cstep_closed ss _ seed (range_reverse_pairwise _) u
    (by simp; exact hlt) hu v he

end Pharmpy.C10
