import PharmpyProofs.C10.Closure
/-
  `remove_symbol_definitions` (as repaired) never leaves a kept statement that reads a symbol
  defined by a removed statement: the computed mask always passes the certificate `maskSafe`.
-/
namespace Pharmpy.C10
open Pharmpy

theorem mem_edges {ss : List Stmt} {u d : Nat} : (u, d) ∈ edges ss ↔ edge ss u d = true := by
  unfold edges
  simp only [List.mem_flatMap, List.mem_range, List.mem_map]
  constructor
  · rintro ⟨i, _, j, hj, heq⟩
    obtain ⟨rfl, rfl⟩ := Prod.mk.inj heq
    exact mem_succs.mp hj
  · intro h
    exact ⟨u, edge_lt_len h, d, mem_succs.mpr h, rfl⟩

/-- Graph-level safety: every user of a removed statement is removed too. -/
theorem removeSet_user_closed (ss : List Stmt) (symbols : List Sym) (i k j : Nat)
    (he : edge ss k j = true) (hj : j ∈ removeSet ss symbols i) : k ∈ removeSet ss symbols i := by
  unfold removeSet at hj ⊢
  simp only [] at hj ⊢
  generalize hc0 : (List.range i).filter (fun i => match ss[i]? with
      | some (Stmt.assign x _) => symbols.contains x
      | _ => false) = cand0 at hj ⊢
  generalize hkeep : closure ss (succs ss i) = keep at hj ⊢
  generalize hC : (closure ss cand0).filter (fun i => !keep.contains i) = C at hj ⊢
  generalize hA0 : (edges ss).filterMap (fun x => match x with
      | (up, down) => if (up != i && !C.contains up && C.contains down) = true then some down else none) = A0 at hj ⊢
  obtain ⟨hjC, hjA⟩ := List.mem_filter.mp hj
  have hjA' : j ∉ closure ss A0 := by simpa using hjA
  have hjC' := hjC
  rw [← hC] at hjC'
  obtain ⟨hjcl, hjk⟩ := List.mem_filter.mp hjC'
  have hjk' : j ∉ keep := by simpa using hjk
  -- k is not the edited statement
  have hki : k ≠ i := by
    intro h; subst h
    apply hjk'
    rw [← hkeep]
    exact seed_subset_closure ss _ j (mem_succs.mpr he)
  -- k is a candidate (otherwise it would pin j)
  have hkC : k ∈ C := by
    by_cases hkC : k ∈ C
    · exact hkC
    · exfalso
      apply hjA'
      apply seed_subset_closure
      rw [← hA0]
      simp only [List.mem_filterMap]
      refine ⟨(k, j), mem_edges.mpr he, ?_⟩
      have h1 : (k != i) = true := by simpa using hki
      have h2 : C.contains k = false := by simpa using hkC
      have h3 : C.contains j = true := by simpa using hjC
      simp [h1, h3]
      exact ⟨hkC, hjC⟩
  -- k is not pinned (otherwise j, its successor, would be)
  have hkA : k ∉ closure ss A0 := by
    intro hk; exact hjA' (closure_closed ss A0 k j hk he)
  exact List.mem_filter.mpr ⟨hkC, by simpa using hkA⟩

/-- A list-level sufficient condition for the certificate. -/
theorem closedFrom_of_splits (ms : List (Stmt × Bool)) :
    ∀ (T : List Sym),
      (∀ pre s post, ms = pre ++ (s, true) :: post →
        ∀ y ∈ s.rhs, y ∉ T ∧ ∀ t, (t, false) ∈ pre → y ∉ t.defs) →
      closedFrom T ms = true := by
  induction ms with
  | nil => intro T _; rfl
  | cons m ms ih =>
    intro T h
    obtain ⟨s, b⟩ := m
    cases b with
    | true =>
      simp only [closedFrom, Bool.and_eq_true, List.all_eq_true]
      constructor
      · intro y hy
        have := (h [] s ms rfl y hy).1
        simpa using this
      · apply ih T
        intro pre s' post heq y hy
        have := h ((s, true) :: pre) s' post (by simp [heq]) y hy
        exact ⟨this.1, fun t ht => this.2 t (List.mem_cons_of_mem _ ht)⟩
    | false =>
      simp only [closedFrom]
      apply ih (s.defs ++ T)
      intro pre s' post heq y hy
      have := h ((s, false) :: pre) s' post (by simp [heq]) y hy
      refine ⟨?_, fun t ht => this.2 t (List.mem_cons_of_mem _ ht)⟩
      intro hmem
      rcases List.mem_append.mp hmem with h1 | h1
      · exact this.2 s (by simp) h1
      · exact this.1 h1

theorem removeMask_getElem? (ss : List Stmt) (symbols : List Sym) (i k : Nat) (b : Bool)
    (h : (removeMask ss symbols i)[k]? = some b) :
    k < ss.length ∧ b = !(removeSet ss symbols i).contains k := by
  unfold removeMask at h
  simp only [List.getElem?_map] at h
  by_cases hk : k < ss.length
  · have : (List.range ss.length)[k]? = some k := by simp [hk]
    rw [this] at h; simp at h
    refine ⟨hk, ?_⟩
    cases b <;> simp_all
  · have : (List.range ss.length)[k]? = none := by simp; omega
    rw [this] at h; simp at h

/-- **`remove_symbol_definitions` is safe for every statement list, symbol set and
    statement**: the mask it computes always satisfies the certificate, hence
    (`mask_safe_sound`) the reduced program computes the same value for every symbol not
    defined by a removed statement. -/
theorem removeMask_safe (ss : List Stmt) (symbols : List Sym) (i : Nat) :
    maskSafe ss (removeMask ss symbols i) = true := by
  unfold maskSafe
  apply closedFrom_of_splits
  intro pre s post heq y hy
  refine ⟨List.not_mem_nil, ?_⟩
  intro t ht hyt
  -- indices of the two statements
  have hk : (ss.zip (removeMask ss symbols i))[pre.length]? = some (s, true) := by
    rw [heq]; simp
  obtain ⟨j, hjlt, hj⟩ := List.mem_iff_getElem.mp ht
  have hj' : (ss.zip (removeMask ss symbols i))[j]? = some (t, false) := by
    rw [heq, List.getElem?_append_left hjlt, List.getElem?_eq_getElem hjlt, hj]
  rw [List.getElem?_zip_eq_some] at hk hj'
  obtain ⟨hks, hkm⟩ := hk
  obtain ⟨hjs, hjm⟩ := hj'
  obtain ⟨_, hkb⟩ := removeMask_getElem? ss symbols i _ _ hkm
  obtain ⟨_, hjb⟩ := removeMask_getElem? ss symbols i _ _ hjm
  have hkR : pre.length ∉ removeSet ss symbols i := by
    intro hh
    have : (removeSet ss symbols i).contains pre.length = true := by simpa using hh
    rw [this] at hkb; cases hkb
  have hjR : j ∈ removeSet ss symbols i := by
    have : (removeSet ss symbols i).contains j = true := by
      cases hc : (removeSet ss symbols i).contains j
      · rw [hc] at hjb; cases hjb
      · rfl
    simpa using this
  have hedge : edge ss pre.length j = true := by
    unfold edge
    rw [hks, hjs]
    simp only [Bool.and_eq_true, decide_eq_true_eq]
    refine ⟨hjlt, ?_⟩
    unfold dependsOn
    simp only [List.any_eq_true]
    exact ⟨y, hyt, by simpa using hy⟩
  exact hkR (removeSet_user_closed ss symbols i _ _ hedge hjR)

end Pharmpy.C10
