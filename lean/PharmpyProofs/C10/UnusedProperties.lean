import PharmpyModel.C10.Unused
import PharmpyModel.C10.Model
/-
  C10, last clause: "removing unused parameters and random variables removes exactly those
  without influence on any statement".  Property theorems only (helper lemmas first).
-/
namespace Pharmpy.C10
open Pharmpy

theorem disjointS_iff {a b : List Sym} : disjointS a b = true ↔ ∀ x ∈ a, x ∉ b := by
  unfold disjointS
  simp [List.all_eq_true]

theorem not_disjointS_iff {a b : List Sym} : disjointS a b = false ↔ ∃ x ∈ a, x ∈ b := by
  constructor
  · intro h
    by_cases hx : ∃ x ∈ a, x ∈ b
    · exact hx
    · exfalso
      have : disjointS a b = true := disjointS_iff.mpr (by
        intro x hxa hxb; exact hx ⟨x, hxa, hxb⟩)
      rw [this] at h; cases h
  · rintro ⟨x, hxa, hxb⟩
    cases hd : disjointS a b
    · rfl
    · exact absurd hxb (disjointS_iff.mp hd x hxa)

/-- **A removed parameter has no influence**: it occurs in no statement and in no remaining
    distribution (and it is not one of the fixed-to-zero parameters that are kept on purpose). -/
theorem removed_param_without_influence (symbols : List Sym) (params : List Param) (dists : List Dist)
    (p : Param) (hp : p ∈ params) (hr : p ∉ newParams symbols params dists) :
    p.name ∉ symbols ∧ (∀ d ∈ newDists symbols dists, p.name ∉ d.fs) ∧ p.zeroFix = false := by
  unfold newParams at hr
  have hk : keepParam symbols ((newDists symbols dists).flatMap Dist.fs) p = false := by
    cases h : keepParam symbols ((newDists symbols dists).flatMap Dist.fs) p
    · rfl
    · exact absurd (List.mem_filter.mpr ⟨hp, h⟩) hr
  unfold keepParam at hk
  simp only [Bool.or_eq_false_iff] at hk
  obtain ⟨⟨h1, h2⟩, h3⟩ := hk
  refine ⟨by simpa using h1, ?_, h3⟩
  intro d hd hmem
  have : p.name ∈ (newDists symbols dists).flatMap Dist.fs := List.mem_flatMap.mpr ⟨d, hd, hmem⟩
  have h2' : p.name ∉ (newDists symbols dists).flatMap Dist.fs := by simpa using h2
  exact h2' this

/-- **A kept parameter has influence**: a statement reads it, or a remaining distribution uses
    it, or it is a parameter fixed to zero. -/
theorem kept_param_has_influence (symbols : List Sym) (params : List Param) (dists : List Dist)
    (p : Param) (hk : p ∈ newParams symbols params dists) :
    p ∈ params ∧ (p.name ∈ symbols ∨ (∃ d ∈ newDists symbols dists, p.name ∈ d.fs) ∨ p.zeroFix = true) := by
  unfold newParams at hk
  obtain ⟨hp, hkp⟩ := List.mem_filter.mp hk
  refine ⟨hp, ?_⟩
  unfold keepParam at hkp
  simp only [Bool.or_eq_true] at hkp
  rcases hkp with (h | h) | h
  · left; simpa using h
  · right; left
    have : p.name ∈ (newDists symbols dists).flatMap Dist.fs := by simpa using h
    obtain ⟨d, hd, hm⟩ := List.mem_flatMap.mp this
    exact ⟨d, hd, hm⟩
  · right; right; exact h

/-- The remaining parameters are the old ones in their old order. -/
theorem new_params_sublist (symbols : List Sym) (params : List Param) (dists : List Dist) :
    (newParams symbols params dists).Sublist params := by
  unfold newParams
  exact List.filter_sublist

/-- **A removed random variable has no influence**: only a univariate distribution is ever
    dropped, and neither its variable nor any symbol of its variance occurs in a statement. -/
theorem removed_rv_without_influence (symbols : List Sym) (dists : List Dist) (d : Dist)
    (hd : d ∈ unjoined symbols dists) (hr : d ∉ newDists symbols dists) :
    ∃ n v, d = .normal n v ∧ n ∉ symbols ∧ ∀ x ∈ v, x ∉ symbols := by
  unfold newDists at hr
  have hk : keepDist symbols d = false := by
    cases h : keepDist symbols d
    · rfl
    · exact absurd (List.mem_filter.mpr ⟨hd, h⟩) hr
  cases d with
  | joint ns m => simp [keepDist] at hk
  | normal n v =>
    refine ⟨n, v, rfl, ?_⟩
    simp only [keepDist, Bool.not_eq_eq_eq_not, Bool.not_false] at hk
    have := disjointS_iff.mp hk
    constructor
    · intro hn; exact this n hn (by simp)
    · intro x hx hxs; exact this x hxs (by simp [hx])

/-- **A kept univariate random variable has influence**: a statement reads the variable or a
    symbol of its variance. -/
theorem kept_normal_has_influence (symbols : List Sym) (dists : List Dist) (n : Sym) (v : List Sym)
    (hk : Dist.normal n v ∈ newDists symbols dists) :
    n ∈ symbols ∨ ∃ x ∈ v, x ∈ symbols := by
  unfold newDists at hk
  obtain ⟨_, hkd⟩ := List.mem_filter.mp hk
  simp only [keepDist, Bool.not_eq_eq_eq_not, Bool.not_true] at hkd
  obtain ⟨x, hxs, hx⟩ := not_disjointS_iff.mp hkd
  rcases List.mem_cons.mp hx with rfl | hxv
  · left; exact hxs
  · right; exact ⟨x, hxv, hxs⟩

/-- A variable of a joint distribution is taken out only if no statement reads it and no
    statement reads a symbol of its row of the covariance matrix. -/
theorem unjoined_name_unread (symbols : List Sym) (ns : List Sym) (m : List (List (List Sym))) (n : Sym)
    (h : n ∈ toUnjoin symbols (.joint ns m)) :
    n ∉ symbols ∧ ∃ row, (n, row) ∈ ns.zip m ∧ ∀ x ∈ row.flatten, x ∉ symbols := by
  unfold toUnjoin at h
  obtain ⟨p, hp, hsome⟩ := List.mem_filterMap.mp h
  by_cases hc : (!symbols.contains p.1 && disjointS symbols p.2.flatten) = true
  · rw [if_pos hc] at hsome
    cases hsome
    simp only [Bool.and_eq_true, Bool.not_eq_eq_eq_not, Bool.not_true] at hc
    obtain ⟨h1, h2⟩ := hc
    refine ⟨by simpa using h1, p.2, hp, ?_⟩
    intro x hx hxs
    exact disjointS_iff.mp h2 x hxs hx
  · rw [if_neg hc] at hsome
    cases hsome

theorem mem_inds_unread {symbols : List Sym} {dists : List Dist} {n : Sym}
    (h : n ∈ dists.flatMap (toUnjoin symbols)) : n ∉ symbols := by
  obtain ⟨d, _, hd⟩ := List.mem_flatMap.mp h
  cases d with
  | normal n' v => simp [toUnjoin] at hd
  | joint ns m => exact (unjoined_name_unread symbols ns m n hd).1

theorem keepDist_normal_of_read {symbols : List Sym} {n : Sym} (v : List Sym) (hs : n ∈ symbols) :
    keepDist symbols (.normal n v) = true := by
  simp only [keepDist, Bool.not_eq_eq_eq_not, Bool.not_true]
  exact not_disjointS_iff.mpr ⟨n, hs, by simp⟩

/-- **A random variable a statement reads is never removed** (whatever distribution it is in,
    and whatever happens to the other variables of its block). -/
theorem read_rv_stays (symbols : List Sym) (dists : List Dist) (d : Dist) (n : Sym)
    (hd : d ∈ dists) (hn : n ∈ d.names) (hs : n ∈ symbols) :
    n ∈ (newDists symbols dists).flatMap Dist.names := by
  have hni : n ∉ dists.flatMap (toUnjoin symbols) := fun h => mem_inds_unread h hs
  unfold newDists unjoined
  generalize dists.flatMap (toUnjoin symbols) = inds at hni
  suffices h : ∃ e ∈ unjoinDist inds d, keepDist symbols e = true ∧ n ∈ e.names by
    obtain ⟨e, he, hk, hne⟩ := h
    exact List.mem_flatMap.mpr
      ⟨e, List.mem_filter.mpr ⟨List.mem_flatMap.mpr ⟨d, hd, he⟩, hk⟩, hne⟩
  cases d with
  | normal n' v =>
    have : n = n' := by simpa [Dist.names] using hn
    subst this
    exact ⟨.normal n v, by simp [unjoinDist], keepDist_normal_of_read v hs, by simp [Dist.names]⟩
  | joint ns m =>
    have hn' : n ∈ ns := by simpa [Dist.names] using hn
    simp only [unjoinDist]
    by_cases hany : (ns.any fun n => inds.contains n) = true
    · rw [if_pos hany]
      obtain ⟨i, hi, hget⟩ := List.mem_iff_getElem.mp hn'
      have hgd : ns.getD i "" = n := by
        rw [List.getD_eq_getElem?_getD, List.getElem?_eq_getElem hi]; simpa using hget
      have hikeep : i ∈ keepIdx inds ns := by
        unfold keepIdx
        refine List.mem_filter.mpr ⟨List.mem_range.mpr hi, ?_⟩
        rw [hgd]; simpa using hni
      generalize keepIdx inds ns = keep at hikeep
      match keep, hikeep with
      | [], h => cases h
      | [j], h =>
        have hij : i = j := by simpa using h
        subst hij
        refine ⟨.normal (ns.getD i "") (entry m i i), ?_, ?_, ?_⟩
        · exact List.mem_append_right _ (by simp [restOf])
        · rw [hgd]; exact keepDist_normal_of_read _ hs
        · show n ∈ [ns.getD i ""]
          rw [hgd]; exact List.mem_singleton.mpr rfl
      | j :: k :: rest, h =>
        refine ⟨.joint ((j :: k :: rest).map (fun i => ns.getD i ""))
          ((j :: k :: rest).map (fun i => (j :: k :: rest).map (fun j => entry m i j))), ?_, rfl, ?_⟩
        · exact List.mem_append_right _ (by simp [restOf])
        · simp only [Dist.names]
          exact List.mem_map.mpr ⟨i, h, hgd⟩
    · rw [if_neg hany]
      exact ⟨.joint ns m, by simp, rfl, by simpa [Dist.names] using hn'⟩

/-- The "hoisted" variant (symbols of the remaining distributions = all symbols minus those of
    the dropped distributions) removes a parameter that a remaining distribution still uses:
    two occasions sharing one variance, only the first one read. -/
theorem subtract_variant_witness :
    let symbols := ["ETA_IOV_1", "THETA"]
    let params := [Param.mk "THETA" false, Param.mk "OMEGA_IOV" false]
    let dists := [Dist.normal "ETA_IOV_1" ["OMEGA_IOV"], Dist.normal "ETA_IOV_2" ["OMEGA_IOV"]]
    newParams symbols params dists = params ∧
    newParamsSubtract symbols params dists = [Param.mk "THETA" false] ∧
    newDists symbols dists = [Dist.normal "ETA_IOV_1" ["OMEGA_IOV"]] := by
  decide

/-- Non-vacuity: a joint block whose second variable is unused is taken apart, the unused
    variable and its variance and covariance parameters go, the rest stays. -/
example :
    newDists ["ETA1", "ETA3"]
      [Dist.joint ["ETA1", "ETA2", "ETA3"]
        [[["O11"], ["O21"], ["O31"]], [["O21"], ["O22"], ["O32"]], [["O31"], ["O32"], ["O33"]]]]
      = [Dist.joint ["ETA1", "ETA3"] [[["O11"], ["O31"]], [["O31"], ["O33"]]]] ∧
    newParams ["ETA1", "ETA3"]
      [⟨"O11", false⟩, ⟨"O21", false⟩, ⟨"O22", false⟩, ⟨"O31", false⟩, ⟨"O32", false⟩, ⟨"O33", false⟩, ⟨"Z", true⟩]
      [Dist.joint ["ETA1", "ETA2", "ETA3"]
        [[["O11"], ["O21"], ["O31"]], [["O21"], ["O22"], ["O32"]], [["O31"], ["O32"], ["O33"]]]]
      = [⟨"O11", false⟩, ⟨"O31", false⟩, ⟨"O33", false⟩, ⟨"Z", true⟩] := by
  decide

/-! ### renaming (substitution keyed by a symbol or an amount function) -/

theorem syms_subst1_sym (x z : Sym) (h : z ≠ x) (e : Expr) : x ∉ (Expr.subst1 x (.sym z) e).syms := by
  unfold Expr.subst1
  induction e with
  | lit n => simp [Expr.subst, Expr.syms]
  | sym s =>
    simp only [Expr.subst]
    by_cases hs : s = x
    · simp [hs, Expr.syms]; exact fun h' => h h'.symm
    · simp [hs, Expr.syms]; exact fun h' => hs h'.symm
  | f1 f a iha => simpa [Expr.subst, Expr.syms] using iha
  | f2 f a b iha ihb =>
    simp only [Expr.subst, Expr.syms, List.mem_append, not_or]
    exact ⟨iha, ihb⟩
  | f3 f a b c iha ihb ihc =>
    simp only [Expr.subst, Expr.syms, List.mem_append, not_or]
    exact ⟨⟨iha, ihb⟩, ihc⟩

theorem renameSym_ne (x z y : Sym) (h : z ≠ x) : renameSym x z y ≠ x := by
  unfold renameSym
  by_cases hy : y = x
  · rw [if_pos hy]; exact h
  · rw [if_neg hy]; exact hy

/-- **Renaming is applied to every statement**: after `subs({x: z})` (z ≠ x) no statement reads
    `x` any more and no statement defines it — neither an assignment nor the ODE system; so a
    statement after the ODE system cannot be left reading an amount that nothing defines. -/
theorem rename_leaves_no_stale_symbol (x z : Sym) (h : z ≠ x) (ss : List Stmt) :
    ∀ s ∈ renameStmts x z ss, x ∉ s.rhs ∧ x ∉ s.defs := by
  intro s hs
  unfold renameStmts at hs
  obtain ⟨s0, _, rfl⟩ := List.mem_map.mp hs
  cases s0 with
  | assign y e =>
    refine ⟨syms_subst1_sym x z h e, ?_⟩
    simp only [renameStmt, Stmt.defs, List.mem_singleton]
    exact fun h' => renameSym_ne x z y h h'.symm
  | ode a r =>
    simp only [renameStmt, Stmt.rhs, Stmt.defs, List.mem_map, not_exists, not_and]
    exact ⟨fun y _ h' => renameSym_ne x z y h h', fun y _ h' => renameSym_ne x z y h h'⟩

/-- The definitions after renaming are the renamed definitions (the ODE system's amounts included). -/
theorem rename_defs (x z : Sym) (s : Stmt) : (renameStmt x z s).defs = s.defs.map (renameSym x z) := by
  cases s <;> simp [renameStmt, Stmt.defs]

/-- Witness: leaving the assignments alone while the ODE system is renamed (what a "no key among
    the free symbols" shortcut does for an amount function) leaves a read of an undefined amount. -/
theorem rename_skipping_assignments_witness :
    let ss := [Stmt.ode ["A_CENTRAL(t)"] ["K"], Stmt.assign "F" (.sym "A_CENTRAL(t)")]
    let skipped := [renameStmt "A_CENTRAL(t)" "AC(t)" (Stmt.ode ["A_CENTRAL(t)"] ["K"]), Stmt.assign "F" (.sym "A_CENTRAL(t)")]
    renameStmts "A_CENTRAL(t)" "AC(t)" ss = [Stmt.ode ["AC(t)"] ["K"], Stmt.assign "F" (.sym "AC(t)")] ∧
    ("A_CENTRAL(t)" ∈ (skipped.getD 1 default).rhs ∧ ∀ s ∈ skipped, "A_CENTRAL(t)" ∉ s.defs) := by
  decide


end Pharmpy.C10
