import PharmpyProofs.C10.Lemmas
import PharmpyProofs.C10.RemoveSafe
/-
  C10 — Statement dataflow analyses are sound.  Property theorems only.

  All theorems quantify over an arbitrary carrier `α` and interpretation `I`
  of literals and named operations (so they hold for real arithmetic with
  `exp`, `/`, piecewise selection …), every statement list, every expression
  and every environment.
-/
namespace Pharmpy.C10
open Pharmpy Expr

/-! ## full_expression -/

/-- Expanding an expression to its full definition evaluates (in the initial
    environment) to the value the expression has after executing the
    statements in order. -/
theorem full_expression_sound {α : Type} (I : Interp α) (ss : List Stmt) :
    ∀ (e r : Expr) (ρ : Env α),
      fullExpression ss e = .ok r → eval I ρ r = eval I (run I ss ρ) e := by
  induction ss using snoc_induction with
  | nil =>
    intro e r ρ h
    simp [fullExpression] at h
    subst h; rfl
  | append_singleton ss s ih =>
    intro e r ρ h
    unfold fullExpression at h
    rw [List.foldr_append] at h
    cases s with
    | ode a rr =>
      -- an ODE statement makes the whole query fail
      exfalso
      simp only [List.foldr, fullStep] at h
      have : ∀ (ts : List Stmt), List.foldr fullStep (Except.error Err.odeNotSupported) ts
          = Except.error Err.odeNotSupported := by
        intro ts; induction ts with
        | nil => rfl
        | cons t ts iht => simp [List.foldr, iht]; cases t <;> rfl
      rw [this] at h; cases h
    | assign x t =>
      simp only [List.foldr, fullStep] at h
      have h' : fullExpression ss (subst1 x t e) = .ok r := h
      rw [ih _ _ ρ h', run_snoc, Expr.eval_subst1]
      rfl

/-- `full_expression` refuses exactly the lists that contain an ODE system. -/
theorem full_expression_error_iff (ss : List Stmt) (e : Expr) :
    (∃ r, fullExpression ss e = .ok r) ↔ ∀ s ∈ ss, s.isOde = false := by
  induction ss using snoc_induction generalizing e with
  | nil => simp [fullExpression]
  | append_singleton ss s ih =>
    unfold fullExpression
    rw [List.foldr_append]
    cases s with
    | ode a rr =>
      simp only [List.foldr, fullStep]
      have : ∀ (ts : List Stmt), List.foldr fullStep (Except.error Err.odeNotSupported) ts
          = Except.error Err.odeNotSupported := by
        intro ts; induction ts with
        | nil => rfl
        | cons t ts iht => simp [List.foldr, iht]; cases t <;> rfl
      rw [this]
      constructor
      · rintro ⟨r, hr⟩; cases hr
      · intro h; have := h (Stmt.ode a rr) (by simp); simp [Stmt.isOde] at this
    | assign x t =>
      simp only [List.foldr, fullStep]
      have := ih (subst1 x t e)
      unfold fullExpression at this
      rw [this]
      constructor
      · intro h s hs
        rcases List.mem_append.mp hs with h1 | h1
        · exact h s h1
        · simp at h1; subst h1; rfl
      · intro h s hs; exact h s (List.mem_append_left _ hs)

example : fullExpression [.assign "A" (.f2 "add" (.sym "B") (.lit 1)),
                          .assign "C" (.f2 "mul" (.sym "A") (.sym "A"))] (.sym "C")
    = .ok (.f2 "mul" (.f2 "add" (.sym "B") (.lit 1)) (.f2 "add" (.sym "B") (.lit 1))) := by
  decide

/-! ## dependencies -/

/-- One backward step is sound: if two environments agree on the live set
    *before* statement `s`, then after executing `s` they agree on the live
    set after it. -/
theorem depsStep_sound {α : Type} (I : Interp α) (s : Stmt) (live : List Sym) (ρ ρ' : Env α)
    (h : ∀ y ∈ depsStep live s, ρ y = ρ' y) :
    ∀ y ∈ live, s.exec I ρ y = s.exec I ρ' y := by
  intro y hy
  unfold depsStep at h
  by_cases hd : (s.defs.any fun d => live.contains d) = true
  · rw [if_pos hd] at h
    have hr : ∀ z ∈ s.rhs, ρ z = ρ' z := fun z hz => h z (by simp [hz])
    have hk : ∀ z ∈ live, z ∉ s.defs → ρ z = ρ' z := fun z hz hn => h z (by simp [hz, hn])
    cases s with
    | assign x e =>
      simp only [Stmt.exec, Env.set]
      by_cases hyx : y = x
      · simp [hyx]; exact Expr.eval_congr I ρ ρ' e hr
      · simp [hyx]; exact hk y hy (by simp [Stmt.defs, hyx])
    | ode a r =>
      simp only [Stmt.exec]
      by_cases hya : y ∈ a
      · simp [hya]
        have : r.map ρ = r.map ρ' := List.map_congr_left (fun z hz => hr z hz)
        rw [this]
      · simp [hya]; exact hk y hy (by simpa [Stmt.defs] using hya)
  · rw [if_neg hd] at h
    have hnd : ∀ d ∈ s.defs, d ∉ live := by
      intro d hd' hl
      apply hd
      simp only [List.any_eq_true]
      exact ⟨d, hd', by simpa using hl⟩
    cases s with
    | assign x e =>
      simp only [Stmt.exec, Env.set]
      have : y ≠ x := fun hyx => hnd x (by simp [Stmt.defs]) (hyx ▸ hy)
      simp [this]; exact h y hy
    | ode a r =>
      simp only [Stmt.exec]
      have : y ∉ a := fun hya => hnd y (by simpa [Stmt.defs] using hya) hy
      simp [this]; exact h y hy

/-- Backward liveness over a whole prefix is sound. -/
theorem depsFrom_sound {α : Type} (I : Interp α) (pre : List Stmt) :
    ∀ (live : List Sym) (ρ ρ' : Env α),
      (∀ y ∈ depsFrom pre live, ρ y = ρ' y) →
      ∀ y ∈ live, run I pre ρ y = run I pre ρ' y := by
  induction pre using snoc_induction with
  | nil => intro live ρ ρ' h y hy; exact h y (by simpa [depsFrom] using hy)
  | append_singleton pre s ih =>
    intro live ρ ρ' h y hy
    rw [run_snoc, run_snoc]
    have h' : ∀ z ∈ depsFrom pre (depsStep live s), ρ z = ρ' z := by
      intro z hz; apply h
      simpa [depsFrom, List.foldr_append] using hz
    exact depsStep_sound I s live _ _ (ih _ ρ ρ' h') y hy

/-- **Soundness of `dependencies`.**  The value computed by statement `i`
    depends on the initial environment only through the reported symbols:
    two environments that agree on `dependencies` give statement `i`'s
    right-hand side the same inputs — for assignments the same value, for an
    ODE system the same right-hand-side symbol values.  Holds for every
    statement list, with reassignment, shadowing, reads of earlier values and
    ODE systems anywhere. -/
theorem dependencies_sound {α : Type} (I : Interp α) (ss : List Stmt) (i : Nat) (s : Stmt)
    (deps : List Sym) (hs : ss[i]? = some s) (hd : dependenciesAt ss i = .ok deps)
    (ρ ρ' : Env α) (h : ∀ y ∈ deps, ρ y = ρ' y) :
    ∀ y ∈ s.rhs, run I (ss.take i) ρ y = run I (ss.take i) ρ' y := by
  unfold dependenciesAt at hd
  rw [hs] at hd
  simp at hd
  subst hd
  exact depsFrom_sound I (ss.take i) s.rhs ρ ρ' h

/-- Corollary for assignments: same value of the assigned expression. -/
theorem dependencies_sound_assign {α : Type} (I : Interp α) (ss : List Stmt) (i : Nat)
    (x : Sym) (e : Expr) (deps : List Sym)
    (hs : ss[i]? = some (.assign x e)) (hd : dependenciesAt ss i = .ok deps)
    (ρ ρ' : Env α) (h : ∀ y ∈ deps, ρ y = ρ' y) :
    eval I (run I (ss.take i) ρ) e = eval I (run I (ss.take i) ρ') e :=
  Expr.eval_congr I _ _ e
    (dependencies_sound I ss i (.assign x e) deps hs hd ρ ρ' h)

/-- Every reported dependency is read by statement `i` or by an earlier
    statement (nothing is invented). -/
theorem depsFrom_subset (pre : List Stmt) (live : List Sym) :
    ∀ y ∈ depsFrom pre live, y ∈ live ∨ ∃ s ∈ pre, y ∈ s.rhs := by
  induction pre generalizing live with
  | nil => intro y hy; left; simpa [depsFrom] using hy
  | cons s pre ih =>
    intro y hy
    have hy' : y ∈ depsStep (depsFrom pre live) s := by simpa [depsFrom] using hy
    unfold depsStep at hy'
    split at hy'
    · rcases List.mem_append.mp hy' with h1 | h1
      · have := (List.mem_filter.mp h1).1
        rcases ih live y this with h2 | ⟨t, ht, hyt⟩
        · exact Or.inl h2
        · exact Or.inr ⟨t, List.mem_cons_of_mem _ ht, hyt⟩
      · exact Or.inr ⟨s, by simp, h1⟩
    · rcases ih live y hy' with h2 | ⟨t, ht, hyt⟩
      · exact Or.inl h2
      · exact Or.inr ⟨t, List.mem_cons_of_mem _ ht, hyt⟩

/-- A symbol that is defined by the statement directly before and is live is
    never reported (it has been replaced by what it was computed from) unless
    that statement itself reads it. -/
theorem depsStep_removes (live : List Sym) (s : Stmt) (y : Sym)
    (hy : y ∈ s.defs) (hl : y ∈ live) (hr : y ∉ s.rhs) : y ∉ depsStep live s := by
  unfold depsStep
  have : (s.defs.any fun d => live.contains d) = true := by
    simp only [List.any_eq_true]; exact ⟨y, hy, by simpa using hl⟩
  rw [if_pos this]
  simp [hy, hr]

theorem noUseBeforeDef_snoc (pre : List Stmt) (s : Stmt) (h : noUseBeforeDef (pre ++ [s]) = true) :
    noUseBeforeDef pre = true ∧ (∀ t ∈ pre, ∀ y ∈ t.rhs, y ∉ s.defs) ∧ (∀ y ∈ s.rhs, y ∉ s.defs) := by
  induction pre with
  | nil =>
    simp only [List.nil_append, noUseBeforeDef, Bool.and_eq_true, List.all_eq_true] at h
    refine ⟨rfl, by simp, ?_⟩
    intro y hy; have := (h.1 y hy).1; simpa using this
  | cons t pre ih =>
    simp only [List.cons_append, noUseBeforeDef, Bool.and_eq_true, List.all_eq_true] at h
    obtain ⟨ht, hrest⟩ := h
    obtain ⟨i1, i2, i3⟩ := ih hrest
    refine ⟨?_, ?_, i3⟩
    · simp only [noUseBeforeDef, Bool.and_eq_true, List.all_eq_true]
      refine ⟨?_, i1⟩
      intro y hy
      obtain ⟨a, b⟩ := ht y hy
      exact ⟨a, fun u hu => b u (List.mem_append_left _ hu)⟩
    · intro u hu y hy
      rcases List.mem_cons.mp hu with rfl | hu
      · have := (ht y hy).2 s (by simp); simpa using this
      · exact i2 u hu y hy

/-- **Exactness side of `dependencies`.**  When no statement reads a symbol that it or a
    later statement defines (single assignment, definition before use), every reported
    dependency is a *leaf*: it is defined by no statement of the prefix, so no intermediate
    symbol is ever reported.  Together with `dependencies_sound` the report is exactly the set
    of leaves the value is computed from. -/
theorem dependencies_only_leaves (pre : List Stmt) :
    ∀ (live : List Sym), noUseBeforeDef pre = true →
      ∀ y ∈ depsFrom pre live, ∀ s ∈ pre, y ∉ s.defs := by
  induction pre using snoc_induction with
  | nil => intro live _ y _ s hs; cases hs
  | append_singleton pre s ih =>
    intro live hwf y hy u hu
    obtain ⟨w1, w2, w3⟩ := noUseBeforeDef_snoc pre s hwf
    have hy' : y ∈ depsFrom pre (depsStep live s) := by
      simpa [depsFrom, List.foldr_append] using hy
    rcases List.mem_append.mp hu with hu | hu
    · exact ih _ w1 y hy' u hu
    · simp at hu; subst hu
      rcases depsFrom_subset pre _ y hy' with h1 | ⟨t, ht, hyt⟩
      · unfold depsStep at h1
        split at h1
        · rcases List.mem_append.mp h1 with h2 | h2
          · have := (List.mem_filter.mp h2).2; simpa using this
          · exact w3 y h2
        · rename_i hno
          intro hd
          apply hno
          simp only [List.any_eq_true]
          exact ⟨y, hd, by simpa using h1⟩
      · exact w2 t ht y hyt

-- non-vacuity: the F16 program satisfies the side-condition and only the leaf C is reported
example : noUseBeforeDef [.assign "A" (.f1 "exp" (.sym "C")), .assign "D" (.f2 "mul" (.sym "A") (.lit 2)),
    .assign "B" (.f2 "add" (.sym "D") (.lit 1)), .assign "Z" (.f2 "add" (.sym "A") (.sym "B"))] = true := by decide
example : dependenciesAt [.assign "A" (.f1 "exp" (.sym "C")), .assign "D" (.f2 "mul" (.sym "A") (.lit 2)),
    .assign "B" (.f2 "add" (.sym "D") (.lit 1)), .assign "Z" (.f2 "add" (.sym "A") (.sym "B"))] 3 = .ok ["C"] := by decide
/-- … whereas the pre-repair BFS order reported the intermediate symbol `A` as well (F16). -/
theorem dependencies_bfs_inexact_witness :
    dependenciesBfsAt [.assign "A" (.f1 "exp" (.sym "C")), .assign "D" (.f2 "mul" (.sym "A") (.lit 2)),
      .assign "B" (.f2 "add" (.sym "D") (.lit 1)), .assign "Z" (.f2 "add" (.sym "A") (.sym "B"))] 3
      = ["C", "A"] := by decide

-- non-vacuity: shadowing example F2 (Y=S; S=7; W=S; Z=Y+W): Z depends on S
example : dependenciesAt [.assign "Y" (.sym "S"), .assign "S" (.lit 7), .assign "W" (.sym "S"),
    .assign "Z" (.f2 "add" (.sym "Y") (.sym "W"))] 3 = .ok ["S"] := by decide

/-- The algorithm used before the repair (BFS order over the dependency graph)
    is **not** sound: on F2's program it reports no dependency at all although
    `Z`'s value is the initial value of `S` plus 7. -/
theorem dependencies_bfs_unsound_witness :
    let ss : List Stmt := [.assign "Y" (.sym "S"), .assign "S" (.lit 7), .assign "W" (.sym "S"),
      .assign "Z" (.f2 "add" (.sym "Y") (.sym "W"))]
    dependenciesBfsAt ss 3 = [] ∧
    (let I : Interp Int := ⟨id, fun _ xs => xs.foldl (· + ·) 0⟩
     run I ss (fun _ => 0) "Z" ≠ run I ss (fun y => if y = "S" then 1 else 0) "Z") := by
  decide

/-! ## remove_symbol_definitions -/

/-- Symbols defined by removed statements. -/
def taint : List (Stmt × Bool) → List Sym
  | [] => []
  | (_, true) :: ms => taint ms
  | (s, false) :: ms => s.defs ++ taint ms

def origOf (ms : List (Stmt × Bool)) : List Stmt := ms.map (·.1)
def keptOf (ms : List (Stmt × Bool)) : List Stmt := (ms.filter (·.2)).map (·.1)

/-- **Soundness of a removal certificate.**  If no kept statement reads a
    symbol defined by an earlier removed statement (`closedFrom`), then the
    reduced program computes the same value as the original for every symbol
    that no removed statement defines — for every interpretation and every
    initial environment.  (`T` = symbols on which the two runs may already
    differ.) -/
theorem closedFrom_sound {α : Type} (I : Interp α) (ms : List (Stmt × Bool)) :
    ∀ (T : List Sym) (ρ ρ' : Env α),
      closedFrom T ms = true →
      (∀ y, y ∉ T → ρ y = ρ' y) →
      ∀ y, y ∉ T → y ∉ taint ms → run I (origOf ms) ρ y = run I (keptOf ms) ρ' y := by
  induction ms with
  | nil => intro T ρ ρ' _ h y hy _; simpa [origOf, keptOf, run] using h y hy
  | cons m ms ih =>
    intro T ρ ρ' hc h y hy ht
    obtain ⟨s, b⟩ := m
    cases b with
    | true =>
      simp only [closedFrom, Bool.and_eq_true, List.all_eq_true] at hc
      obtain ⟨hrhs, hc'⟩ := hc
      have hr : ∀ z ∈ s.rhs, ρ z = ρ' z := fun z hz => h z (by simpa using hrhs z hz)
      have hstep : ∀ z, z ∉ T → s.exec I ρ z = s.exec I ρ' z := by
        intro z hz
        cases s with
        | assign x e =>
          simp only [Stmt.exec, Env.set]
          by_cases hzx : z = x
          · simp [hzx]; exact Expr.eval_congr I ρ ρ' e hr
          · simp [hzx]; exact h z hz
        | ode a r =>
          simp only [Stmt.exec]
          have : r.map ρ = r.map ρ' := List.map_congr_left (fun w hw => hr w hw)
          by_cases hza : z ∈ a
          · simp [hza, this]
          · simp [hza]; exact h z hz
      have := ih T (s.exec I ρ) (s.exec I ρ') hc' hstep y hy (by simpa [taint] using ht)
      simpa [origOf, keptOf, run_cons] using this
    | false =>
      simp only [closedFrom] at hc
      have ht' : y ∉ s.defs ∧ y ∉ taint ms := by simpa [taint] using ht
      have hstep : ∀ z, z ∉ s.defs ++ T → s.exec I ρ z = ρ' z := by
        intro z hz
        have hz1 : z ∉ s.defs := fun hh => hz (List.mem_append_left _ hh)
        have hz2 : z ∉ T := fun hh => hz (List.mem_append_right _ hh)
        cases s with
        | assign x e =>
          simp only [Stmt.exec, Env.set]
          have : z ≠ x := by simpa [Stmt.defs] using hz1
          simp [this]; exact h z hz2
        | ode a r =>
          simp only [Stmt.exec]
          have : z ∉ a := by simpa [Stmt.defs] using hz1
          simp [this]; exact h z hz2
      have := ih (s.defs ++ T) (s.exec I ρ) ρ' hc hstep y
        (by simp [ht'.1, hy]) ht'.2
      simpa [origOf, keptOf, run_cons] using this

/-- Packaged for `remove_symbol_definitions`: a mask accepted by `maskSafe`
    preserves the final value of every symbol not defined by a removed
    statement. -/
theorem mask_safe_sound {α : Type} (I : Interp α) (ss : List Stmt) (mask : List Bool)
    (hsafe : maskSafe ss mask = true) (hlen : mask.length = ss.length) (ρ : Env α) :
    ∀ y, y ∉ taint (ss.zip mask) → run I ss ρ y = run I (applyMask ss mask) ρ y := by
  intro y hy
  have := closedFrom_sound I (ss.zip mask) [] ρ ρ hsafe (fun _ _ => rfl) y (by simp) hy
  have ho : origOf (ss.zip mask) = ss := by
    unfold origOf
    rw [List.map_fst_zip]; omega
  rw [ho] at this
  exact this

/-- **`remove_symbol_definitions` never removes a statement a remaining statement needs and
    never changes a remaining value** — for every statement list, symbol set, edited statement,
    interpretation and environment: every symbol that is not defined by a removed statement has
    the same final value in the reduced program.  (`removeMask_safe`, proved in
    `RemoveSafe.lean` from the successor-closure of the dependency graph, supplies the
    certificate for every input.) -/
theorem remove_symbol_definitions_sound {α : Type} (I : Interp α) (ss : List Stmt)
    (symbols : List Sym) (i : Nat) (ρ : Env α) :
    ∀ y, y ∉ taint (ss.zip (removeMask ss symbols i)) →
      run I ss ρ y = run I (removeSymbolDefinitions ss symbols i) ρ y := by
  have hlen : (removeMask ss symbols i).length = ss.length := by simp [removeMask]
  exact mask_safe_sound I ss _ (removeMask_safe ss symbols i) hlen ρ

/-- No kept statement reads a symbol defined by an earlier removed statement (the
    certificate holds for every input). -/
theorem remove_symbol_definitions_no_dangling (ss : List Stmt) (symbols : List Sym) (i : Nat) :
    maskSafe ss (removeMask ss symbols i) = true := removeMask_safe ss symbols i

/-- The result of `remove_symbol_definitions` is a sub-list of the input. -/
theorem remove_defs_sublist (ss : List Stmt) (symbols : List Sym) (i : Nat) :
    (removeSymbolDefinitions ss symbols i).Sublist ss := by
  unfold removeSymbolDefinitions applyMask
  generalize removeMask ss symbols i = mask
  induction ss generalizing mask with
  | nil => simp
  | cons s ss ih =>
    cases mask with
    | nil => simp
    | cons b mask =>
      simp only [List.zip_cons_cons, List.filter_cons]
      cases b with
      | true => simp; exact (ih mask)
      | false => simp; exact List.Sublist.cons _ (ih mask)

-- non-vacuity: the (repaired) algorithm's mask on the F16 program is safe and keeps A = 1
example : removeMask [.assign "A" (.lit 1), .assign "B" (.sym "A"), .assign "C" (.lit 5),
    .assign "Y" (.sym "C")] ["A"] 3 = [true, true, true, true] := by decide
example : maskSafe [.assign "A" (.lit 1), .assign "B" (.sym "A"), .assign "C" (.lit 5),
    .assign "Y" (.sym "C")] [true, true, true, true] = true := by decide
-- and a case where something really is removed
example : removeMask [.assign "A" (.lit 1), .assign "B" (.lit 2), .assign "Y" (.sym "B")] ["A"] 2
    = [false, true, true] := by decide

/-- The mask that the pre-repair code produced for F16 (`A = 1` removed while
    `B = A` stays) is rejected by the certificate, and really changes `B`. -/
theorem remove_defs_prefix_user_witness :
    let ss : List Stmt := [.assign "A" (.lit 1), .assign "B" (.sym "A"), .assign "C" (.lit 5),
      .assign "Y" (.sym "C")]
    maskSafe ss [false, true, true, true] = false ∧
    (let I : Interp Int := ⟨id, fun _ xs => xs.foldl (· + ·) 0⟩
     run I ss (fun _ => 0) "B" ≠ run I (applyMask ss [false, true, true, true]) (fun _ => 0) "B") := by
  decide

/-! ## subs -/

/-- **Substituting a leaf behaves as a sequential program edit.**  If neither `x` nor any
    symbol of `t` is assigned by the (ODE-free) statement list, then running the substituted
    list equals running the original list in the environment where `x` has the value of `t`. -/
theorem subs_leaf_sound {α : Type} (I : Interp α) (x : Sym) (t : Expr) (ss : List Stmt) :
    (∀ s ∈ ss, s.isOde = false ∧ x ∉ s.defs ∧ ∀ z ∈ t.syms, z ∉ s.defs) →
    ∀ (ρ1 ρ2 : Env α), (∀ y, y ≠ x → ρ1 y = ρ2 y) → ρ2 x = eval I ρ1 t →
      ∀ y, y ≠ x → run I (substStmts x t ss) ρ1 y = run I ss ρ2 y := by
  induction ss with
  | nil => intro _ ρ1 ρ2 h _ y hy; simpa [substStmts, run] using h y hy
  | cons s ss ih =>
    intro hall ρ1 ρ2 hag hx y hy
    obtain ⟨hode, hxs, hts⟩ := hall s (by simp)
    cases s with
    | ode a r => simp [Stmt.isOde] at hode
    | assign v e =>
      have hvx : v ≠ x := by
        intro h; exact hxs (by simp [Stmt.defs, h])
      have hvx' : ¬ (v = x) := hvx
      simp only [substStmts, List.map_cons, substStmt, if_neg hvx', run_cons, Stmt.exec]
      have heq : eval I ρ1 (Expr.subst1 x t e) = eval I ρ2 e := by
        rw [Expr.eval_subst1]
        apply Expr.eval_congr
        intro z _
        unfold Env.set
        by_cases hz : z = x
        · simp [hz, hx]
        · simp [hz]; exact hag z hz
      apply ih (fun u hu => hall u (List.mem_cons_of_mem _ hu))
      · intro z hz
        unfold Env.set
        by_cases hzv : z = v
        · simp [hzv, heq]
        · simp [hzv]; exact hag z hz
      · have : x ≠ v := fun h => hvx h.symm
        unfold Env.set
        simp only [if_neg this]
        rw [hx]
        apply Expr.eval_congr
        intro z hz
        have : z ≠ v := by
          intro h; exact hts z hz (by simp [Stmt.defs, h])
        simp [this]
      · exact hy

/-! ## reassign / find_assignment_index -/

/-- Once the last assignment has been replaced, no other assignment to `x`
    survives … -/
theorem reassignRev_none (x : Sym) (e : Expr) (rs : List Stmt) :
    (reassignRev x e rs false).filter (definesAssign x) = [] := by
  induction rs with
  | nil => simp [reassignRev]
  | cons s rs ih =>
    by_cases h : definesAssign x s = true
    · simp [reassignRev, h, ih]
    · simp [reassignRev, h, ih]

/-- … every other statement is kept, in order. -/
theorem reassignRev_others (x : Sym) (e : Expr) (rs : List Stmt) (last : Bool) :
    (reassignRev x e rs last).filter (fun s => !definesAssign x s)
      = rs.filter (fun s => !definesAssign x s) := by
  induction rs generalizing last with
  | nil => simp [reassignRev]
  | cons s rs ih =>
    by_cases h : definesAssign x s = true
    · cases last
      · simp [reassignRev, h, ih]
      · have hx : definesAssign x (Stmt.assign x e) = true := by simp [definesAssign]
        simp [reassignRev, h, ih, hx]
    · simp [reassignRev, h, ih]

theorem reassign_others (ss : List Stmt) (x : Sym) (e : Expr) :
    (reassign ss x e).filter (fun s => !definesAssign x s)
      = ss.filter (fun s => !definesAssign x s) := by
  unfold reassign
  rw [List.filter_reverse, reassignRev_others, ← List.filter_reverse, List.reverse_reverse]

end Pharmpy.C10
