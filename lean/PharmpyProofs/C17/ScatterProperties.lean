import PharmpyModel.C17.Scatter
/-
  C17 — clause "every task … receives its static inputs", distributed dispatcher:
  optimize_task_graph_for_dask_distributed replaces every scatterable leaf by a Future of its own; the
  Future stands for exactly the declared object.  All statements are for computations of any size and
  nesting depth and graphs with any number of entries (mutual structural induction).
-/
namespace Pharmpy.C17

mutual
theorem resolve_noFut (st : Store) : ∀ c : Comp, c.noFut = true → resolveComp st c = c
  | .keep r, _ => by simp [resolveComp]
  | .fut n, h => by simp [Comp.noFut] at h
  | .obj o, _ => by simp [resolveComp]
  | .tuple xs, h => by
    simp only [resolveComp]; rw [resolveList_noFut st xs (by simpa [Comp.noFut] using h)]
  | .list xs, h => by
    simp only [resolveComp]; rw [resolveList_noFut st xs (by simpa [Comp.noFut] using h)]
theorem resolveList_noFut (st : Store) : ∀ xs : List Comp, noFutList xs = true → resolveList st xs = xs
  | [], _ => by simp [resolveList]
  | x :: xs, h => by
    simp [noFutList] at h
    simp [resolveList, resolve_noFut st x h.1, resolveList_noFut st xs h.2]
end

mutual
/-- The client receives exactly the scatterable leaves of the computation, each ONCE, in traversal order:
    one `client.scatter` per occurrence, nothing shared, nothing dropped. -/
theorem scatter_one_future_per_object : ∀ (c : Comp) (st : Store), (scatterComp c st).2 = st ++ c.objs
  | .keep r, st => by simp [scatterComp, Comp.objs]
  | .fut n, st => by simp [scatterComp, Comp.objs]
  | .obj o, st => by simp [scatterComp, Comp.objs]
  | .tuple [], st => by simp [scatterComp, Comp.objs]
  | .tuple (h :: xs), st => by simp [scatterComp, Comp.objs, scatterList_store xs st]
  | .list xs, st => by simp [scatterComp, Comp.objs, scatterList_store xs st]
theorem scatterList_store : ∀ (xs : List Comp) (st : Store), (scatterList xs st).2 = st ++ objsList xs
  | [], st => by simp [scatterList, objsList]
  | x :: xs, st => by
    simp [scatterList, objsList, scatter_one_future_per_object x st, scatterList_store xs (st ++ x.objs)]
end

mutual
/-- **Every task receives its own static inputs.**  For every Future-free computation (any nesting), any
    client state before and whatever is scattered afterwards (`more`): resolving the Futures of the rewritten
    computation gives back exactly the declared computation — each scattered leaf is the declared object itself,
    never another one (equal or not). -/
theorem scatter_preserves_static_inputs : ∀ (c : Comp) (st more : Store), c.noFut = true →
    resolveComp ((scatterComp c st).2 ++ more) (scatterComp c st).1 = c
  | .keep r, st, more, _ => by simp [scatterComp, resolveComp]
  | .fut n, st, more, h => by simp [Comp.noFut] at h
  | .obj o, st, more, _ => by simp [scatterComp, resolveComp]
  | .tuple [], st, more, _ => by simp [scatterComp, resolveComp, resolveList]
  | .tuple (h :: xs), st, more, hn => by
    simp [Comp.noFut, noFutList] at hn
    simp [scatterComp, resolveComp, resolveList, resolve_noFut _ h hn.1, scatterList_resolve xs st more hn.2]
  | .list xs, st, more, hn => by
    simp [Comp.noFut] at hn
    simp [scatterComp, resolveComp, scatterList_resolve xs st more hn]
theorem scatterList_resolve : ∀ (xs : List Comp) (st more : Store), noFutList xs = true →
    resolveList ((scatterList xs st).2 ++ more) (scatterList xs st).1 = xs
  | [], st, more, _ => by simp [scatterList, resolveList]
  | x :: xs, st, more, hn => by
    simp [noFutList] at hn
    have h1 := scatter_preserves_static_inputs x st (objsList xs ++ more) hn.1
    have h2 := scatterList_resolve xs (scatterComp x st).2 more hn.2
    simp only [scatterList, resolveList]
    rw [h2, scatterList_store, List.append_assoc, h1]
end

/-- the rewritten graph has the same keys in the same order -/
theorem scatter_graph_keys : ∀ (g : List (String × Comp)) (st : Store),
    (scatterGraph g st).1.map (·.1) = g.map (·.1)
  | [], st => by simp [scatterGraph]
  | (k, c) :: rest, st => by simp [scatterGraph, scatter_graph_keys rest (scatterComp c st).2]

theorem scatterGraph_store : ∀ (g : List (String × Comp)) (st : Store),
    (scatterGraph g st).2 = st ++ g.flatMap (fun p => p.2.objs)
  | [], st => by simp [scatterGraph]
  | (k, c) :: rest, st => by
    simp only [scatterGraph]
    rw [scatterGraph_store rest (scatterComp c st).2, scatter_one_future_per_object c st]
    simp

/-- **The dispatched graph is the declared graph.**  For every dask dict (any number of tasks, static inputs
    of any shape): after `optimize_task_graph_for_dask_distributed`'s scattering, every entry — resolved against
    the data the client holds at the end (and anything scattered later, `more`) — is the declared entry:
    same key, same function, the declared static inputs, the declared predecessor keys. -/
theorem scatter_graph_preserves_static_inputs : ∀ (g : List (String × Comp)) (st more : Store),
    graphNoFut g = true →
    (scatterGraph g st).1.map (fun p => (p.1, resolveComp ((scatterGraph g st).2 ++ more) p.2)) = g
  | [], st, more, _ => by simp [scatterGraph]
  | (k, c) :: rest, st, more, hn => by
    simp [graphNoFut] at hn
    have h1 := scatter_preserves_static_inputs c st (rest.flatMap (fun p => p.2.objs) ++ more) hn.1
    have h2 := scatter_graph_preserves_static_inputs rest (scatterComp c st).2 more hn.2
    simp only [scatterGraph, List.map_cons]
    rw [h2, scatterGraph_store, List.append_assoc, h1]

/-- The number of `client.scatter` calls is the number of scatterable leaf occurrences. -/
theorem scatter_graph_count (g : List (String × Comp)) :
    (scatterGraph g []).2.length = (g.flatMap (fun p => p.2.objs)).length := by
  simp [scatterGraph_store]

/-- Why the Futures must not be shared through a memo keyed by `==`/`hash` of the value: with such a memo two
    DISTINCT static inputs that compare equal (here: same key before `#`, different label) collapse into the
    first one's Future, and the second task would receive the first task's object. -/
theorem scatter_memo_by_equality_witness :
    let eqv := fun (o : String) => if o = "v0#run1" ∨ o = "v0#run2" then "v0" else o
    let r1 := scatterMemoLeaf eqv "v0#run1" [] []
    let r2 := scatterMemoLeaf eqv "v0#run2" r1.2.1 r1.2.2
    resolveComp r2.2.1 r2.1 = .obj "v0#run1" ∧
    resolveComp (scatterComp (.obj "v0#run2") (scatterComp (.obj "v0#run1") []).2).2
      (scatterComp (.obj "v0#run2") (scatterComp (.obj "v0#run1") []).2).1 = .obj "v0#run2" := by
  simp [scatterMemoLeaf, scatterComp, resolveComp]

/-! non-vacuity: a graph with nested static inputs, two equal-looking objects, kept values -/
example : graphNoFut [("k0", .tuple [.keep "t0", .obj "v0#1", .list [.obj "v0#2", .keep "int:3"]]),
                      ("results", .tuple [.keep "t1", .obj "v0#3", .keep "str:'k0'"])] = true := by decide
example : (scatterGraph [("k0", .tuple [.keep "t0", .obj "v0#1", .list [.obj "v0#2", .keep "int:3"]]),
                         ("results", .tuple [.keep "t1", .obj "v0#3", .keep "str:'k0'"])] []).2
          = ["v0#1", "v0#2", "v0#3"] := by decide

end Pharmpy.C17
