import PharmpyModel.C17.Sched
namespace Pharmpy.C17
end Pharmpy.C17
