import PharmpyModel.C17.Sched
import PharmpyProofs.C17.GraphLemmas
/-
  Helper lemmas for C17 (core Lean only, no Mathlib).
-/
namespace Pharmpy.C17

section Sched
variable {κ V : Type} [DecidableEq κ]

omit [DecidableEq κ] in
theorem lookupAll_eq_some {e : Env κ V} {ks : List κ} {vs : List V} (h : lookupAll e ks = some vs) :
    ∀ k ∈ ks, ∃ v, e k = some v := by
  induction ks generalizing vs with
  | nil => intro k hk; cases hk
  | cons k ks ih =>
    intro x hx
    simp only [lookupAll] at h
    cases hk : e k with
    | none => simp [hk] at h
    | some v =>
      cases hks : lookupAll e ks with
      | none => simp [hk, hks] at h
      | some ws =>
        rcases List.mem_cons.mp hx with rfl | hx
        · exact ⟨v, hk⟩
        · exact ih hks x hx

omit [DecidableEq κ] in
theorem lookupAll_mono {e e' : Env κ V} (hm : ∀ k v, e k = some v → e' k = some v)
    {ks : List κ} {vs : List V} (h : lookupAll e ks = some vs) : lookupAll e' ks = some vs := by
  induction ks generalizing vs with
  | nil => simpa [lookupAll] using h
  | cons k ks ih =>
    simp only [lookupAll] at h ⊢
    cases hk : e k with
    | none => simp [hk] at h
    | some v =>
      cases hks : lookupAll e ks with
      | none => simp [hk, hks] at h
      | some ws =>
        simp [hk, hks] at h
        simp [hm k v hk, ih hks, h]

omit [DecidableEq κ] in
theorem lookupAll_isSome {e : Env κ V} {ks : List κ} (h : ∀ k ∈ ks, ∃ v, e k = some v) :
    ∃ vs, lookupAll e ks = some vs := by
  induction ks with
  | nil => exact ⟨[], rfl⟩
  | cons k ks ih =>
    obtain ⟨v, hv⟩ := h k (by simp)
    obtain ⟨vs, hvs⟩ := ih (fun x hx => h x (by simp [hx]))
    exact ⟨v :: vs, by simp [lookupAll, hv, hvs]⟩

omit [DecidableEq κ] in
theorem den_succ_of_den (tg : TaskGraph κ V) (n : Nat) :
    ∀ k v, den tg n k = some v → den tg (n + 1) k = some v := by
  induction n with
  | zero => intro k v h; simp [den] at h
  | succ n ih =>
    intro k v h
    simp only [den] at h
    cases hl : lookupAll (den tg n) (tg.deps k) with
    | none => simp [hl] at h
    | some vs =>
      simp [hl] at h
      have := lookupAll_mono (e' := den tg (n + 1)) ih hl
      show den tg (n + 1 + 1) k = some v
      simp only [den]
      simp only [den] at this
      simp [this, h]

omit [DecidableEq κ] in
theorem den_mono (tg : TaskGraph κ V) {n m : Nat} (hnm : n ≤ m) (k : κ) (v : V)
    (h : den tg n k = some v) : den tg m k = some v := by
  induction hnm with
  | refl => exact h
  | step _ ih => exact den_succ_of_den tg _ k v ih

theorem fire_eq_some {tg : TaskGraph κ V} {e e' : Env κ V} {k : κ} (h : fire tg e k = some e') :
    e k = none ∧ ∃ vs, lookupAll e (tg.deps k) = some vs ∧ e' = e.set k (tg.fn k vs) := by
  unfold fire at h
  cases hk : e k with
  | some v => simp [hk] at h
  | none =>
    cases hl : lookupAll e (tg.deps k) with
    | none => simp [hk, hl] at h
    | some vs =>
      simp [hk, hl] at h
      exact ⟨rfl, vs, rfl, h.symm⟩

/-- Every value in the state is the reference value (with fuel `n`). -/
def Sound (tg : TaskGraph κ V) (e : Env κ V) (n : Nat) : Prop :=
  ∀ k v, e k = some v → den tg n k = some v

theorem fire_sound {tg : TaskGraph κ V} {e e' : Env κ V} {k : κ} {n : Nat}
    (hs : Sound tg e n) (h : fire tg e k = some e') : Sound tg e' (n + 1) := by
  obtain ⟨_, vs, hl, rfl⟩ := fire_eq_some h
  intro x v hx
  unfold Env.set at hx
  by_cases hxk : x = k
  · subst hxk
    simp at hx
    have := lookupAll_mono (e' := den tg n) hs hl
    simp only [den, this]
    simp [hx]
  · simp [hxk] at hx
    exact den_succ_of_den tg n x v (hs x v hx)

theorem runSeq_sound {tg : TaskGraph κ V} (s : List κ) :
    ∀ (e e' : Env κ V) (n : Nat), Sound tg e n → runSeq tg e s = some e' → Sound tg e' (n + s.length) := by
  induction s with
  | nil => intro e e' n hs h; simp [runSeq] at h; subst h; simpa using hs
  | cons k ks ih =>
    intro e e' n hs h
    simp only [runSeq] at h
    cases hf : fire tg e k with
    | none => simp [hf] at h
    | some e1 =>
      simp [hf] at h
      have := ih e1 e' (n + 1) (fire_sound hs hf) h
      simpa [Nat.add_assoc, Nat.add_comm 1] using this

theorem runSeq_append (tg : TaskGraph κ V) (a b : List κ) (e : Env κ V) :
    runSeq tg e (a ++ b) = (runSeq tg e a).bind (fun e' => runSeq tg e' b) := by
  induction a generalizing e with
  | nil => simp [runSeq]
  | cons k ks ih =>
    simp only [List.cons_append, runSeq]
    cases hf : fire tg e k with
    | none => simp
    | some e1 => simp [ih]

/-- Bookkeeping of a firing sequence: no key twice, only unfired keys, and the
    final state has values exactly for the old keys and the fired ones. -/
theorem runSeq_fired {tg : TaskGraph κ V} (s : List κ) :
    ∀ (e e' : Env κ V), runSeq tg e s = some e' →
      s.Nodup ∧ (∀ k ∈ s, e k = none) ∧ ∀ k, (e' k).isSome ↔ ((e k).isSome ∨ k ∈ s) := by
  induction s with
  | nil => intro e e' h; simp [runSeq] at h; subst h; simp
  | cons k ks ih =>
    intro e e' h
    simp only [runSeq] at h
    cases hf : fire tg e k with
    | none => simp [hf] at h
    | some e1 =>
      simp [hf] at h
      obtain ⟨hnd, hnone, hiff⟩ := ih e1 e' h
      obtain ⟨hk, vs, _, rfl⟩ := fire_eq_some hf
      have hset : ∀ x, (Env.set e k (tg.fn k vs) x).isSome ↔ ((e x).isSome ∨ x = k) := by
        intro x; unfold Env.set
        by_cases hx : x = k <;> simp [hx]
      refine ⟨?_, ?_, ?_⟩
      · refine List.nodup_cons.mpr ⟨?_, hnd⟩
        intro hmem
        have := hnone k hmem
        simp [Env.set] at this
      · intro x hx
        rcases List.mem_cons.mp hx with rfl | hx
        · exact hk
        · have := hnone x hx
          unfold Env.set at this
          by_cases hxk : x = k
          · simp [hxk] at this
          · simpa [hxk] using this
      · intro x
        rw [hiff x, hset x]
        simp only [List.mem_cons]
        constructor
        · rintro ((h1 | h1) | h1)
          · exact Or.inl h1
          · exact Or.inr (Or.inl h1)
          · exact Or.inr (Or.inr h1)
        · rintro (h1 | h1 | h1)
          · exact Or.inl (Or.inl h1)
          · exact Or.inl (Or.inr h1)
          · exact Or.inr h1

theorem fire_keeps {tg : TaskGraph κ V} {e e' : Env κ V} {k : κ} (h : fire tg e k = some e') :
    ∀ x w, e x = some w → e' x = some w := by
  obtain ⟨hk, vs, _, rfl⟩ := fire_eq_some h
  intro x w hx
  unfold Env.set
  by_cases hxk : x = k
  · subst hxk; rw [hk] at hx; cases hx
  · simp [hxk, hx]

/-- Values never change once set. -/
theorem runSeq_keeps {tg : TaskGraph κ V} (s : List κ) :
    ∀ (e e' : Env κ V), runSeq tg e s = some e' → ∀ x w, e x = some w → e' x = some w := by
  induction s with
  | nil => intro e e' h; simp [runSeq] at h; subst h; exact fun _ _ h => h
  | cons k ks ih =>
    intro e e' h x w hx
    simp only [runSeq] at h
    cases hf : fire tg e k with
    | none => simp [hf] at h
    | some e1 =>
      simp [hf] at h
      exact ih e1 e' h x w (fire_keeps hf x w hx)

/-- A repetition-free sequence of unfired keys in which every key comes after
    the keys it mentions (or those have values already) is admissible. -/
theorem runSeq_topo (tg : TaskGraph κ V) (s : List κ) :
    ∀ (e : Env κ V), s.Nodup → (∀ k ∈ s, e k = none) →
      (∀ p k q, s = p ++ k :: q → ∀ d ∈ tg.deps k, (e d).isSome ∨ d ∈ p) →
      ∃ e', runSeq tg e s = some e' := by
  induction s with
  | nil => intro e _ _ _; exact ⟨e, rfl⟩
  | cons k ks ih =>
    intro e hnd hnone htopo
    have hk : e k = none := hnone k (by simp)
    have hdeps : ∀ d ∈ tg.deps k, ∃ v, e d = some v := by
      intro d hd
      rcases htopo [] k ks rfl d hd with h | h
      · exact Option.isSome_iff_exists.mp h
      · cases h
    obtain ⟨vs, hvs⟩ := lookupAll_isSome hdeps
    have hf : fire tg e k = some (e.set k (tg.fn k vs)) := by
      unfold fire; simp [hk, hvs]
    have hnd' := List.nodup_cons.mp hnd
    obtain ⟨e', he'⟩ := ih (e.set k (tg.fn k vs)) hnd'.2
      (by
        intro x hx
        have hxk : x ≠ k := fun h => hnd'.1 (h ▸ hx)
        unfold Env.set; simp [hxk, hnone x (by simp [hx])])
      (by
        intro p x q hs d hd
        rcases htopo (k :: p) x q (by simp [hs]) d hd with h | h
        · left
          obtain ⟨v, hv⟩ := Option.isSome_iff_exists.mp h
          unfold Env.set
          by_cases hdk : d = k <;> simp [hdk, hv]
        · rcases List.mem_cons.mp h with rfl | h
          · left; unfold Env.set; simp
          · exact Or.inr h)
    exact ⟨e', by simp [runSeq, hf, he']⟩

theorem evalAlong_schedule (tg : TaskGraph κ V) (order : List κ) :
    ∀ e : Env κ V, ∃ s, s.Sublist order ∧ runSeq tg e s = some (evalAlong tg e order) := by
  induction order with
  | nil => intro e; exact ⟨[], List.Sublist.refl _, rfl⟩
  | cons k ks ih =>
    intro e
    simp only [evalAlong]
    cases hf : fire tg e k with
    | none =>
      obtain ⟨s, hs, hr⟩ := ih e
      exact ⟨s, hs.cons _, by simpa using hr⟩
    | some e1 =>
      obtain ⟨s, hs, hr⟩ := ih e1
      exact ⟨k :: s, hs.cons_cons _, by simp [runSeq, hf, hr]⟩

end Sched

/-! ### Task table and the executed workflow -/

theorem Table.get_cons (k : Nat) (t : Task) (tb : Table) (x : Nat) :
    Table.get ((k, t) :: tb) x = if k = x then t else Table.get tb x := by
  unfold Table.get
  by_cases h : k = x
  · simp [h]
  · have : (k == x) = false := by simpa using h
    simp [this, h]

theorem Table.get_zip_not_mem (ks : List Nat) : ∀ (vs : List Task) (tb : Table) (x : Nat), x ∉ ks →
    Table.get (ks.zip vs ++ tb) x = Table.get tb x := by
  induction ks with
  | nil => intro vs tb x _; simp
  | cons k ks ih =>
    intro vs tb x hx
    cases vs with
    | nil => simp
    | cons v vs =>
      simp only [List.mem_cons, not_or] at hx
      simp only [List.zip_cons_cons, List.cons_append]
      rw [Table.get_cons]
      have : k ≠ x := fun h => hx.1 h.symm
      simp [this, ih vs tb x hx.2]

theorem Table.get_zip_mem (ks : List Nat) : ∀ (vs : List Task) (tb : Table), ks.Nodup →
    ∀ p ∈ ks.zip vs, Table.get (ks.zip vs ++ tb) p.1 = p.2 := by
  induction ks with
  | nil => intro vs tb _ p hp; simp at hp
  | cons k ks ih =>
    intro vs tb hnd p hp
    cases vs with
    | nil => simp at hp
    | cons v vs =>
      simp only [List.zip_cons_cons, List.mem_cons] at hp
      simp only [List.zip_cons_cons, List.cons_append]
      rw [Table.get_cons]
      have hnd' := List.nodup_cons.mp hnd
      rcases hp with rfl | hp
      · simp
      · have hmem : p.1 ∈ ks := (List.of_mem_zip (a := p.1) (b := p.2) hp).1
        have : k ≠ p.1 := fun h => hnd'.1 (h ▸ hmem)
        simp [this, ih vs tb hnd'.2 p hp]

/-- Map form: looking the fresh ids up gives back the tasks stored for them. -/
theorem Table.map_get_zip (ks : List Nat) (vs : List Task) (tb : Table) (hnd : ks.Nodup)
    (hlen : ks.length = vs.length) : ks.map (Table.get (ks.zip vs ++ tb)) = vs := by
  have h1 : ∀ F : Nat → Task, ks.map F = (ks.zip vs).map (fun p => F p.1) := by
    intro F
    have : (ks.zip vs).map (fun p => F p.1) = ((ks.zip vs).map Prod.fst).map F := by
      rw [List.map_map]; rfl
    rw [this, List.map_fst_zip (by omega)]
  rw [h1, List.map_congr_left (Table.get_zip_mem ks vs tb hnd)]
  exact List.map_snd_zip (by omega)

theorem filter_map_of_map_eq {α β γ δ : Type} {f : α → γ} {g : β → γ} {l₁ : List α} {l₂ : List β}
    (h : l₁.map f = l₂.map g) (P : γ → Bool) (N : γ → δ) :
    (l₁.filter (P ∘ f)).map (N ∘ f) = (l₂.filter (P ∘ g)).map (N ∘ g) := by
  have a : (l₁.filter (P ∘ f)).map (N ∘ f) = ((l₁.map f).filter P).map N := by
    rw [List.filter_map, List.map_map]
  have b : (l₂.filter (P ∘ g)).map (N ∘ g) = ((l₂.map g).filter P).map N := by
    rw [List.filter_map, List.map_map]
  rw [a, b, h]

theorem range'_fresh {next n : Nat} {l : List Nat} (h : ∀ x ∈ l, x < next) :
    ∀ y ∈ List.range' next n, y ∉ l := by
  intro y hy hmem
  have := h y hmem
  simp at hy
  omega

theorem zip_range_fst (olds : List Nat) (next : Nat) :
    (olds.zip (List.range' next olds.length)).map (·.1) = olds :=
  List.map_fst_zip (by simp)

theorem zip_range_snd (olds : List Nat) (next : Nat) :
    (olds.zip (List.range' next olds.length)).map (·.2) = List.range' next olds.length :=
  List.map_snd_zip (by simp)

/-- The (old, new) replacements `insert_context` performs. -/
def ctxPairs (st : St) (g : DiGraph) : List (Nat × Nat) :=
  (g.nodes.filter (fun t => (st.tb.get t).takesCtx)).zip
    (List.range' st.next (g.nodes.filter (fun t => (st.tb.get t).takesCtx)).length)

/-- `insert_context`: the tasks that do not take the context keep their
    relative order, the context-taking ones follow in their relative order with
    the context in front of their static inputs. -/
theorem insertContext_spec (st : St) (g : DiGraph) (hwf : DiGraph.WF g) (hfresh : ∀ x ∈ g.nodes, x < st.next) :
    DiGraph.WF (insertContext st g).2 ∧
    (insertContext st g).2.nodes.map (insertContext st g).1.tb.get =
      (g.nodes.map st.tb.get).filter (fun t => !t.takesCtx) ++
      ((g.nodes.map st.tb.get).filter (fun t => t.takesCtx)).map addCtx ∧
    ∀ e, e ∈ (insertContext st g).2.edges ↔ ∃ e0 ∈ g.edges,
      e = (renSeq (ctxPairs st g) e0.1, renSeq (ctxPairs st g) e0.2) := by
  unfold insertContext ctxPairs
  simp only
  generalize holds : g.nodes.filter (fun t => (st.tb.get t).takesCtx) = olds
  have hsub : ∀ o ∈ olds, o ∈ g.nodes ∧ (st.tb.get o).takesCtx = true := by
    intro o ho; rw [← holds] at ho; simpa using ho
  have holdsnd : olds.Nodup := by rw [← holds]; exact hwf.nodupNodes.sublist List.filter_sublist
  have hnewsfresh := range'_fresh (n := olds.length) hfresh
  obtain ⟨hwf', hnodes, hedges⟩ := relabelSeq_spec (olds.zip (List.range' st.next olds.length)) g hwf
    (by rw [zip_range_fst]; exact holdsnd)
    (by rw [zip_range_fst]; exact fun o ho => (hsub o ho).1)
    (by rw [zip_range_snd]; exact List.nodup_range')
    (by rw [zip_range_snd]; exact hnewsfresh)
  refine ⟨hwf', ?_, hedges⟩
  rw [hnodes, zip_range_fst, zip_range_snd, List.map_append]
  congr 1
  · -- untouched tasks: old ids, looked up in the old part of the table
    have hfilt : g.nodes.filter (fun x => !olds.contains x) = g.nodes.filter ((fun t => !t.takesCtx) ∘ st.tb.get) := by
      apply List.filter_congr
      intro x hx
      simp only [Function.comp, List.contains_eq_mem]
      by_cases hc : (st.tb.get x).takesCtx = true
      · have : x ∈ olds := by rw [← holds]; simp [hx, hc]
        simp [this, hc]
      · have : x ∉ olds := fun hm => hc (hsub x hm).2
        simp [this, hc]
    rw [hfilt, List.filter_map]
    apply List.map_congr_left
    intro x hx
    have hx' : x ∈ g.nodes := (List.mem_filter.mp hx).1
    exact Table.get_zip_not_mem _ _ _ _ (fun hm => hnewsfresh x hm hx')
  · rw [Table.map_get_zip _ _ _ List.nodup_range' (by simp)]
    rw [← holds, List.filter_map, List.map_map]
    rfl

/-- The relabel-every-task pass of `execute_workflow`: same tasks, same order, fresh nodes. -/
theorem relabelPass_spec (st : St) (g : DiGraph) (hwf : DiGraph.WF g) (hfresh : ∀ x ∈ g.nodes, x < st.next) :
    DiGraph.WF (relabelPass st g).2 ∧
    (relabelPass st g).2.nodes = List.range' st.next g.nodes.length ∧
    (relabelPass st g).1.next = st.next + g.nodes.length ∧
    (relabelPass st g).2.nodes.map (relabelPass st g).1.tb.get = g.nodes.map st.tb.get := by
  unfold relabelPass
  simp only
  have hnewsfresh := range'_fresh (n := g.nodes.length) hfresh
  obtain ⟨hwf', hnodes, _⟩ := relabelSeq_spec (g.nodes.zip (List.range' st.next g.nodes.length)) g.copy
    (DiGraph.copy_wf hwf)
    (by rw [zip_range_fst]; exact hwf.nodupNodes)
    (by rw [zip_range_fst]; exact fun o ho => ho)
    (by rw [zip_range_snd]; exact List.nodup_range')
    (by rw [zip_range_snd]; exact hnewsfresh)
  have hempty : g.nodes.filter (fun x => !g.nodes.contains x) = [] := by
    simp [List.filter_eq_nil_iff]
  rw [zip_range_fst, zip_range_snd] at hnodes
  simp only [DiGraph.copy_nodes, hempty, List.nil_append] at hnodes
  refine ⟨hwf', hnodes, trivial, ?_⟩
  rw [hnodes]
  exact Table.map_get_zip _ _ _ List.nodup_range' (by simp)

open DiGraph

theorem keyOf_inj (sink a b : Nat) (h : keyOf sink a = keyOf sink b) : a = b := by
  unfold keyOf at h
  by_cases ha : a = sink <;> by_cases hb : b = sink <;> simp [ha, hb] at h
  · rw [ha, hb]
  · exact h


theorem atom_safe (res : Option String) (a : Atom) (h : a.hazard = false) :
    a.keys = [] ∧ a.dask res = a.literal := by
  cases a with
  | s x =>
    simp only [Atom.hazard] at h
    have hk : strKey x = none := by
      cases hx : strKey x with
      | none => rfl
      | some k => simp [hx] at h
    simp [Atom.keys, Atom.dask, Atom.literal, strVal, hk]
  | ctx => simp [Atom.keys, Atom.dask, Atom.literal]
  | call g args => simp [Atom.hazard] at h

theorem sarg_safe (res : Option String) (a : SArg) (h : a.hazard = false) :
    a.keys = [] ∧ a.dask res = a.literal := by
  cases a with
  | atom a => exact atom_safe res a h
  | list xs =>
    simp only [SArg.hazard, List.any_eq_false] at h
    have hx : ∀ a ∈ xs, a.keys = [] ∧ a.dask res = a.literal :=
      fun a ha => atom_safe res a (by simpa using h a ha)
    constructor
    · simp only [SArg.keys, List.flatMap_eq_nil_iff]
      exact fun a ha => (hx a ha).1
    · simp only [SArg.dask, SArg.literal]
      rw [List.map_congr_left (fun a ha => (hx a ha).2)]


theorem executedWorkflow_eq (st : St) (g : DiGraph) :
    executedWorkflow st g =
      ((insertContext (relabelPass st g).1 (relabelPass st g).2).1,
       (insertContext (relabelPass st g).1 (relabelPass st g).2).2.copy) := rfl


theorem map_withCtx_ctxLast (l : List Task) :
    (ctxLast l).map withCtx =
      l.filter (fun t => !t.takesCtx) ++ (l.filter (fun t => t.takesCtx)).map addCtx := by
  unfold ctxLast
  rw [List.map_append]
  congr 1
  · conv => rhs; rw [← List.map_id (l.filter (fun t => !t.takesCtx))]
    apply List.map_congr_left
    intro t ht
    have := (List.mem_filter.mp ht).2
    simp at this
    simp [withCtx, this]
  · apply List.map_congr_left
    intro t ht
    have := (List.mem_filter.mp ht).2
    simp [withCtx, this]


theorem addTask_fold (g : DiGraph) (t : Nat) (ps : List Nat) :
    addTask g t (some ps) = (g.addNode t).addEdgesFrom (ps.map (fun p => (p, t))) := by
  unfold addTask addEdgesFrom
  simp only
  generalize g.addNode t = g'
  induction ps generalizing g' with
  | nil => rfl
  | cons p ps ih => simp only [List.foldl_cons, List.map_cons]; exact ih _


/-! ### Reachability -/

/-- `Reach g x y`: there is a directed path (possibly empty) from `x` to `y`. -/
inductive Reach (g : DiGraph) : Nat → Nat → Prop
  | refl (x : Nat) : Reach g x x
  | step {u v w : Nat} : (u, v) ∈ g.edges → Reach g v w → Reach g u w

theorem exists_bound (l : List Nat) (f : Nat → Nat) : ∃ N, ∀ x ∈ l, f x ≤ N := by
  induction l with
  | nil => exact ⟨0, by simp⟩
  | cons a l ih =>
    obtain ⟨N, hN⟩ := ih
    refine ⟨max (f a) N, ?_⟩
    intro x hx
    rcases List.mem_cons.mp hx with rfl | hx
    · exact Nat.le_max_left _ _
    · exact Nat.le_trans (hN x hx) (Nat.le_max_right _ _)

/-! ### output_tasks / input_tasks and the operations that consult them -/

theorem mem_outputNodes {g : DiGraph} {x : Nat} :
    x ∈ g.outputNodes ↔ x ∈ g.nodes ∧ ∀ y, (x, y) ∉ g.edges := by
  unfold outputNodes
  simp only [List.mem_filter, List.isEmpty_iff]
  constructor
  · rintro ⟨hx, hs⟩
    refine ⟨hx, fun y hy => ?_⟩
    have := mem_succOf.mpr hy
    rw [hs] at this; cases this
  · rintro ⟨hx, hs⟩
    refine ⟨hx, ?_⟩
    cases h : g.succOf x with
    | nil => rfl
    | cons y ys => exact absurd (mem_succOf.mp (by rw [h]; simp)) (hs y)

theorem mem_inputNodes {g : DiGraph} {x : Nat} :
    x ∈ g.inputNodes ↔ x ∈ g.nodes ∧ ∀ y, (y, x) ∉ g.edges := by
  unfold inputNodes
  simp only [List.mem_filter, List.isEmpty_iff]
  constructor
  · rintro ⟨hx, hs⟩
    refine ⟨hx, fun y hy => ?_⟩
    have := mem_predOf.mpr hy
    rw [hs] at this; cases this
  · rintro ⟨hx, hs⟩
    refine ⟨hx, ?_⟩
    cases h : g.predOf x with
    | nil => rfl
    | cons y ys => exact absurd (mem_predOf.mp (by rw [h]; simp)) (hs y)

/-- The connecting edges of `insert_workflow` only join the given outputs to the given inputs. -/
theorem connectEdges_endpoints {outs ins : List Nat} {es : List (Nat × Nat)}
    (h : connectEdges outs ins = .ok es) : ∀ e ∈ es, e.1 ∈ outs ∧ e.2 ∈ ins := by
  unfold connectEdges at h
  split at h
  · simp only [Except.ok.injEq] at h
    subst h
    intro e he
    obtain ⟨p, hp, rfl⟩ := List.mem_map.mp he
    have := List.of_mem_zip (a := p.1) (b := p.2) hp
    exact ⟨this.2, this.1⟩
  · split at h
    · simp only [Except.ok.injEq] at h
      subst h
      intro e he
      obtain ⟨o, ho, rfl⟩ := List.mem_map.mp he
      exact ⟨ho, by simp⟩
    · simp only [Except.ok.injEq] at h
      subst h
      intro e he
      obtain ⟨i, hi, rfl⟩ := List.mem_map.mp he
      exact ⟨by simp, hi⟩
    · cases h

/-! ### One scheduler, several graphs -/

section Shared
variable {κ V : Type}

theorem lookupAll_congr {e e' : Env κ V} {ks : List κ} (h : ∀ k ∈ ks, e k = e' k) :
    lookupAll e ks = lookupAll e' ks := by
  induction ks with
  | nil => rfl
  | cons k ks ih =>
    simp only [lookupAll]
    rw [h k (by simp), ih (fun x hx => h x (by simp [hx]))]

end Shared

theorem Submission.key_inj (s : Submission) (a b : Key) (h : s.key a = s.key b) : a = b := by
  cases a <;> cases b <;> simp [Submission.key] at h ⊢
  · cases hr : s.rename <;> simp [hr] at h
  · cases hr : s.rename <;> simp [hr] at h
  · exact h

end Pharmpy.C17
