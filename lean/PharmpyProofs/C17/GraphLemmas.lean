import PharmpyModel.C17.Model
/-
  Set-level and order-level facts about the networkx-style digraph operations.
-/
namespace Pharmpy.C17
namespace DiGraph

theorem mem_succOf {g : DiGraph} {u v : Nat} : v ∈ g.succOf u ↔ (u, v) ∈ g.edges := by
  unfold succOf
  simp only [List.mem_map, List.mem_filter]
  constructor
  · rintro ⟨⟨a, b⟩, ⟨hm, ha⟩, rfl⟩
    simp at ha; subst ha; exact hm
  · intro h; exact ⟨(u, v), ⟨h, by simp⟩, rfl⟩

theorem mem_predOf {g : DiGraph} {u v : Nat} : u ∈ g.predOf v ↔ (u, v) ∈ g.edges := by
  unfold predOf
  simp only [List.mem_map, List.mem_filter]
  constructor
  · rintro ⟨⟨a, b⟩, ⟨hm, ha⟩, rfl⟩
    simp at ha; subst ha; exact hm
  · intro h; exact ⟨(u, v), ⟨h, by simp⟩, rfl⟩

/-! ### addNode -/

theorem addNode_nodes_mem {g : DiGraph} {n x : Nat} : x ∈ (g.addNode n).nodes ↔ x ∈ g.nodes ∨ x = n := by
  unfold addNode
  by_cases h : n ∈ g.nodes
  · simp [h]; intro hx; subst hx; exact h
  · simp [h]

@[simp] theorem addNode_edges {g : DiGraph} {n : Nat} : (g.addNode n).edges = g.edges := by
  unfold addNode; split <;> rfl

theorem addNode_of_mem {g : DiGraph} {n : Nat} (h : n ∈ g.nodes) : g.addNode n = g := by
  unfold addNode; simp [h]

theorem addNode_of_not_mem {g : DiGraph} {n : Nat} (h : n ∉ g.nodes) :
    (g.addNode n).nodes = g.nodes ++ [n] := by
  unfold addNode; simp [h]

theorem addNode_wf {g : DiGraph} {n : Nat} (h : WF g) : WF (g.addNode n) := by
  by_cases hn : n ∈ g.nodes
  · rw [addNode_of_mem hn]; exact h
  · refine ⟨?_, ?_, ?_⟩
    · rw [addNode_of_not_mem hn]
      exact List.nodup_append.mpr ⟨h.nodupNodes, by simp, by
        intro a ha b hb; simp at hb; subst hb; intro hab; subst hab; exact hn ha⟩
    · simpa using h.nodupEdges
    · intro e he
      simp at he
      have := h.closed e he
      exact ⟨addNode_nodes_mem.mpr (Or.inl this.1), addNode_nodes_mem.mpr (Or.inl this.2)⟩

/-! ### addEdge -/

theorem addEdge_nodes_mem {g : DiGraph} {u v x : Nat} :
    x ∈ (g.addEdge u v).nodes ↔ x ∈ g.nodes ∨ x = u ∨ x = v := by
  unfold addEdge
  simp only
  split <;> simp [addNode_nodes_mem, or_assoc]

theorem addEdge_edges_mem {g : DiGraph} {u v : Nat} {e : Nat × Nat} :
    e ∈ (g.addEdge u v).edges ↔ e ∈ g.edges ∨ e = (u, v) := by
  unfold addEdge
  simp only
  split
  · rename_i h
    simp at h
    simp
    intro he; subst he; exact h
  · simp

theorem addEdge_nodes_of_mem {g : DiGraph} {u v : Nat} (hu : u ∈ g.nodes) (hv : v ∈ g.nodes) :
    (g.addEdge u v).nodes = g.nodes := by
  unfold addEdge
  simp only [addNode_of_mem hu, addNode_of_mem hv]
  split <;> rfl

theorem addEdge_wf {g : DiGraph} {u v : Nat} (h : WF g) : WF (g.addEdge u v) := by
  have h2 : WF ((g.addNode u).addNode v) := addNode_wf (addNode_wf h)
  have hu : u ∈ ((g.addNode u).addNode v).nodes := by simp [addNode_nodes_mem]
  have hv : v ∈ ((g.addNode u).addNode v).nodes := by simp [addNode_nodes_mem]
  unfold addEdge
  simp only
  split
  · exact h2
  · rename_i hne
    refine ⟨h2.nodupNodes, ?_, ?_⟩
    · exact List.nodup_append.mpr ⟨h2.nodupEdges, by simp, by
        intro a ha b hb; simp at hb; subst hb; intro hab; subst hab; exact hne ha⟩
    · intro e he
      simp at he
      rcases he with he | he
      · exact h2.closed e (by simpa using he)
      · subst he; exact ⟨hu, hv⟩

/-! ### addEdgesFrom / addNodesFrom -/

theorem addEdgesFrom_nodes_mem (es : List (Nat × Nat)) : ∀ (g : DiGraph) (x : Nat),
    x ∈ (g.addEdgesFrom es).nodes ↔ x ∈ g.nodes ∨ ∃ e ∈ es, x = e.1 ∨ x = e.2 := by
  induction es with
  | nil => intro g x; simp [addEdgesFrom]
  | cons e es ih =>
    intro g x
    have := ih (g.addEdge e.1 e.2) x
    simp only [addEdgesFrom, List.foldl_cons] at this ⊢
    rw [this, addEdge_nodes_mem]
    simp only [List.mem_cons, exists_eq_or_imp]
    constructor
    · rintro ((h | h | h) | h)
      · exact Or.inl h
      · exact Or.inr (Or.inl (Or.inl h))
      · exact Or.inr (Or.inl (Or.inr h))
      · exact Or.inr (Or.inr h)
    · rintro (h | (h | h) | h)
      · exact Or.inl (Or.inl h)
      · exact Or.inl (Or.inr (Or.inl h))
      · exact Or.inl (Or.inr (Or.inr h))
      · exact Or.inr h

theorem addEdgesFrom_edges_mem (es : List (Nat × Nat)) : ∀ (g : DiGraph) (e : Nat × Nat),
    e ∈ (g.addEdgesFrom es).edges ↔ e ∈ g.edges ∨ e ∈ es := by
  induction es with
  | nil => intro g e; simp [addEdgesFrom]
  | cons a es ih =>
    intro g e
    have := ih (g.addEdge a.1 a.2) e
    simp only [addEdgesFrom, List.foldl_cons] at this ⊢
    rw [this, addEdge_edges_mem]
    simp only [List.mem_cons, Prod.eta, or_assoc]

theorem addEdgesFrom_wf (es : List (Nat × Nat)) : ∀ (g : DiGraph), WF g → WF (g.addEdgesFrom es) := by
  induction es with
  | nil => intro g h; exact h
  | cons a es ih =>
    intro g h
    simp only [addEdgesFrom, List.foldl_cons]
    exact ih _ (addEdge_wf h)

theorem addEdgesFrom_nodes_of_closed (es : List (Nat × Nat)) : ∀ (g : DiGraph),
    (∀ e ∈ es, e.1 ∈ g.nodes ∧ e.2 ∈ g.nodes) → (g.addEdgesFrom es).nodes = g.nodes := by
  induction es with
  | nil => intro g _; rfl
  | cons a es ih =>
    intro g h
    have ha := h a (by simp)
    have hn : (g.addEdge a.1 a.2).nodes = g.nodes := addEdge_nodes_of_mem ha.1 ha.2
    simp only [addEdgesFrom, List.foldl_cons]
    have := ih (g.addEdge a.1 a.2) (by
      intro e he; rw [hn]; exact h e (by simp [he]))
    simp only [addEdgesFrom] at this
    rw [this, hn]

theorem addNodesFrom_nodes_mem (ns : List Nat) : ∀ (g : DiGraph) (x : Nat),
    x ∈ (g.addNodesFrom ns).nodes ↔ x ∈ g.nodes ∨ x ∈ ns := by
  induction ns with
  | nil => intro g x; simp [addNodesFrom]
  | cons n ns ih =>
    intro g x
    have := ih (g.addNode n) x
    simp only [addNodesFrom, List.foldl_cons] at this ⊢
    rw [this, addNode_nodes_mem]
    simp only [List.mem_cons, or_assoc]

@[simp] theorem addNodesFrom_edges (ns : List Nat) : ∀ (g : DiGraph), (g.addNodesFrom ns).edges = g.edges := by
  induction ns with
  | nil => intro g; rfl
  | cons n ns ih =>
    intro g
    have := ih (g.addNode n)
    simp only [addNodesFrom, List.foldl_cons] at this ⊢
    rw [this, addNode_edges]

theorem addNodesFrom_wf (ns : List Nat) : ∀ (g : DiGraph), WF g → WF (g.addNodesFrom ns) := by
  induction ns with
  | nil => intro g h; exact h
  | cons n ns ih =>
    intro g h
    simp only [addNodesFrom, List.foldl_cons]
    exact ih _ (addNode_wf h)

/-- Adding, to the empty graph, a repetition-free node list gives that list. -/
theorem addNodesFrom_fresh (ns : List Nat) : ∀ (g : DiGraph), (g.nodes ++ ns).Nodup →
    (g.addNodesFrom ns).nodes = g.nodes ++ ns := by
  induction ns with
  | nil => intro g _; simp [addNodesFrom]
  | cons n ns ih =>
    intro g h
    have hn : n ∉ g.nodes := by
      intro hmem
      have := List.nodup_append.mp h
      exact this.2.2 n hmem n (by simp) rfl
    simp only [addNodesFrom, List.foldl_cons]
    have h1 : (g.addNode n).nodes = g.nodes ++ [n] := addNode_of_not_mem hn
    have := ih (g.addNode n) (by rw [h1]; simpa using h)
    simp only [addNodesFrom] at this
    rw [this, h1]; simp

/-! ### removeNode -/

theorem removeNode_nodes_mem {g : DiGraph} {n x : Nat} : x ∈ (g.removeNode n).nodes ↔ x ∈ g.nodes ∧ x ≠ n := by
  simp [removeNode]

theorem removeNode_edges_mem {g : DiGraph} {n : Nat} {e : Nat × Nat} :
    e ∈ (g.removeNode n).edges ↔ e ∈ g.edges ∧ e.1 ≠ n ∧ e.2 ≠ n := by
  simp [removeNode]

theorem removeNode_wf {g : DiGraph} {n : Nat} (h : WF g) : WF (g.removeNode n) := by
  refine ⟨?_, ?_, ?_⟩
  · exact h.nodupNodes.sublist List.filter_sublist
  · exact h.nodupEdges.sublist List.filter_sublist
  · intro e he
    rw [removeNode_edges_mem] at he
    have := h.closed e he.1
    exact ⟨removeNode_nodes_mem.mpr ⟨this.1, he.2.1⟩, removeNode_nodes_mem.mpr ⟨this.2, he.2.2⟩⟩

/-! ### edgeList / copy -/

theorem mem_edgeList {g : DiGraph} {e : Nat × Nat} : e ∈ g.edgeList ↔ e ∈ g.edges ∧ e.1 ∈ g.nodes := by
  unfold edgeList
  simp only [List.mem_flatMap, List.mem_map]
  constructor
  · rintro ⟨u, hu, v, hv, rfl⟩
    exact ⟨mem_succOf.mp hv, hu⟩
  · rintro ⟨he, hn⟩
    exact ⟨e.1, hn, e.2, mem_succOf.mpr he, rfl⟩

theorem mem_edgeList_of_wf {g : DiGraph} (h : WF g) {e : Nat × Nat} : e ∈ g.edgeList ↔ e ∈ g.edges :=
  ⟨fun he => (mem_edgeList.mp he).1, fun he => mem_edgeList.mpr ⟨he, (h.closed e he).1⟩⟩

/-- One block `[(a,v) | v ∈ S]` of the edge list contributes `a` to the
    predecessors of `v` once per occurrence of `v` in `S`. -/
theorem block_pred (a v : Nat) (S : List Nat) :
    (((S.map (fun w => (a, w))).filter (fun e => e.2 == v)).map (·.1)) = List.replicate (S.count v) a := by
  induction S with
  | nil => simp
  | cons s S ih =>
    simp only [List.map_cons, List.filter_cons, List.count_cons]
    by_cases h : s == v
    · simp [h, ih, List.replicate_succ']
      rw [← List.replicate_succ, List.replicate_succ']
    · simp [h, ih]

theorem block_pred_sublist (a v : Nat) (S : List Nat) (hS : S.Nodup) :
    (((S.map (fun w => (a, w))).filter (fun e => e.2 == v)).map (·.1)).Sublist [a] := by
  rw [block_pred]
  have := List.nodup_iff_count.mp hS v
  have h01 : S.count v = 0 ∨ S.count v = 1 := by omega
  rcases h01 with h | h <;> simp [h]

theorem pred_flatMap_sublist (v : Nat) (Sf : Nat → List Nat) (hS : ∀ a, (Sf a).Nodup) (ns : List Nat) :
    ((((ns.flatMap (fun u => (Sf u).map (fun w => (u, w)))).filter (fun e => e.2 == v)).map (·.1))).Sublist ns := by
  induction ns with
  | nil => simp
  | cons a ns ih =>
    simp only [List.flatMap_cons, List.filter_append, List.map_append]
    exact (block_pred_sublist a v (Sf a) (hS a)).append ih

theorem succOf_nodup {g : DiGraph} (h : g.edges.Nodup) (u : Nat) : (g.succOf u).Nodup := by
  unfold succOf
  have hf : (g.edges.filter (fun e => e.1 == u)).Nodup := h.sublist List.filter_sublist
  rw [List.Nodup, List.pairwise_map]
  refine (List.Pairwise.and_mem.mp hf).imp ?_
  intro a b hab heq
  obtain ⟨ha, hb, hne⟩ := hab
  simp only [List.mem_filter] at ha hb
  have ha1 : a.1 = u := by simpa using ha.2
  have hb1 : b.1 = u := by simpa using hb.2
  exact hne (Prod.ext (ha1.trans hb1.symm) heq)

theorem predOf_nodup {g : DiGraph} (h : g.edges.Nodup) (v : Nat) : (g.predOf v).Nodup := by
  unfold predOf
  have hf : (g.edges.filter (fun e => e.2 == v)).Nodup := h.sublist List.filter_sublist
  rw [List.Nodup, List.pairwise_map]
  refine (List.Pairwise.and_mem.mp hf).imp ?_
  intro a b hab heq
  obtain ⟨ha, hb, hne⟩ := hab
  simp only [List.mem_filter] at ha hb
  have ha1 : a.2 = v := by simpa using ha.2
  have hb1 : b.2 = v := by simpa using hb.2
  exact hne (Prod.ext heq (ha1.trans hb1.symm))

/-- **After `G.copy()` every predecessor list is in node order** (a sublist of the node list). -/
theorem copy_pred_sublist {g : DiGraph} (h : g.edges.Nodup) (v : Nat) :
    (g.copy.predOf v).Sublist g.copy.nodes := by
  unfold copy predOf edgeList
  exact pred_flatMap_sublist v g.succOf (succOf_nodup h) g.nodes

@[simp] theorem copy_nodes {g : DiGraph} : g.copy.nodes = g.nodes := rfl

theorem copy_edges_mem {g : DiGraph} (h : WF g) {e : Nat × Nat} : e ∈ g.copy.edges ↔ e ∈ g.edges :=
  mem_edgeList_of_wf h

theorem edgeList_nodup {g : DiGraph} (h : WF g) : g.edgeList.Nodup := by
  unfold edgeList
  rw [List.Nodup, List.pairwise_flatMap]
  constructor
  · intro u _
    have := succOf_nodup h.nodupEdges u
    rw [List.Nodup] at this
    rw [List.pairwise_map]
    exact this.imp (fun hne heq => hne (by simpa using heq))
  · refine h.nodupNodes.imp ?_
    intro a b hab x hx y hy hxy
    simp only [List.mem_map] at hx hy
    obtain ⟨_, _, rfl⟩ := hx
    obtain ⟨_, _, rfl⟩ := hy
    exact hab (by simpa using congrArg Prod.fst hxy)

theorem copy_wf {g : DiGraph} (h : WF g) : WF g.copy := by
  refine ⟨h.nodupNodes, edgeList_nodup h, ?_⟩
  intro e he
  exact h.closed e ((copy_edges_mem h).mp he)

theorem empty_wf : WF empty := ⟨by simp [empty], by simp [empty], by simp [empty]⟩

/-! ### compose -/

theorem compose_wf {g h : DiGraph} : WF (g.compose h) := by
  unfold compose
  exact addEdgesFrom_wf _ _ (addNodesFrom_wf _ _ (addEdgesFrom_wf _ _ (addNodesFrom_wf _ _ empty_wf)))

theorem compose_edges_mem {g h : DiGraph} (hg : WF g) (hh : WF h) {e : Nat × Nat} :
    e ∈ (g.compose h).edges ↔ e ∈ g.edges ∨ e ∈ h.edges := by
  unfold compose
  rw [addEdgesFrom_edges_mem, addNodesFrom_edges, addEdgesFrom_edges_mem, addNodesFrom_edges,
    mem_edgeList_of_wf hg, mem_edgeList_of_wf hh]
  simp [empty]

theorem compose_nodes_mem {g h : DiGraph} (hg : WF g) (hh : WF h) {x : Nat} :
    x ∈ (g.compose h).nodes ↔ x ∈ g.nodes ∨ x ∈ h.nodes := by
  unfold compose
  rw [addEdgesFrom_nodes_mem, addNodesFrom_nodes_mem, addEdgesFrom_nodes_mem, addNodesFrom_nodes_mem]
  simp only [empty, List.not_mem_nil, false_or]
  constructor
  · rintro (((h1 | ⟨e, he, h1⟩) | h1) | ⟨e, he, h1⟩)
    · exact Or.inl h1
    · have := hg.closed e ((mem_edgeList_of_wf hg).mp he)
      rcases h1 with rfl | rfl
      · exact Or.inl this.1
      · exact Or.inl this.2
    · exact Or.inr h1
    · have := hh.closed e ((mem_edgeList_of_wf hh).mp he)
      rcases h1 with rfl | rfl
      · exact Or.inr this.1
      · exact Or.inr this.2
  · rintro (h1 | h1)
    · exact Or.inl (Or.inl (Or.inl h1))
    · exact Or.inl (Or.inr h1)

/-- Composition never merges tasks: with disjoint task sets the node list of
    `nx.compose(G, H)` is G's nodes followed by H's nodes. -/
theorem compose_nodes_disjoint {g h : DiGraph} (hg : WF g) (hh : WF h)
    (hdis : ∀ x ∈ g.nodes, x ∉ h.nodes) : (g.compose h).nodes = g.nodes ++ h.nodes := by
  unfold compose
  have h1 : (empty.addNodesFrom g.nodes).nodes = g.nodes := by
    have := addNodesFrom_fresh g.nodes empty (by simpa [empty] using hg.nodupNodes)
    simpa [empty] using this
  have h2 : ((empty.addNodesFrom g.nodes).addEdgesFrom g.edgeList).nodes = g.nodes := by
    rw [addEdgesFrom_nodes_of_closed, h1]
    intro e he
    rw [h1]
    exact hg.closed e ((mem_edgeList_of_wf hg).mp he)
  have hnd : (g.nodes ++ h.nodes).Nodup :=
    List.nodup_append.mpr ⟨hg.nodupNodes, hh.nodupNodes, fun a ha b hb hab => hdis a ha (hab ▸ hb)⟩
  have h3 : (((empty.addNodesFrom g.nodes).addEdgesFrom g.edgeList).addNodesFrom h.nodes).nodes = g.nodes ++ h.nodes := by
    have := addNodesFrom_fresh h.nodes ((empty.addNodesFrom g.nodes).addEdgesFrom g.edgeList) (by rw [h2]; exact hnd)
    rw [this, h2]
  rw [addEdgesFrom_nodes_of_closed, h3]
  intro e he
  rw [h3]
  have := hh.closed e ((mem_edgeList_of_wf hh).mp he)
  exact ⟨List.mem_append_right _ this.1, List.mem_append_right _ this.2⟩

/-! ### relabel1 (`relabel_nodes(G, {old: new}, copy=False)`) -/

/-- The renaming a one-entry mapping performs. -/
def ren (old new x : Nat) : Nat := if x = old then new else x

theorem relabel1_edges_mem {g : DiGraph} (_h : WF g) {old new : Nat} (ho : old ∈ g.nodes) (hne : new ≠ old)
    {e : Nat × Nat} :
    e ∈ (g.relabel1 old new).edges ↔ ∃ e0 ∈ g.edges, e = (ren old new e0.1, ren old new e0.2) := by
  unfold relabel1
  simp only [ho, not_true_eq_false, if_false]
  have hb : (new == old) = false := by simpa using hne
  simp only [hb, Bool.false_eq_true, if_false]
  rw [addEdgesFrom_edges_mem, removeNode_edges_mem, addNode_edges]
  simp only [List.mem_append, List.mem_map, mem_succOf, mem_predOf, addNode_edges]
  constructor
  · rintro (⟨he, h1, h2⟩ | ⟨t, ht, rfl⟩ | ⟨s', hs, rfl⟩)
    · exact ⟨e, he, by simp [ren, h1, h2]⟩
    · refine ⟨(old, t), ht, ?_⟩
      by_cases hto : t = old <;> simp [ren, hto]
    · refine ⟨(s', old), hs, ?_⟩
      by_cases hso : s' = old <;> simp [ren, hso]
  · rintro ⟨⟨a, b⟩, he0, rfl⟩
    by_cases ha : a = old
    · subst ha
      right; left
      refine ⟨b, he0, ?_⟩
      by_cases hbo : b = a <;> simp [ren, hbo]
    · by_cases hb' : b = old
      · subst hb'
        right; right
        exact ⟨a, he0, by simp [ren, ha]⟩
      · left
        simp [ren, ha, hb']
        exact he0

theorem relabel1_nodes_fresh {g : DiGraph} (h : WF g) {old new : Nat} (ho : old ∈ g.nodes)
    (hn : new ∉ g.nodes) :
    (g.relabel1 old new).nodes = g.nodes.filter (fun x => x != old) ++ [new] := by
  have hne : new ≠ old := fun h => hn (h ▸ ho)
  unfold relabel1
  simp only [ho, not_true_eq_false, if_false]
  have hb : (new == old) = false := by simpa using hne
  simp only [hb, Bool.false_eq_true, if_false]
  have hnodes : ((g.addNode new).removeNode old).nodes = g.nodes.filter (fun x => x != old) ++ [new] := by
    simp [removeNode, addNode_of_not_mem hn, List.filter_append, hne]
  rw [addEdgesFrom_nodes_of_closed, hnodes]
  intro e he
  rw [hnodes]
  simp only [List.mem_append, List.mem_map, mem_succOf, mem_predOf, addNode_edges] at he
  simp only [List.mem_append, List.mem_filter, List.mem_singleton, bne_iff_ne, ne_eq]
  rcases he with ⟨t, ht, rfl⟩ | ⟨s', hs, rfl⟩
  · refine ⟨Or.inr rfl, ?_⟩
    by_cases hto : t = old
    · simp [hto]
    · simp [hto]; exact Or.inl (h.closed _ ht).2
  · refine ⟨?_, Or.inr rfl⟩
    by_cases hso : s' = old
    · simp [hso]
    · simp [hso]; exact Or.inl (h.closed _ hs).1

theorem relabel1_wf {g : DiGraph} (h : WF g) {old new : Nat} : WF (g.relabel1 old new) := by
  unfold relabel1
  split
  · exact h
  · split
    · exact h
    · exact addEdgesFrom_wf _ _ (removeNode_wf (addNode_wf h))

end DiGraph
open DiGraph

/-! ### Sequences of `replace_task` -/

/-- The renaming a sequence of one-entry relabellings performs. -/
def renSeq (pairs : List (Nat × Nat)) (x : Nat) : Nat :=
  pairs.foldl (fun x p => ren p.1 p.2 x) x

theorem renSeq_cons (p : Nat × Nat) (ps : List (Nat × Nat)) (x : Nat) :
    renSeq (p :: ps) x = renSeq ps (ren p.1 p.2 x) := rfl

theorem renSeq_other (pairs : List (Nat × Nat)) (x : Nat) (h : x ∉ pairs.map (·.1)) :
    renSeq pairs x = x := by
  induction pairs generalizing x with
  | nil => rfl
  | cons p ps ih =>
    simp only [List.map_cons, List.mem_cons, not_or] at h
    rw [renSeq_cons]
    have : ren p.1 p.2 x = x := by simp [ren, h.1]
    rw [this]
    exact ih x h.2

theorem relabelSeq_cons (g : DiGraph) (p : Nat × Nat) (ps : List (Nat × Nat)) :
    relabelSeq g (p :: ps) = relabelSeq (g.relabel1 p.1 p.2) ps := rfl

/-- Replacing, one after the other, distinct tasks of the graph by fresh
    distinct tasks: the untouched tasks keep their order, the new tasks follow
    in the order of replacement; the edges are exactly the renamed edges. -/
theorem relabelSeq_spec (pairs : List (Nat × Nat)) : ∀ (g : DiGraph), WF g →
    (pairs.map (·.1)).Nodup → (∀ o ∈ pairs.map (·.1), o ∈ g.nodes) →
    (pairs.map (·.2)).Nodup → (∀ n ∈ pairs.map (·.2), n ∉ g.nodes) →
    WF (relabelSeq g pairs) ∧
    (relabelSeq g pairs).nodes = g.nodes.filter (fun x => !(pairs.map (·.1)).contains x) ++ pairs.map (·.2) ∧
    ∀ e, e ∈ (relabelSeq g pairs).edges ↔ ∃ e0 ∈ g.edges, e = (renSeq pairs e0.1, renSeq pairs e0.2) := by
  induction pairs with
  | nil =>
    intro g h _ _ _ _
    refine ⟨h, ?_, ?_⟩
    · simp only [relabelSeq, List.foldl_nil, List.map_nil, List.contains_nil, Bool.not_false, List.append_nil]
      exact (List.filter_eq_self.mpr (fun _ _ => rfl)).symm
    intro e; simp [relabelSeq, renSeq]
  | cons p ps ih =>
    intro g h hon hog hnn hnf
    simp only [List.map_cons, List.nodup_cons, List.mem_cons, forall_eq_or_imp] at hon hog hnn hnf
    have ho : p.1 ∈ g.nodes := hog.1
    have hn : p.2 ∉ g.nodes := hnf.1
    have hne : p.2 ≠ p.1 := fun heq => hn (heq ▸ ho)
    have h1 : WF (g.relabel1 p.1 p.2) := relabel1_wf h
    have hnodes1 := relabel1_nodes_fresh h ho hn
    have hmem1 : ∀ x, x ∈ (g.relabel1 p.1 p.2).nodes ↔ (x ∈ g.nodes ∧ x ≠ p.1) ∨ x = p.2 := by
      intro x; rw [hnodes1]; simp
    obtain ⟨hwf, hnd, hed⟩ := ih (g.relabel1 p.1 p.2) h1 hon.2
      (by
        intro o ho'
        refine (hmem1 o).mpr (Or.inl ⟨hog.2 o ho', ?_⟩)
        intro heq; exact hon.1 (heq ▸ ho'))
      hnn.2
      (by
        intro n hn' hmem
        rcases (hmem1 n).mp hmem with ⟨hg, _⟩ | heq
        · exact hnf.2 n hn' hg
        · exact hnn.1 (heq ▸ hn'))
    rw [relabelSeq_cons]
    refine ⟨hwf, ?_, ?_⟩
    · rw [hnd, hnodes1]
      have hp2 : p.2 ∉ ps.map (·.1) := fun hm => hn (hog.2 _ hm)
      simp only [List.filter_append, List.filter_filter, List.map_cons, List.append_assoc]
      congr 1
      · apply List.filter_congr
        intro x _
        simp only [List.contains_cons, Bool.not_or, bne, Bool.and_comm]
      · have : (List.filter (fun x => !(List.map (fun x => x.fst) ps).contains x) [p.2]) = [p.2] := by
          simp [hp2]
        rw [this]; rfl
    · intro e
      rw [hed]
      constructor
      · rintro ⟨e1, he1, rfl⟩
        obtain ⟨e0, he0, rfl⟩ := (relabel1_edges_mem h ho hne).mp he1
        exact ⟨e0, he0, rfl⟩
      · rintro ⟨e0, he0, rfl⟩
        exact ⟨_, (relabel1_edges_mem h ho hne).mpr ⟨e0, he0, rfl⟩, rfl⟩

namespace DiGraph

end DiGraph
end Pharmpy.C17
