import PharmpyProofs.C17.Lemmas
namespace Pharmpy.C17
theorem placeholder : True := trivial
end Pharmpy.C17
