import PharmpyProofs.C17.Lemmas
import PharmpyModel.Generated.C17Task
/-
  C17 — Workflows execute as their task graph specifies.  Property theorems only.
-/
namespace Pharmpy.C17
open DiGraph

/-! ## The abstract scheduler: any admissible firing order gives the reference value

  `TaskGraph κ V` is ANY assignment of dependency lists and functions to keys
  (any size, cyclic or not); a firing sequence is admissible when `runSeq`
  returns `some`: every key fires at most once and only when all the keys it
  mentions have values. -/

section
variable {κ V : Type} [DecidableEq κ]

/-- Every value produced by an admissible firing sequence is the reference
    (recursive, schedule-free) value of that key. -/
theorem schedule_sound (tg : TaskGraph κ V) (s : List κ) (e : Env κ V) (k : κ) (v : V)
    (hrun : runSeq tg Env.empty s = some e) (hk : e k = some v) :
    den tg s.length k = some v := by
  have h0 : Sound tg (Env.empty : Env κ V) 0 := by intro k v h; simp [Env.empty] at h
  have := runSeq_sound s Env.empty e 0 h0 hrun k v hk
  simpa using this

/-- **schedule_independent**: two admissible firing sequences of the same
    graph — whatever their lengths and orders — agree on every key both of
    them fire; in particular on `'results'`. -/
theorem schedule_independent (tg : TaskGraph κ V) (s₁ s₂ : List κ) (e₁ e₂ : Env κ V) (k : κ) (v₁ v₂ : V)
    (h₁ : runSeq tg Env.empty s₁ = some e₁) (h₂ : runSeq tg Env.empty s₂ = some e₂)
    (hk₁ : e₁ k = some v₁) (hk₂ : e₂ k = some v₂) : v₁ = v₂ := by
  have a := den_mono tg (Nat.le_max_left s₁.length s₂.length) k v₁ (schedule_sound tg s₁ e₁ k v₁ h₁ hk₁)
  have b := den_mono tg (Nat.le_max_right s₁.length s₂.length) k v₂ (schedule_sound tg s₂ e₂ k v₂ h₂ hk₂)
  rw [a] at b
  exact Option.some.inj b

/-- Every task fires exactly once: an admissible sequence has no repetition and
    the keys that end up with a value are exactly the fired ones. -/
theorem fires_exactly_once (tg : TaskGraph κ V) (s : List κ) (e : Env κ V)
    (hrun : runSeq tg Env.empty s = some e) :
    s.Nodup ∧ ∀ k, (e k).isSome ↔ k ∈ s := by
  obtain ⟨hnd, _, hiff⟩ := runSeq_fired s Env.empty e hrun
  exact ⟨hnd, fun k => by simpa [Env.empty] using hiff k⟩

/-- … and only after all of its predecessors (all keys it mentions). -/
theorem fires_after_predecessors (tg : TaskGraph κ V) (p q : List κ) (k : κ) (e : Env κ V)
    (hrun : runSeq tg Env.empty (p ++ k :: q) = some e) :
    ∀ d ∈ tg.deps k, d ∈ p := by
  rw [runSeq_append] at hrun
  cases hp : runSeq tg Env.empty p with
  | none => simp [hp] at hrun
  | some ep =>
    simp only [hp, Option.bind, runSeq] at hrun
    cases hf : fire tg ep k with
    | none => simp [hf] at hrun
    | some e1 =>
      obtain ⟨_, vs, hl, _⟩ := fire_eq_some hf
      intro d hd
      obtain ⟨v, hv⟩ := lookupAll_eq_some hl d hd
      have := (fires_exactly_once tg p ep hp).2 d
      exact this.mp (by simp [hv])

/-- The value a task fires with is its function applied to the values of the
    keys it mentions, in the listed order, as they are in the final state. -/
theorem fired_value (tg : TaskGraph κ V) (s : List κ) (e : Env κ V) (k : κ) (v : V)
    (hrun : runSeq tg Env.empty s = some e) (hk : e k = some v) :
    ∃ vs, lookupAll e (tg.deps k) = some vs ∧ v = tg.fn k vs := by
  have hden := schedule_sound tg s e k v hrun hk
  -- the reference value unfolds one step; its arguments are themselves reference values
  obtain ⟨hnd, hiff⟩ := fires_exactly_once tg s e hrun
  have hmem : k ∈ s := (hiff k).mp (by simp [hk])
  obtain ⟨p, q, rfl⟩ := List.append_of_mem hmem
  have hrun' := hrun
  rw [runSeq_append] at hrun'
  cases hp : runSeq tg Env.empty p with
  | none => simp [hp] at hrun'
  | some ep =>
    simp only [hp, Option.bind, runSeq] at hrun'
    cases hf : fire tg ep k with
    | none => simp [hf] at hrun'
    | some e1 =>
      simp only [hf] at hrun'
      obtain ⟨_, vs, hl, he1⟩ := fire_eq_some hf
      -- values never change once set: ep ≤ e
      have hle : ∀ x w, ep x = some w → e x = some w := by
        intro x w hx
        have hx1 : e1 x = some w := by
          subst he1; unfold Env.set
          by_cases hxk : x = k
          · subst hxk
            obtain ⟨hk0, _⟩ := fire_eq_some hf
            rw [hk0] at hx; cases hx
          · simp [hxk, hx]
        exact runSeq_keeps q e1 e hrun' x w hx1
      have hkv : e k = some (tg.fn k vs) := by
        apply runSeq_keeps q e1 e hrun'
        subst he1; simp [Env.set]
      rw [hk] at hkv
      exact ⟨vs, lookupAll_mono hle hl, Option.some.inj hkv⟩

/-- A sequence in which every key comes after the keys it mentions, without
    repetition, is admissible — so for a DAG (which has such an order of ALL
    its keys) sequential evaluation in topological order is one of the
    schedules, and by `schedule_independent` every other schedule agrees with it. -/
theorem topological_order_admissible (tg : TaskGraph κ V) (s : List κ) (hnd : s.Nodup)
    (htopo : ∀ p k q, s = p ++ k :: q → ∀ d ∈ tg.deps k, d ∈ p) :
    ∃ e, runSeq tg Env.empty s = some e ∧ ∀ k ∈ s, (e k).isSome := by
  obtain ⟨e, he⟩ := runSeq_topo tg s Env.empty hnd (by intro k _; rfl)
    (by intro p k q h d hd; exact Or.inr (htopo p k q h d hd))
  refine ⟨e, he, ?_⟩
  intro k hk
  exact ((fires_exactly_once tg s e he).2 k).mpr hk

/-- `evalAlong` (the sequential evaluator used by `topoEval`) is itself an
    admissible schedule, hence agrees with every other schedule. -/
theorem topoEval_agrees (tg : TaskGraph κ V) (order s : List κ) (e : Env κ V) (k : κ) (v w : V)
    (hrun : runSeq tg Env.empty s = some e) (hk : e k = some v)
    (hw : evalAlong tg Env.empty order k = some w) : v = w := by
  obtain ⟨s', _, hs'⟩ := evalAlong_schedule tg order Env.empty
  exact schedule_independent tg s s' e _ k v w hrun hs' hk hw

end

/-! ## as_dask_dict -/

/-- **single_sink_required**: `as_dask_dict` refuses exactly the workflows whose
    number of output tasks is not one. -/
theorem single_sink_required (tb : Table) (g : DiGraph) :
    (∃ d, asDaskDict tb g = .ok d) ↔ g.outputNodes.length = 1 := by
  unfold asDaskDict
  cases h : g.outputNodes with
  | nil => simp
  | cons a as =>
    cases as with
    | nil => simp
    | cons b bs => simp

/-- **dask_dict_faithful**: one entry per task, in node order; the keys are
    pairwise distinct; the output task — and only it — has key `'results'`;
    the value of every task is `(function, *static inputs, *keys of its
    predecessors in predecessor order)`. -/
theorem dask_dict_faithful (tb : Table) (g : DiGraph) (d : List Entry) (hnd : g.nodes.Nodup)
    (h : asDaskDict tb g = .ok d) :
    ∃ sink, g.outputNodes = [sink] ∧
      d.map (·.key) = g.nodes.map (keyOf sink) ∧
      (d.map (·.key)).Nodup ∧
      (∀ t, keyOf sink t = .results ↔ t = sink) ∧
      d = g.nodes.map (fun t => ⟨keyOf sink t, tb.get t, (g.predOf t).map (keyOf sink)⟩) := by
  unfold asDaskDict at h
  cases ho : g.outputNodes with
  | nil => simp [ho] at h
  | cons sink rest =>
    cases rest with
    | cons b bs => simp [ho] at h
    | nil =>
      simp only [ho, Except.ok.injEq] at h
      subst h
      refine ⟨sink, rfl, by simp [List.map_map, Function.comp_def], ?_, ?_, rfl⟩
      · simp only [List.map_map, Function.comp_def]
        rw [List.Nodup, List.pairwise_map]
        exact hnd.imp (fun hne heq => hne (keyOf_inj sink _ _ heq))
      · intro t
        unfold keyOf
        by_cases ht : t = sink <;> simp [ht]

/-! ## Static inputs: dask's graph-literal rules -/

/-- **static_inputs_literal_partial**: when no static input of any task is a
    dask graph literal (a `str` equal to the key `'results'`, a tuple headed by
    a callable, a list containing one), the graph dask evaluates IS the graph
    of the property: same dependencies (the predecessor keys, in order) and
    each function receives its static inputs as declared followed by the
    predecessor values. -/
theorem static_inputs_literal_partial (d : List Entry)
    (hsafe : ∀ e ∈ d, ∀ a ∈ e.task.static, a.hazard = false) :
    daskGraph d = specGraph d := by
  have hentry : ∀ e ∈ d, e.deps = e.preds ∧ ∀ vals, e.apply vals = e.applySpec vals := by
    intro e he
    have hk : e.task.static.flatMap SArg.keys = [] := by
      simp only [List.flatMap_eq_nil_iff]
      exact fun a ha => (sarg_safe none a (hsafe e he a ha)).1
    constructor
    · simp [Entry.deps, hk]
    · intro vals
      simp only [Entry.apply, Entry.applySpec, hk, List.length_nil, if_true, List.drop_zero]
      rw [List.map_congr_left (fun a ha => (sarg_safe none a (hsafe e he a ha)).2)]
  unfold daskGraph specGraph
  congr 1
  · funext k
    cases hf : Entry.find d k with
    | none => rfl
    | some e =>
      have he : e ∈ d := List.mem_of_find?_eq_some hf
      simp [(hentry e he).1]
  · funext k vals
    cases hf : Entry.find d k with
    | none => rfl
    | some e =>
      have he : e ∈ d := List.mem_of_find?_eq_some hf
      simp [(hentry e he).2]

/-- Consequence: without graph literals every admissible schedule of dask's
    graph yields, at every key it fires, the property's reference value. -/
theorem execution_matches_spec (d : List Entry)
    (hsafe : ∀ e ∈ d, ∀ a ∈ e.task.static, a.hazard = false)
    (s : List Key) (env : Env Key String) (k : Key) (v : String)
    (hrun : runSeq (daskGraph d) Env.empty s = some env) (hk : env k = some v) :
    den (specGraph d) s.length k = some v := by
  rw [static_inputs_literal_partial d hsafe] at hrun
  exact schedule_sound _ s env k v hrun hk

/-- The full statement is FALSE of the unchanged code (F7).  Witness: task 0
    with the static input `'results'` feeding the output task 1.  The property's
    evaluation has a value; in dask's reading task 0 depends on `'results'`,
    which depends on task 0: no firing order reaches `'results'` (dask raises
    `RuntimeError: Cycle detected`). -/
def f7Dict : List Entry :=
  [⟨.task 0, ⟨0, false, [.atom (.s "results")]⟩, []⟩, ⟨.results, ⟨1, false, []⟩, [.task 0]⟩]

theorem static_splice_witness :
    (topoEval f7Dict).isSome = true ∧ (match (daskGet f7Dict).1 with | .error .cycle => true | _ => false) = true ∧
    (daskGraph f7Dict).deps (.task 0) = [.results] ∧ (specGraph f7Dict).deps (.task 0) = [] := by
  refine ⟨by decide, by decide, by decide, by decide⟩

/-- … and a static tuple headed by a callable is a hazard (it is executed),
    so the partial theorem's hypothesis excludes it. -/
theorem static_call_is_hazard (g : Nat) (args : List String) :
    (SArg.atom (.call g args)).hazard = true ∧ (SArg.list [.s "x", .call g args]).hazard = true := by
  simp [SArg.hazard, Atom.hazard]

/-! ## Predecessor order: what `execute_workflow` hands to the dispatcher -/

/-- `G.copy()` (done by `Workflow(builder)` and `WorkflowBuilder(workflow)`)
    keeps nodes, node order, the edge set and well-formedness, and leaves every
    predecessor list in node order. -/
theorem copy_exact (g : DiGraph) (h : WF g) :
    WF g.copy ∧ g.copy.nodes = g.nodes ∧ (∀ e, e ∈ g.copy.edges ↔ e ∈ g.edges) ∧
    ∀ v, (g.copy.predOf v).Sublist g.copy.nodes :=
  ⟨copy_wf h, rfl, fun _ => copy_edges_mem h, fun v => copy_pred_sublist h.nodupEdges v⟩

/-- **pred_order_after_relabel**: for every well-formed workflow graph (any
    size) and any table of tasks, the workflow that `execute_workflow` hands to
    the dispatcher (copy, relabel-every-task pass, `insert_context`, copy)
    * is well formed,
    * lists, in node order, the ORIGINAL tasks in their original order with the
      context-taking tasks stably moved to the end (and given the context),
    * has every predecessor list in that node order.
    So a task receives the results of its predecessors in the order in which
    they entered the workflow, EXCEPT that predecessors whose function takes
    `context` come after those that do not. -/
theorem pred_order_after_relabel (st : St) (g : DiGraph) (hwf : WF g)
    (hfresh : ∀ x ∈ g.nodes, x < st.next) :
    WF (executedWorkflow st g).2 ∧
    (executedWorkflow st g).2.nodes.map (executedWorkflow st g).1.tb.get =
      (ctxLast (g.nodes.map st.tb.get)).map withCtx ∧
    ∀ v, ((executedWorkflow st g).2.predOf v).Sublist (executedWorkflow st g).2.nodes := by
  rw [executedWorkflow_eq]
  obtain ⟨hwf1, hnodes1, hnext1, hmap1⟩ := relabelPass_spec st g hwf hfresh
  have hfresh1 : ∀ x ∈ (relabelPass st g).2.nodes, x < (relabelPass st g).1.next := by
    intro x hx
    rw [hnodes1] at hx
    rw [hnext1]
    simp at hx
    omega
  obtain ⟨hwf2, hmap2, _⟩ := insertContext_spec _ _ hwf1 hfresh1
  refine ⟨copy_wf hwf2, ?_, fun v => copy_pred_sublist hwf2.nodupEdges v⟩
  simp only [copy_nodes]
  rw [hmap2, hmap1, map_withCtx_ctxLast]

/-- The same for the workflow `call_workflow` submits (copy, `insert_context`, copy). -/
theorem pred_order_call_workflow (st : St) (g : DiGraph) (hwf : WF g)
    (hfresh : ∀ x ∈ g.nodes, x < st.next) :
    WF (calledWorkflow st g).2 ∧
    (calledWorkflow st g).2.nodes.map (calledWorkflow st g).1.tb.get =
      (ctxLast (g.nodes.map st.tb.get)).map withCtx ∧
    ∀ v, ((calledWorkflow st g).2.predOf v).Sublist (calledWorkflow st g).2.nodes := by
  have heq : calledWorkflow st g = ((insertContext st g.copy).1, (insertContext st g.copy).2.copy) := rfl
  rw [heq]
  obtain ⟨hwf2, hmap2, _⟩ := insertContext_spec st g.copy (copy_wf hwf) hfresh
  refine ⟨copy_wf hwf2, ?_, fun v => copy_pred_sublist hwf2.nodupEdges v⟩
  simp only [copy_nodes] at hmap2 ⊢
  rw [hmap2, map_withCtx_ctxLast]

/-- **pred_order_entered_partial**: when no context-taking task entered the
    workflow before a task that does not take it (decidable: the stable
    partition is the identity — e.g. no task or every task takes the context),
    the executed workflow lists the tasks exactly in entering order. -/
theorem pred_order_entered_partial (st : St) (g : DiGraph) (hwf : WF g)
    (hfresh : ∀ x ∈ g.nodes, x < st.next)
    (hsorted : ctxLast (g.nodes.map st.tb.get) = g.nodes.map st.tb.get) :
    (executedWorkflow st g).2.nodes.map (executedWorkflow st g).1.tb.get =
      (g.nodes.map st.tb.get).map withCtx := by
  rw [(pred_order_after_relabel st g hwf hfresh).2.1, hsorted]

/-- The full statement ("in the order in which the predecessor tasks entered
    the workflow") is FALSE of the unchanged code.  Witness: tasks enter in the
    order 1 (takes `context`), 0, 2 and task 2 depends on both; the executed
    workflow lists 0, 2, 1 and task 2's predecessors are (0, 1): task 2 receives
    task 0's result before task 1's although task 1 entered first. -/
def ctxWitnessTable : Table := [(0, ⟨0, false, []⟩), (1, ⟨1, true, []⟩), (2, ⟨2, false, []⟩)]
def ctxWitnessGraph : DiGraph := ⟨[1, 0, 2], [(1, 2), (0, 2)]⟩

theorem pred_order_context_witness :
    let r := executedWorkflow ⟨ctxWitnessTable, 1000⟩ ctxWitnessGraph
    ctxWitnessGraph.predOf 2 = [1, 0] ∧
    r.2.nodes.map (fun t => (r.1.tb.get t).name) = [0, 2, 1] ∧
    (r.2.nodes.flatMap (fun t => if (r.1.tb.get t).name = 2 then (r.2.predOf t).map (fun p => (r.1.tb.get p).name) else []))
      = [0, 1] := by
  decide

/-! ## Builder operations keep exactly the declared tasks and edges -/

/-- **builder_ops_exact (add_task)**: afterwards the tasks are the old ones, the
    added one and the named predecessors; the edges are the old ones and one
    edge from every named predecessor; old tasks keep their positions. -/
theorem add_task_exact (g : DiGraph) (t : Nat) (ps : List Nat) (h : WF g) :
    WF (addTask g t (some ps)) ∧
    (∀ x, x ∈ (addTask g t (some ps)).nodes ↔ x ∈ g.nodes ∨ x = t ∨ x ∈ ps) ∧
    (∀ e, e ∈ (addTask g t (some ps)).edges ↔ e ∈ g.edges ∨ ∃ p ∈ ps, e = (p, t)) := by
  rw [addTask_fold]
  refine ⟨addEdgesFrom_wf _ _ (addNode_wf h), ?_, ?_⟩
  · intro x
    rw [addEdgesFrom_nodes_mem, addNode_nodes_mem]
    constructor
    · rintro ((h1 | h1) | ⟨e, he, h1⟩)
      · exact Or.inl h1
      · exact Or.inr (Or.inl h1)
      · obtain ⟨p, hp, rfl⟩ := List.mem_map.mp he
        rcases h1 with h1 | h1
        · exact Or.inr (Or.inr (h1 ▸ hp))
        · exact Or.inr (Or.inl h1)
    · rintro (h1 | h1 | h1)
      · exact Or.inl (Or.inl h1)
      · exact Or.inl (Or.inr h1)
      · exact Or.inr ⟨(x, t), List.mem_map.mpr ⟨x, h1, rfl⟩, Or.inl rfl⟩
  · intro e
    rw [addEdgesFrom_edges_mem, addNode_edges]
    simp only [List.mem_map]
    constructor
    · rintro (h1 | ⟨p, hp, rfl⟩)
      · exact Or.inl h1
      · exact Or.inr ⟨p, hp, rfl⟩
    · rintro (h1 | ⟨p, hp, rfl⟩)
      · exact Or.inl h1
      · exact Or.inr ⟨p, hp, rfl⟩

theorem add_task_no_preds (g : DiGraph) (t : Nat) (h : WF g) :
    WF (addTask g t none) ∧ (∀ x, x ∈ (addTask g t none).nodes ↔ x ∈ g.nodes ∨ x = t) ∧
    (addTask g t none).edges = g.edges :=
  ⟨addNode_wf h, fun _ => addNode_nodes_mem, addNode_edges⟩

/-- **builder_ops_exact (replace_task)** with a new task object: the replaced
    task is gone, the new one is LAST in node order, all other tasks keep their
    order, and the edges are exactly the old edges with the task renamed.
    Replacing a task that is not in the workflow, or by itself, changes nothing. -/
theorem replace_task_exact (g : DiGraph) (old new : Nat) (h : WF g) (ho : old ∈ g.nodes) (hn : new ∉ g.nodes) :
    WF (replaceTask g old new) ∧
    (replaceTask g old new).nodes = g.nodes.filter (fun x => x != old) ++ [new] ∧
    (∀ e, e ∈ (replaceTask g old new).edges ↔ ∃ e0 ∈ g.edges, e = (ren old new e0.1, ren old new e0.2)) :=
  ⟨relabel1_wf h, relabel1_nodes_fresh h ho hn,
   fun _ => relabel1_edges_mem h ho (fun heq => hn (by rw [heq]; exact ho))⟩

theorem replace_task_noop (g : DiGraph) (old new : Nat) (h : old ∉ g.nodes ∨ new = old) :
    replaceTask g old new = g := by
  unfold replaceTask relabel1
  rcases h with h | h
  · simp [h]
  · simp [h]

/-- The connection rule of `insert_workflow`: N:N pairs up in order, 1 input
    takes every output, 1 output feeds every input, anything else is refused. -/
theorem connect_rule (outs ins : List Nat) :
    (ins.length = outs.length → connectEdges outs ins = .ok ((ins.zip outs).map (fun p => (p.2, p.1)))) ∧
    (∀ i, ins = [i] → outs.length ≠ 1 → connectEdges outs ins = .ok (outs.map (fun o => (o, i)))) ∧
    (∀ o, outs = [o] → ins.length ≠ 1 → connectEdges outs ins = .ok (ins.map (fun i => (o, i)))) ∧
    (ins.length ≠ outs.length → ins.length ≠ 1 → outs.length ≠ 1 → connectEdges outs ins = .error .valueError) := by
  refine ⟨?_, ?_, ?_, ?_⟩
  · intro h; simp [connectEdges, h]
  · rintro i rfl h
    have : ¬ (1 = outs.length) := fun h' => h h'.symm
    simp [connectEdges, this]
  · rintro o rfl h
    have h' : ¬ (ins.length = 1) := h
    unfold connectEdges
    simp only [List.length_cons, List.length_nil, Nat.zero_add, beq_iff_eq, h', if_false]
    cases ins with
    | nil => rfl
    | cons a as =>
      cases as with
      | nil => simp at h
      | cons b bs => rfl
  · intro h1 h2 h3
    unfold connectEdges
    simp only [beq_iff_eq, h1, if_false]
    cases ins with
    | nil =>
      cases outs with
      | nil => simp at h1
      | cons o os =>
        cases os with
        | nil => simp at h3
        | cons _ _ => rfl
    | cons a as =>
      cases as with
      | nil => simp at h2
      | cons b bs =>
        cases outs with
        | nil => rfl
        | cons o os =>
          cases os with
          | nil => simp at h3
          | cons _ _ => rfl

/-- **builder_ops_exact (insert_workflow)**: when the connection is accepted,
    the tasks are those of both workflows (plus named predecessors), the edges
    those of both workflows plus exactly the connecting edges of the rule. -/
theorem insert_workflow_exact (g other : DiGraph) (preds : Option (List Nat)) (es : List (Nat × Nat))
    (hg : WF g) (ho : WF other)
    (hc : connectEdges (insertOuts g preds) other.inputNodes = .ok es) :
    (insertWorkflow g other preds).2 = none ∧
    WF (insertWorkflow g other preds).1 ∧
    (∀ x, x ∈ (insertWorkflow g other preds).1.nodes ↔
      x ∈ g.nodes ∨ x ∈ other.nodes ∨ ∃ e ∈ es, x = e.1 ∨ x = e.2) ∧
    (∀ e, e ∈ (insertWorkflow g other preds).1.edges ↔ e ∈ g.edges ∨ e ∈ other.edges ∨ e ∈ es) := by
  unfold insertWorkflow
  simp only [hc]
  refine ⟨trivial, addEdgesFrom_wf _ _ compose_wf, ?_, ?_⟩
  · intro x
    rw [addEdgesFrom_nodes_mem, compose_nodes_mem hg ho, or_assoc]
  · intro e
    rw [addEdgesFrom_edges_mem, compose_edges_mem hg ho, or_assoc]

/-- **insert_workflow_refusal_atomic**: a refused insertion (`ValueError`) leaves
    the builder exactly as it was (repaired by f697869; before, the builder had
    already been replaced by the composition). -/
theorem insert_workflow_refusal_atomic (g other : DiGraph) (preds : Option (List Nat)) (e : Err)
    (hc : connectEdges (insertOuts g preds) other.inputNodes = .error e) :
    insertWorkflow g other preds = (g, some e) := by
  unfold insertWorkflow
  simp only [hc]

/-- **insert_workflow_full**: the complete contract.  Either the connection is
    N:M with N ≠ M, N ≠ 1, M ≠ 1 — then `ValueError` and the builder is unchanged —
    or the insertion is accepted, the result is well formed, its tasks are those of
    both workflows plus the named predecessors, and its edges are those of both
    workflows plus exactly the connecting edges of `connect_rule`. -/
theorem insert_workflow_full (g other : DiGraph) (preds : Option (List Nat)) (hg : WF g) (ho : WF other) :
    (other.inputNodes.length ≠ (insertOuts g preds).length ∧ other.inputNodes.length ≠ 1 ∧
        (insertOuts g preds).length ≠ 1 ∧ insertWorkflow g other preds = (g, some .valueError)) ∨
    (∃ es, connectEdges (insertOuts g preds) other.inputNodes = .ok es ∧
      (insertWorkflow g other preds).2 = none ∧ WF (insertWorkflow g other preds).1 ∧
      (∀ x, x ∈ (insertWorkflow g other preds).1.nodes ↔
        x ∈ g.nodes ∨ x ∈ other.nodes ∨ ∃ e ∈ es, x = e.1 ∨ x = e.2) ∧
      (∀ e, e ∈ (insertWorkflow g other preds).1.edges ↔ e ∈ g.edges ∨ e ∈ other.edges ∨ e ∈ es)) := by
  cases hc : connectEdges (insertOuts g preds) other.inputNodes with
  | ok es => exact Or.inr ⟨es, rfl, insert_workflow_exact g other preds es hg ho hc⟩
  | error e =>
    left
    obtain ⟨r1, r2, r3, r4⟩ := connect_rule (insertOuts g preds) other.inputNodes
    have h1 : other.inputNodes.length ≠ (insertOuts g preds).length := by
      intro h; rw [r1 h] at hc; cases hc
    have h2 : other.inputNodes.length ≠ 1 := by
      intro h
      cases hi : other.inputNodes with
      | nil => simp [hi] at h
      | cons i rest =>
        cases rest with
        | cons _ _ => simp [hi] at h
        | nil =>
          have : (insertOuts g preds).length ≠ 1 := by
            intro h'; apply h1; rw [hi]; simpa using h'.symm
          rw [r2 i hi this] at hc; cases hc
    have h3 : (insertOuts g preds).length ≠ 1 := by
      intro h
      cases ho' : insertOuts g preds with
      | nil => simp [ho'] at h
      | cons o rest =>
        cases rest with
        | cons _ _ => simp [ho'] at h
        | nil => rw [r3 o ho' h2] at hc; cases hc
    have he : e = .valueError := by
      have := r4 h1 h2 h3
      rw [this] at hc; cases hc; rfl
    subst he
    exact ⟨h1, h2, h3, insert_workflow_refusal_atomic g other preds _ hc⟩

/-- Non-vacuity of the refusal branch: a 2:3 connection is refused and nothing changes. -/
theorem insert_refusal_atomic_witness :
    let g : DiGraph := ⟨[0, 1], []⟩
    let other : DiGraph := ⟨[2, 3, 4], []⟩
    insertWorkflow g other none = (g, some .valueError) := by
  decide

/-- **builder_ops_exact (insert_context)**: the result is well formed; listed in
    node order its tasks are the tasks that do not take the context (unchanged,
    original order) followed by the context-taking ones (original order) with the
    context prepended to their static inputs; the edges are exactly the old
    edges under the renaming of the replaced tasks, and that renaming fixes
    every task that does not take the context. -/
theorem insert_context_exact (st : St) (g : DiGraph) (hwf : WF g) (hfresh : ∀ x ∈ g.nodes, x < st.next) :
    WF (insertContext st g).2 ∧
    (insertContext st g).2.nodes.map (insertContext st g).1.tb.get = (ctxLast (g.nodes.map st.tb.get)).map withCtx ∧
    (∀ e, e ∈ (insertContext st g).2.edges ↔ ∃ e0 ∈ g.edges,
      e = (renSeq (ctxPairs st g) e0.1, renSeq (ctxPairs st g) e0.2)) ∧
    ∀ x, (st.tb.get x).takesCtx = false → renSeq (ctxPairs st g) x = x := by
  obtain ⟨h1, h2, h3⟩ := insertContext_spec st g hwf hfresh
  refine ⟨h1, by rw [h2, map_withCtx_ctxLast], h3, ?_⟩
  intro x hx
  apply renSeq_other
  unfold ctxPairs
  rw [zip_range_fst]
  intro hm
  have := (List.mem_filter.mp hm).2
  simp [hx] at this

/-! ## output_tasks / input_tasks, and composing after a replacement -/

/-- **output_tasks_are_sinks**: `output_tasks` is, in node order, exactly the
    tasks of the CURRENT graph without outgoing edge; `input_tasks` those without
    incoming edge — whatever operations produced the graph. -/
theorem output_tasks_are_sinks (g : DiGraph) :
    (∀ x, x ∈ g.outputNodes ↔ x ∈ g.nodes ∧ ∀ y, (x, y) ∉ g.edges) ∧ g.outputNodes.Sublist g.nodes ∧
    (∀ x, x ∈ g.inputNodes ↔ x ∈ g.nodes ∧ ∀ y, (y, x) ∉ g.edges) ∧ g.inputNodes.Sublist g.nodes :=
  ⟨fun _ => mem_outputNodes, List.filter_sublist, fun _ => mem_inputNodes, List.filter_sublist⟩

/-- **replace_task_outputs**: after `replace_task(old, new)` (new task object)
    the replaced task is no output task any more; the new task is one iff the
    old one was; every other task keeps its status. -/
theorem replace_task_outputs (g : DiGraph) (old new : Nat) (h : WF g) (ho : old ∈ g.nodes) (hn : new ∉ g.nodes) :
    ∀ x, x ∈ (replaceTask g old new).outputNodes ↔
      (x ∈ g.outputNodes ∧ x ≠ old) ∨ (x = new ∧ old ∈ g.outputNodes) := by
  obtain ⟨_, hnodes, hedges⟩ := replace_task_exact g old new h ho hn
  have hne : new ≠ old := fun heq => hn (heq ▸ ho)
  intro x
  rw [mem_outputNodes, hnodes]
  simp only [List.mem_append, List.mem_filter, List.mem_singleton, bne_iff_ne, ne_eq]
  constructor
  · rintro ⟨hx, hs⟩
    rcases hx with ⟨hxg, hxo⟩ | rfl
    · left
      refine ⟨mem_outputNodes.mpr ⟨hxg, fun y hy => ?_⟩, hxo⟩
      exact hs (ren old new y) ((hedges _).mpr ⟨(x, y), hy, by simp [ren, hxo]⟩)
    · right
      refine ⟨rfl, mem_outputNodes.mpr ⟨ho, fun y hy => ?_⟩⟩
      exact hs (ren old x y) ((hedges _).mpr ⟨(old, y), hy, by simp [ren]⟩)
  · rintro (⟨hx, hxo⟩ | ⟨rfl, hold⟩)
    · obtain ⟨hxg, hs⟩ := mem_outputNodes.mp hx
      refine ⟨Or.inl ⟨hxg, hxo⟩, fun y hy => ?_⟩
      obtain ⟨⟨a, b⟩, he0, heq⟩ := (hedges _).mp hy
      simp only [Prod.mk.injEq] at heq
      have ha : a = x := by
        by_cases hao : a = old
        · subst hao
          have : x = new := by simpa [ren] using heq.1
          subst this
          exact absurd hxg hn
        · simpa [ren, hao] using heq.1.symm
      subst ha
      exact hs b he0
    · obtain ⟨_, hs⟩ := mem_outputNodes.mp hold
      refine ⟨Or.inr rfl, fun y hy => ?_⟩
      obtain ⟨⟨a, b⟩, he0, heq⟩ := (hedges _).mp hy
      simp only [Prod.mk.injEq] at heq
      by_cases hao : a = old
      · subst hao; exact hs b he0
      · have : x = a := by simpa [ren, hao] using heq.1
        subst this
        exact hn (h.closed _ he0).1

/-- **insert_workflow_default_exact**: with `predecessors=None` an accepted
    insertion has EXACTLY the tasks of the two workflows (no other task can
    appear), and every connecting edge goes from a current output task of the
    builder to an input task of the inserted workflow. -/
theorem insert_workflow_default_exact (g other : DiGraph) (es : List (Nat × Nat)) (hg : WF g) (ho : WF other)
    (hc : connectEdges (insertOuts g none) other.inputNodes = .ok es) :
    (∀ x, x ∈ (insertWorkflow g other none).1.nodes ↔ x ∈ g.nodes ∨ x ∈ other.nodes) ∧
    (∀ e, e ∈ (insertWorkflow g other none).1.edges ↔ e ∈ g.edges ∨ e ∈ other.edges ∨ e ∈ es) ∧
    (∀ e ∈ es, e.1 ∈ g.outputNodes ∧ e.2 ∈ other.inputNodes) := by
  obtain ⟨_, _, hn, he⟩ := insert_workflow_exact g other none es hg ho hc
  have hep := connectEdges_endpoints hc
  refine ⟨?_, he, hep⟩
  intro x
  rw [hn]
  constructor
  · rintro (h1 | h1 | ⟨e, hee, h1⟩)
    · exact Or.inl h1
    · exact Or.inr h1
    · rcases h1 with rfl | rfl
      · exact Or.inl (mem_outputNodes.mp (hep e hee).1).1
      · exact Or.inr (mem_inputNodes.mp (hep e hee).2).1
  · rintro (h1 | h1)
    · exact Or.inl h1
    · exact Or.inr (Or.inl h1)

/-- **add_task_to_outputs_exact**: `add_task(t, predecessors=wb.output_tasks)`
    adds only `t`, and exactly one edge from every current output task. -/
theorem add_task_to_outputs_exact (g : DiGraph) (t : Nat) (h : WF g) :
    WF (addTaskToOutputs g t) ∧
    (∀ x, x ∈ (addTaskToOutputs g t).nodes ↔ x ∈ g.nodes ∨ x = t) ∧
    (∀ e, e ∈ (addTaskToOutputs g t).edges ↔ e ∈ g.edges ∨ ∃ p ∈ g.outputNodes, e = (p, t)) := by
  obtain ⟨hw, hn, he⟩ := add_task_exact g t g.outputNodes h
  refine ⟨hw, ?_, he⟩
  intro x
  unfold addTaskToOutputs
  rw [hn]
  constructor
  · rintro (h1 | h1 | h1)
    · exact Or.inl h1
    · exact Or.inr h1
    · exact Or.inl (mem_outputNodes.mp h1).1
  · rintro (h1 | h1)
    · exact Or.inl h1
    · exact Or.inr (Or.inl h1)

/-- **compose_after_replace_exact**: a task that was replaced never comes back —
    neither through `insert_workflow(other)` with `predecessors=None` nor through
    `add_task(t, predecessors=wb.output_tasks)` — for every well-formed builder
    graph, every replaced task and every inserted workflow not containing it. -/
theorem compose_after_replace_exact (g other : DiGraph) (old new t : Nat) (hg : WF g) (hoth : WF other)
    (ho : old ∈ g.nodes) (hn : new ∉ g.nodes) (hoo : old ∉ other.nodes) (ht : t ≠ old) :
    old ∉ (insertWorkflow (replaceTask g old new) other none).1.nodes ∧
    old ∉ (addTaskToOutputs (replaceTask g old new) t).nodes := by
  obtain ⟨hw, hnodes, _⟩ := replace_task_exact g old new hg ho hn
  have hne : new ≠ old := fun heq => hn (heq ▸ ho)
  have hold : old ∉ (replaceTask g old new).nodes := by
    rw [hnodes]; simp [hne.symm]
  constructor
  · cases hc : connectEdges (insertOuts (replaceTask g old new) none) other.inputNodes with
    | error e =>
      rw [insert_workflow_refusal_atomic _ _ _ e hc]; exact hold
    | ok es =>
      rw [(insert_workflow_default_exact _ other es hw hoth hc).1]
      exact fun h => h.elim hold hoo
  · rw [(add_task_to_outputs_exact _ t hw).2.1]
    exact fun h => h.elim hold (fun h' => ht h'.symm)

/-! ## Tasks are identified by identity: composition never merges declared tasks -/

/-- **task_identity_is_object_identity** (obligation re-checked against
    `workflows/task.py` / `internals/immutable.py` on every run through
    `Generated/C17Task.lean`): neither `Task` nor `Immutable` defines a comparison or
    hash method, `Task` has no class decorator, no metaclass and no other base — so
    the graph keys nodes by object identity, which is what the model's node ids are. -/
theorem task_identity_is_object_identity : Generated.identityBreakers = [] := by decide

/-- **add_task_keeps_all_tasks**: adding a task that is not yet in the workflow
    always makes the workflow one task larger — whatever its name, function and
    static inputs are (the graph operations never look at the task table, so two
    distinct tasks that are equal by value stay two tasks). -/
theorem add_task_keeps_all_tasks (g : DiGraph) (t : Nat) (ht : t ∉ g.nodes) :
    (addTask g t none).nodes = g.nodes ++ [t] ∧ (addTask g t none).nodes.length = g.nodes.length + 1 := by
  have : (addTask g t none).nodes = g.nodes ++ [t] := addNode_of_not_mem ht
  exact ⟨this, by rw [this]; simp⟩

/-- **compose_keeps_all_tasks**: `+` / `nx.compose` of workflows with disjoint task
    identities has exactly |tasks(G)| + |tasks(H)| tasks, G's then H's. -/
theorem compose_keeps_all_tasks (g h : DiGraph) (hg : WF g) (hh : WF h) (hdis : ∀ x ∈ g.nodes, x ∉ h.nodes) :
    (plus g h).nodes = g.nodes ++ h.nodes ∧ (plus g h).nodes.length = g.nodes.length + h.nodes.length := by
  have := compose_nodes_disjoint hg hh hdis
  exact ⟨this, by unfold plus; rw [this]; simp⟩

/-- **insert_workflow_keeps_all_tasks**: an accepted `insert_workflow(other)`
    (predecessors=None) of a workflow with other task identities — e.g. the same
    sub-workflow template instantiated a second time — has exactly the sum of the
    declared tasks, in order; a refused one keeps the builder's tasks. -/
theorem insert_workflow_keeps_all_tasks (g other : DiGraph) (hg : WF g) (ho : WF other)
    (hdis : ∀ x ∈ g.nodes, x ∉ other.nodes) :
    ((insertWorkflow g other none).2 = none ∧ (insertWorkflow g other none).1.nodes = g.nodes ++ other.nodes) ∨
    ((insertWorkflow g other none).2 ≠ none ∧ (insertWorkflow g other none).1.nodes = g.nodes) := by
  cases hc : connectEdges (insertOuts g none) other.inputNodes with
  | error e =>
    right
    rw [insert_workflow_refusal_atomic _ _ _ e hc]
    exact ⟨by simp, rfl⟩
  | ok es =>
    left
    have hn := compose_nodes_disjoint hg ho hdis
    have hep := connectEdges_endpoints hc
    unfold insertWorkflow
    simp only [hc]
    refine ⟨trivial, ?_⟩
    rw [addEdgesFrom_nodes_of_closed, hn]
    intro e he
    rw [hn]
    exact ⟨List.mem_append_left _ (mem_outputNodes.mp (hep e he).1).1,
           List.mem_append_right _ (mem_inputNodes.mp (hep e he).2).1⟩

/-- **dask_dict_one_entry_per_task**: for EVERY task table (also one in which
    several node ids carry the same name, function and static inputs) the dask
    dict has one entry per task and pairwise distinct keys. -/
theorem dask_dict_one_entry_per_task (tb : Table) (g : DiGraph) (d : List Entry) (hnd : g.nodes.Nodup)
    (h : asDaskDict tb g = .ok d) : d.length = g.nodes.length ∧ (d.map (·.key)).Nodup := by
  obtain ⟨sink, _, hk, hnd', _, _⟩ := dask_dict_faithful tb g d hnd h
  refine ⟨?_, hnd'⟩
  have := congrArg List.length hk
  simpa using this

/-! ## Several graphs on one scheduler: `call_workflow` from inside a running workflow -/

/-- **scheduler_keys_distinct**: when any number of graphs are live on one
    scheduler — the parent submitted by `run`, children (and grandchildren,
    siblings …) submitted by `call_workflow` under pairwise distinct
    `unique_name`s — all keys the scheduler sees are pairwise distinct, PROVIDED
    every `as_dask_dict` call draws fresh keys (distinct `inst`: the uuid4
    freshness assumption, keys injective in (graph instance, task)) — whatever the
    task names and positions in the individual graphs are. -/
theorem scheduler_keys_distinct (subs : List Submission)
    (hfresh : (subs.map (·.inst)).Nodup)
    (hnames : (subs.map (·.rename)).Nodup)
    (hdict : ∀ s ∈ subs, (s.dict.map (·.key)).Nodup) :
    (schedulerKeys subs).Nodup := by
  unfold schedulerKeys
  rw [List.Nodup, List.pairwise_flatMap]
  constructor
  · intro s hs
    unfold Submission.keys
    rw [List.pairwise_map]
    have := hdict s hs
    rw [List.Nodup, List.pairwise_map] at this
    exact this.imp (fun hne heq => hne (Submission.key_inj s _ _ heq))
  · rw [List.Nodup, List.pairwise_map] at hfresh hnames
    refine (hfresh.and hnames).imp ?_
    rintro a b ⟨hi, hr⟩ x hx y hy hxy
    unfold Submission.keys at hx hy
    obtain ⟨ea, _, rfl⟩ := List.mem_map.mp hx
    obtain ⟨eb, _, rfl⟩ := List.mem_map.mp hy
    cases hka : ea.key <;> cases hkb : eb.key <;> simp [Submission.key, hka, hkb] at hxy
    · cases hra : a.rename <;> cases hrb : b.rename <;> simp [hra, hrb] at hxy hr
      exact hr hxy
    · cases hra : a.rename <;> simp [hra] at hxy
    · cases hrb : b.rename <;> simp [hrb] at hxy
    · exact hi hxy.1

/-- The freshness assumption is needed: two live graphs whose keys are NOT drawn
    freshly (same `inst`, e.g. keys made of task name and position) share keys as
    soon as they have a task with the same number. -/
theorem scheduler_keys_need_freshness :
    let d : List Entry := [⟨.task 0, ⟨0, false, []⟩, []⟩, ⟨.results, ⟨1, false, []⟩, [.task 0]⟩]
    (schedulerKeys [⟨7, none, d⟩, ⟨7, some 1, d⟩]).Nodup = False ∧
    (schedulerKeys [⟨7, none, d⟩, ⟨8, some 1, d⟩]).Nodup := by
  refine ⟨?_, by decide⟩
  simp only [eq_iff_iff, iff_false]
  decide

/-- **shared_scheduler_sound**: on a scheduler whose (union) graph `tgU` agrees
    with a sub-workflow's own graph `tg` on that sub-workflow's keys `K` (which is
    what distinct keys give: nobody else defines them) and `K` is closed under
    dependencies, every key of the sub-workflow has exactly the value its own
    graph specifies — so `call_workflow` returns the child's own result. -/
theorem shared_scheduler_sound {κ V : Type} (tgU tg : TaskGraph κ V) (K : κ → Prop)
    (hclosed : ∀ k, K k → ∀ d ∈ tg.deps k, K d)
    (hagree : ∀ k, K k → tgU.deps k = tg.deps k ∧ tgU.fn k = tg.fn k) :
    ∀ n k, K k → den tgU n k = den tg n k := by
  intro n
  induction n with
  | zero => intro k _; rfl
  | succ n ih =>
    intro k hk
    simp only [den]
    rw [(hagree k hk).1, (hagree k hk).2,
      lookupAll_congr (fun d hd => ih d (hclosed k hk d hd))]

/-- **builder_ops_exact (`+`)**: the union of tasks and of edges. -/
theorem plus_exact (g h : DiGraph) (hg : WF g) (hh : WF h) :
    WF (plus g h) ∧ (∀ x, x ∈ (plus g h).nodes ↔ x ∈ g.nodes ∨ x ∈ h.nodes) ∧
    (∀ e, e ∈ (plus g h).edges ↔ e ∈ g.edges ∨ e ∈ h.edges) :=
  ⟨compose_wf, fun _ => compose_nodes_mem hg hh, fun _ => compose_edges_mem hg hh⟩

/-! ## One output task: every task is needed -/

/-- **single_sink_all_upstream**: in an acyclic workflow (a rank function
    increasing along every edge exists — any size) with exactly one output
    task, EVERY task has a path to the output task.  dask computes exactly the
    keys `'results'` depends on, so together with `fires_exactly_once` every
    task of the workflow is run exactly once. -/
theorem single_sink_all_upstream (g : DiGraph) (hwf : WF g) (sink : Nat) (hs : g.outputNodes = [sink])
    (rank : Nat → Nat) (hrank : ∀ e ∈ g.edges, rank e.1 < rank e.2) :
    ∀ x ∈ g.nodes, Reach g x sink := by
  obtain ⟨N, hN⟩ := exists_bound g.nodes rank
  have key : ∀ n x, x ∈ g.nodes → N - rank x ≤ n → Reach g x sink := by
    intro n
    induction n with
    | zero =>
      intro x hx hle
      cases hsx : g.succOf x with
      | nil =>
        have : x ∈ g.outputNodes := by simp [outputNodes, hx, hsx]
        rw [hs] at this
        simp at this
        subst this; exact Reach.refl _
      | cons y ys =>
        have hy : (x, y) ∈ g.edges := mem_succOf.mp (by rw [hsx]; simp)
        have h1 := hrank _ hy
        have h2 := hN y (hwf.closed _ hy).2
        have h3 := hN x hx
        simp at h1
        omega
    | succ n ih =>
      intro x hx hle
      cases hsx : g.succOf x with
      | nil =>
        have : x ∈ g.outputNodes := by simp [outputNodes, hx, hsx]
        rw [hs] at this
        simp at this
        subst this; exact Reach.refl _
      | cons y ys =>
        have hy : (x, y) ∈ g.edges := mem_succOf.mp (by rw [hsx]; simp)
        have h1 := hrank _ hy
        have hyn := (hwf.closed _ hy).2
        have h2 := hN y hyn
        simp at h1
        exact Reach.step hy (ih y hyn (by omega))
  intro x hx
  exact key (N - rank x) x hx (Nat.le_refl _)

/-! ## Non-vacuity: the hypotheses of the theorems above are satisfiable on non-trivial inputs -/

/-- A diamond 0 → {1, 2} → 3: two different admissible schedules, same values. -/
def diamond : TaskGraph Nat Nat where
  deps k := if k = 3 then [1, 2] else if k = 1 ∨ k = 2 then [0] else []
  fn k vs := vs.foldl (· + ·) (k + 1)

example : (runSeq diamond Env.empty [0, 1, 2, 3]).isSome = true ∧ (runSeq diamond Env.empty [0, 2, 1, 3]).isSome = true ∧
    (runSeq diamond Env.empty [0, 3]).isSome = false ∧ (runSeq diamond Env.empty [0, 1, 1]).isSome = false := by
  decide

example : ((runSeq diamond Env.empty [0, 1, 2, 3]).bind (· 3)) = some 11 ∧
    ((runSeq diamond Env.empty [0, 2, 1, 3]).bind (· 3)) = some 11 ∧ den diamond 3 3 = some 11 := by
  decide

/-- `static_inputs_literal_partial` applies to a dict with harmless static inputs. -/
example : ∀ e ∈ ([⟨.task 0, ⟨0, true, [.atom .ctx, .atom (.s "s0"), .list [.s "p", .s "q"]]⟩, []⟩,
    ⟨.results, ⟨1, false, [.atom (.s "k")]⟩, [.task 0]⟩] : List Entry), ∀ a ∈ e.task.static, a.hazard = false := by
  decide

/-- `pred_order_entered_partial` / `pred_order_after_relabel` apply to a well-formed
    workflow whose context-taking task entered last; `single_sink_all_upstream` to the same graph. -/
def okTable : Table := [(0, ⟨0, false, []⟩), (1, ⟨1, false, []⟩), (2, ⟨2, true, []⟩)]
def okGraph : DiGraph := ⟨[1, 0, 2], [(0, 2), (1, 2)]⟩

example : WF okGraph ∧ (∀ x ∈ okGraph.nodes, x < 1000) ∧
    ctxLast (okGraph.nodes.map okTable.get) = okGraph.nodes.map okTable.get ∧
    okGraph.outputNodes = [2] ∧ (∀ e ∈ okGraph.edges, id e.1 < id e.2) := by
  decide

example : WF ctxWitnessGraph ∧ ∀ x ∈ ctxWitnessGraph.nodes, x < 1000 := by decide

end Pharmpy.C17
