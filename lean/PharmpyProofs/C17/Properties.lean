import PharmpyProofs.C17.Lemmas
/-
  C17 — Workflows execute as their task graph specifies.  Property theorems only.
-/
namespace Pharmpy.C17
open DiGraph

/-! ## The abstract scheduler: any admissible firing order gives the reference value

  `TaskGraph κ V` is ANY assignment of dependency lists and functions to keys
  (any size, cyclic or not); a firing sequence is admissible when `runSeq`
  returns `some`: every key fires at most once and only when all the keys it
  mentions have values. -/

section
variable {κ V : Type} [DecidableEq κ]

/-- Every value produced by an admissible firing sequence is the reference
    (recursive, schedule-free) value of that key. -/
theorem schedule_sound (tg : TaskGraph κ V) (s : List κ) (e : Env κ V) (k : κ) (v : V)
    (hrun : runSeq tg Env.empty s = some e) (hk : e k = some v) :
    den tg s.length k = some v := by
  have h0 : Sound tg (Env.empty : Env κ V) 0 := by intro k v h; simp [Env.empty] at h
  have := runSeq_sound s Env.empty e 0 h0 hrun k v hk
  simpa using this

/-- **schedule_independent**: two admissible firing sequences of the same
    graph — whatever their lengths and orders — agree on every key both of
    them fire; in particular on `'results'`. -/
theorem schedule_independent (tg : TaskGraph κ V) (s₁ s₂ : List κ) (e₁ e₂ : Env κ V) (k : κ) (v₁ v₂ : V)
    (h₁ : runSeq tg Env.empty s₁ = some e₁) (h₂ : runSeq tg Env.empty s₂ = some e₂)
    (hk₁ : e₁ k = some v₁) (hk₂ : e₂ k = some v₂) : v₁ = v₂ := by
  have a := den_mono tg (Nat.le_max_left s₁.length s₂.length) k v₁ (schedule_sound tg s₁ e₁ k v₁ h₁ hk₁)
  have b := den_mono tg (Nat.le_max_right s₁.length s₂.length) k v₂ (schedule_sound tg s₂ e₂ k v₂ h₂ hk₂)
  rw [a] at b
  exact Option.some.inj b

/-- Every task fires exactly once: an admissible sequence has no repetition and
    the keys that end up with a value are exactly the fired ones. -/
theorem fires_exactly_once (tg : TaskGraph κ V) (s : List κ) (e : Env κ V)
    (hrun : runSeq tg Env.empty s = some e) :
    s.Nodup ∧ ∀ k, (e k).isSome ↔ k ∈ s := by
  obtain ⟨hnd, _, hiff⟩ := runSeq_fired s Env.empty e hrun
  exact ⟨hnd, fun k => by simpa [Env.empty] using hiff k⟩

/-- … and only after all of its predecessors (all keys it mentions). -/
theorem fires_after_predecessors (tg : TaskGraph κ V) (p q : List κ) (k : κ) (e : Env κ V)
    (hrun : runSeq tg Env.empty (p ++ k :: q) = some e) :
    ∀ d ∈ tg.deps k, d ∈ p := by
  rw [runSeq_append] at hrun
  cases hp : runSeq tg Env.empty p with
  | none => simp [hp] at hrun
  | some ep =>
    simp only [hp, Option.bind, runSeq] at hrun
    cases hf : fire tg ep k with
    | none => simp [hf] at hrun
    | some e1 =>
      obtain ⟨_, vs, hl, _⟩ := fire_eq_some hf
      intro d hd
      obtain ⟨v, hv⟩ := lookupAll_eq_some hl d hd
      have := (fires_exactly_once tg p ep hp).2 d
      exact this.mp (by simp [hv])

/-- The value a task fires with is its function applied to the values of the
    keys it mentions, in the listed order, as they are in the final state. -/
theorem fired_value (tg : TaskGraph κ V) (s : List κ) (e : Env κ V) (k : κ) (v : V)
    (hrun : runSeq tg Env.empty s = some e) (hk : e k = some v) :
    ∃ vs, lookupAll e (tg.deps k) = some vs ∧ v = tg.fn k vs := by
  have hden := schedule_sound tg s e k v hrun hk
  -- the reference value unfolds one step; its arguments are themselves reference values
  obtain ⟨hnd, hiff⟩ := fires_exactly_once tg s e hrun
  have hmem : k ∈ s := (hiff k).mp (by simp [hk])
  obtain ⟨p, q, rfl⟩ := List.append_of_mem hmem
  have hrun' := hrun
  rw [runSeq_append] at hrun'
  cases hp : runSeq tg Env.empty p with
  | none => simp [hp] at hrun'
  | some ep =>
    simp only [hp, Option.bind, runSeq] at hrun'
    cases hf : fire tg ep k with
    | none => simp [hf] at hrun'
    | some e1 =>
      simp only [hf] at hrun'
      obtain ⟨_, vs, hl, he1⟩ := fire_eq_some hf
      -- values never change once set: ep ≤ e
      have hle : ∀ x w, ep x = some w → e x = some w := by
        intro x w hx
        have hx1 : e1 x = some w := by
          subst he1; unfold Env.set
          by_cases hxk : x = k
          · subst hxk
            obtain ⟨hk0, _⟩ := fire_eq_some hf
            rw [hk0] at hx; cases hx
          · simp [hxk, hx]
        exact runSeq_keeps q e1 e hrun' x w hx1
      have hkv : e k = some (tg.fn k vs) := by
        apply runSeq_keeps q e1 e hrun'
        subst he1; simp [Env.set]
      rw [hk] at hkv
      exact ⟨vs, lookupAll_mono hle hl, Option.some.inj hkv⟩

/-- A sequence in which every key comes after the keys it mentions, without
    repetition, is admissible — so for a DAG (which has such an order of ALL
    its keys) sequential evaluation in topological order is one of the
    schedules, and by `schedule_independent` every other schedule agrees with it. -/
theorem topological_order_admissible (tg : TaskGraph κ V) (s : List κ) (hnd : s.Nodup)
    (htopo : ∀ p k q, s = p ++ k :: q → ∀ d ∈ tg.deps k, d ∈ p) :
    ∃ e, runSeq tg Env.empty s = some e ∧ ∀ k ∈ s, (e k).isSome := by
  obtain ⟨e, he⟩ := runSeq_topo tg s Env.empty hnd (by intro k _; rfl)
    (by intro p k q h d hd; exact Or.inr (htopo p k q h d hd))
  refine ⟨e, he, ?_⟩
  intro k hk
  exact ((fires_exactly_once tg s e he).2 k).mpr hk

/-- `evalAlong` (the sequential evaluator used by `topoEval`) is itself an
    admissible schedule, hence agrees with every other schedule. -/
theorem topoEval_agrees (tg : TaskGraph κ V) (order s : List κ) (e : Env κ V) (k : κ) (v w : V)
    (hrun : runSeq tg Env.empty s = some e) (hk : e k = some v)
    (hw : evalAlong tg Env.empty order k = some w) : v = w := by
  obtain ⟨s', _, hs'⟩ := evalAlong_schedule tg order Env.empty
  exact schedule_independent tg s s' e _ k v w hrun hs' hk hw

end

end Pharmpy.C17
