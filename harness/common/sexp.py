"""S-expression reader/writer matching lean/PharmpyModel/Core/Sexp.lean."""

_SPECIAL = set(' ()"\n\t\\')


def dumps(x) -> str:
    if isinstance(x, (list, tuple)):
        return "(" + " ".join(dumps(y) for y in x) + ")"
    if isinstance(x, bool):
        return "true" if x else "false"
    if isinstance(x, int):
        return str(x)
    s = str(x)
    if s == "" or any(c in _SPECIAL for c in s):
        s = s.replace("\\", "\\\\").replace('"', '\\"').replace("\n", "\\n").replace("\t", "\\t")
        return '"' + s + '"'
    return s


def loads(s: str):
    toks = []
    i, n = 0, len(s)
    while i < n:
        c = s[i]
        if c in " \t\r\n":
            i += 1
        elif c == "(" or c == ")":
            toks.append(c)
            i += 1
        elif c == '"':
            i += 1
            buf = []
            while s[i] != '"':
                if s[i] == "\\":
                    i += 1
                    buf.append({"n": "\n", "t": "\t"}.get(s[i], s[i]))
                else:
                    buf.append(s[i])
                i += 1
            i += 1
            toks.append(("a", "".join(buf)))
        else:
            j = i
            while j < n and s[j] not in " \t\r\n()":
                j += 1
            toks.append(("a", s[i:j]))
            i = j
    pos = 0

    def parse():
        nonlocal pos
        t = toks[pos]
        pos += 1
        if t == "(":
            out = []
            while toks[pos] != ")":
                out.append(parse())
            pos += 1
            return out
        if t == ")":
            raise ValueError("unexpected )")
        return t[1]

    v = parse()
    if pos != len(toks):
        raise ValueError("trailing tokens")
    return v
