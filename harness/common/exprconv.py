"""sympy / pharmpy Expr  <->  the S-expression wire form of Core/Expr.lean.

n-ary Add/Mul are folded left into binary `add`/`mul`; Rational p/q is
`(div p q)`; Piecewise is a chain of `(ite cond value rest)` ending in the
value of a True branch or `(nan 0)`; applied undefined functions such as
`A_CENTRAL(t)` are atoms (symbols) named by their printed form.
"""
from __future__ import annotations

import sympy
from sympy.core.function import AppliedUndef

REL = {
    sympy.StrictLessThan: "lt", sympy.LessThan: "le", sympy.StrictGreaterThan: "gt",
    sympy.GreaterThan: "ge", sympy.Equality: "eq", sympy.Unequality: "ne",
}
REL_INV = {v: k for k, v in REL.items()}
FUNCS1 = {"exp": sympy.exp, "log": sympy.log, "sqrt": sympy.sqrt, "Abs": sympy.Abs, "sin": sympy.sin,
          "cos": sympy.cos, "floor": sympy.floor, "sign": sympy.sign}


class Unsupported(Exception):
    pass


def to_sympy(e):
    """pharmpy Expr / str / sympy -> sympy."""
    if hasattr(e, "_sympy_"):
        return e._sympy_()
    return sympy.sympify(e)


def _fold(op, args):
    out = args[0]
    for a in args[1:]:
        out = [op, out, a]
    return out


def to_sexp(e):
    e = to_sympy(e)
    if e.is_Integer:
        return int(e)
    if e.is_Rational:
        return ["div", int(e.p), int(e.q)]
    if e.is_Symbol:
        return e.name
    if e is sympy.E:
        return ["exp", 1]
    if isinstance(e, AppliedUndef):
        return str(e)
    if e.is_Add:
        return _fold("add", [to_sexp(a) for a in e.args])
    if e.is_Mul:
        return _fold("mul", [to_sexp(a) for a in e.args])
    if e.is_Pow:
        return ["pow", to_sexp(e.base), to_sexp(e.exp)]
    if isinstance(e, sympy.Piecewise):
        out = ["nan", 0]
        for val, cond in reversed(e.args):
            if cond is sympy.true or cond == True:  # noqa: E712
                out = to_sexp(val)
            else:
                out = ["ite", to_sexp(cond), to_sexp(val), out]
        return out
    for cls, nm in REL.items():
        if isinstance(e, cls):
            return [nm, to_sexp(e.lhs), to_sexp(e.rhs)]
    if isinstance(e, sympy.And):
        return _fold("and", [to_sexp(a) for a in e.args])
    if isinstance(e, sympy.Or):
        return _fold("or", [to_sexp(a) for a in e.args])
    if isinstance(e, sympy.Not):
        return ["not", to_sexp(e.args[0])]
    if e is sympy.true:
        return ["true", 0]
    if e is sympy.false:
        return ["false", 0]
    if isinstance(e, sympy.Function) and type(e).__name__ in FUNCS1 and len(e.args) == 1:
        return [type(e).__name__, to_sexp(e.args[0])]
    raise Unsupported(f"{type(e).__name__}: {e}")


def from_sexp(s):
    if isinstance(s, int):
        return sympy.Integer(s)
    if isinstance(s, str):
        try:
            return sympy.Integer(int(s))
        except ValueError:
            pass
        if s.endswith(")") and "(" in s:  # applied undefined function atom, e.g. A_CENTRAL(t)
            name, args = s[:-1].split("(", 1)
            return sympy.Function(name)(*[sympy.Symbol(a.strip()) for a in args.split(",")])
        return sympy.Symbol(s)
    op, *args = s
    if op == "nan":
        return sympy.nan
    if op == "true":
        return sympy.true
    if op == "false":
        return sympy.false
    if op == "also":
        return from_sexp(args[0])
    a = [from_sexp(x) for x in args]
    if op == "add":
        return a[0] + a[1]
    if op == "mul":
        return a[0] * a[1]
    if op == "div":
        return a[0] / a[1]
    if op == "pow":
        return a[0] ** a[1]
    if op == "ite":
        rest = a[2]
        if isinstance(rest, sympy.Piecewise):
            return sympy.Piecewise((a[1], a[0]), *rest.args)
        if rest is sympy.nan:
            return sympy.Piecewise((a[1], a[0]))
        return sympy.Piecewise((a[1], a[0]), (rest, True))
    if op in REL_INV:
        return REL_INV[op](a[0], a[1])
    if op == "and":
        return sympy.And(a[0], a[1])
    if op == "or":
        return sympy.Or(a[0], a[1])
    if op == "not":
        return sympy.Not(a[0])
    if op in FUNCS1:
        return FUNCS1[op](a[0])
    raise Unsupported(op)


def sexp_syms(s, acc=None):
    """Symbols (atoms that are not integers) of a wire expression."""
    if acc is None:
        acc = set()
    if isinstance(s, int):
        return acc
    if isinstance(s, str):
        try:
            int(s)
        except ValueError:
            acc.add(s)
        return acc
    for x in s[1:]:
        sexp_syms(x, acc)
    return acc


def equal_at_points(a, b, rng, npoints=3, symbols=None) -> bool:
    """Exact comparison of two sympy expressions at seeded rational points
    (falls back to structural/simplify equality when evaluation is undefined)."""
    if a == b:
        return True
    syms = sorted((a.free_symbols | b.free_symbols), key=str) if symbols is None else symbols
    funcs = sorted(a.atoms(AppliedUndef) | b.atoms(AppliedUndef), key=str)
    ok_points = 0
    for _ in range(npoints * 4):
        sub = {s: sympy.Rational(rng.randint(1, 40), rng.randint(1, 9)) for s in syms}
        sub.update({f: sympy.Rational(rng.randint(1, 40), rng.randint(1, 9)) for f in funcs})
        try:
            va = a.xreplace(sub)
            vb = b.xreplace(sub)
            va = va.doit() if hasattr(va, "doit") else va
            vb = vb.doit() if hasattr(vb, "doit") else vb
        except Exception:
            continue
        if va.has(sympy.nan, sympy.zoo, sympy.oo) or vb.has(sympy.nan, sympy.zoo, sympy.oo):
            continue
        if va == vb:
            ok_points += 1
        else:
            d = sympy.simplify(va - vb)
            if d == 0:
                ok_points += 1
            else:
                try:
                    if abs(complex(sympy.N(d, 30))) < 1e-20:
                        ok_points += 1
                        continue
                except Exception:
                    pass
                return False
        if ok_points >= npoints:
            return True
    return sympy.simplify(a - b) == 0 if ok_points == 0 else True
