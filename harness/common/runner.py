"""The uniform check flow (DESIGN section 3).

regenerate -> lake build -> audit -> correspondence (K) + property monitors ->
decide: VIOLATION / KNOWN-FINDING / no-failing-input-found; write evidence.
Exit codes: 0 ok, 1 violation, 2 infrastructure error or timeout.
"""
from __future__ import annotations

import hashlib
import importlib
import json
import multiprocessing as mp
import os
import random
import shutil
import signal
import sys
import time
import traceback
from pathlib import Path

from . import lean
from .paths import EVIDENCE, KNOWN_FINDINGS, LEAN, REPLAYS, REPO, REPO_SRC, VERIF

_MOD = None
_DRV = None
_DRV_OK = True
_INIT_ERR = None


def _load(prop: str):
    return importlib.import_module(f"harness.corr.{prop.lower()}")


def _worker_init(prop: str, drv_ok: bool):
    global _MOD, _DRV, _DRV_OK, _INIT_ERR
    signal.signal(signal.SIGINT, signal.SIG_IGN)
    if str(REPO_SRC) not in sys.path:
        sys.path.insert(0, str(REPO_SRC))
    _MOD = _load(prop)
    _DRV_OK = drv_ok
    _DRV = None
    _INIT_ERR = None
    if hasattr(_MOD, "worker_init"):
        try:
            _MOD.worker_init()
        except Exception as e:  # must not escape: a Pool whose initializer raises respawns workers for ever
            _INIT_ERR = f"worker_init: {type(e).__name__}: {e}\n{traceback.format_exc()[-1500:]}"


def _get_driver():
    global _DRV
    if not _DRV_OK or not getattr(_MOD, "DRIVER", None):
        return None
    if _DRV is None or _DRV.p.poll() is not None:
        _DRV = lean.Driver(_MOD.DRIVER)
    return _DRV


class CaseTimeout(Exception):
    pass


def _vt_alarm(signum, frame):
    raise CaseTimeout()


def _run_one(args):
    idx, case = args
    t0 = time.time()
    if _INIT_ERR:
        return {"infra": _INIT_ERR, "k": [], "mon": [], "tags": [], "nontrivial": False, "idx": idx, "t": 0.0}
    limit = getattr(_MOD, "CASE_CPU_LIMIT", 120)
    signal.signal(signal.SIGVTALRM, _vt_alarm)
    signal.setitimer(signal.ITIMER_VIRTUAL, limit)
    try:
        res = _MOD.run_case(case, _get_driver())
        signal.setitimer(signal.ITIMER_VIRTUAL, 0)
    except CaseTimeout:
        # a case whose evaluation does not finish is skipped (reported in the distribution), never a verdict
        global _DRV
        if _DRV is not None:
            _DRV.close()
            _DRV = None
        res = {"tags": ["case-cpu-timeout"], "nontrivial": False}
    except Exception as e:  # harness-level problem: reported as infra error, never as violation
        signal.setitimer(signal.ITIMER_VIRTUAL, 0)
        res = {"infra": f"{type(e).__name__}: {e}\n{traceback.format_exc()[-1500:]}"}
    res.setdefault("k", [])
    res.setdefault("mon", [])
    res.setdefault("tags", [])
    res.setdefault("nontrivial", True)
    res["idx"] = idx
    res["t"] = time.time() - t0
    return res


def case_key(case) -> str:
    return hashlib.sha256(json.dumps(case, sort_keys=True, default=str).encode()).hexdigest()[:16]


def load_known(prop: str):
    if not KNOWN_FINDINGS.exists():
        return {}
    data = json.loads(KNOWN_FINDINGS.read_text())
    return {f["class"]: f for f in data.get("findings", []) if f["property"] == prop and f.get("kind") == "known"}


def write_replay(prop: str, payload: dict) -> Path:
    REPLAYS.mkdir(exist_ok=True)
    h = hashlib.sha256(json.dumps(payload, sort_keys=True, default=str).encode()).hexdigest()[:12]
    p = REPLAYS / f"{prop}-{h}.json"
    p.write_text(json.dumps(payload, indent=1, default=str))
    return p


class Timeout(Exception):
    pass


def _alarm(signum, frame):
    raise Timeout()


def run_cases(prop, mod, cases, drv_ok, nproc):
    results = []
    if not cases:
        return results
    nproc = max(1, min(nproc, len(cases)))
    items = list(enumerate(cases))
    if nproc == 1:
        _worker_init(prop, drv_ok)
        for it in items:
            results.append(_run_one(it))
        return results
    ctx = mp.get_context("fork")
    # small chunks: expensive cases (e.g. exhaustive enumerations appended to a tier) must not pile up in one worker
    chunk = max(1, min(4, len(items) // (nproc * 8)))
    with ctx.Pool(nproc, initializer=_worker_init, initargs=(prop, drv_ok)) as pool:
        for r in pool.imap_unordered(_run_one, items, chunksize=chunk):
            results.append(r)
    results.sort(key=lambda r: r["idx"])
    return results


def shrink_case(prop, mod, case, cls, kind, drv_ok, budget_s=60):
    """Greedy shrinking: keep a smaller case while it still fails the same way."""
    if not hasattr(mod, "shrink"):
        return case
    _worker_init(prop, drv_ok)
    t0 = time.time()

    def fails(c):
        r = _run_one((0, c))
        if kind == "mon":
            return any(m.get("cls") == cls for m in r["mon"])
        return bool(r["k"])

    cur = case
    progress = True
    while progress and time.time() - t0 < budget_s:
        progress = False
        for cand in mod.shrink(cur):
            if time.time() - t0 > budget_s:
                break
            try:
                if fails(cand):
                    cur = cand
                    progress = True
                    break
            except Exception:
                continue
    return cur


def main(prop: str, tier: str, seed: int, replay: str | None, nproc: int):
    t_start = time.time()
    mod = _load(prop)
    limit = getattr(mod, "TIME_LIMIT", {"quick": 900, "thorough": 3600})[tier]
    signal.signal(signal.SIGALRM, _alarm)
    signal.alarm(int(limit))
    base = Path("/dev/shm") if Path("/dev/shm").is_dir() else Path(os.environ.get("TMPDIR", "/var/tmp"))
    run_scratch = base / f"pharmpy-verif-run-{os.getpid()}"
    run_scratch.mkdir(parents=True, exist_ok=True)
    os.environ["VERIF_SCRATCH"] = str(run_scratch)
    try:
        return _main(prop, mod, tier, seed, replay, nproc, t_start)
    except Timeout:
        print(f"TIMEOUT property={prop} after {limit}s", flush=True)
        return 2
    finally:
        shutil.rmtree(run_scratch, ignore_errors=True)
        signal.alarm(0)


def _main(prop, mod, tier, seed, replay, nproc, t_start):
    broken = []  # proof obligations / translator / audit problems: list of dict(kind, name, detail)
    log = lambda *a: print(f"[{prop}]", *a, flush=True)

    # 1. translators (regenerate Generated/*.lean from the working tree)
    for name, fn in getattr(mod, "translators", lambda: [])():
        try:
            changed = fn()
            log(f"translator {name}: {'regenerated' if changed else 'unchanged'}")
        except Exception as e:
            broken.append({"kind": "translator", "name": name, "detail": f"{type(e).__name__}: {e}"})
            log(f"translator {name} FAILED: {e}")

    # 2. build
    drv_ok = True
    proof_targets = [t for t in mod.LEAN_TARGETS if not t.startswith("drv_")]
    drv_targets = [t for t in mod.LEAN_TARGETS if t.startswith("drv_")]
    t0 = time.time()
    ok, out = lean.lake_build(proof_targets) if proof_targets else (True, "")
    if not ok:
        for m in lean.failing_modules(out) or ["?"]:
            broken.append({"kind": "build", "name": m, "detail": out[-3000:]})
        log("lake build of proofs FAILED:", lean.failing_modules(out))
    if drv_targets:
        okd, outd = lean.lake_build(drv_targets)
        if not okd:
            drv_ok = False
            broken.append({"kind": "build-driver", "name": ",".join(drv_targets), "detail": outd[-3000:]})
            log("lake build of driver FAILED")
    log(f"build {time.time()-t0:.1f}s")

    # 3. audit
    prop_files = [LEAN / p for p in mod.PROPERTIES]
    src_files = []
    for pat in getattr(mod, "LEAN_SOURCES", []):
        src_files += sorted(LEAN.glob(pat))
    hits = lean.forbidden_hits(sorted(set(prop_files + src_files)))
    for h in hits:
        broken.append({"kind": "audit-token", "name": h, "detail": h})
    axioms = {}
    if ok:
        axioms = lean.audit_axioms(prop_files)
        for q, ax in axioms.items():
            if ax is None:
                broken.append({"kind": "audit-missing", "name": q, "detail": "#print axioms gave no answer"})
            elif not set(ax) <= lean.ALLOWED_AXIOMS:
                broken.append({"kind": "audit-axiom", "name": q, "detail": str(ax)})
    else:
        for pf in prop_files:
            ns, names = lean.property_theorems(pf)
            for nm in names:
                axioms[f"{ns}.{nm}"] = None
    obligations = len(axioms)
    discharged = sum(1 for q, ax in axioms.items() if ax is not None and set(ax) <= lean.ALLOWED_AXIOMS)
    log(f"audit: {discharged}/{obligations} theorems, axioms ⊆ {sorted(lean.ALLOWED_AXIOMS)}; forbidden tokens: {len(hits)}")
    checker_note = None
    if tier == "thorough" and ok and getattr(mod, "LEANCHECKER", True):
        mods = [lean.module_of(p) for p in prop_files]
        okc, outc = lean.leanchecker(mods)
        checker_note = "leanchecker ok" if okc else "leanchecker FAILED: " + outc[-500:]
        if not okc:
            broken.append({"kind": "leanchecker", "name": ",".join(mods), "detail": outc})
        log(checker_note)

    # 4. cases
    rng = random.Random(seed)
    if replay:
        payload = json.loads(Path(replay).read_text())
        cases = [payload["case"]] if payload.get("case") is not None else []
        corpus_n = 0
    else:
        corpus = list(mod.corpus_cases()) if hasattr(mod, "corpus_cases") else []
        corpus_n = len(corpus)
        n = mod.budget(tier)
        cases = corpus + list(mod.gen_cases(rng, n, tier))
    t0 = time.time()
    results = run_cases(prop, mod, cases, drv_ok, nproc)
    log(f"ran {len(results)} cases ({corpus_n} corpus) in {time.time()-t0:.1f}s")

    infra = [r for r in results if "infra" in r]
    if infra and not broken:
        log("INFRA ERROR in harness:", infra[0]["infra"])
        return 2
    if infra:
        # a translator / proof obligation already broke and (part of) the failing-input search cannot run on
        # this source shape: the cases that did run are still searched, the broken obligation is reported below
        log(f"failing-input search could not run on {len(infra)} of {len(results)} cases:", infra[0]["infra"].splitlines()[0])
        broken.append({"kind": "search-unavailable", "name": "failing-input search (harness could not run on this source)",
                       "detail": infra[0]["infra"][:1500]})
        results = [r for r in results if "infra" not in r]

    known = load_known(prop)
    k_bad = [r for r in results if r["k"]]
    mon_bad = [(r, m) for r in results for m in r["mon"]]
    mon_known = [(r, m) for r, m in mon_bad if m.get("cls") in known]
    mon_new = [(r, m) for r, m in mon_bad if m.get("cls") not in known]

    cls_count = {}
    for r, m in mon_bad:
        cls_count[m.get("cls")] = cls_count.get(m.get("cls"), 0) + 1
    if os.environ.get("VERIF_DEBUG"):
        shown = set()
        for r, m in mon_bad:
            if m.get("cls") not in shown:
                shown.add(m.get("cls"))
                log("DEBUG first of class", m.get("cls"), ":", json.dumps(cases[r["idx"]])[:400], "->", m.get("what"))
        for r in k_bad[:int(os.environ.get("VERIF_DEBUG"))]:
            log("DEBUG K:", json.dumps(cases[r["idx"]])[:400], "->", r["k"][:2])
    if cls_count or k_bad:
        log(f"monitor failures by class: {cls_count}; correspondence disagreements: {len(k_bad)}")

    # 5. decide
    rc = 0
    violations = 0
    if mon_new:
        r, m = mon_new[0]
        case = cases[r["idx"]]
        if not replay:
            case = shrink_case(prop, mod, case, m.get("cls"), "mon", drv_ok)
        payload = {"property": prop, "kind": "property-monitor", "class": m.get("cls"), "what": m.get("what"),
                   "case": case, "seed": seed, "tier": tier,
                   "also_broken": [b["name"] for b in broken], "n_failing_cases": len({r['idx'] for r, _ in mon_new})}
        p = write_replay(prop, payload)
        print(f"VIOLATION property={prop} replay={p}", flush=True)
        log("failing input:", json.dumps(case)[:600], "->", m.get("what"))
        rc, violations = 1, len({r["idx"] for r, _ in mon_new})
    elif k_bad or broken:
        # correspondence or proof obligation broke, and the search found no failing input
        first_case = cases[k_bad[0]["idx"]] if k_bad else None
        if first_case is not None and not replay:
            first_case = shrink_case(prop, mod, first_case, None, "k", drv_ok)
        payload = {"property": prop, "kind": "correspondence" if k_bad else "proof-obligation",
                   "no_longer_checks": [b["name"] for b in broken] + (["correspondence model-vs-code: " + "; ".join(map(str, k_bad[0]["k"]))[:800]] if k_bad else []),
                   "broken": broken[:5], "case": first_case, "seed": seed, "tier": tier,
                   "searched": {"cases": len(results), "failing_inputs": 0}}
        p = write_replay(prop, payload)
        print(f"VIOLATION property={prop} replay={p} no-failing-input-found", flush=True)
        if k_bad:
            log("model/implementation disagree on:", json.dumps(first_case)[:600], "->", k_bad[0]["k"][:3])
        rc, violations = 1, max(1, len(k_bad))
    seen_cls = []
    for r, m in mon_known:
        if m["cls"] not in seen_cls:
            seen_cls.append(m["cls"])
            print(f"KNOWN-FINDING: property={prop} {known[m['cls']]['what']}", flush=True)

    # evidence (VERIF_NO_EVIDENCE: trial runs on a changed tree must not overwrite the evidence of the unchanged tree)
    if not replay and not os.environ.get("VERIF_NO_EVIDENCE"):
        distinct = {}
        tags = {}
        for r in results:
            if r.get("nontrivial"):
                distinct[case_key(cases[r["idx"]])] = 1
            for t in r["tags"]:
                tags[t] = tags.get(t, 0) + 1
        samples = [cases[i] for i in sorted({0, len(cases) // 2, len(cases) - 1}) if 0 <= i < len(cases)][:3]
        ev = {
            "property_id": prop, "tier": tier, "seed": seed, "level": "proof",
            "coverage": {
                "obligations": obligations, "discharged": discharged,
                "checker_cmd": f"cd lean && lake build {' '.join(proof_targets)} && lake env lean <#print axioms of every theorem in {' '.join(mod.PROPERTIES)}>" + ("; lake env leanchecker" if tier == "thorough" else ""),
                "trusted_base": getattr(mod, "TRUSTED", []),
                "theorems": {q: ax for q, ax in axioms.items()},
                "broken_obligations": [b["name"] for b in broken],
                "leanchecker": checker_note,
                "evaluations": len(results),
                "distinct_nontrivial": len(distinct),
                "rule": getattr(mod, "RULE", ""),
                "samples": samples,
                "corpus_cases": corpus_n,
                "correspondence_disagreements": len(k_bad),
                "property_monitor_failures": len({r['idx'] for r, _ in mon_bad}),
                "known_finding_hits": {c: sum(1 for _, m in mon_known if m["cls"] == c) for c in seen_cls},
                "distribution": dict(sorted(tags.items())),
                "driver_requests": "see distribution",
            },
            "assumptions": getattr(mod, "ASSUMPTIONS", []),
            "wall_s": round(time.time() - t_start, 2),
            "violations": violations,
        }
        EVIDENCE.mkdir(exist_ok=True)
        (EVIDENCE / f"{prop}.json").write_text(json.dumps(ev, indent=1, default=str))
    log(f"done rc={rc} wall={time.time()-t_start:.1f}s")
    return rc
