"""Locations. Everything is relative to this checkout, nothing under /tmp."""
import os
from pathlib import Path

VERIF = Path(__file__).resolve().parents[2]
REPO = Path(os.environ.get("PHARMPY_REPO", "/repo"))
REPO_SRC = REPO / "src"
LEAN = VERIF / "lean"
EVIDENCE = VERIF / "evidence"
REPLAYS = VERIF / "replays"
CORPUS = VERIF / "corpus"
KNOWN_FINDINGS = VERIF / "known_findings.json"
PYTHON = "/venv/bin/python"


def scratch_root() -> Path:
    """Scratch space outside /repo and /verif; prefers /dev/shm."""
    run = os.environ.get("VERIF_SCRATCH")  # set by the runner: one directory per run, removed when the run ends
    if run:
        p = Path(run) / str(os.getpid())
    else:
        base = Path("/dev/shm") if Path("/dev/shm").is_dir() else Path(os.environ.get("TMPDIR", "/var/tmp"))
        p = base / f"pharmpy-verif-{os.getpid()}"
    p.mkdir(parents=True, exist_ok=True)
    return p
