"""Lean side: build under a lock, audit (forbidden tokens + #print axioms), drivers."""
from __future__ import annotations

import fcntl
import os
import re
import subprocess
import time
from pathlib import Path

from .paths import LEAN
from . import sexp

ALLOWED_AXIOMS = {"propext", "Classical.choice", "Quot.sound"}
FORBIDDEN = re.compile(
    r"\bsorry\b|\badmit\b|^\s*axiom\s|\bnative_decide\b|\bbv_decide\b|implemented_by|\bunsafe\s|maxHeartbeats\s+0\b",
    re.M,
)


class lake_lock:
    """Serialise lake invocations: checks may be started concurrently."""

    def __enter__(self):
        (LEAN / ".lake").mkdir(exist_ok=True)
        self.f = open(LEAN / ".lake" / "verif.lock", "w")
        fcntl.flock(self.f, fcntl.LOCK_EX)
        return self

    def __exit__(self, *a):
        fcntl.flock(self.f, fcntl.LOCK_UN)
        self.f.close()


def lake_build(targets: list[str], timeout=1500) -> tuple[bool, str]:
    with lake_lock():
        p = subprocess.run(["lake", "build", *targets], cwd=LEAN, capture_output=True, text=True, timeout=timeout)
    out = p.stdout + p.stderr
    return p.returncode == 0, out


def failing_modules(build_output: str) -> list[str]:
    mods = re.findall(r"^- (\S+)", build_output, re.M)
    return mods


def strip_comments(src: str) -> str:
    # nested block comments /- ... -/ and line comments --
    out = []
    i, depth, n = 0, 0, len(src)
    while i < n:
        if src.startswith("/-", i):
            depth += 1
            i += 2
        elif depth and src.startswith("-/", i):
            depth -= 1
            i += 2
        elif depth:
            if src[i] == "\n":
                out.append("\n")
            i += 1
        elif src.startswith("--", i):
            while i < n and src[i] != "\n":
                i += 1
        else:
            out.append(src[i])
            i += 1
    return "".join(out)


def forbidden_hits(files: list[Path]) -> list[str]:
    hits = []
    for f in files:
        if not f.exists():
            hits.append(f"{f}: missing")
            continue
        code = strip_comments(f.read_text())
        for m in FORBIDDEN.finditer(code):
            line = code.count("\n", 0, m.start()) + 1
            hits.append(f"{f.relative_to(LEAN)}:{line}: {m.group(0).strip()}")
    return hits


THM_RE = re.compile(r"^\s*(?:@\[[^\]]*\]\s*)?(?:protected\s+|private\s+)?theorem\s+([A-Za-z_][\w'.]*)", re.M)
NS_RE = re.compile(r"^\s*namespace\s+(\S+)", re.M)


def property_theorems(properties_file: Path) -> tuple[str, list[str]]:
    """(namespace, theorem names) declared in a Properties.lean file."""
    code = strip_comments(properties_file.read_text())
    ns = NS_RE.search(code)
    names = THM_RE.findall(code)
    return (ns.group(1) if ns else ""), names


def module_of(path: Path) -> str:
    return ".".join(path.relative_to(LEAN).with_suffix("").parts)


def audit_axioms(properties_files: list[Path], timeout=900) -> dict[str, list[str] | None]:
    """Run `#print axioms` on every theorem of the given Properties files.
    Returns {qualified name: axiom list, or None if it could not be checked}."""
    lines = []
    qnames = []
    for pf in properties_files:
        lines.append(f"import {module_of(pf)}")
    for pf in properties_files:
        ns, names = property_theorems(pf)
        for nm in names:
            q = f"{ns}.{nm}" if ns else nm
            qnames.append(q)
    for q in qnames:
        lines.append(f"#print axioms {q}")
    audit_dir = LEAN / ".lake" / "audit"
    audit_dir.mkdir(parents=True, exist_ok=True)
    af = audit_dir / f"Audit_{os.getpid()}.lean"
    af.write_text("\n".join(lines) + "\n")
    try:
        p = subprocess.run(["lake", "env", "lean", str(af)], cwd=LEAN, capture_output=True, text=True, timeout=timeout)
    finally:
        af.unlink(missing_ok=True)
    out = p.stdout + p.stderr
    res: dict[str, list[str] | None] = {q: None for q in qnames}
    for m in re.finditer(r"'([^']+)' depends on axioms: \[([^\]]*)\]", out, re.S):
        res[m.group(1)] = [a.strip() for a in m.group(2).replace("\n", " ").split(",") if a.strip()]
    for m in re.finditer(r"'([^']+)' does not depend on any axioms", out):
        res[m.group(1)] = []
    return res


def leanchecker(modules: list[str], timeout=1500) -> tuple[bool, str]:
    p = subprocess.run(["lake", "env", "leanchecker", *modules], cwd=LEAN, capture_output=True, text=True, timeout=timeout)
    return p.returncode == 0, (p.stdout + p.stderr)[-2000:]


class Driver:
    """One compiled Lean driver process speaking the line protocol."""

    def __init__(self, exe: str):
        self.path = LEAN / ".lake" / "build" / "bin" / exe
        self.p = subprocess.Popen([str(self.path)], stdin=subprocess.PIPE, stdout=subprocess.PIPE, text=True, bufsize=1)
        self.n = 0

    def ask_raw(self, line: str) -> str:
        assert "\n" not in line
        self.p.stdin.write(line + "\n")
        self.p.stdin.flush()
        out = self.p.stdout.readline()
        if not out:
            raise RuntimeError(f"driver {self.path.name} died on: {line[:200]}")
        self.n += 1
        return out.rstrip("\n")

    def ask(self, req):
        return sexp.loads(self.ask_raw(sexp.dumps(req)))

    def close(self):
        try:
            self.p.stdin.close()
            self.p.wait(timeout=5)
        except Exception:
            self.p.kill()
