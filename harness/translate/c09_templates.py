"""T8 — literal effect / eta / error templates of pharmpy  ->  lean/PharmpyModel/Generated/Templates.lean

Reads (with `ast`, nothing is imported or executed)
    src/pharmpy/modeling/covariate_effect.py   CovariateEffect.{linear,categorical,piecewise_linear,exponential,power},
                                               _create_template dispatch, _get_operation
    src/pharmpy/modeling/parameter_variability.py  EtaAddition.{additive,proportional,exponential,logit,re_logit},
                                               EtaTransformation.{boxcox,tdist,john_draper}, _create_template dispatch
    src/pharmpy/modeling/error.py              right-hand sides of set_additive/proportional/combined_error_model,
                                               zero-protection guard, dTBS IPRED / W, time-varying, iiv-on-ruv
    src/pharmpy/modeling/allometry.py          P*(X/Z)**T
    src/pharmpy/modeling/odes.py               n/MDT, 1/MAT, 2*MAT
and writes them as `Pharmpy.Expr` terms.  The translator is deliberately dumb: a closed list of syntactic
shapes; anything else raises `Refuse` (=> proof obligation broken).

Conventions of the emitted terms (the wire names of harness/common/exprconv.py):
    a + b -> add a b      a - b -> add a (mul -1 b)     -a -> mul -1 a      a*b -> mul     a/b -> div     a**b -> pow
    exp/log/sign/Abs/sqrt -> f1        Piecewise -> chain of (ite cond value rest) ending in (nan 0) or the True value
    Eq/Ne/Le/Lt/Gt/Ge -> eq/ne/le/lt/gt/ge, And/Or -> and/or
    int literal -> lit     float literal -> div p q (exact decimal image)
    Expr.symbol('x') / sympy.Symbol('x') -> sym "x";  f'eta{i}' -> sym "eta{i}"
    a Python local that is not bound to an expression in the function (f, ruv, ipred, ...) -> sym "<identifier>"
    a call of a function parameter `operation(a, b)` -> f2 <operation> a b  (Lean parameter)
"""
from __future__ import annotations

import ast
import hashlib
from fractions import Fraction
from pathlib import Path

from harness.common.paths import LEAN, REPO_SRC

OUT = LEAN / "PharmpyModel" / "Generated" / "Templates.lean"


class Refuse(Exception):
    pass


# ---------------------------------------------------------------- expression terms

def lit(n):
    return ("lit", int(n))


def sym(s):
    return ("sym", s)


def f1(f, a):
    return ("f1", f, a)


def f2(f, a, b):
    return ("f2", f, a, b)


def f3(f, a, b, c):
    return ("f3", f, a, b, c)


NAN = f1("nan", lit(0))


def frac(x: Fraction):
    if x.denominator == 1:
        return lit(x.numerator)
    return f2("div", lit(x.numerator), lit(x.denominator))


def to_lean(t, opvars=()):
    k = t[0]
    if k == "lit":
        return f"(.lit ({t[1]}))" if t[1] < 0 else f"(.lit {t[1]})"
    if k == "sym":
        return f'(.sym "{t[1]}")'
    if k == "f1":
        return f'(.f1 "{t[1]}" {to_lean(t[2], opvars)})'
    if k == "f2":
        fn = t[1][1:] if t[1].startswith("$") else f'"{t[1]}"'
        return f"(.f2 {fn} {to_lean(t[2], opvars)} {to_lean(t[3], opvars)})"
    if k == "f3":
        return f'(.f3 "{t[1]}" {to_lean(t[2], opvars)} {to_lean(t[3], opvars)} {to_lean(t[4], opvars)})'
    raise Refuse(f"bad term {t!r}")


REL_CALL = {"eq": "eq", "ne": "ne", "le": "le", "lt": "lt", "gt": "gt", "ge": "ge",
            "Eq": "eq", "Ne": "ne", "Le": "le", "Lt": "lt", "Gt": "gt", "Ge": "ge"}
FUN1 = {"exp": "exp", "log": "log", "sign": "sign", "sqrt": "sqrt"}
SYM_MAKERS = {("Expr", "symbol"), ("sympy", "Symbol"), ("Expr", "dummy")}
CMP = {ast.Lt: "lt", ast.LtE: "le", ast.Gt: "gt", ast.GtE: "ge", ast.Eq: "eq", ast.NotEq: "ne"}


class Ev:
    """Symbolic evaluation of the closed fragment of Python used to write the templates."""

    def __init__(self, env=None, opparams=()):
        self.env = dict(env or {})
        self.opparams = set(opparams)

    def dotted(self, node):
        if isinstance(node, ast.Name):
            return node.id
        if isinstance(node, ast.Attribute):
            return self.dotted(node.value) + "." + node.attr
        raise Refuse(f"not a dotted name: {ast.dump(node)[:80]}")

    def string(self, node):
        if isinstance(node, ast.Constant) and isinstance(node.value, str):
            return node.value
        if isinstance(node, ast.JoinedStr):
            out = ""
            for v in node.values:
                if isinstance(v, ast.Constant):
                    out += v.value
                elif isinstance(v, ast.FormattedValue) and isinstance(v.value, ast.Name) and v.conversion == -1 \
                        and v.format_spec is None:
                    out += "{" + v.value.id + "}"
                else:
                    raise Refuse("f-string shape")
            return out
        raise Refuse(f"not a string literal: {ast.dump(node)[:80]}")

    def ev(self, n):
        if isinstance(n, ast.Constant):
            if n.value is True:
                return ("true",)
            if isinstance(n.value, bool):
                raise Refuse("False literal")
            if isinstance(n.value, int):
                return lit(n.value)
            if isinstance(n.value, float):
                return frac(Fraction(repr(n.value)))
            raise Refuse(f"constant {n.value!r}")
        if isinstance(n, ast.Name):
            if n.id in self.env:
                return self.env[n.id]
            return sym(n.id)
        if isinstance(n, ast.Attribute):
            return sym(self.dotted(n))
        if isinstance(n, ast.UnaryOp) and isinstance(n.op, ast.USub):
            a = self.ev(n.operand)
            if a[0] == "lit":
                return lit(-a[1])
            if a[0] == "f2" and a[1] == "div" and a[2][0] == "lit":
                return f2("div", lit(-a[2][1]), a[3])
            return f2("mul", lit(-1), a)
        if isinstance(n, ast.BinOp):
            a, b = self.ev(n.left), self.ev(n.right)
            if isinstance(n.op, ast.Add):
                return f2("add", a, b)
            if isinstance(n.op, ast.Sub):
                if b[0] == "lit":
                    return f2("add", a, lit(-b[1]))
                return f2("add", a, f2("mul", lit(-1), b))
            if isinstance(n.op, ast.Mult):
                return f2("mul", a, b)
            if isinstance(n.op, ast.Div):
                return f2("div", a, b)
            if isinstance(n.op, ast.Pow):
                return f2("pow", a, b)
            raise Refuse(f"operator {type(n.op).__name__}")
        if isinstance(n, ast.Compare) and len(n.ops) == 1 and type(n.ops[0]) in CMP:
            return f2(CMP[type(n.ops[0])], self.ev(n.left), self.ev(n.comparators[0]))
        if isinstance(n, (ast.List, ast.Tuple)):
            return ("seq", [self.ev(x) for x in n.elts])
        if isinstance(n, ast.Subscript) and isinstance(n.slice, ast.Constant) and isinstance(n.slice.value, int):
            s = self.ev(n.value)
            if s[0] != "seq":
                raise Refuse("subscript of a non-literal sequence")
            return s[1][n.slice.value]
        if isinstance(n, ast.IfExp):
            raise Refuse("conditional expression must be split by the caller")
        if isinstance(n, ast.Call):
            return self.call(n)
        raise Refuse(f"expression shape {type(n).__name__}: {ast.unparse(n)[:80]}")

    def call(self, n):
        fn = n.func
        if n.keywords:
            raise Refuse("keyword arguments in a template")
        if isinstance(fn, ast.Name):
            if fn.id in self.opparams and len(n.args) == 2:
                return f2("$" + fn.id, self.ev(n.args[0]), self.ev(n.args[1]))
            if fn.id == "abs" and len(n.args) == 1:
                return f1("Abs", self.ev(n.args[0]))
            if fn.id == "Expr" and len(n.args) == 1:
                return sym(self.string(n.args[0]))
            if fn.id == "parse_expr" and len(n.args) == 1 and isinstance(n.args[0], ast.Constant) \
                    and isinstance(n.args[0].value, int):
                return lit(n.args[0].value)
            raise Refuse(f"call of {fn.id}")
        if isinstance(fn, ast.Attribute):
            # module-level constructors
            if isinstance(fn.value, ast.Name):
                key = (fn.value.id, fn.attr)
                if key in SYM_MAKERS and len(n.args) == 1:
                    try:
                        return sym(self.string(n.args[0]))
                    except Refuse:
                        # Expr.symbol(e.names[0]) / Expr.symbol(theta.name): a symbol whose name is data of the call;
                        # it becomes a formal symbol of the template, named by its source text
                        if isinstance(n.args[0], (ast.Name, ast.Attribute, ast.Subscript)):
                            return sym(ast.unparse(n.args[0]))
                        raise
                if key == ("Expr", "integer") and len(n.args) == 1:
                    return self.ev(n.args[0])
                if fn.value.id in ("Expr", "sympy") and fn.attr in FUN1 and len(n.args) == 1:
                    return f1(FUN1[fn.attr], self.ev(n.args[0]))
                if fn.value.id in ("BooleanExpr", "sympy") and fn.attr in REL_CALL and len(n.args) == 2:
                    return f2(REL_CALL[fn.attr], self.ev(n.args[0]), self.ev(n.args[1]))
                if key in (("sympy", "And"), ("sympy", "Or")) and len(n.args) == 2:
                    return f2(fn.attr.lower(), self.ev(n.args[0]), self.ev(n.args[1]))
                if key == ("Expr", "piecewise"):
                    return self.piecewise(n.args)
            # methods x.exp() / x.log()
            if fn.attr in ("exp", "log") and not n.args:
                return f1(fn.attr, self.ev(fn.value))
        raise Refuse(f"call shape {ast.unparse(n)[:80]}")

    def piecewise(self, args):
        pairs = []
        for a in args:
            if isinstance(a, ast.Starred):
                raise Refuse("starred piecewise arguments")
            p = self.ev(a)
            if p[0] != "seq" or len(p[1]) != 2:
                raise Refuse("piecewise argument is not a (value, condition) pair")
            pairs.append(p[1])
        out = NAN
        for val, cond in reversed(pairs):
            if cond == ("true",):
                out = val
            else:
                out = f3("ite", cond, val, out)
        return out


# ---------------------------------------------------------------- source access

def _module(rel):
    p = REPO_SRC / "pharmpy" / "modeling" / rel
    return ast.parse(p.read_text(), filename=str(p))


def _find(tree, *path):
    node = tree
    for name in path:
        for ch in ast.iter_child_nodes(node):
            if isinstance(ch, (ast.FunctionDef, ast.ClassDef)) and ch.name == name:
                node = ch
                break
        else:
            raise Refuse(f"definition {'.'.join(path)} not found")
    return node


def _straight_line(fn, ev: Ev, stop_at=None):
    """Bind `name = <expr>` statements of a function body (top level only, in order); statements whose value
    is outside the fragment are skipped (their target becomes an opaque template symbol)."""
    for st in fn.body:
        if isinstance(st, ast.Assign) and len(st.targets) == 1 and isinstance(st.targets[0], ast.Name):
            try:
                ev.env[st.targets[0].id] = ev.ev(st.value)
            except Refuse:
                ev.env.pop(st.targets[0].id, None)
            if stop_at and st.targets[0].id == stop_at:
                return ev.env[stop_at] if stop_at in ev.env else None
    return None


def _assigned(fn, name, ev=None):
    """The (single, top-level) value assigned to `name` in function `fn`, evaluated."""
    ev = ev or Ev()
    hits = [st for st in fn.body if isinstance(st, ast.Assign) and len(st.targets) == 1
            and isinstance(st.targets[0], ast.Name) and st.targets[0].id == name]
    if len(hits) != 1:
        raise Refuse(f"{fn.name}: expected exactly one top-level assignment to {name}, found {len(hits)}")
    for st in fn.body:
        if st is hits[0]:
            return ev.ev(st.value)
        if isinstance(st, ast.Assign) and len(st.targets) == 1 and isinstance(st.targets[0], ast.Name):
            try:
                ev.env[st.targets[0].id] = ev.ev(st.value)
            except Refuse:
                ev.env.pop(st.targets[0].id, None)
    raise AssertionError


def _skeleton(fn, holes):
    """Source of `fn` with the given AST nodes replaced by numbered holes: pins the control structure."""
    ids = {id(h): i for i, h in enumerate(holes)}

    class R(ast.NodeTransformer):
        def visit(self, node):
            if id(node) in ids:
                return ast.Name(id=f"HOLE{ids[id(node)]}", ctx=ast.Load())
            return super().visit(node)

    import copy
    # NodeTransformer mutates: work on a deep copy, with holes located by position
    pos = {(h.lineno, h.col_offset, h.end_lineno, h.end_col_offset): i for i, h in enumerate(holes)}
    fn2 = copy.deepcopy(fn)

    class R2(ast.NodeTransformer):
        def generic_visit(self, node):
            key = (getattr(node, "lineno", None), getattr(node, "col_offset", None),
                   getattr(node, "end_lineno", None), getattr(node, "end_col_offset", None))
            if key in pos and isinstance(node, ast.expr):
                return ast.Name(id=f"HOLE{pos[key]}", ctx=ast.Load())
            return super().generic_visit(node)

    fn2 = R2().visit(fn2)
    # drop the docstring
    if fn2.body and isinstance(fn2.body[0], ast.Expr) and isinstance(fn2.body[0].value, ast.Constant):
        fn2.body = fn2.body[1:]
    return ast.unparse(fn2)


CATEGORICAL_SKELETON = '''@classmethod
def categorical(cls, counts, alternative=False):
    symbol = Expr.symbol('symbol')
    most_common = counts.idxmax()
    categories = list(counts.index)
    values = [HOLE0]
    conditions = [BooleanExpr.eq(Expr.symbol('cov'), most_common)]
    for i, cat in enumerate(categories, 1):
        if cat != most_common:
            if np.isnan(cat):
                conditions += [BooleanExpr.eq(Expr.symbol('cov'), Expr.symbol('NaN'))]
                values += [HOLE1]
            else:
                conditions += [BooleanExpr.eq(Expr.symbol('cov'), cat)]
                if len(categories) == 2:
                    if alternative:
                        values += [HOLE2]
                    else:
                        values += [HOLE3]
                elif alternative:
                    values += [HOLE4]
                else:
                    values += [HOLE5]
    expression = Expr.piecewise(*zip(values, conditions))
    template = Assignment.create(symbol, expression)
    return cls(template)'''


def _categorical(fn):
    holes = []
    for node in ast.walk(fn):
        if isinstance(node, ast.Assign) and len(node.targets) == 1 and isinstance(node.targets[0], ast.Name) \
                and node.targets[0].id == "values" and isinstance(node.value, ast.List) and len(node.value.elts) == 1:
            holes.append(node.value.elts[0])
        if isinstance(node, ast.AugAssign) and isinstance(node.target, ast.Name) and node.target.id == "values" \
                and isinstance(node.op, ast.Add) and isinstance(node.value, ast.List) and len(node.value.elts) == 1:
            holes.append(node.value.elts[0])
    holes.sort(key=lambda h: (h.lineno, h.col_offset))
    if len(holes) != 6:
        raise Refuse(f"categorical: expected 6 value sites, found {len(holes)}")
    sk = _skeleton(fn, holes)
    if sk != CATEGORICAL_SKELETON:
        raise Refuse("categorical: control structure differs from the pinned skeleton:\n" + sk)
    ev = Ev()
    return [ev.ev(h) for h in holes]


def _dispatch(fn, var, cls_name):
    """if var == 'k': return Cls.method(args) ... chains -> [(k, method, [arg source])]"""
    out = []
    node = None
    for st in fn.body:
        if isinstance(st, ast.If):
            node = st
            break
    while node is not None:
        t = node.test
        if not (isinstance(t, ast.Compare) and isinstance(t.left, ast.Name) and t.left.id == var
                and len(t.ops) == 1 and isinstance(t.ops[0], ast.Eq) and isinstance(t.comparators[0], ast.Constant)):
            raise Refuse(f"{fn.name}: dispatch test shape {ast.unparse(t)}")
        key = t.comparators[0].value
        ret = node.body[-1]
        if not (isinstance(ret, ast.Return) and isinstance(ret.value, ast.Call) and isinstance(ret.value.func, ast.Attribute)
                and isinstance(ret.value.func.value, ast.Name) and ret.value.func.value.id == cls_name):
            raise Refuse(f"{fn.name}: dispatch arm for {key!r} is not `return {cls_name}.<method>(...)`")
        args = [ast.unparse(a) for a in ret.value.args] + [f"{k.arg}={ast.unparse(k.value)}" for k in ret.value.keywords]
        out.append((key, ret.value.func.attr, args))
        if len(node.orelse) == 1 and isinstance(node.orelse[0], ast.If):
            node = node.orelse[0]
        else:
            node = None
    return out


def _op_table(fn, var):
    """if var == '*': return mul / elif var == '+': return add"""
    out = []
    node = next((st for st in fn.body if isinstance(st, ast.If)), None)
    while node is not None:
        t = node.test
        if not (isinstance(t, ast.Compare) and isinstance(t.left, ast.Name) and t.left.id == var
                and isinstance(t.ops[0], ast.Eq) and isinstance(t.comparators[0], ast.Constant)):
            raise Refuse(f"{fn.name}: operation test shape")
        ret = node.body[-1]
        if not (isinstance(ret, ast.Return) and isinstance(ret.value, ast.Name) and ret.value.id in ("mul", "add")):
            raise Refuse(f"{fn.name}: operation arm")
        out.append((t.comparators[0].value, ret.value.id))
        node = node.orelse[0] if len(node.orelse) == 1 and isinstance(node.orelse[0], ast.If) else None
    return out


def _loop_body_expr(fn, name="expression"):
    """for i in range(1, n+1): <locals>; expression = ...   -> evaluated `expression`"""
    loops = [st for st in fn.body if isinstance(st, ast.For)]
    if len(loops) != 1:
        raise Refuse(f"{fn.name}: expected one for loop")
    ev = Ev()
    fake = ast.FunctionDef(name=fn.name, args=None, body=loops[0].body, decorator_list=[])
    return _assigned(fake, name, ev)


def _ifexp_branches(fn, target, which):
    """All `target = A if <cond> else B` / `target = A` assignments anywhere in fn, in source order."""
    out = []
    for node in ast.walk(fn):
        if isinstance(node, ast.Assign) and len(node.targets) == 1 and isinstance(node.targets[0], ast.Name) \
                and node.targets[0].id == target:
            out.append(node)
    out.sort(key=lambda n: n.lineno)
    return out


def extract():
    defs = []     # (lean name, params, term, comment)
    tables = []   # (lean name, lean type, lean value, comment)

    # ---- covariate_effect.py
    ce = _module("covariate_effect.py")
    cls = _find(ce, "CovariateEffect")
    defs.append(("effLin", "", _assigned(_find(cls, "linear"), "expression"), "CovariateEffect.linear"))
    defs.append(("effPieceLin", "", _assigned(_find(cls, "piecewise_linear"), "expression"), "CovariateEffect.piecewise_linear"))
    defs.append(("effExp", "", _assigned(_find(cls, "exponential"), "expression"), "CovariateEffect.exponential"))
    defs.append(("effPow", "", _assigned(_find(cls, "power"), "expression"), "CovariateEffect.power"))
    cat = _categorical(_find(cls, "categorical"))
    for nm, t, c in zip(["catRef", "catNaN", "cat2Single", "catSingle", "cat2Multi", "catMulti"], cat,
                        ["value for the most common category", "value for a missing (NaN) category",
                         "two categories, alternative=True", "two categories", "more categories, alternative=True",
                         "more categories"]):
        defs.append((nm, "", t, "CovariateEffect.categorical: " + c))
    disp = _dispatch(_find(ce, "_create_template"), "effect", "CovariateEffect")
    tables.append(("effectDispatch", "List (String × String × Bool)",
                   "[" + ", ".join(f'("{k}", "{m}", {"true" if "alternative=True" in a else "false"})' for k, m, a in disp) + "]",
                   "_create_template: effect name -> (CovariateEffect classmethod, alternative)"))
    ops = _op_table(_find(cls, "_get_operation"), "operation_str")
    tables.append(("covOps", "List (String × String)", "[" + ", ".join(f'("{k}", "{v}")' for k, v in ops) + "]",
                   "CovariateEffect._get_operation"))

    # ---- parameter_variability.py
    pv = _module("parameter_variability.py")
    ea = _find(pv, "EtaAddition")
    defs.append(("etaAdd", "", _assigned(_find(ea, "additive"), "template"), "EtaAddition.additive"))
    defs.append(("etaProp", "", _assigned(_find(ea, "proportional"), "template"), "EtaAddition.proportional"))
    defs.append(("etaExp", "(operation : String)", _assigned(_find(ea, "exponential"), "template", Ev(opparams=["operation"])),
                 "EtaAddition.exponential(operation)"))
    defs.append(("etaLogit", "", _assigned(_find(ea, "logit"), "template"), "EtaAddition.logit"))
    defs.append(("etaReLogit", "", _assigned(_find(ea, "re_logit"), "template"), "EtaAddition.re_logit"))
    disp = _dispatch(_find(pv, "_create_template"), "expression", "EtaAddition")
    tables.append(("etaDispatch", "List (String × String)", "[" + ", ".join(f'("{k}", "{m}")' for k, m, a in disp) + "]",
                   "_create_template: eta form -> EtaAddition classmethod"))
    ops = _op_table(_find(pv, "_get_operation_func"), "operation")
    tables.append(("etaOps", "List (String × String)", "[" + ", ".join(f'("{k}", "{v}")' for k, v in ops) + "]",
                   "_get_operation_func"))
    et = _find(pv, "EtaTransformation")
    defs.append(("transBoxcox", "", _loop_body_expr(_find(et, "boxcox")), "EtaTransformation.boxcox (per eta i)"))
    defs.append(("transTdist", "", _loop_body_expr(_find(et, "tdist")), "EtaTransformation.tdist (per eta i)"))
    defs.append(("transJohnDraper", "", _loop_body_expr(_find(et, "john_draper")), "EtaTransformation.john_draper (per eta i)"))

    # ---- error.py
    er = _module("error.py")
    fn = _find(er, "set_additive_error_model")
    defs.append(("errAdditive", "", _assigned(fn, "expr", Ev()), "set_additive_error_model: expr = f + ruv"))
    fn = _find(er, "set_proportional_error_model")
    asg = _ifexp_branches(fn, "error_expr", None)
    if len(asg) != 2 or not all(isinstance(a.value, ast.IfExp) and ast.unparse(a.value.test) == "zero_protection" for a in asg):
        raise Refuse("set_proportional_error_model: expected two `error_expr = A if zero_protection else B`")
    ev = Ev()
    _straight_line(fn, ev)
    defs.append(("errPropLogZP", "", ev.ev(asg[0].value.body), "proportional, log data, zero protection"))
    defs.append(("errPropLog", "", ev.ev(asg[0].value.orelse), "proportional, log data"))
    defs.append(("errPropZP", "", ev.ev(asg[1].value.body), "proportional, zero protection"))
    defs.append(("errProp", "", ev.ev(asg[1].value.orelse), "proportional"))
    g = [n for n in ast.walk(fn) if isinstance(n, ast.Assign) and isinstance(n.targets[0], ast.Name) and n.targets[0].id == "guard_expr"]
    if len(g) != 1:
        raise Refuse("set_proportional_error_model: guard_expr")
    defs.append(("errGuard", "", Ev().ev(g[0].value), "IPREDADJ guard"))
    fn = _find(er, "set_combined_error_model")
    asg = _ifexp_branches(fn, "error_expr", None)
    ev = Ev()
    _straight_line(fn, ev)
    plain = [a for a in asg if not isinstance(a.value, ast.Constant) and "piecewise" not in ast.unparse(a.value)]
    if len(plain) != 3:
        raise Refuse(f"set_combined_error_model: expected 3 literal error_expr right-hand sides, found {len(plain)}")
    defs.append(("errCombLog", "", ev.ev(plain[0].value), "combined, log data"))
    defs.append(("errCombIivRuv", "", ev.ev(plain[1].value), "combined, IIV on RUV present"))
    defs.append(("errComb", "", ev.ev(plain[2].value), "combined"))
    fn = _find(er, "set_dtbs_error_model")
    ev = Ev()
    defs.append(("dtbsIpred", "", _assigned(fn, "ipred", ev), "set_dtbs_error_model: IPRED"))
    w = [n for n in fn.body if isinstance(n, ast.Assign) and isinstance(n.targets[0], ast.Name) and n.targets[0].id == "wass"]
    if len(w) != 1 or not (isinstance(w[0].value, ast.Call) and len(w[0].value.args) == 2):
        raise Refuse("set_dtbs_error_model: wass")
    defs.append(("dtbsW", "", Ev().ev(w[0].value.args[1]), "set_dtbs_error_model: W"))

    # modifiers of an existing error model: the value of the (single-entry) substitution dictionaries
    def dict_values(fn, var="subs_dict"):
        out = []
        for n in ast.walk(fn):
            if isinstance(n, ast.Assign) and len(n.targets) == 1 and isinstance(n.targets[0], ast.Name) \
                    and n.targets[0].id == var and isinstance(n.value, ast.Dict) and len(n.value.keys) == 1:
                out.append(n)
        out.sort(key=lambda n: n.lineno)
        return out
    fn = _find(er, "set_iiv_on_ruv")
    dv_ = dict_values(fn)
    if len(dv_) != 1:
        raise Refuse("set_iiv_on_ruv: expected one subs_dict = {eps: eps*exp(eta)}")
    defs.append(("iivOnRuvKey", "", Ev().ev(dv_[0].value.keys[0]), "set_iiv_on_ruv: substituted symbol"))
    defs.append(("iivOnRuv", "", Ev().ev(dv_[0].value.values[0]), "set_iiv_on_ruv: what each epsilon is replaced by"))
    fn = _find(er, "set_power_on_ruv")
    dv_ = dict_values(fn)
    if len(dv_) != 4:
        raise Refuse(f"set_power_on_ruv: expected four subs_dict assignments, found {len(dv_)}")
    for nm, d, c in zip(["powerDivIpred", "powerDivAlias", "powerAdj", "powerPlain"], dv_,
                        ["eps*ipred -> eps", "eps*alias -> eps", "eps*IPREDADJ -> IPREDADJ**theta*eps", "eps -> ipred**theta*eps"]):
        defs.append((nm + "Key", "", Ev().ev(d.value.keys[0]), "set_power_on_ruv key: " + c))
        defs.append((nm, "", Ev().ev(d.value.values[0]), "set_power_on_ruv value: " + c))
    fn = _find(er, "set_time_varying_error_model")
    comps = [n for n in ast.walk(fn) if isinstance(n, ast.DictComp)]
    if len(comps) != 1:
        raise Refuse("set_time_varying_error_model: expected one dict comprehension")
    defs.append(("timeVaryingKey", "", Ev().ev(comps[0].key), "set_time_varying_error_model: substituted symbol"))
    defs.append(("timeVarying", "", Ev().ev(comps[0].value), "set_time_varying_error_model: eps -> eps*theta before the cutoff"))

    # ---- allometry.py
    al = _module("allometry.py")
    fn = _find(al, "add_allometry")
    loops = [st for st in fn.body if isinstance(st, ast.For)]
    hits = [n for lp in loops for n in ast.walk(lp) if isinstance(n, ast.Assign) and isinstance(n.targets[0], ast.Name)
            and n.targets[0].id == "expr"]
    if len(hits) != 1:
        raise Refuse("add_allometry: expr")
    defs.append(("allometry", "", Ev().ev(hits[0].value), "add_allometry: P*(X/Z)**T"))

    # ---- odes.py
    od = _module("odes.py")
    fn = _find(od, "set_transit_compartments")
    hits = [n for n in ast.walk(fn) if isinstance(n, ast.Assign) and isinstance(n.targets[0], ast.Name)
            and n.targets[0].id == "rate" and isinstance(n.value, ast.BinOp)]
    if len(hits) != 1:
        raise Refuse("set_transit_compartments: rate = n / mdt_symb")
    defs.append(("transitRate", "", Ev().ev(hits[0].value), "set_transit_compartments: rate of each new transit"))
    fn = _find(od, "_add_first_order_absorption")
    hits = [n for n in ast.walk(fn) if isinstance(n, ast.Call) and isinstance(n.func, ast.Attribute) and n.func.attr == "add_flow"]
    if len(hits) != 1 or len(hits[0].args) != 3:
        raise Refuse("_add_first_order_absorption: add_flow")
    defs.append(("foAbsRate", "", Ev().ev(hits[0].args[2]), "_add_first_order_absorption: depot -> central rate"))
    fn = _find(od, "_add_zero_order_absorption")
    hits = [k.value for n in ast.walk(fn) if isinstance(n, ast.Call) and isinstance(n.func, ast.Name) and n.func.id == "Infusion"
            for k in n.keywords if k.arg == "duration"]
    if len(hits) != 1:
        raise Refuse("_add_zero_order_absorption: Infusion(duration=...)")
    defs.append(("zoAbsDuration", "", Ev().ev(hits[0]), "_add_zero_order_absorption: infusion duration"))
    return defs, tables


def render():
    defs, tables = extract()
    lines = [
        "/- GENERATED by harness/translate/c09_templates.py (T8) from the working tree of pharmpy:",
        "   modeling/covariate_effect.py, parameter_variability.py, error.py, allometry.py, odes.py.",
        "   Do not edit; rewritten on every `./check C09` when the source templates change. -/",
        "import PharmpyModel.Core.Expr",
        "namespace Pharmpy.C09.Gen",
        "open Pharmpy",
        "",
    ]
    for name, params, term, comment in defs:
        if term[0] in ("seq", "true"):
            raise Refuse(f"{name}: not an expression")
        lines.append(f"/-- {comment} -/")
        lines.append(f"def {name} {params + ' ' if params else ''}: Expr :=")
        lines.append("  " + to_lean(term))
        lines.append("")
    for name, ty, val, comment in tables:
        lines.append(f"/-- {comment} -/")
        lines.append(f"def {name} : {ty} :=")
        lines.append("  " + val)
        lines.append("")
    lines.append("end Pharmpy.C09.Gen")
    return "\n".join(lines) + "\n"


def regenerate() -> bool:
    text = render()
    OUT.parent.mkdir(parents=True, exist_ok=True)
    if OUT.exists() and OUT.read_text() == text:
        return False
    OUT.write_text(text)
    return True


if __name__ == "__main__":
    print(render())
