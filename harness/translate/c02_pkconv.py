"""T2 — translate the decision data of pharmpy/model/external/nonmem/update.py into Lean.

Extracted (Python `ast`, closed list of shapes, anything else raises):
  * new_advan_trans : the ADVAN ladder (order of match_advanN tests and the ADVAN each selects)
                      and the TRANS decision ladder (oldtrans x advan -> trans)
  * pk_param_conversion : the literal rename dictionaries per (from_advan, advan, trans condition)
    (the ADVAN5/ADVAN7 blocks compute names in loops; they are not tables and are covered by K only)
Output: lean/PharmpyModel/Generated/PkConv.lean (rewritten only when the content changes).
"""
from __future__ import annotations

import ast
from pathlib import Path

from harness.common.paths import LEAN, REPO_SRC

SRC = REPO_SRC / "pharmpy" / "model" / "external" / "nonmem" / "update.py"
OUT = LEAN / "PharmpyModel" / "Generated" / "PkConv.lean"


class Refuse(Exception):
    pass


def _func(tree, name):
    for n in tree.body:
        if isinstance(n, ast.FunctionDef) and n.name == name:
            return n
    raise Refuse(f"function {name} not found")


def _const_str(n):
    if isinstance(n, ast.Constant) and isinstance(n.value, str):
        return n.value
    raise Refuse(f"expected string constant, got {ast.dump(n)[:80]}")


def _name_test(test, var):
    """test on variable `var`: returns ('in', [values]) or ('ne', value)."""
    if isinstance(test, ast.Compare) and len(test.ops) == 1 and isinstance(test.left, ast.Name) and test.left.id == var:
        op, rhs = test.ops[0], test.comparators[0]
        if isinstance(op, ast.Eq):
            return ("in", [_const_str(rhs)])
        if isinstance(op, ast.NotEq):
            return ("ne", _const_str(rhs))
        if isinstance(op, ast.In) and isinstance(rhs, (ast.List, ast.Tuple)):
            return ("in", [_const_str(e) for e in rhs.elts])
        if isinstance(op, ast.Is) and isinstance(rhs, ast.Constant) and rhs.value is None:
            return ("isnone", None)
    if isinstance(test, ast.BoolOp) and isinstance(test.op, ast.Or):
        vals = []
        for v in test.values:
            k, x = _name_test(v, var)
            if k != "in":
                raise Refuse("unsupported disjunct")
            vals += x
        return ("in", vals)
    raise Refuse(f"unsupported test on {var}: {ast.dump(test)[:120]}")


# ------------------------------------------------------------------ new_advan_trans

def _advan_ladder(fn):
    """The if/elif chain assigning `advan`."""
    for node in fn.body:
        if isinstance(node, ast.If) and _assigns(node.body, "advan"):
            chain = []
            cur = node
            while True:
                val = _single_assign(cur.body, "advan")
                chain.append((_ladder_test(cur.test), val))
                if len(cur.orelse) == 1 and isinstance(cur.orelse[0], ast.If):
                    cur = cur.orelse[0]
                else:
                    chain.append(("else", _single_assign(cur.orelse, "advan")))
                    break
            return chain
    raise Refuse("ADVAN ladder not found")


def _ladder_test(test):
    if isinstance(test, ast.BoolOp) and isinstance(test.op, ast.Or) and all(isinstance(v, ast.Name) for v in test.values):
        return "or:" + ",".join(v.id for v in test.values)
    if isinstance(test, ast.Call) and isinstance(test.func, ast.Name) and test.func.id.startswith("match_advan"):
        return test.func.id
    raise Refuse(f"unsupported ADVAN test {ast.dump(test)[:100]}")


def _assigns(body, var):
    return any(isinstance(s, ast.Assign) and isinstance(s.targets[0], ast.Name) and s.targets[0].id == var for s in body)


def _single_assign(body, var):
    stmts = [s for s in body if not (isinstance(s, ast.Expr) and isinstance(s.value, ast.Constant))]
    if len(stmts) == 1 and isinstance(stmts[0], ast.Assign) and isinstance(stmts[0].targets[0], ast.Name) \
            and stmts[0].targets[0].id == var:
        v = stmts[0].value
        if isinstance(v, ast.Constant) and (isinstance(v.value, str) or v.value is None):
            return v.value if v.value is not None else "NONE"
        if isinstance(v, ast.Name) and v.id == "oldtrans":
            return "=old"
    raise Refuse(f"expected single assignment to {var}: {[ast.dump(s)[:80] for s in body]}")


def _advan_branches(body):
    """body is either `trans = X` or an if/elif chain on `advan in [...]` ending in else."""
    try:
        return [], _single_assign(body, "trans")
    except Refuse:
        pass
    stmts = [s for s in body if not isinstance(s, ast.Assign) or s.targets[0].id == "trans"]
    if len(stmts) != 1 or not isinstance(stmts[0], ast.If):
        raise Refuse("unsupported TRANS branch body")
    cur = stmts[0]
    branches = []
    while True:
        k, advs = _name_test(cur.test, "advan")
        if k != "in":
            raise Refuse("unsupported advan test")
        branches.append((advs, _single_assign(cur.body, "trans")))
        if len(cur.orelse) == 1 and isinstance(cur.orelse[0], ast.If):
            cur = cur.orelse[0]
        else:
            return branches, _single_assign(cur.orelse, "trans")


def _trans_ladder(fn):
    for node in fn.body:
        if isinstance(node, ast.If) and isinstance(node.test, ast.Name) and node.test.id == "nonlin" \
                and _assigns(node.body, "trans"):
            if _single_assign(node.body, "trans") != "NONE":
                raise Refuse("nonlin branch must set trans = None")
            cur = node.orelse[0]
            rows, none_row, default = [], None, None
            while True:
                k, v = _name_test(cur.test, "oldtrans")
                if k == "in" and len(v) == 1:
                    rows.append((v[0],) + _advan_branches(cur.body))
                elif k == "isnone":
                    # central = ...; elimination_rate = ...; num, den = ...; if num.is_symbol() and den.is_symbol(): A else: B
                    ifs = [s for s in cur.body if isinstance(s, ast.If)]
                    others = [s for s in cur.body if not isinstance(s, (ast.If, ast.Assign))]
                    if len(ifs) != 1 or others:
                        raise Refuse("unsupported oldtrans-is-None body")
                    t = ifs[0].test
                    if not (isinstance(t, ast.BoolOp) and isinstance(t.op, ast.And) and len(t.values) == 2 and all(
                            isinstance(c, ast.Call) and isinstance(c.func, ast.Attribute) and c.func.attr == "is_symbol"
                            for c in t.values)):
                        raise Refuse("unsupported symbolic-quotient test")
                    none_row = (_advan_branches(ifs[0].body), _advan_branches(ifs[0].orelse))
                else:
                    raise Refuse("unsupported oldtrans test")
                if len(cur.orelse) == 1 and isinstance(cur.orelse[0], ast.If):
                    cur = cur.orelse[0]
                else:
                    default = _single_assign(cur.orelse, "trans")
                    break
            if none_row is None:
                raise Refuse("no oldtrans-is-None branch")
            return rows, none_row, default
    raise Refuse("TRANS ladder not found")


# ------------------------------------------------------------------ pk_param_conversion

def _sym(n):
    """Expr.symbol('X') / sympy.Symbol('X')"""
    if isinstance(n, ast.Call) and isinstance(n.func, ast.Attribute) and n.func.attr in ("symbol", "Symbol") \
            and len(n.args) == 1:
        return _const_str(n.args[0])
    raise Refuse(f"expected Expr.symbol('..'), got {ast.dump(n)[:100]}")


def _pairs(body):
    out = []
    for s in body:
        if isinstance(s, ast.Assign) and isinstance(s.targets[0], ast.Subscript) \
                and isinstance(s.targets[0].value, ast.Name) and s.targets[0].value.id == "d":
            out.append((_sym(s.targets[0].slice), _sym(s.value)))
        elif isinstance(s, ast.Expr) and isinstance(s.value, ast.Call) and isinstance(s.value.func, ast.Attribute) \
                and s.value.func.attr == "update" and isinstance(s.value.func.value, ast.Name) \
                and s.value.func.value.id == "d" and len(s.value.args) == 1 and isinstance(s.value.args[0], ast.Dict):
            dct = s.value.args[0]
            out += [(_sym(k), _sym(v)) for k, v in zip(dct.keys, dct.values)]
        else:
            raise Refuse(f"unsupported statement in rename block: {ast.dump(s)[:120]}")
    return out


def _trans_chain(body):
    """body: rename statements, or an if/elif/else chain on `trans` -> list of (cond, pairs).
    cond = ('any',) | ('eq', T) | ('ne', T) | ('notin', [T..])"""
    if not any(isinstance(s, ast.If) for s in body):
        return [(("any",), _pairs(body))]
    if len(body) != 1:
        raise Refuse("mixed statements and if in a rename block")
    out = []
    cur = body[0]
    seen = []
    while True:
        k, v = _name_test(cur.test, "trans")
        if k == "in" and len(v) == 1:
            out.append((("eq", v[0]), _pairs(cur.body)))
            seen.append(v[0])
        elif k == "ne" and not seen and not cur.orelse:
            out.append((("ne", v), _pairs(cur.body)))
            return out
        else:
            raise Refuse("unsupported trans test")
        if len(cur.orelse) == 1 and isinstance(cur.orelse[0], ast.If):
            cur = cur.orelse[0]
        elif cur.orelse:
            out.append((("notin", list(seen)), _pairs(cur.orelse)))
            return out
        else:
            return out


def _advan_chain(body):
    """body of a `from_advan == X` branch: one or more if/elif chains on `advan`.
    A test may be `advan == 'A' and trans != 'T'`."""
    out = []
    for top in body:
        if not isinstance(top, ast.If):
            raise Refuse(f"unsupported statement in from_advan block: {ast.dump(top)[:100]}")
        cur = top
        while True:
            test = cur.test
            extra = None
            if isinstance(test, ast.BoolOp) and isinstance(test.op, ast.And) and len(test.values) == 2:
                k2, v2 = _name_test(test.values[1], "trans")
                if k2 != "ne":
                    raise Refuse("unsupported conjunct")
                extra = ("ne", v2)
                test = test.values[0]
            k, advs = _name_test(test, "advan")
            if k != "in":
                raise Refuse("unsupported advan test")
            for cond, pairs in _trans_chain(cur.body):
                if extra is not None:
                    if cond != ("any",):
                        raise Refuse("nested trans conditions")
                    cond = extra
                for a in advs:
                    out.append((a, cond, pairs))
            if len(cur.orelse) == 1 and isinstance(cur.orelse[0], ast.If):
                cur = cur.orelse[0]
            elif cur.orelse:
                raise Refuse("else branch on advan chain")
            else:
                break
    return out


def _rename_table(fn):
    table = []
    general_seen = 0
    for node in fn.body:
        if not isinstance(node, ast.If):
            continue
        if isinstance(node.test, ast.UnaryOp) and isinstance(node.test.op, ast.Not) and isinstance(node.test.operand, ast.Name) \
                and node.test.operand.id == "all_subs" and len(node.body) == 1 and isinstance(node.body[0], ast.Return):
            continue  # `if not all_subs: return model`
        # the from_advan chain
        try:
            k, v = _name_test(node.test, "from_advan")
        except Refuse:
            k, v = _name_test(node.test, "advan")
            if set(v) == {"ADVAN5", "ADVAN7"}:
                general_seen += 1
                continue
            raise
        cur = node
        while True:
            k, froms = _name_test(cur.test, "from_advan")
            if k != "in":
                raise Refuse("unsupported from_advan test")
            if set(froms) == {"ADVAN5", "ADVAN7"}:
                general_seen += 1  # computed names: K only
            else:
                for f in froms:
                    for a, cond, pairs in _advan_chain(cur.body):
                        table.append((f, a, cond, pairs))
            if len(cur.orelse) == 1 and isinstance(cur.orelse[0], ast.If):
                cur = cur.orelse[0]
            elif cur.orelse:
                raise Refuse("else branch on from_advan chain")
            else:
                break
    if general_seen != 2:
        raise Refuse("expected the two ADVAN5/ADVAN7 blocks of pk_param_conversion")
    if not table:
        raise Refuse("no rename table found")
    return table


# ------------------------------------------------------------------ output

def _s(x):
    return '"' + x + '"'


def _lst(xs):
    return "[" + ", ".join(xs) + "]"


def _branches(b):
    brs, default = b
    return "(" + _lst("(" + _lst(map(_s, advs)) + ", " + _s(t) + ")" for advs, t in brs) + ", " + _s(default) + ")"


def _cond(c):
    if c == ("any",):
        return ".any"
    if c[0] == "eq":
        return f".eq {_s(c[1])}"
    if c[0] == "ne":
        return f".ne {_s(c[1])}"
    return f".notIn {_lst(map(_s, c[1]))}"


def render() -> str:
    tree = ast.parse(SRC.read_text())
    nat = _func(tree, "new_advan_trans")
    ladder = _advan_ladder(nat)
    rows, none_row, default = _trans_ladder(nat)
    table = _rename_table(_func(tree, "pk_param_conversion"))
    L = []
    L.append("/- GENERATED by harness/translate/c02_pkconv.py from src/pharmpy/model/external/nonmem/update.py — do not edit. -/")
    L.append("namespace Pharmpy.C02.Generated")
    L.append("")
    L.append("inductive TransCond where")
    L.append("  | any | eq (t : String) | ne (t : String) | notIn (ts : List String)")
    L.append("  deriving Repr, DecidableEq")
    L.append("")
    L.append("/-- `new_advan_trans`: the tests of the ADVAN ladder in order, with the ADVAN each selects. -/")
    L.append("def advanLadder : List (String × String) := " + _lst("(" + _s(t) + ", " + _s(a) + ")" for t, a in ladder))
    L.append("")
    L.append("/-- TRANS ladder: per `oldtrans` value the `advan in [...]` branches and the else value")
    L.append("    (`\"=old\"` = keep oldtrans). -/")
    L.append("def transLadder : List (String × List (List String × String) × String) := " +
             _lst("(" + _s(o) + ", " + _lst("(" + _lst(map(_s, advs)) + ", " + _s(t) + ")" for advs, t in brs) + ", " + _s(d) + ")"
                  for o, brs, d in rows))
    L.append("/-- `oldtrans is None`: branches when the elimination rate is a quotient of two symbols, and otherwise. -/")
    L.append("def transNoneQuotient : List (List String × String) × String := " + _branches(none_row[0]))
    L.append("def transNoneOther : List (List String × String) × String := " + _branches(none_row[1]))
    L.append("/-- final `else` of the ladder (any other oldtrans). -/")
    L.append("def transElse : String := " + _s(default))
    L.append("")
    L.append("/-- `pk_param_conversion`: literal rename dictionaries (from_advan, advan, condition on trans, pairs). -/")
    L.append("def renameTable : List (String × String × TransCond × List (String × String)) := [")
    for i, (f, a, c, pairs) in enumerate(table):
        L.append("  (" + _s(f) + ", " + _s(a) + ", " + _cond(c) + ", " +
                 _lst("(" + _s(x) + ", " + _s(y) + ")" for x, y in pairs) + ")" + ("," if i + 1 < len(table) else ""))
    L.append("]")
    L.append("")
    L.append("end Pharmpy.C02.Generated")
    return "\n".join(L) + "\n"


def run() -> bool:
    text = render()
    if OUT.exists() and OUT.read_text() == text:
        return False
    OUT.parent.mkdir(parents=True, exist_ok=True)
    OUT.write_text(text)
    return True


if __name__ == "__main__":
    print(render())
