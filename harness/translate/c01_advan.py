"""T1 — translator: ADVAN/TRANS rate formulas and compartment wiring of
/repo/src/pharmpy/model/external/nonmem/advan.py  ->  lean/PharmpyModel/Generated/Advan.lean

Deliberately dumb: recognises a closed list of syntactic shapes and raises
`Refuse` on anything else (the runner then reports the obligation as broken).

Extracted:
  * `_advan1and2_trans`, `_advan3_trans`, `_advan4_trans`, `_advan11_trans`, `_advan12_trans`:
    an if/elif/else chain on `trans == 'TRANSn'`, each arm `return <expr or tuple of exprs>` where an
    expr is +,-,*,/ over `Expr.symbol('NAME')` and integer constants;
  * the ADVAN1,2,3,4,10,11,12 arms of `_compartmental_model`: compartments (name, ALAG/F index, dosed or not),
    `add_compartment` order, tuple unpacking of the trans function, `add_flow` calls, `comp_map`,
    the default dose compartment (`dosing(di, dataset, n)`) and the observation compartment
    (`_f_link_assignment(…, comp, n)`).
"""
from __future__ import annotations

import ast
from pathlib import Path

from harness.common.paths import LEAN, REPO_SRC

SRC = REPO_SRC / "pharmpy" / "model" / "external" / "nonmem" / "advan.py"
OUT = LEAN / "PharmpyModel" / "Generated" / "Advan.lean"
TRANS_FUNCS = ["_advan1and2_trans", "_advan3_trans", "_advan4_trans", "_advan11_trans", "_advan12_trans"]
ADVANS = ["ADVAN1", "ADVAN2", "ADVAN3", "ADVAN4", "ADVAN10", "ADVAN11", "ADVAN12"]
SKIPPED_ARMS = {("ADVAN5", "ADVAN7")}
BINOPS = {ast.Add: "add", ast.Sub: "sub", ast.Mult: "mul", ast.Div: "div"}


class Refuse(Exception):
    pass


def _is_expr_call(node, method):
    return (isinstance(node, ast.Call) and isinstance(node.func, ast.Attribute) and node.func.attr == method
            and isinstance(node.func.value, ast.Name) and node.func.value.id == "Expr")


def expr(node, env=None):
    """python AST -> nested list expression."""
    env = env or {}
    if _is_expr_call(node, "symbol"):
        if len(node.args) != 1 or not isinstance(node.args[0], ast.Constant) or not isinstance(node.args[0].value, str):
            raise Refuse(f"Expr.symbol with non-literal argument at line {node.lineno}")
        return ["sym", node.args[0].value]
    if _is_expr_call(node, "function"):
        # Expr.function(<comp>.amount.name, 't')  ->  A_<COMP>(t)
        a, t = node.args
        if (isinstance(a, ast.Attribute) and a.attr == "name" and isinstance(a.value, ast.Attribute)
                and a.value.attr == "amount" and isinstance(a.value.value, ast.Name)
                and isinstance(t, ast.Constant) and t.value == "t"):
            comp = env.get(("comp", a.value.value.id))
            if comp is None:
                raise Refuse(f"amount of unknown compartment at line {node.lineno}")
            return ["sym", f"A_{comp}(t)"]
        raise Refuse(f"unrecognised Expr.function at line {node.lineno}")
    if isinstance(node, ast.Constant) and isinstance(node.value, int) and not isinstance(node.value, bool):
        return ["lit", node.value]
    if isinstance(node, ast.Name):
        if ("expr", node.id) in env:
            return env[("expr", node.id)]
        raise Refuse(f"unbound name {node.id} at line {node.lineno}")
    if isinstance(node, ast.BinOp) and type(node.op) in BINOPS:
        return [BINOPS[type(node.op)], expr(node.left, env), expr(node.right, env)]
    raise Refuse(f"unrecognised expression {ast.dump(node)[:80]} at line {getattr(node, 'lineno', '?')}")


def trans_function(fn: ast.FunctionDef):
    """-> list of (key, [exprs]); key 'TRANSn' or 'default'."""
    body = [s for s in fn.body if not (isinstance(s, ast.Expr) and isinstance(s.value, ast.Constant))]
    if len(body) != 1 or not isinstance(body[0], ast.If):
        raise Refuse(f"{fn.name}: body is not a single if-chain")
    out = []
    node = body[0]
    while True:
        t = node.test
        if not (isinstance(t, ast.Compare) and isinstance(t.left, ast.Name) and t.left.id == "trans" and len(t.ops) == 1
                and isinstance(t.ops[0], ast.Eq) and isinstance(t.comparators[0], ast.Constant)):
            raise Refuse(f"{fn.name}: unrecognised test at line {node.lineno}")
        out.append((t.comparators[0].value, _ret(fn.name, node.body)))
        if len(node.orelse) == 1 and isinstance(node.orelse[0], ast.If):
            node = node.orelse[0]
            continue
        out.append(("default", _ret(fn.name, node.orelse)))
        break
    keys = [k for k, _ in out]
    if len(set(keys)) != len(keys):
        raise Refuse(f"{fn.name}: repeated TRANS key")
    n = {len(v) for _, v in out}
    if len(n) != 1:
        raise Refuse(f"{fn.name}: arms return tuples of different length")
    return out


def _ret(name, stmts):
    stmts = [s for s in stmts if not (isinstance(s, ast.Expr) and isinstance(s.value, ast.Constant))]
    if len(stmts) != 1 or not isinstance(stmts[0], ast.Return) or stmts[0].value is None:
        raise Refuse(f"{name}: arm is not a single return")
    v = stmts[0].value
    if isinstance(v, ast.Tuple):
        return [expr(e) for e in v.elts]
    return [expr(v)]


def _const_int(node):
    if isinstance(node, ast.Constant) and isinstance(node.value, int):
        return node.value
    raise Refuse(f"expected integer literal at line {node.lineno}")


def _cs_index(node, fname):
    # _get_alag(control_stream, i)
    if (isinstance(node, ast.Call) and isinstance(node.func, ast.Name) and node.func.id == fname and len(node.args) == 2):
        return _const_int(node.args[1])
    raise Refuse(f"expected {fname}(control_stream, n) at line {node.lineno}")


def advan_arm(advan: str, stmts, transtab):
    env = {}
    comps = {}      # var -> dict(name, alag, bio, dose)
    order = []
    flows = []      # (src name, dst name, ('fn', fname, idx) | ('expr', e))
    comp_map = None
    obs = None
    dose = None
    for s in stmts:
        if isinstance(s, ast.Expr) and isinstance(s.value, ast.Constant):
            continue
        # doses = dosing(di, dataset, n)
        if (isinstance(s, ast.Assign) and len(s.targets) == 1 and isinstance(s.targets[0], ast.Name)
                and isinstance(s.value, ast.Call) and isinstance(s.value.func, ast.Name)):
            tgt, call = s.targets[0].id, s.value
            f = call.func.id
            if f == "dosing" and tgt == "doses":
                dose = _const_int(call.args[2])
                continue
            if f == "CompartmentalSystemBuilder" and tgt == "cb" and not call.args:
                continue
            if f == "_f_link_assignment" and tgt == "ass":
                c = call.args[4]
                if not isinstance(c, ast.Name) or c.id not in comps:
                    raise Refuse(f"{advan}: observation compartment not a known variable")
                obs = (comps[c.id]["name"], _const_int(call.args[5]))
                continue
            raise Refuse(f"{advan}: unrecognised call {f} at line {s.lineno}")
        # x = Compartment.create('NAME', doses=…, lag_time=…, bioavailability=…)
        if (isinstance(s, ast.Assign) and len(s.targets) == 1 and isinstance(s.targets[0], ast.Name)
                and isinstance(s.value, ast.Call) and isinstance(s.value.func, ast.Attribute)
                and s.value.func.attr == "create" and isinstance(s.value.func.value, ast.Name)
                and s.value.func.value.id == "Compartment"):
            call = s.value
            name = call.args[0].value
            kw = {k.arg: k.value for k in call.keywords}
            if set(kw) != {"doses", "lag_time", "bioavailability"}:
                raise Refuse(f"{advan}: Compartment.create keywords {sorted(kw)}")
            d = kw["doses"]
            if isinstance(d, ast.Call) and isinstance(d.func, ast.Name) and d.func.id == "find_dose":
                dk = {k.arg: k.value for k in d.keywords}
                dosed = _const_int(dk["comp_number"])
            elif isinstance(d, ast.Call) and isinstance(d.func, ast.Name) and d.func.id == "tuple" and not d.args:
                dosed = 0
            else:
                raise Refuse(f"{advan}: unrecognised doses= at line {s.lineno}")
            comps[s.targets[0].id] = {"name": name, "alag": _cs_index(kw["lag_time"], "_get_alag"),
                                      "bio": _cs_index(kw["bioavailability"], "_get_bioavailability"), "dose": dosed}
            env[("comp", s.targets[0].id)] = name
            continue
        # k, k12, k21 = _advan3_trans(trans)
        if (isinstance(s, ast.Assign) and len(s.targets) == 1 and isinstance(s.targets[0], ast.Tuple)
                and isinstance(s.value, ast.Call) and isinstance(s.value.func, ast.Name) and s.value.func.id in transtab):
            fn = s.value.func.id
            names = [e.id for e in s.targets[0].elts]
            if len(names) != len(transtab[fn][0][1]):
                raise Refuse(f"{advan}: unpacking {len(names)} names from {fn}")
            for i, nme in enumerate(names):
                env[("rate", nme)] = ("fn", fn, i)
            continue
        # vm = Expr.symbol('VM')
        if (isinstance(s, ast.Assign) and len(s.targets) == 1 and isinstance(s.targets[0], ast.Name)
                and _is_expr_call(s.value, "symbol")):
            env[("expr", s.targets[0].id)] = expr(s.value)
            continue
        # comp_map = {...}
        if (isinstance(s, ast.Assign) and len(s.targets) == 1 and isinstance(s.targets[0], ast.Name)
                and s.targets[0].id == "comp_map" and isinstance(s.value, ast.Dict)):
            comp_map = [(k.value, _const_int(v)) for k, v in zip(s.value.keys, s.value.values)]
            continue
        # cb.add_compartment(x) / cb.add_flow(a, b, rate)
        if (isinstance(s, ast.Expr) and isinstance(s.value, ast.Call) and isinstance(s.value.func, ast.Attribute)
                and isinstance(s.value.func.value, ast.Name) and s.value.func.value.id == "cb"):
            call = s.value
            if call.func.attr == "add_compartment":
                order.append(comps[call.args[0].id]["name"])
                continue
            if call.func.attr == "add_flow":
                a, b, r = call.args

                def cname(n):
                    if isinstance(n, ast.Name) and n.id == "output":
                        return "OUTPUT"
                    if isinstance(n, ast.Name) and n.id in comps:
                        return comps[n.id]["name"]
                    raise Refuse(f"{advan}: unknown compartment in add_flow at line {s.lineno}")
                if isinstance(r, ast.Name) and ("rate", r.id) in env:
                    rate = env[("rate", r.id)]
                elif isinstance(r, ast.Call) and isinstance(r.func, ast.Name) and r.func.id in transtab:
                    if len(transtab[r.func.id][0][1]) != 1:
                        raise Refuse(f"{advan}: tuple-valued trans function used as a rate")
                    rate = ("fn", r.func.id, 0)
                else:
                    rate = ("expr", expr(r, env))
                flows.append((cname(a), cname(b), rate))
                continue
        raise Refuse(f"{advan}: unrecognised statement at line {s.lineno}: {ast.dump(s)[:100]}")
    if comp_map is None or obs is None or dose is None or not flows:
        raise Refuse(f"{advan}: incomplete arm")
    return {"comps": [c for c in comps.values()], "order": order, "flows": flows, "comp_map": comp_map, "obs": obs, "dose": dose}


def extract(src_text: str):
    tree = ast.parse(src_text)
    funcs = {n.name: n for n in tree.body if isinstance(n, ast.FunctionDef)}
    for f in TRANS_FUNCS + ["_compartmental_model"]:
        if f not in funcs:
            raise Refuse(f"function {f} not found")
    transtab = {f: trans_function(funcs[f]) for f in TRANS_FUNCS}
    cm = funcs["_compartmental_model"]
    body = [s for s in cm.body if not (isinstance(s, ast.Expr) and isinstance(s.value, ast.Constant))]
    if not isinstance(body[0], ast.If):
        raise Refuse("_compartmental_model: first statement is not the ADVAN if-chain")
    arms = {}
    node = body[0]
    while True:
        t = node.test
        if (isinstance(t, ast.Compare) and isinstance(t.left, ast.Name) and t.left.id == "advan"
                and isinstance(t.ops[0], ast.Eq) and isinstance(t.comparators[0], ast.Constant)):
            arms[t.comparators[0].value] = node.body
        elif isinstance(t, ast.BoolOp) and isinstance(t.op, ast.Or):
            names = tuple(c.comparators[0].value for c in t.values)
            if names not in SKIPPED_ARMS:
                raise Refuse(f"_compartmental_model: unexpected arm {names}")
        elif isinstance(t, ast.Name) and t.id == "des":
            pass
        else:
            raise Refuse(f"_compartmental_model: unrecognised test at line {node.lineno}")
        if len(node.orelse) == 1 and isinstance(node.orelse[0], ast.If):
            node = node.orelse[0]
        else:
            break
    if sorted(arms) != sorted(ADVANS):
        raise Refuse(f"_compartmental_model: ADVAN arms {sorted(arms)} (expected {sorted(ADVANS)})")
    return transtab, {a: advan_arm(a, arms[a], transtab) for a in ADVANS}


# ---------------------------------------------------------------- Lean output

def lean_expr(e):
    if e[0] == "sym":
        return f'.sym "{e[1]}"'
    if e[0] == "lit":
        return f".lit ({e[1]})"
    return f'.f2 "{e[0]}" ({lean_expr(e[1])}) ({lean_expr(e[2])})'


def render(transtab, arms) -> str:
    L = ["import PharmpyModel.Core.Expr",
         "/-",
         "  GENERATED by harness/translate/c01_advan.py from src/pharmpy/model/external/nonmem/advan.py.",
         "  Do not edit: rewritten on every check run when the source changes.",
         "-/",
         "namespace Pharmpy.C01.Gen",
         "open Pharmpy",
         "",
         "/-- `(function, TRANS key, returned rate tuple)`; key `default` is the final `else`. -/",
         "def transTable : List (String × String × List Expr) := ["]
    rows = []
    for f in TRANS_FUNCS:
        for key, exprs in transtab[f]:
            rows.append(f'  ("{f}", "{key}", [{", ".join(lean_expr(e) for e in exprs)}])')
    L.append(",\n".join(rows))
    L.append("]")
    L.append("")
    L.append("/-- A rate argument of `cb.add_flow`: component `i` of a trans function, or a literal expression. -/")
    L.append("inductive RateRef where")
    L.append("  | fn : String → Nat → RateRef")
    L.append("  | ex : Expr → RateRef")
    L.append("  deriving Repr")
    L.append("")
    L.append("structure Arm where")
    L.append("  advan : String")
    L.append("  comps : List (String × Nat × Nat × Nat)   -- name, ALAG index, F index, dose compartment number (0 = no dose)")
    L.append("  order : List String                      -- add_compartment order")
    L.append("  flows : List (String × String × RateRef)  -- add_flow order")
    L.append("  compMap : List (String × Nat)")
    L.append("  obs : String × Nat")
    L.append("  dose : Nat")
    L.append("  deriving Repr")
    L.append("")
    L.append("def arms : List Arm := [")
    arows = []
    for a in ADVANS:
        arm = arms[a]
        comps = ", ".join(f'("{c["name"]}", {c["alag"]}, {c["bio"]}, {c["dose"]})' for c in arm["comps"])
        order = ", ".join(f'"{n}"' for n in arm["order"])
        fl = []
        for s, d, r in arm["flows"]:
            rr = f'.fn "{r[1]}" {r[2]}' if r[0] == "fn" else f".ex ({lean_expr(r[1])})"
            fl.append(f'("{s}", "{d}", {rr})')
        cmap = ", ".join(f'("{k}", {v})' for k, v in arm["comp_map"])
        arows.append("  { advan := \"%s\",\n    comps := [%s],\n    order := [%s],\n    flows := [%s],\n    compMap := [%s],\n    obs := (\"%s\", %d),\n    dose := %d }"
                     % (a, comps, order, ", ".join(fl), cmap, arm["obs"][0], arm["obs"][1], arm["dose"]))
    L.append(",\n".join(arows))
    L.append("]")
    L.append("")
    L.append("end Pharmpy.C01.Gen")
    return "\n".join(L) + "\n"


def regenerate() -> bool:
    text = render(*extract(SRC.read_text()))
    if OUT.exists() and OUT.read_text() == text:
        return False
    OUT.parent.mkdir(parents=True, exist_ok=True)
    OUT.write_text(text)
    return True


if __name__ == "__main__":
    print("changed" if regenerate() else "unchanged")
