"""T5 — special ITERATION codes of ExtTable (src/pharmpy/model/external/nonmem/table.py).

Reads the property definitions of class ExtTable with `ast` and writes
lean/PharmpyModel/Generated/ExtCodes.lean: for every property that selects rows through
`self._get_parameters(code[, include_thetas=False])` or `self._get_ofv(code)` the code, the
getter, include_thetas, the fallback of a `try/except KeyError` (max iteration or another code)
and the post-processing of the selected row.  Any other shape is refused (raises).
"""
from __future__ import annotations

import ast
from pathlib import Path

from harness.common.paths import LEAN, REPO_SRC

SRC = REPO_SRC / "pharmpy" / "model" / "external" / "nonmem" / "table.py"
OUT = LEAN / "PharmpyModel" / "Generated" / "ExtCodes.lean"
GETTERS = {"_get_parameters", "_get_ofv"}


class Refuse(Exception):
    pass


def _int_const(node):
    if isinstance(node, ast.Constant) and isinstance(node.value, int) and not isinstance(node.value, bool):
        return node.value
    if isinstance(node, ast.UnaryOp) and isinstance(node.op, ast.USub):
        v = _int_const(node.operand)
        return None if v is None else -v
    return None


def _getter_call(node):
    """self._get_x(<int or Name>, include_thetas=<bool>?) -> (getter, arg, include_thetas)"""
    if not (isinstance(node, ast.Call) and isinstance(node.func, ast.Attribute)
            and isinstance(node.func.value, ast.Name) and node.func.value.id == "self"
            and node.func.attr in GETTERS):
        return None
    if len(node.args) != 1:
        raise Refuse(f"{node.func.attr}: expected one positional argument")
    inc = True
    for kw in node.keywords:
        if kw.arg == "include_thetas" and isinstance(kw.value, ast.Constant) and isinstance(kw.value.value, bool):
            inc = kw.value.value
        else:
            raise Refuse(f"{node.func.attr}: unknown keyword {kw.arg}")
    a = node.args[0]
    c = _int_const(a)
    if c is not None:
        return node.func.attr, c, inc
    if isinstance(a, ast.Name):
        return node.func.attr, a.id, inc
    raise Refuse(f"{node.func.attr}: argument is neither an integer literal nor a name")


def _is_max_iterations(node):
    return (isinstance(node, ast.Call) and isinstance(node.func, ast.Name) and node.func.id == "max"
            and len(node.args) == 1 and isinstance(node.args[0], ast.Attribute)
            and isinstance(node.args[0].value, ast.Name) and node.args[0].value.id == "self"
            and node.args[0].attr == "iterations")


def _assign_call(stmt):
    """`x = self._get_..(..)` -> (target, call-info) else None"""
    if isinstance(stmt, ast.Assign) and len(stmt.targets) == 1 and isinstance(stmt.targets[0], ast.Name):
        g = _getter_call(stmt.value)
        if g:
            return stmt.targets[0].id, g
    return None


def _analyse(fn: ast.FunctionDef):
    body = [s for s in fn.body if not (isinstance(s, ast.Expr) and isinstance(s.value, ast.Constant))]
    if not body:
        raise Refuse(f"{fn.name}: empty body")
    var = getter = code = None
    inc = True
    fallback = "none"
    first = body[0]
    rest = body[1:]
    if isinstance(first, ast.Return):
        g = _getter_call(first.value)
        if not g or rest:
            raise Refuse(f"{fn.name}: unrecognised return")
        getter, code, inc = g
        if not isinstance(code, int):
            raise Refuse(f"{fn.name}: code is not a literal")
        return getter, code, inc, fallback, "series"
    if isinstance(first, ast.Try):
        if len(first.body) != 1 or len(first.handlers) != 1 or first.orelse or first.finalbody:
            raise Refuse(f"{fn.name}: unrecognised try shape")
        h = first.handlers[0]
        if not (isinstance(h.type, ast.Name) and h.type.id == "KeyError"):
            raise Refuse(f"{fn.name}: handler is not KeyError")
        a = _assign_call(first.body[0])
        if not a:
            raise Refuse(f"{fn.name}: try body is not an assignment from a getter")
        var, (getter, code, inc) = a
        hb = h.body
        if len(hb) == 2 and isinstance(hb[0], ast.Assign) and _is_max_iterations(hb[0].value) \
                and isinstance(hb[0].targets[0], ast.Name):
            b = _assign_call(hb[1])
            if not b or b[0] != var or b[1] != (getter, hb[0].targets[0].id, inc):
                raise Refuse(f"{fn.name}: unrecognised max-iteration fallback")
            fallback = "max-iteration"
        elif len(hb) == 1:
            b = _assign_call(hb[0])
            if not b or b[0] != var or b[1][0] != getter or not isinstance(b[1][1], int) or b[1][2] != inc:
                raise Refuse(f"{fn.name}: unrecognised code fallback")
            fallback = f"code:{b[1][1]}"
        else:
            raise Refuse(f"{fn.name}: unrecognised handler body")
    else:
        a = _assign_call(first)
        if not a:
            raise Refuse(f"{fn.name}: first statement is not an assignment from a getter")
        var, (getter, code, inc) = a
    if not isinstance(code, int):
        raise Refuse(f"{fn.name}: code is not a literal")
    # post-processing: optional `var.name = '...'`, then a return
    post = None
    for s in rest:
        if isinstance(s, ast.Assign) and len(s.targets) == 1 and isinstance(s.targets[0], ast.Attribute) \
                and isinstance(s.targets[0].value, ast.Name) and s.targets[0].value.id == var \
                and s.targets[0].attr == "name" and isinstance(s.value, ast.Constant):
            continue
        if isinstance(s, ast.Return) and post is None:
            v = s.value
            if isinstance(v, ast.Name) and v.id == var:
                post = "series"
            elif (isinstance(v, ast.Subscript) and isinstance(v.value, ast.Attribute) and v.value.attr == "values"
                  and isinstance(v.value.value, ast.Name) and v.value.value.id == var and _int_const(v.slice) == 0):
                post = "first-value"
            elif (isinstance(v, ast.Call) and isinstance(v.func, ast.Attribute) and v.func.attr == "apply"
                  and isinstance(v.func.value, ast.Name) and v.func.value.id == var and len(v.args) == 1
                  and isinstance(v.args[0], ast.Name) and v.args[0].id == "bool"):
                post = "apply-bool"
            else:
                raise Refuse(f"{fn.name}: unrecognised return expression")
            continue
        raise Refuse(f"{fn.name}: unrecognised statement {ast.dump(s)[:80]}")
    if post is None:
        raise Refuse(f"{fn.name}: no return")
    return getter, code, inc, fallback, post


def extract(src_path: Path = SRC):
    tree = ast.parse(src_path.read_text())
    cls = [n for n in tree.body if isinstance(n, ast.ClassDef) and n.name == "ExtTable"]
    if len(cls) != 1:
        raise Refuse("class ExtTable not found")
    out = []
    for fn in cls[0].body:
        if not isinstance(fn, ast.FunctionDef):
            continue
        is_prop = any(isinstance(d, ast.Name) and d.id == "property" for d in fn.decorator_list)
        uses = any(isinstance(n, ast.Attribute) and n.attr in GETTERS for n in ast.walk(fn))
        if not is_prop or not uses:
            if uses and fn.name not in GETTERS:
                raise Refuse(f"{fn.name}: uses a row getter but is not a property")
            continue
        out.append((fn.name,) + _analyse(fn))
    if not out:
        raise Refuse("no row-selecting property found")
    return out


def _lean_int(i: int) -> str:
    return f"({i})" if i < 0 else str(i)


def render(props) -> str:
    lines = [
        "/- GENERATED by harness/translate/c20_extcodes.py from",
        "   src/pharmpy/model/external/nonmem/table.py (class ExtTable) — do not edit. -/",
        "namespace Pharmpy.C20.Generated",
        "",
        "/-- property, getter, ITERATION code, include_thetas, KeyError fallback, post-processing -/",
        "structure ExtProp where",
        "  name : String",
        "  getter : String",
        "  code : Int",
        "  includeThetas : Bool",
        "  fallback : String",
        "  post : String",
        "  deriving DecidableEq, Repr",
        "",
        "def extProps : List ExtProp := [",
    ]
    rows = []
    for name, getter, code, inc, fb, post in props:
        rows.append(f'  ⟨"{name}", "{getter}", {_lean_int(code)}, {"true" if inc else "false"}, "{fb}", "{post}"⟩')
    lines.append(",\n".join(rows))
    lines.append("]")
    lines.append("")
    for name, getter, code, inc, fb, post in props:
        lines.append(f"def code_{name} : Int := {_lean_int(code)}")
    lines.append("")
    lines.append("end Pharmpy.C20.Generated")
    return "\n".join(lines) + "\n"


def run() -> bool:
    text = render(extract())
    OUT.parent.mkdir(parents=True, exist_ok=True)
    if OUT.exists() and OUT.read_text() == text:
        return False
    OUT.write_text(text)
    return True


if __name__ == "__main__":
    print(render(extract()))
