"""T4 (C08 part): MFL feature-key -> setter/kwargs table, extracted from
/repo/src/pharmpy/tools/mfl/feature/*.py, plus `not_supported_combo` of
tools/modelsearch/algorithms.py, written to lean/PharmpyModel/Generated/MflFeatures.lean.

Recognised shape (anything else raises => the obligation is reported broken):

    def features(model, statements):
        for statement in statements:
            if isinstance(statement, <Cls>):
                ... assignments ...
                for <vars> in <iter>:            (possibly nested for / the yields directly)
                    if <v>.name == '<MODE>': yield (<KEY...>), <fn | partial(fn, kw=...)>
                    elif ...: ...
                    else: raise ValueError(...)
"""
from __future__ import annotations

import ast
from pathlib import Path

from harness.common.paths import LEAN, REPO_SRC

OUT = LEAN / "PharmpyModel" / "Generated" / "MflFeatures.lean"
STRUCTURAL = ["absorption", "elimination", "transits", "peripherals", "lagtime"]
OTHER = ["metabolite", "allometry", "direct_effect", "effect_comp", "indirect_effect"]


class Refuse(Exception):
    pass


def _const_str(node):
    if isinstance(node, ast.Constant) and isinstance(node.value, str):
        return node.value
    return None


def _fn(node):
    """setter expression -> (name, [(kw, value-source)])"""
    if isinstance(node, ast.Name):
        return node.id, []
    if isinstance(node, ast.Call) and isinstance(node.func, ast.Name) and node.func.id == "partial":
        if len(node.args) != 1 or not isinstance(node.args[0], ast.Name):
            raise Refuse(f"partial with unexpected positional arguments: {ast.unparse(node)}")
        kws = []
        for kw in node.keywords:
            if kw.arg is None:
                raise Refuse("**kwargs in partial")
            kws.append((kw.arg, ast.unparse(kw.value)))
        return node.args[0].id, kws
    raise Refuse(f"unrecognised setter expression: {ast.unparse(node)}")


def _mode_of_test(test):
    """`x.name == 'M'` or `param[1] == 'M'` -> 'M'"""
    if isinstance(test, ast.Compare) and len(test.ops) == 1 and isinstance(test.ops[0], ast.Eq) and len(test.comparators) == 1:
        m = _const_str(test.comparators[0])
        if m is not None:
            return m
    raise Refuse(f"unrecognised mode test: {ast.unparse(test)}")


def _yields(stmts, mode, out, modname):
    for st in stmts:
        if isinstance(st, ast.Expr) and isinstance(st.value, ast.Yield):
            val = st.value.value
            if not (isinstance(val, ast.Tuple) and len(val.elts) == 2 and isinstance(val.elts[0], ast.Tuple)):
                raise Refuse(f"{modname}: yield is not ((key...), fn): {ast.unparse(st)}")
            key = val.elts[0].elts
            cat = _const_str(key[0])
            if cat is None:
                raise Refuse(f"{modname}: feature key does not start with a string constant")
            keyargs = [ast.unparse(k) for k in key[1:]]
            name, kws = _fn(val.elts[1])
            out.append({"category": cat, "mode": mode if mode is not None else "*", "keyargs": keyargs,
                        "setter": name, "kwargs": kws})
        elif isinstance(st, ast.If) and isinstance(st.test, ast.Call) and isinstance(st.test.func, ast.Name) \
                and st.test.func.id == "isinstance" and all(isinstance(x, ast.Assign) for x in st.body + st.orelse):
            continue  # wildcard expansion: `modes = WILDCARD if/else statement.modes`
        elif isinstance(st, ast.If):
            node = st
            while True:
                m = _mode_of_test(node.test)
                if mode is not None and not isinstance(node.body[0], (ast.Expr, ast.Assign)):
                    raise Refuse(f"{modname}: nested mode tests")
                _yields(node.body, m if mode is None else mode, out, modname)
                if len(node.orelse) == 1 and isinstance(node.orelse[0], ast.If):
                    node = node.orelse[0]
                    continue
                for o in node.orelse:
                    if not isinstance(o, ast.Raise):
                        raise Refuse(f"{modname}: else branch is not a raise: {ast.unparse(o)}")
                break
        elif isinstance(st, ast.For):
            _yields(st.body, mode, out, modname)
        elif isinstance(st, (ast.Assign, ast.AnnAssign)):
            continue
        else:
            raise Refuse(f"{modname}: unrecognised statement in features(): {ast.unparse(st)[:80]}")


def extract_module(path: Path):
    tree = ast.parse(path.read_text())
    fns = [n for n in tree.body if isinstance(n, ast.FunctionDef) and n.name == "features"]
    if len(fns) != 1:
        raise Refuse(f"{path.name}: expected exactly one features()")
    fn = fns[0]
    if not (len(fn.body) == 1 and isinstance(fn.body[0], ast.For)):
        raise Refuse(f"{path.name}: features() is not a single for loop")
    loop = fn.body[0]
    if not (len(loop.body) == 1 and isinstance(loop.body[0], ast.If)):
        raise Refuse(f"{path.name}: loop body is not a single isinstance test")
    test = loop.body[0].test
    if not (isinstance(test, ast.Call) and isinstance(test.func, ast.Name) and test.func.id == "isinstance"):
        raise Refuse(f"{path.name}: loop body is not an isinstance test")
    if loop.body[0].orelse:
        raise Refuse(f"{path.name}: isinstance test has an else branch")
    out = []
    _yields(loop.body[0].body, None, out, path.name)
    if not out:
        raise Refuse(f"{path.name}: no feature yielded")
    imported = []
    for n in tree.body:
        if isinstance(n, ast.ImportFrom) and n.module == "pharmpy.modeling":
            imported += [a.name for a in n.names]
    for e in out:
        if e["setter"] not in imported:
            raise Refuse(f"{path.name}: setter {e['setter']} is not imported from pharmpy.modeling")
    return out


def extract_combos(path: Path):
    tree = ast.parse(path.read_text())
    for node in ast.walk(tree):
        if isinstance(node, ast.Assign) and len(node.targets) == 1 and isinstance(node.targets[0], ast.Name) \
                and node.targets[0].id == "not_supported_combo":
            try:
                val = ast.literal_eval(node.value)
            except Exception as e:
                raise Refuse(f"not_supported_combo is not a literal: {e}")
            out = []
            for a, b in val:
                out.append(([str(x) for x in a], [str(x) for x in b]))
            return out
    raise Refuse("not_supported_combo not found in modelsearch/algorithms.py")


def lstr(s: str) -> str:
    return '"' + s.replace("\\", "\\\\").replace('"', '\\"') + '"'


def render(entries, combos) -> str:
    lines = ["/- GENERATED by harness/translate/c08_mfl.py from pharmpy/tools/mfl/feature/*.py and",
             "   pharmpy/tools/modelsearch/algorithms.py.  Do not edit. -/",
             "namespace Pharmpy.C08", "",
             "structure MflEntry where",
             "  category : String", "  mode : String", "  keyArgs : List String", "  setter : String",
             "  kwargs : List (String × String)", "  deriving DecidableEq, Repr", "",
             "def mflTable : List MflEntry := ["]
    rows = []
    for e in entries:
        kw = ", ".join(f"({lstr(k)}, {lstr(v)})" for k, v in e["kwargs"])
        ka = ", ".join(lstr(k) for k in e["keyargs"])
        rows.append(f"  ⟨{lstr(e['category'])}, {lstr(e['mode'])}, [{ka}], {lstr(e['setter'])}, [{kw}]⟩")
    lines.append(",\n".join(rows))
    lines += ["]", "", "/-- `not_supported_combo` of modelsearch: pairs of feature-key prefixes. -/",
              "def notSupportedCombo : List (List String × List String) := ["]
    lines.append(",\n".join("  ([" + ", ".join(lstr(x) for x in a) + "], [" + ", ".join(lstr(x) for x in b) + "])"
                            for a, b in combos))
    lines += ["]", "", "end Pharmpy.C08", ""]
    return "\n".join(lines)


def run(repo_src: Path | None = None) -> bool:
    src = Path(repo_src) if repo_src else REPO_SRC
    fdir = src / "pharmpy" / "tools" / "mfl" / "feature"
    known = set(STRUCTURAL + OTHER + ["feature", "covariate", "__init__"])
    present = {p.stem for p in fdir.glob("*.py")}
    if present - known:
        raise Refuse(f"unknown MFL feature module(s): {sorted(present - known)}")
    entries = []
    for m in STRUCTURAL + OTHER:
        p = fdir / f"{m}.py"
        if not p.exists():
            raise Refuse(f"missing MFL feature module {m}.py")
        entries += extract_module(p)
    combos = extract_combos(src / "pharmpy" / "tools" / "modelsearch" / "algorithms.py")
    text = render(entries, combos)
    if OUT.exists() and OUT.read_text() == text:
        return False
    OUT.parent.mkdir(parents=True, exist_ok=True)
    OUT.write_text(text)
    return True


if __name__ == "__main__":
    print(run())
