"""T3c — how the named collections of the model combine items: through the checking `create`, or not.

For Parameters, RandomVariables and DataInfo (src/pharmpy/model/{parameters,random_variables,datainfo}.py) every
`return` of `create`, `replace`, `__add__`, `__radd__` is classified

  checked   the value is `<Class>.create(...)` / `cls.create(...)` and `create` refuses a repeated name
            (a `raise` under an `if <name> in <names>` test), or it is the constructor call that ends such a `create`
  raw       the raw constructor `<Class>(...)` / `cls(...)` on a concatenation, or `create` itself does not check
  byValue   the raw constructor on a concatenation whose newcomer went through a helper that tests `x in self`
            (membership by value equality, not by name)

together with the kind of the other operand (`item`, `collection`, `sequence`; `-` for create/replace), read off the
enclosing `isinstance(other, T)` test.  Written to lean/PharmpyModel/Generated/Containers.lean.  Any other shape raises.
"""
from __future__ import annotations

import ast

from harness.common.paths import LEAN, REPO_SRC

OUT = LEAN / "PharmpyModel" / "Generated" / "Containers.lean"
CLASSES = {"Parameters": ("parameters.py", "Parameter"), "RandomVariables": ("random_variables.py", "Distribution"),
           "DataInfo": ("datainfo.py", "ColumnInfo")}
METHODS = ("create", "replace", "__add__", "__radd__")


class Refuse(Exception):
    pass


def _parents(tree):
    par = {}
    for n in ast.walk(tree):
        for c in ast.iter_child_nodes(n):
            par[c] = n
    return par


def _create_checks(fn):
    for n in ast.walk(fn):
        if isinstance(n, ast.If) and isinstance(n.test, ast.Compare) and any(isinstance(o, ast.In) for o in n.test.ops) \
                and any(isinstance(x, ast.Raise) for b in n.body for x in ast.walk(b)):
            return True
    return False


def _operand(ret, par, cls, item, method):
    if method in ("create", "replace"):
        return "-"
    n = ret
    while n in par:
        p = par[n]
        if isinstance(p, ast.If) and n in p.body and isinstance(p.test, ast.Call) and ast.unparse(p.test.func) == "isinstance" \
                and ast.unparse(p.test.args[0]) == "other":
            t = ast.unparse(p.test.args[1])
            return "item" if t == item else "collection" if t == cls else "sequence"
        n = p
    return "sequence"


def _is_ctor(call, cls):
    return isinstance(call, ast.Call) and isinstance(call.func, ast.Name) and call.func.id in (cls, "cls")


def _is_create(call, cls):
    return isinstance(call, ast.Call) and isinstance(call.func, ast.Attribute) and call.func.attr == "create" \
        and ast.unparse(call.func.value) in (cls, "cls", "self.__class__")


def extract():
    out = []
    for cls, (fname, item) in CLASSES.items():
        tree = ast.parse((REPO_SRC / "pharmpy" / "model" / fname).read_text())
        cdef = next((n for n in tree.body if isinstance(n, ast.ClassDef) and n.name == cls), None)
        if cdef is None:
            raise Refuse(f"class {cls} not found in {fname}")
        methods = {m.name: m for m in cdef.body if isinstance(m, ast.FunctionDef)}
        if "create" not in methods:
            raise Refuse(f"{cls}.create not found")
        checks = _create_checks(methods["create"])
        for mname in METHODS:
            fn = methods.get(mname)
            if fn is None:
                continue
            par = _parents(fn)
            local = {}
            for n in ast.walk(fn):
                if isinstance(n, ast.Assign) and len(n.targets) == 1 and isinstance(n.targets[0], ast.Name) \
                        and (_is_ctor(n.value, cls) or _is_create(n.value, cls)):
                    local[n.targets[0].id] = n.value
            params = {a.arg for a in fn.args.args + fn.args.kwonlyargs}
            for n in ast.walk(fn):
                if not (isinstance(n, ast.Return) and n.value is not None):
                    continue
                v = n.value
                if isinstance(v, ast.Name) and v.id in local:
                    v = local[v.id]
                elif isinstance(v, ast.Name) and (v.id in params or v.id == "self"):
                    continue          # hands back an existing, already validated collection
                op = _operand(n, par, cls, item, mname)
                if _is_create(v, cls):
                    if mname == "create":
                        raise Refuse(f"{cls}.create calls itself")
                    pol = "checked" if checks else "raw"
                elif _is_ctor(v, cls):
                    if mname == "create":
                        pol = "checked" if checks else "raw"
                    else:
                        helpers = [c for a in v.args + [k.value for k in v.keywords] for c in ast.walk(a)
                                   if isinstance(c, ast.Call) and isinstance(c.func, ast.Attribute) and ast.unparse(c.func.value) == "self"]
                        pol = "raw"
                        for h in helpers:
                            hfn = methods.get(h.func.attr)
                            if hfn is None:
                                raise Refuse(f"{cls}.{mname}: unknown helper self.{h.func.attr}")
                            by_value = any(isinstance(x, ast.Compare) and any(isinstance(o, ast.In) for o in x.ops)
                                           and ast.unparse(x.comparators[0]) == "self" for x in ast.walk(hfn))
                            by_name = _create_checks(hfn) and not by_value
                            if by_value:
                                pol = "byValue"
                            elif not by_name:
                                raise Refuse(f"{cls}.{mname}: helper self.{h.func.attr} has no recognised membership test")
                            else:
                                raise Refuse(f"{cls}.{mname}: name check in a helper is not a recognised shape")
                else:
                    raise Refuse(f"{cls}.{mname}: unrecognised return `{ast.unparse(n.value)[:70]}`")
                row = {"cls": cls, "method": mname, "operand": op, "policy": pol}
                if row not in out:
                    out.append(row)
        # one row per (method, operand): conflicting classifications are refused
    seen = {}
    for r in out:
        key = (r["cls"], r["method"], r["operand"])
        if key in seen and seen[key] != r["policy"]:
            raise Refuse(f"{key}: returns with different policies")
        seen[key] = r["policy"]
    return out


def render(rows):
    L = ["/- GENERATED by harness/translate/c06_containers.py from /repo/src/pharmpy/model — do not edit. -/",
         "import PharmpyModel.C06.Names", "namespace Pharmpy.C06.Generated", "open Pharmpy.C06.Names", "",
         "def containerOps : List OpSpec := ["]
    L.append(",\n".join(f'  {{ cls := "{r["cls"]}", method := "{r["method"]}", operand := "{r["operand"]}", policy := .{r["policy"]} }}'
                        for r in rows) + " ]")
    L += ["", "end Pharmpy.C06.Generated"]
    return "\n".join(L) + "\n"


def run() -> bool:
    text = render(extract())
    if OUT.exists() and OUT.read_text() == text:
        return False
    OUT.write_text(text)
    return True


if __name__ == "__main__":
    for r in extract():
        print(r)
    print("changed:", run())
