"""T3b — effect programs of the public functions of pharmpy.modeling.

For every function named in `pharmpy.modeling.__all__` (and every module-level function of
pharmpy/modeling/*.py it can call), the body is abstracted to the set of effect statements of
lean/PharmpyModel/C06/Effects.lean:

  alias x y   `x = y`, `x = y.a.b`, `x = cast(T, y)`, `x = y if c else z`, `for x in y`, `with y as x`,
              tuple unpacking of such values, list/tuple/dict displays containing such values
  fresh x     any other binding of x (call result, `.copy()`, subscript/`.loc[...]` read — pandas is
              Copy-on-Write —, literal, arithmetic, comprehension)
  write x     `x[...] = …`, `x.attr = …`, `x.loc[...] = …` (any subscript/attribute store whose root
              name is x), `del x[...]`, augmented assignment to these or to x itself,
              `x.m(…, inplace=True)`, `x.insert/update/pop/popitem/append/extend/remove/clear/sort/
              reverse/setdefault/add/discard(…)`, `setattr(x, …)`, and a call `g(…, x, …)` of an
              analysed function g whose summary says it writes that parameter (computed to a
              fixpoint over the call graph of pharmpy/modeling)

The analysis is flow-insensitive (the Lean semantics executes any sequence of the statements), so
branches, loops, early returns and exceptions need no special treatment.  Calls of anything outside
pharmpy/modeling (methods of the immutable model classes, pandas, sympy) are assumed not to write
their arguments in place — that is what the snapshot monitors check on every run.  A function
containing `global`/`nonlocal`/`exec`/`eval`, or forwarding `*args/**kwargs` to a function that
writes a parameter, is listed as `unanalysed`.
"""
from __future__ import annotations

import ast
from pathlib import Path

from harness.common.paths import LEAN, REPO_SRC

OUT = LEAN / "PharmpyModel" / "Generated" / "Effects.lean"
MUTATORS = {"insert", "update", "pop", "popitem", "append", "extend", "remove", "clear", "sort", "reverse",
            "setdefault", "add", "discard"}


class Refuse(Exception):
    pass


FRESH_PROPS: set = set()     # filled by load_fresh_props(): properties of the model/basic classes that return a new object
IMMUTABLE_ANN = {"int", "float", "str", "bool", "Optional[int]", "Optional[float]", "Optional[str]", "Optional[bool]"}


def load_fresh_props():
    """Property names of pharmpy.model / pharmpy.basic classes all of whose definitions return a value that is
    fresh by the rules of this analysis (a call, a comprehension, arithmetic, a literal) — e.g. `Parameters.inits`,
    `Expr.free_symbols`.  A property returning `self._x` (or any attribute/name chain) is not fresh."""
    root = REPO_SRC / "pharmpy"
    files = sorted((root / "model").glob("*.py")) + sorted((root / "model" / "distributions").glob("*.py")) \
        + sorted((root / "basic").glob("*.py")) + [root / "internals" / "immutable.py"]
    fresh, stored = set(), set()
    for f in files:
        for cls in [n for n in ast.walk(ast.parse(f.read_text())) if isinstance(n, ast.ClassDef)]:
            for m in cls.body:
                if isinstance(m, ast.FunctionDef) and any(isinstance(d, ast.Name) and d.id == "property" for d in m.decorator_list):
                    rets = [r for r in ast.walk(m) if isinstance(r, ast.Return) and r.value is not None]
                    if rets and all(not alias_roots(r.value) and not isinstance(r.value, ast.Subscript) for r in rets):
                        fresh.add(m.name)
                    else:
                        stored.add(m.name)
                elif isinstance(m, (ast.Assign, ast.AnnAssign)):
                    for t in (m.targets if isinstance(m, ast.Assign) else [m.target]):
                        if isinstance(t, ast.Name):
                            stored.add(t.id)
    FRESH_PROPS.clear()
    FRESH_PROPS.update(fresh - stored)


def _root(e):
    """Name at the root of a pure attribute chain, else None (also None when the chain goes through a
    property that returns a new object)."""
    while isinstance(e, ast.Attribute):
        if e.attr in FRESH_PROPS:
            return None
        e = e.value
    return e.id if isinstance(e, ast.Name) else None


def alias_roots(e):
    """Names the value of `e` may be identical to (or contain); [] means fresh."""
    if isinstance(e, (ast.Name, ast.Attribute)):
        r = _root(e)
        return [r] if r else []
    if isinstance(e, ast.IfExp):
        return alias_roots(e.body) + alias_roots(e.orelse)
    if isinstance(e, ast.BoolOp):
        return [r for v in e.values for r in alias_roots(v)]
    if isinstance(e, ast.NamedExpr):
        return alias_roots(e.value)
    if isinstance(e, (ast.Tuple, ast.List, ast.Set)):
        return [r for v in e.elts for r in alias_roots(v)]
    if isinstance(e, ast.Dict):
        return [r for v in e.values if v is not None for r in alias_roots(v)]
    if isinstance(e, ast.Starred):
        return alias_roots(e.value)
    if isinstance(e, ast.Call) and isinstance(e.func, ast.Name) and e.func.id == "cast" and len(e.args) == 2:
        return alias_roots(e.args[1])
    return []


class FnInfo:
    def __init__(self, module, node):
        self.module = module
        self.name = node.name
        a = node.args
        self.params = [x.arg for x in a.posonlyargs + a.args + a.kwonlyargs]
        # parameters annotated with an immutable primitive type cannot be written in place
        self.mutable_params = [x.arg for x in a.posonlyargs + a.args + a.kwonlyargs
                               if not (x.annotation is not None and ast.unparse(x.annotation) in IMMUTABLE_ANN)]
        self.vararg = a.vararg.arg if a.vararg else None
        self.kwarg = a.kwarg.arg if a.kwarg else None
        self.stmts = []      # ('alias', x, y, line) ('fresh', x, line) ('write', x, line, why)
        self.calls = []      # (callee name, [(param position or keyword, roots)], star, line)
        self.unanalysed = None
        self._scan(node)

    def _bind(self, target, value_roots, line):
        if isinstance(target, ast.Name):
            if value_roots:
                for r in value_roots:
                    self.stmts.append(("alias", target.id, r, line))
            else:
                self.stmts.append(("fresh", target.id, line))
        elif isinstance(target, (ast.Tuple, ast.List)):
            for t in target.elts:
                self._bind(t.value if isinstance(t, ast.Starred) else t, value_roots, line)
        elif isinstance(target, (ast.Subscript, ast.Attribute)):
            r = _root(target.value) if isinstance(target, ast.Subscript) else _root(target.value)
            # x[...] = v / x.a = v / x.loc[...] = v : in-place write of x; v becomes reachable from x, nothing to add
            base = target.value
            while isinstance(base, (ast.Subscript, ast.Attribute)):
                base = base.value
            if isinstance(base, ast.Name):
                self.stmts.append(("write", base.id, line, "store"))
        else:
            raise Refuse(f"{self.module}.{self.name}: unknown assignment target {ast.dump(target)[:60]}")

    def _scan(self, fn):
        for n in ast.walk(fn):
            line = getattr(n, "lineno", 0)
            if isinstance(n, (ast.Global, ast.Nonlocal)):
                self.unanalysed = "global/nonlocal"
            elif isinstance(n, ast.Assign):
                roots = alias_roots(n.value)
                for t in n.targets:
                    if isinstance(t, (ast.Tuple, ast.List)) and isinstance(n.value, (ast.Tuple, ast.List)) \
                            and len(t.elts) == len(n.value.elts) and not any(isinstance(x, ast.Starred) for x in t.elts):
                        for tt, vv in zip(t.elts, n.value.elts):
                            self._bind(tt, alias_roots(vv), line)
                    else:
                        self._bind(t, roots, line)
            elif isinstance(n, ast.AnnAssign):
                if n.value is not None:
                    self._bind(n.target, alias_roots(n.value), line)
            elif isinstance(n, ast.AugAssign):
                t = n.target
                base = t
                while isinstance(base, (ast.Subscript, ast.Attribute)):
                    base = base.value
                if isinstance(base, ast.Name):
                    self.stmts.append(("write", base.id, line, "augmented assignment"))
            elif isinstance(n, ast.NamedExpr):
                self._bind(n.target, alias_roots(n.value), line)
            elif isinstance(n, ast.Delete):
                for t in n.targets:
                    if isinstance(t, (ast.Subscript, ast.Attribute)):
                        base = t
                        while isinstance(base, (ast.Subscript, ast.Attribute)):
                            base = base.value
                        if isinstance(base, ast.Name):
                            self.stmts.append(("write", base.id, line, "del"))
            elif isinstance(n, (ast.For, ast.AsyncFor)):
                self._bind(n.target, alias_roots(n.iter), line)
            elif isinstance(n, (ast.With, ast.AsyncWith)):
                for it in n.items:
                    if it.optional_vars is not None:
                        self._bind(it.optional_vars, alias_roots(it.context_expr), line)
            elif isinstance(n, ast.comprehension):
                self._bind(n.target, alias_roots(n.iter), line)
            elif isinstance(n, ast.ExceptHandler):
                if n.name:
                    self.stmts.append(("fresh", n.name, line))
            elif isinstance(n, (ast.FunctionDef, ast.Lambda)) and n is not fn:
                a = n.args
                for x in a.posonlyargs + a.args + a.kwonlyargs:
                    self.stmts.append(("fresh", x.arg, line))
            elif isinstance(n, ast.Call):
                f = n.func
                if isinstance(f, ast.Name) and f.id in ("exec", "eval"):
                    self.unanalysed = "exec/eval"
                if isinstance(f, ast.Name) and f.id == "setattr" and n.args:
                    for r in alias_roots(n.args[0]):
                        self.stmts.append(("write", r, line, "setattr"))
                if isinstance(f, ast.Attribute) and f.attr == "__setattr__" and len(n.args) >= 1:
                    for r in alias_roots(n.args[0]):
                        self.stmts.append(("write", r, line, "__setattr__"))
                if isinstance(f, ast.Attribute):
                    inplace = any(k.arg == "inplace" and not (isinstance(k.value, ast.Constant) and k.value.value is False)
                                  for k in n.keywords)
                    if f.attr in MUTATORS or inplace:
                        base = f.value
                        while isinstance(base, (ast.Subscript, ast.Attribute)):
                            base = base.value
                        if isinstance(base, ast.Name):
                            self.stmts.append(("write", base.id, line, f".{f.attr}(" + ("inplace" if inplace else "") + ")"))
                if isinstance(f, ast.Name):
                    args = [(i, alias_roots(a)) for i, a in enumerate(n.args) if not isinstance(a, ast.Starred)]
                    args += [(k.arg, alias_roots(k.value)) for k in n.keywords if k.arg is not None]
                    star = [alias_roots(a.value) for a in n.args if isinstance(a, ast.Starred)] + \
                           [alias_roots(k.value) for k in n.keywords if k.arg is None]
                    self.calls.append((f.id, args, [r for rs in star for r in rs], line))


def load_package():
    """-> (functions {(module, name): FnInfo}, resolver {module: {local name: (module, name)}}, public [(name, key)])"""
    load_fresh_props()
    pkg = REPO_SRC / "pharmpy" / "modeling"
    trees = {p.stem: ast.parse(p.read_text()) for p in sorted(pkg.glob("*.py"))}
    funcs, resolver = {}, {}
    for mod, tree in trees.items():
        if mod == "__init__":
            continue
        for n in tree.body:
            if isinstance(n, ast.FunctionDef):
                funcs[(mod, n.name)] = FnInfo(mod, n)
    for mod, tree in trees.items():
        res = {}
        for n in ast.walk(tree):
            if isinstance(n, ast.ImportFrom):
                src = None
                if n.level == 1 and n.module and "." not in n.module:
                    src = n.module
                elif n.level == 0 and n.module and n.module.startswith("pharmpy.modeling."):
                    src = n.module.split(".", 2)[2]
                if src is not None and src in trees:
                    for a in n.names:
                        res[a.asname or a.name] = (src, a.name)
        for (m, name) in funcs:
            if m == mod:
                res[name] = (m, name)
        resolver[mod] = res
    init = trees["__init__"]
    all_names = None
    for n in init.body:
        if isinstance(n, ast.Assign) and any(isinstance(t, ast.Name) and t.id == "__all__" for t in n.targets):
            all_names = [e.value for e in n.value.elts]
    if all_names is None:
        raise Refuse("pharmpy.modeling.__all__ not found")
    public = []
    for name in all_names:
        key = resolver["__init__"].get(name)
        # re-exports through another module of the package
        seen = set()
        while key is not None and key not in funcs and key not in seen:
            seen.add(key)
            key = resolver.get(key[0], {}).get(key[1])
        public.append((name, key if key in funcs else None))
    return funcs, resolver, public


def closure(info: FnInfo, start):
    t = set(start)
    changed = True
    while changed:
        changed = False
        for s in info.stmts:
            if s[0] == "alias" and s[2] in t and s[1] not in t:
                t.add(s[1])
                changed = True
    return t


def summaries(funcs, resolver):
    """written[key] = set of parameter names that may be written; call-induced writes per function."""
    written = {k: set() for k in funcs}
    induced = {k: [] for k in funcs}   # ('write', root, line, why)
    changed = True
    while changed:
        changed = False
        for k, info in funcs.items():
            ind = []
            for callee, args, star, line in info.calls:
                ck = resolver[info.module].get(callee)
                if ck is None or ck not in funcs or not written[ck]:
                    continue
                cinfo = funcs[ck]
                for pos, roots in args:
                    pname = cinfo.params[pos] if isinstance(pos, int) and pos < len(cinfo.params) else pos
                    if pname in written[ck]:
                        for r in roots:
                            ind.append(("write", r, line, f"call {ck[0]}.{ck[1]} writes its parameter {pname}"))
                if star and written[ck]:
                    for r in star:
                        ind.append(("write", r, line, f"call {ck[0]}.{ck[1]}(*…) may write it"))
            if ind != induced[k]:
                induced[k] = ind
            w = set()
            for p in info.mutable_params:
                cl = closure(info, [p])
                if any(s[0] == "write" and s[1] in cl for s in info.stmts + ind):
                    w.add(p)
            if w != written[k]:
                written[k] = w
                changed = True
    return written, induced


def extract():
    funcs, resolver, public = load_package()
    written, induced = summaries(funcs, resolver)
    out = []
    for name, key in public:
        if key is None:
            out.append({"name": name, "status": "not-a-function", "params": [], "body": [], "sites": []})
            continue
        info = funcs[key]
        params = list(info.mutable_params)   # *args/**kwargs containers are new objects of the call
        body = []
        for s in info.stmts + induced[key]:
            t = (s[0], s[1], s[2]) if s[0] == "alias" else (s[0], s[1])
            if t not in body:
                body.append(t)
        cl = closure(info, params)
        sites = sorted({(s[2], s[1], s[3]) for s in info.stmts + induced[key] if s[0] == "write" and s[1] in cl})
        out.append({"name": name, "module": key[0], "status": "unanalysed" if info.unanalysed else "analysed",
                    "why": info.unanalysed, "params": params, "body": body,
                    "sites": [f"{key[0]}.py:{ln} {x} ({why})" for ln, x, why in sites]})
    return out


def _q(s):
    return '"' + s.replace("\\", "\\\\").replace('"', '\\"') + '"'


def render(fns) -> str:
    L = ["/- GENERATED by harness/translate/c06_effects.py from /repo/src/pharmpy/modeling — do not edit.",
         "   Regenerated on every run of ./check C06; `all_public_functions_pass` is re-checked against it. -/",
         "import PharmpyModel.C06.Effects",
         "namespace Pharmpy.C06.Generated",
         "open Pharmpy.C06.Eff",
         ""]
    names = []
    for f in fns:
        if f["status"] != "analysed":
            continue
        for site in f["sites"]:
            L.append(f"-- {f['name']}: write may reach an argument: {site}")
        stm = []
        for s in f["body"]:
            if s[0] == "alias":
                stm.append(f".alias {_q(s[1])} {_q(s[2])}")
            else:
                stm.append(f".{s[0]} {_q(s[1])}")
        L.append(f"def fn_{f['name']} : Fn := {{ name := {_q(f['name'])}, params := [{', '.join(_q(p) for p in f['params'])}], body := [")
        L.append("    " + ", ".join(stm) + "] }")
        names.append(f["name"])
    L.append("")
    L.append("def effects : List Fn := [" + ", ".join(f"fn_{n}" for n in names) + "]")
    L.append("")
    un = [f["name"] for f in fns if f["status"] != "analysed"]
    L.append("/-- public names the analysis does not classify (not module-level functions of pharmpy/modeling, or global/exec) -/")
    L.append("def unanalysed : List String := [" + ", ".join(_q(n) for n in un) + "]")
    L.append("")
    L.append("end Pharmpy.C06.Generated")
    return "\n".join(L) + "\n"


def run() -> bool:
    text = render(extract())
    OUT.parent.mkdir(parents=True, exist_ok=True)
    if OUT.exists() and OUT.read_text() == text:
        return False
    OUT.write_text(text)
    return True


def verdicts():
    """{public name: {'verdict': 'pure'|'writes'|'unanalysed', 'sites': [...]}} — the Python view of the table
    (the Lean checker's verdict is obtained from the driver and compared with this one by the harness)."""
    out = {}
    for f in extract():
        if f["status"] != "analysed":
            out[f["name"]] = {"verdict": "unanalysed", "sites": []}
        else:
            out[f["name"]] = {"verdict": "writes" if f["sites"] else "pure", "sites": f["sites"]}
    return out


if __name__ == "__main__":
    v = verdicts()
    for k, x in v.items():
        if x["verdict"] != "pure":
            print(k, x)
    print({s: sum(1 for x in v.values() if x["verdict"] == s) for s in ("pure", "writes", "unanalysed")})
    print("changed:", run())
