"""T3a — which fields `__eq__` compares and which `__hash__` hashes, for every value class.

Scans src/pharmpy/model/*.py, model/distributions/*.py, basic/*.py and internals/immutable.py with
`ast`, and for every class that defines `__eq__` or `__hash__` extracts

  * the instance fields (`self._x = ...` in `__init__`, following `super().__init__`),
  * the declared kind of each field from the `__init__` annotations (prim / identity object /
    dict / table class / tuple of ... / alternatives),
  * how `__eq__` uses each field (plain `==`, content comparison, not at all), whether it starts
    with a hash guard, the isinstance guard class, the identity shortcut,
  * how `__hash__` uses each field (plain, content digest, ordered items, not at all),

and writes lean/PharmpyModel/Generated/EqHash.lean.  Only a closed list of statement shapes is
recognised; anything else raises `Refuse` (=> proof obligation broken).
"""
from __future__ import annotations

import ast
import re
from pathlib import Path

from harness.common.paths import LEAN, REPO_SRC

OUT = LEAN / "PharmpyModel" / "Generated" / "EqHash.lean"
PRIMS = {"str", "int", "float", "bool", "Path", "Any", "None"}
# abstract bases that only occur in annotations; resolved to their subclasses in the table
# fields whose kind cannot be read off an `__init__` annotation: explicit, checked against the
# right-hand side text so that a changed constructor is refused
KIND_HINTS = {
    ("CompartmentalSystem", "_g"): ("nx.freeze(builder._g.copy())", "IDENT"),
    ("Statements", "_statements"): ("statements", "tuple[Statement, ...]"),
    ("frozenmapping", "_mapping"): ("dict(mapping)", "DICT"),
    ("Expr", "_expr"): ("symengine.sympify(source)", "PRIM"),
    ("BooleanExpr", "_expr"): ("sympy.sympify(source)", "PRIM"),
    ("Unit", "_expr"): ("sympy.sympify(source).subs(_unit_subs())", "PRIM"),
    ("Matrix", "_m"): ("symengine.Matrix(source)", "PRIM"),
}
# computed properties that an `__eq__` may read: a function of fields that are compared anyway
ALLOWED_DERIVED = {("CompartmentalSystem", "dosing_compartments"): "_g"}
CACHE_FIELDS = {"_hash"}


class Refuse(Exception):
    pass


def source_files():
    root = REPO_SRC / "pharmpy"
    return (sorted((root / "model").glob("*.py")) + sorted((root / "model" / "distributions").glob("*.py"))
            + sorted((root / "basic").glob("*.py")) + [root / "internals" / "immutable.py"])


def _is_self_attr(n, who="self"):
    return isinstance(n, ast.Attribute) and isinstance(n.value, ast.Name) and n.value.id == who


class Classes:
    def __init__(self):
        self.defs: dict[str, ast.ClassDef] = {}
        self.file: dict[str, str] = {}
        def has_value_class(f):
            return any(isinstance(m, ast.FunctionDef) and m.name in ("__eq__", "__hash__")
                       for n in ast.parse(f.read_text()).body if isinstance(n, ast.ClassDef) for m in n.body)

        for f in sorted(source_files(), key=lambda f: (not has_value_class(f), str(f))):
            tree = ast.parse(f.read_text())
            classes = [n for n in tree.body if isinstance(n, ast.ClassDef)]
            if not any(isinstance(m, ast.FunctionDef) and m.name in ("__eq__", "__hash__") for n in classes for m in n.body) \
                    and any(n.name in self.defs for n in classes):
                continue   # a module without value classes that reuses class names (distributions/numeric.py)
            for n in classes:
                if isinstance(n, ast.ClassDef):
                    if n.name in self.defs:
                        raise Refuse(f"class {n.name} defined twice")
                    self.defs[n.name] = n
                    self.file[n.name] = str(f.relative_to(REPO_SRC))

    def bases(self, c):
        out = []
        for b in self.defs[c].bases:
            if isinstance(b, ast.Subscript):
                b = b.value
            if isinstance(b, ast.Name):
                out.append(b.id)
            elif isinstance(b, ast.Attribute):
                out.append(b.attr)
        return out

    def mro(self, c):
        out = [c]
        for b in self.bases(c):
            if b in self.defs:
                for x in self.mro(b):
                    if x not in out:
                        out.append(x)
        return out

    def method(self, c, name, inherit=True):
        for k in (self.mro(c) if inherit else [c]):
            for m in self.defs[k].body:
                if isinstance(m, ast.FunctionDef) and m.name == name:
                    return k, m
        return None, None

    def subclasses(self, base):
        return [c for c in self.defs if c != base and base in self.mro(c)]

    def prop_field(self, c, prop):
        """`self.prop` -> the field it returns, or ('derived', prop)."""
        k, m = self.method(c, prop)
        if m is None:
            raise Refuse(f"{c}.{prop}: no such property")
        if not any(isinstance(d, ast.Name) and d.id == "property" for d in m.decorator_list):
            raise Refuse(f"{c}.{prop}: not a property")
        body = [s for s in m.body if not (isinstance(s, ast.Expr) and isinstance(s.value, ast.Constant))]
        if len(body) == 1 and isinstance(body[0], ast.Return) and _is_self_attr(body[0].value):
            return body[0].value.attr
        if (c, prop) in ALLOWED_DERIVED:
            return ("derived", prop)
        raise Refuse(f"{c}.{prop}: computed property used in __eq__/__hash__")


# ------------------------------------------------------------------ fields and kinds

def init_fields(cl: Classes, c: str):
    """[(field, rhs_text, annotation or None)] in assignment order, base class fields after own."""
    k, init = cl.method(c, "__init__", inherit=False)
    out = []
    if init is None:
        for b in cl.bases(c):
            if b in cl.defs:
                out += init_fields(cl, b)
        return out
    ann = {a.arg: a.annotation for a in init.args.args + init.args.kwonlyargs}
    calls_super = False
    for n in ast.walk(init):
        if isinstance(n, ast.Assign) and len(n.targets) == 1 and _is_self_attr(n.targets[0]):
            f = n.targets[0].attr
            if f in CACHE_FIELDS:
                continue
            rhs = ast.unparse(n.value)
            a = ann.get(n.value.id) if isinstance(n.value, ast.Name) else None
            dup = [i for i, x in enumerate(out) if x[0] == f]
            if dup:
                # assigned in two branches: the annotated parameter decides the kind
                if out[dup[0]][2] is None and a is not None:
                    out[dup[0]] = (f, rhs, a)
                continue
            if isinstance(n.value, ast.Attribute) and isinstance(n.value.value, ast.Name) and n.value.value.id in ann:
                # `self._expr = source._expr` (copy constructor branch): skip, the other branch decides
                continue
            out.append((f, rhs, a))
        if isinstance(n, ast.Call) and isinstance(n.func, ast.Attribute) and n.func.attr == "__init__" \
                and isinstance(n.func.value, ast.Call) and isinstance(n.func.value.func, ast.Name) \
                and n.func.value.func.id == "super":
            calls_super = True
    if calls_super:
        for b in cl.bases(c):
            if b in cl.defs:
                for x in init_fields(cl, b):
                    if not any(x[0] == y[0] for y in out):
                        out.append(x)
    return out


def kind_of(cl: Classes, table: set, a) -> tuple:
    """annotation AST -> kind tuple: ('prim',) ('ident',) ('dict',) ('opaque',) ('cls',n) ('tupleOf',k) ('either',a,b)"""
    def alts(ks):
        ks = list(ks)
        k = ks[-1]
        for x in reversed(ks[:-1]):
            k = ("either", x, k)
        return k

    if isinstance(a, ast.Constant) and a.value is None:
        return ("prim",)
    if isinstance(a, ast.Constant) and isinstance(a.value, str):
        return kind_of(cl, table, ast.parse(a.value, mode="eval").body)
    if isinstance(a, ast.Name):
        n = a.id
        if n in PRIMS:
            return ("prim",)
        if n in table:
            return ("cls", n)
        if n in cl.defs:
            subs = [s for s in cl.subclasses(n) if s in table]
            if subs:
                return alts(("cls", s) for s in sorted(subs))
            return ("opaque",)
        raise Refuse(f"unknown annotation name {n}")
    if isinstance(a, ast.Attribute):
        t = ast.unparse(a)
        if t == "pd.DataFrame":
            return ("frame",)
        raise Refuse(f"unknown annotation {t}")
    if isinstance(a, ast.Subscript):
        head = ast.unparse(a.value)
        args = a.slice.elts if isinstance(a.slice, ast.Tuple) else [a.slice]
        if head == "Optional":
            return ("either", ("prim",), kind_of(cl, table, args[0]))
        if head == "Union":
            return alts(kind_of(cl, table, x) for x in args)
        if head in ("tuple", "Sequence", "Iterable"):
            args = [x for x in args if not (isinstance(x, ast.Constant) and x.value is Ellipsis)]
            if len(args) != 1:
                raise Refuse(f"heterogeneous tuple annotation {ast.unparse(a)}")
            return ("tupleOf", kind_of(cl, table, args[0]))
        if head == "frozenmapping":
            return ("cls", "frozenmapping")
        raise Refuse(f"unknown generic annotation {ast.unparse(a)}")
    raise Refuse(f"unknown annotation {ast.dump(a)}")


def field_kind(cl, table, c, owner_chain, f, rhs, a):
    for k in owner_chain:
        if (k, f) in KIND_HINTS:
            want, hint = KIND_HINTS[(k, f)]
            if rhs != want:
                raise Refuse(f"{k}.{f}: constructor changed ({rhs!r}, expected {want!r})")
            if hint == "IDENT":
                return ("ident",)
            if hint == "DICT":
                return ("dict",)
            if hint == "PRIM":
                return ("prim",)
            return kind_of(cl, table, ast.parse(hint, mode="eval").body)
    if a is None:
        raise Refuse(f"{c}.{f}: no annotation and no hint for `{rhs}`")
    return kind_of(cl, table, a)


# ------------------------------------------------------------------ __eq__

IIE_RE = re.compile(
    r"^if self\.(\w+) is None:\n    if other\.\1 is not None:\n        return False\n"
    r"elif other\.\1 is None:\n    return False\nelif not self\.\1\.equals\(other\.\1\):\n    return False$")


class EqInfo:
    def __init__(self):
        self.compared: dict[str, str] = {}   # field -> 'plain' | 'content'
        self.derived: list[str] = []
        self.hash_guard = False
        self.guard = None
        self.identity_shortcut = False
        self.identity_only = False
        self.coercing = False
        self.inherited = None


def _resolve(cl, c, attr):
    """`self.<attr>` -> field name (or ('derived', p))"""
    if attr.startswith("_"):
        return attr
    return cl.prop_field(c, attr)


def _len_field(cl, c):
    k, m = cl.method(c, "__len__")
    if m is None:
        raise Refuse(f"{c}: zip(self, other) without __len__")
    body = [s for s in m.body if not (isinstance(s, ast.Expr) and isinstance(s.value, ast.Constant))]
    if len(body) == 1 and isinstance(body[0], ast.Return):
        v = body[0].value
        if isinstance(v, ast.Call) and isinstance(v.func, ast.Name) and v.func.id == "len" and _is_self_attr(v.args[0]):
            return v.args[0].attr
    raise Refuse(f"{c}.__len__: not `return len(self._f)`")


def _seq_of(cl, c, node_self, node_other):
    """(self, other) or (self._f, other._f) -> field"""
    if isinstance(node_self, ast.Name) and node_self.id == "self" and isinstance(node_other, ast.Name) and node_other.id == "other":
        return _len_field(cl, c)
    if _is_self_attr(node_self) and _is_self_attr(node_other, "other") and node_self.attr == node_other.attr:
        return _resolve(cl, c, node_self.attr)
    raise Refuse(f"{c}.__eq__: unrecognised sequence pair {ast.unparse(node_self)}, {ast.unparse(node_other)}")


def _add(info, c, f, mode):
    if isinstance(f, tuple):
        info.derived.append(f[1])
        return
    if info.compared.get(f, mode) != mode:
        raise Refuse(f"{c}.__eq__: field {f} compared in two ways")
    info.compared[f] = mode


def _eq_term(cl, c, info, t):
    # self.f == other.f
    if isinstance(t, ast.Compare) and len(t.ops) == 1 and isinstance(t.ops[0], ast.Eq):
        l, r = t.left, t.comparators[0]
        if _is_self_attr(l) and _is_self_attr(r, "other") and l.attr == r.attr:
            _add(info, c, _resolve(cl, c, l.attr), "plain")
            return
        if _is_self_attr(l) and isinstance(r, ast.Name) and r.id == "other":
            _add(info, c, _resolve(cl, c, l.attr), "plain")
            info.coercing = True
            return
        if isinstance(l, ast.Call) and isinstance(r, ast.Call) and ast.unparse(l.func) == ast.unparse(r.func) == "nx.to_dict_of_dicts" \
                and _is_self_attr(l.args[0]) and _is_self_attr(r.args[0], "other") and l.args[0].attr == r.args[0].attr:
            _add(info, c, l.args[0].attr, "content")
            return
    if isinstance(t, ast.Compare) and len(t.ops) == 1 and isinstance(t.ops[0], ast.Is) \
            and {ast.unparse(t.left), ast.unparse(t.comparators[0])} == {"self", "other"}:
        info.identity_only = True
        return
    if isinstance(t, ast.Call) and ast.unparse(t) == "super().__eq__(other)":
        base = next(b for b in cl.bases(c) if b in cl.defs)
        k, m = cl.method(base, "__eq__")
        if m is None:
            raise Refuse(f"{c}: super().__eq__ without a base __eq__")
        sub = analyse_eq(cl, k, m)
        for f, mode in sub.compared.items():
            _add(info, c, f, mode)
        return
    if isinstance(t, ast.Call) and isinstance(t.func, ast.Name) and t.func.id == "isinstance" and ast.unparse(t.args[0]) == "other":
        info.guard = ast.unparse(t.args[1])
        return
    raise Refuse(f"{c}.__eq__: unrecognised term `{ast.unparse(t)}`")


def _eq_stmts(cl, c, info, stmts):
    for s in stmts:
        if isinstance(s, ast.Expr) and isinstance(s.value, ast.Constant) and isinstance(s.value.value, str):
            continue
        if isinstance(s, ast.Return):
            v = s.value
            if isinstance(v, ast.Constant) and isinstance(v.value, bool):
                continue
            if isinstance(v, ast.BoolOp) and isinstance(v.op, ast.And):
                for t in v.values:
                    _eq_term(cl, c, info, t)
                continue
            if isinstance(v, ast.BoolOp) and isinstance(v.op, ast.Or) and len(v.values) == 2 \
                    and isinstance(v.values[0], ast.BoolOp) and isinstance(v.values[0].op, ast.And):
                # Unit: isinstance(other, Unit) and self._expr == other._expr or self._expr == other
                for t in v.values[0].values:
                    _eq_term(cl, c, info, t)
                _eq_term(cl, c, info, v.values[1])
                continue
            _eq_term(cl, c, info, v)
            continue
        if isinstance(s, ast.If):
            text = ast.unparse(s)
            m = IIE_RE.match(text)
            if m:
                _add(info, c, _resolve(cl, c, m.group(1)), "content")
                continue
            t = s.test
            tt = ast.unparse(t)
            ret = s.body[0] if len(s.body) == 1 and isinstance(s.body[0], ast.Return) else None
            if tt in ("self is other", "other is self") and ret is not None and ast.unparse(ret) == "return True" and not s.orelse:
                info.identity_shortcut = True
                continue
            if isinstance(t, ast.UnaryOp) and isinstance(t.op, ast.Not) and isinstance(t.operand, ast.Call) \
                    and ast.unparse(t.operand.func) == "isinstance" and ast.unparse(t.operand.args[0]) == "other" \
                    and ret is not None and ast.unparse(ret) == "return NotImplemented" and not s.orelse:
                info.guard = ast.unparse(t.operand.args[1])
                continue
            if tt == "hash(self) != hash(other)" and ret is not None and ast.unparse(ret) == "return False" and not s.orelse:
                info.hash_guard = True
                continue
            if isinstance(t, ast.Compare) and len(t.ops) == 1 and isinstance(t.left, ast.Call) and ast.unparse(t.left.func) == "len" \
                    and isinstance(t.comparators[0], ast.Call) and ast.unparse(t.comparators[0].func) == "len":
                _seq_of(cl, c, t.left.args[0], t.comparators[0].args[0])  # shape check only
                if isinstance(t.ops[0], ast.NotEq):
                    if not (ret is not None and ast.unparse(ret) == "return False"):
                        raise Refuse(f"{c}.__eq__: length test without `return False`")
                    _eq_stmts(cl, c, info, s.orelse)
                    continue
                if isinstance(t.ops[0], ast.Eq) and not s.orelse:
                    _eq_stmts(cl, c, info, s.body)
                    continue
            if isinstance(t, ast.Compare) and len(t.ops) == 1 and isinstance(t.ops[0], ast.NotEq) and _is_self_attr(t.left) \
                    and _is_self_attr(t.comparators[0], "other") and t.left.attr == t.comparators[0].attr \
                    and ret is not None and ast.unparse(ret) == "return False" and not s.orelse:
                _add(info, c, _resolve(cl, c, t.left.attr), "plain")
                continue
            raise Refuse(f"{c}.__eq__: unrecognised if `{tt}`")
        if isinstance(s, ast.For):
            it = s.iter
            if isinstance(it, ast.Call) and ast.unparse(it.func) == "zip" and len(it.args) == 2 \
                    and isinstance(s.target, ast.Tuple) and len(s.target.elts) == 2 \
                    and len(s.body) == 1 and isinstance(s.body[0], ast.If) \
                    and ast.unparse(s.body[0].test) == f"{ast.unparse(s.target.elts[0])} != {ast.unparse(s.target.elts[1])}" \
                    and ast.unparse(s.body[0].body[0]) == "return False" and not s.body[0].orelse and not s.orelse:
                _add(info, c, _seq_of(cl, c, it.args[0], it.args[1]), "plain")
                continue
            raise Refuse(f"{c}.__eq__: unrecognised for loop")
        raise Refuse(f"{c}.__eq__: unrecognised statement `{ast.unparse(s)[:60]}`")


def analyse_eq(cl, c, fn) -> EqInfo:
    info = EqInfo()
    _eq_stmts(cl, c, info, fn.body)
    return info


# ------------------------------------------------------------------ __hash__

FM_HASH = ("if self._hash is None:\n    self._hash = hash(tuple(((k, v) for k, v in self._mapping.items())))\n"
           "return self._hash")


FM_HASH_SET = ("if self._hash is None:\n    self._hash = hash(frozenset(self._mapping.items()))\n"
               "return self._hash")


def _self_field_root(e):
    """`self._f.<attribute / method call / subscript chain>` -> ('_f', [step names]); None otherwise."""
    steps = []
    while True:
        if isinstance(e, ast.Attribute):
            if _is_self_attr(e):
                return e.attr, list(reversed(steps))
            steps.append(e.attr)
            e = e.value
        elif isinstance(e, ast.Call) and isinstance(e.func, ast.Attribute) and not e.keywords \
                and all(isinstance(a, ast.Constant) for a in e.args):
            steps.append("()")
            e = e.func
        elif isinstance(e, ast.Subscript) and isinstance(e.slice, ast.Constant):
            steps.append("[]")
            e = e.value
        else:
            return None


def _digest(e):
    """frozenset/sorted/tuple/list over an iteration of a field's contents -> (field, mode); None otherwise.
    frozenset / sorted are order-free: `frozenset(self._g.nodes)` sees the nodes (contentPart), any other
    order-free digest is taken to see the whole canonical content (content; K checks it).  tuple / list keep the
    iteration order of the container: orderedContent."""
    if isinstance(e, ast.Call) and isinstance(e.func, ast.Name) and len(e.args) == 1 and not e.keywords \
            and e.func.id in ("frozenset", "sorted", "tuple", "list"):
        r = _self_field_root(e.args[0])
        if r is None or not r[1]:
            return None
        f, steps = r
        if e.func.id in ("tuple", "list"):
            return f, "orderedContent"
        return f, ("contentPart" if steps == ["nodes"] else "content")
    return None


_RANK = {"contentPart": 0, "content": 1, "orderedContent": 2}


def analyse_hash(cl, c, fn) -> tuple[dict, bool]:
    """-> ({field: mode}, const)"""
    hashed: dict[str, str] = {}
    body = [s for s in fn.body if not (isinstance(s, ast.Expr) and isinstance(s.value, ast.Constant))]
    if "\n".join(ast.unparse(s) for s in body) == FM_HASH:
        return {"_mapping": "orderedItems"}, False
    if "\n".join(ast.unparse(s) for s in body) == FM_HASH_SET:
        return {"_mapping": "itemSet"}, False
    local: dict[str, tuple] = {}
    for s in body[:-1]:
        # name = hash_df_runtime(self._f) if self._f is not None else None
        if isinstance(s, ast.Assign) and len(s.targets) == 1 and isinstance(s.targets[0], ast.Name) and isinstance(s.value, ast.IfExp):
            v = s.value
            if isinstance(v.body, ast.Call) and ast.unparse(v.body.func) == "hash_df_runtime" and _is_self_attr(v.body.args[0]) \
                    and ast.unparse(v.test) == f"self.{v.body.args[0].attr} is not None" and ast.unparse(v.orelse) == "None":
                local[s.targets[0].id] = (v.body.args[0].attr, "content")
                continue
        # name = frozenset(self._f.…) / tuple(self._f.…)
        if isinstance(s, ast.Assign) and len(s.targets) == 1 and isinstance(s.targets[0], ast.Name) and _digest(s.value):
            local[s.targets[0].id] = _digest(s.value)
            continue
        raise Refuse(f"{c}.__hash__: unrecognised statement `{ast.unparse(s)[:60]}`")
    r = body[-1]
    if not isinstance(r, ast.Return):
        raise Refuse(f"{c}.__hash__: does not end in return")
    v = r.value
    if isinstance(v, ast.Constant) and isinstance(v.value, int):
        return {}, True

    def add(f, mode):
        if isinstance(f, tuple):
            raise Refuse(f"{c}.__hash__: hashes computed property {f[1]}")
        old = hashed.get(f)
        if old is None or old == mode:
            hashed[f] = mode
        elif old in _RANK and mode in _RANK:
            # several digests of one field: the one that sees most decides (an order-dependent one dominates)
            hashed[f] = max(old, mode, key=_RANK.get) if "orderedContent" in (old, mode) else "content"
        else:
            raise Refuse(f"{c}.__hash__: field {f} hashed in two incompatible ways ({old}, {mode})")

    def elt(e):
        if _is_self_attr(e):
            add(_resolve(cl, c, e.attr), "plain")
        elif isinstance(e, ast.Name) and e.id in local:
            add(*local[e.id])
        elif _digest(e):
            add(*_digest(e))
        elif ast.unparse(e) == "super().__hash__()":
            base = next(b for b in cl.bases(c) if b in cl.defs)
            k, m = cl.method(base, "__hash__")
            if m is None:
                raise Refuse(f"{c}: super().__hash__ without a base __hash__")
            sub, const = analyse_hash(cl, k, m)
            for f, mode in sub.items():
                add(f, mode)
        else:
            raise Refuse(f"{c}.__hash__: unrecognised element `{ast.unparse(e)}`")

    if isinstance(v, ast.Call) and isinstance(v.func, ast.Name) and v.func.id == "hash" and len(v.args) == 1:
        a = v.args[0]
        if isinstance(a, ast.Tuple):
            for e in a.elts:
                elt(e)
            return hashed, False
        if isinstance(a, ast.Call) and ast.unparse(a.func) == "sympy.ImmutableMatrix" and _is_self_attr(a.args[0]):
            add(a.args[0].attr, "content")
            return hashed, False
        elt(a)
        return hashed, False
    raise Refuse(f"{c}.__hash__: unrecognised return `{ast.unparse(v)[:80]}`")


# ------------------------------------------------------------------ table

CACHE_COPY_OK = ("self._hash = mapping._hash",)   # copy constructor of identical content (`frozenmapping(frozenmapping)`)


def cache_and_stores(cl, c):
    """-> (cache field or None).  Value classes are immutable by construction: outside `__init__`/`__new__` no method may
    store into an attribute of an instance (its own or another one's, e.g. a clone's `new._mapping = …`), except the hash
    cache inside `__hash__`; the cache may be copied from another instance only by the copy constructor of identical
    content.  Anything else is a refused shape."""
    cache = None
    for m in cl.defs[c].body:
        if not isinstance(m, ast.FunctionDef):
            continue
        if m.name == "__hash__" and any(isinstance(d, ast.Name) and d.id == "cache_method" for d in m.decorator_list):
            cache = "_hash"
        ctor = m.name in ("__init__", "__new__")
        is_cls = any(isinstance(d, ast.Name) and d.id in ("classmethod", "staticmethod") for d in m.decorator_list)
        # locals bound to an *empty* fresh instance `X = Cls()`: filling it in before returning it is construction
        empty_fresh = {n.targets[0].id for n in ast.walk(m)
                       if isinstance(n, ast.Assign) and len(n.targets) == 1 and isinstance(n.targets[0], ast.Name)
                       and isinstance(n.value, ast.Call) and isinstance(n.value.func, ast.Name) and n.value.func.id in (c, "cls")
                       and not n.value.args and not n.value.keywords}
        for n in ast.walk(m):
            targets = n.targets if isinstance(n, ast.Assign) else [n.target] if isinstance(n, (ast.AugAssign, ast.AnnAssign)) else []
            for t in targets:
                if not isinstance(t, ast.Attribute):
                    continue
                root = t.value.id if isinstance(t.value, ast.Name) else None
                text = ast.unparse(n)
                if t.attr == "_hash":
                    cache = "_hash"
                    if m.name == "__hash__" and root == "self":
                        continue
                    if ctor and root == "self" and (isinstance(n.value, ast.Constant) and n.value.value is None or text in CACHE_COPY_OK):
                        continue
                    raise Refuse(f"{c}.{m.name}: the hash cache is written outside __hash__ (`{text[:60]}`)")
                if root == "self" and ctor:
                    continue
                if root == "cls" and is_cls:
                    continue          # class attribute (singleton instance)
                if root in empty_fresh and t.attr != "_hash":
                    continue
                if root is not None and (root == "self" or t.attr.startswith("_")):
                    raise Refuse(f"{c}.{m.name}: an instance attribute is stored outside the constructor (`{text[:60]}`)")
    return cache


def extract(tolerant=False):
    """-> (table, unhashable).  With `tolerant`, a class whose __eq__/__hash__ has an unrecognised shape does not
    abort the extraction: its entry carries `refused` (the message) and whatever could be read (fields, kinds, and the
    method that was understood); `run()` still raises so that the broken obligation is reported."""
    cl = Classes()
    names = []
    unhashable = []
    for c, d in cl.defs.items():
        own = {m.name for m in d.body if isinstance(m, ast.FunctionDef)}
        if "__eq__" in own or "__hash__" in own:
            if "__eq__" in own and "__hash__" not in own:
                unhashable.append(c)      # Python sets __hash__ = None
                continue
            names.append(c)
    table = set(names)
    out = []
    for c in names:
        own = {m.name for m in cl.defs[c].body if isinstance(m, ast.FunctionDef)}
        flds = init_fields(cl, c)
        chain = cl.mro(c)
        kinds = {f: field_kind(cl, table, c, chain, f, rhs, a) for f, rhs, a in flds}
        refused = []
        if "__eq__" in own:
            try:
                info = analyse_eq(cl, c, cl.method(c, "__eq__", inherit=False)[1])
            except Refuse as e:
                if not tolerant:
                    raise
                refused.append(str(e))
                info = EqInfo()
        elif "Mapping" in cl.bases(c):
            info = EqInfo()           # collections.abc.Mapping.__eq__: dict(self.items()) == dict(other.items())
            info.inherited = "Mapping"
            k, it = cl.method(c, "__iter__")
            gk, gi = cl.method(c, "__getitem__")
            if it is None or gi is None or ast.unparse(it.body[-1]) != "return iter(self._mapping)" \
                    or ast.unparse(gi.body[-1]) != "return self._mapping[key]":
                raise Refuse(f"{c}: Mapping without the expected __iter__/__getitem__")
            info.compared["_mapping"] = "plain"
            info.guard = "Mapping"
        else:
            k, m = cl.method(c, "__eq__")
            if m is None:
                info = EqInfo()
                info.identity_only = True
                info.inherited = "object"
            else:
                info = analyse_eq(cl, k, m)
                info.inherited = k
        try:
            hashed, const = analyse_hash(cl, c, cl.method(c, "__hash__", inherit=False)[1])
        except Refuse as e:
            if not tolerant:
                raise
            refused.append(str(e))
            hashed, const = {}, False
        try:
            cache = cache_and_stores(cl, c)
        except Refuse as e:
            if not tolerant:
                raise
            refused.append(str(e))
            cache = "_hash"
        fieldnames = [f for f, _, _ in flds]
        for f in list(info.compared) + list(hashed):
            if f not in fieldnames:
                raise Refuse(f"{c}: {f} is compared/hashed but is not an instance field of __init__")
        for f in fieldnames:
            if kinds[f] == ("opaque",) and (f in info.compared or f in hashed):
                raise Refuse(f"{c}.{f}: opaque field is compared or hashed")
        out.append({
            "name": c, "file": cl.file[c], "hash_guard": info.hash_guard, "guard": info.guard,
            "identity_shortcut": info.identity_shortcut, "identity_only": info.identity_only,
            "coercing": info.coercing, "inherited_eq": info.inherited, "derived": info.derived, "const_hash": const,
            "fields": [{"name": f, "cmp": info.compared.get(f), "hash": hashed.get(f), "kind": kinds[f]} for f in fieldnames],
            "refused": "; ".join(refused) or None, "cache": cache,
        })
    return out, sorted(unhashable)


def lean_kind(k):
    if k[0] in ("prim", "ident", "frame", "dict", "opaque"):
        return "." + k[0]
    if k[0] == "cls":
        return f'(.cls "{k[1]}")'
    if k[0] == "tupleOf":
        return f"(.tupleOf {lean_kind(k[1])})"
    if k[0] == "either":
        return f"(.either {lean_kind(k[1])} {lean_kind(k[2])})"
    raise Refuse(f"kind {k}")


def render(table, unhashable) -> str:
    L = ["/- GENERATED by harness/translate/c06_eqhash.py from /repo/src/pharmpy — do not edit.",
         "   Regenerated on every run of ./check C06; theorems in PharmpyProofs/C06 are re-checked against it. -/",
         "import PharmpyModel.C06.EqHash",
         "namespace Pharmpy.C06.Generated",
         "open Pharmpy.C06",
         "",
         f"/- classes with __eq__ but no __hash__ (unhashable, outside the table): {', '.join(unhashable) or 'none'} -/",
         ""]
    for c in table:
        notes = []
        if c["guard"]:
            notes.append(f"isinstance guard {c['guard']}")
        if c["identity_shortcut"]:
            notes.append("`self is other` shortcut")
        if c["identity_only"]:
            notes.append("equality is identity")
        if c["coercing"]:
            notes.append("compares the field with `other` itself (coercing)")
        if c["inherited_eq"]:
            notes.append(f"__eq__ inherited from {c['inherited_eq']}")
        if c["derived"]:
            notes.append("also compares computed " + ",".join(c["derived"]))
        if c["const_hash"]:
            notes.append("constant hash")
        if c.get("cache"):
            notes.append(f"hash cached in {c['cache']} (written only by __hash__ / identical-content copy constructor)")
        L.append(f"/-- {c['file']} :: {c['name']}" + (" — " + "; ".join(notes) if notes else "") + " -/")
        L.append(f"def cls_{c['name']} : ClassSpec :=")
        L.append(f'  {{ name := "{c["name"]}", hashGuard := {"true" if c["hash_guard"] else "false"}, fields := [')
        rows = []
        for f in c["fields"]:
            cmp_ = f"some .{f['cmp']}" if f["cmp"] else "none"
            h = f"some .{f['hash']}" if f["hash"] else "none"
            rows.append(f'      {{ name := "{f["name"]}", cmp := {cmp_}, hash := {h}, kind := {lean_kind(f["kind"])} }}')
        L.append(",\n".join(rows) + " ] }")
        L.append("")
    L.append("def eqHashTable : Table := [" + ", ".join(f"cls_{c['name']}" for c in table) + "]")
    L.append("")
    L.append("end Pharmpy.C06.Generated")
    return "\n".join(L) + "\n"


def run() -> bool:
    table, unhashable = extract()
    text = render(table, unhashable)
    OUT.parent.mkdir(parents=True, exist_ok=True)
    if OUT.exists() and OUT.read_text() == text:
        return False
    OUT.write_text(text)
    return True


if __name__ == "__main__":
    import json
    t, u = extract()
    print(json.dumps(t, indent=1))
    print("unhashable:", u)
    print("changed:", run())
