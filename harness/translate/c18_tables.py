"""T4 (C18 part): regenerate lean/PharmpyModel/Generated/C18Tables.lean from the working tree.

Extracted (closed list of syntactic shapes; anything else raises => obligation broken):
  * `<X>_WILDCARD = tuple([Name(x) for x in (<str>, ...)])` in tools/mfl/statement/feature/
    {absorption,elimination,lagtime,transits,peripherals}.py
  * `not_supported_combo = [((...), (...)), ...]` and the literal `feat_current == (<tuple>)`
    early-exit in tools/modelsearch/algorithms.py::_is_allowed
  * the PK defaults of ModelFeatures.create (tools/mfl/parse.py): the five assignments under
    `if any(...)`
"""
from __future__ import annotations

import ast
from pathlib import Path

from harness.common.paths import LEAN, REPO_SRC

OUT = LEAN / "PharmpyModel" / "Generated" / "C18Tables.lean"
MFL = REPO_SRC / "pharmpy" / "tools" / "mfl"


class Refuse(Exception):
    pass


def _wildcard(path: Path, name: str) -> list[str]:
    tree = ast.parse(path.read_text())
    for node in tree.body:
        if isinstance(node, ast.Assign) and len(node.targets) == 1 and isinstance(node.targets[0], ast.Name) \
                and node.targets[0].id == name:
            v = node.value
            # tuple([Name(x) for x in (...)])
            if not (isinstance(v, ast.Call) and isinstance(v.func, ast.Name) and v.func.id == "tuple" and len(v.args) == 1):
                raise Refuse(f"{path.name}: {name} is not tuple([...])")
            lc = v.args[0]
            if not (isinstance(lc, ast.ListComp) and isinstance(lc.elt, ast.Call) and isinstance(lc.elt.func, ast.Name)
                    and lc.elt.func.id == "Name" and len(lc.generators) == 1 and not lc.generators[0].ifs):
                raise Refuse(f"{path.name}: {name} comprehension shape changed")
            it = lc.generators[0].iter
            vals = ast.literal_eval(it)
            if not (isinstance(vals, tuple) and all(isinstance(x, str) for x in vals)):
                raise Refuse(f"{path.name}: {name} values are not a tuple of str")
            return list(vals)
    raise Refuse(f"{path.name}: {name} not found")


def _func(tree, name):
    for node in ast.walk(tree):
        if isinstance(node, ast.FunctionDef) and node.name == name:
            return node
    raise Refuse(f"function {name} not found")


def _key(t) -> list[str]:
    if not isinstance(t, tuple) or not all(isinstance(x, (str, int)) and not isinstance(x, bool) for x in t):
        raise Refuse(f"feature key {t!r} is not a tuple of str/int")
    return [str(x) for x in t]


def _is_allowed_tables():
    path = REPO_SRC / "pharmpy" / "tools" / "modelsearch" / "algorithms.py"
    fn = _func(ast.parse(path.read_text()), "_is_allowed")
    combos = None
    never = []
    for node in ast.walk(fn):
        if isinstance(node, ast.Assign) and len(node.targets) == 1 and isinstance(node.targets[0], ast.Name) \
                and node.targets[0].id == "not_supported_combo":
            val = ast.literal_eval(node.value)
            if not isinstance(val, list):
                raise Refuse("not_supported_combo is not a list")
            combos = []
            for pair in val:
                if not (isinstance(pair, tuple) and len(pair) == 2):
                    raise Refuse("not_supported_combo entry is not a pair")
                combos.append((_key(pair[0]), _key(pair[1])))
        if isinstance(node, ast.If) and isinstance(node.test, ast.Compare) and isinstance(node.test.left, ast.Name) \
                and node.test.left.id == "feat_current" and len(node.test.ops) == 1 and isinstance(node.test.ops[0], ast.Eq) \
                and isinstance(node.test.comparators[0], ast.Tuple):
            body = node.body
            if not (len(body) == 1 and isinstance(body[0], ast.Return) and isinstance(body[0].value, ast.Constant)
                    and body[0].value.value is False):
                raise Refuse("`if feat_current == (...)` no longer returns False")
            never.append(_key(ast.literal_eval(node.test.comparators[0])))
    if combos is None:
        raise Refuse("not_supported_combo not found")
    # the loop over the table must still be the symmetric prefix test
    src = ast.get_source_segment(path.read_text(), fn) or ""
    for needle in ("feat_current[: len(feat_1)] == feat_1 and feat[: len(feat_2)] == feat_2",
                   "feat_current[: len(feat_2)] == feat_2 and feat[: len(feat_1)] == feat_1"):
        if needle not in src:
            raise Refuse("prefix test of not_supported_combo changed shape")
    return combos, never


def _defaults():
    path = MFL / "parse.py"
    tree = ast.parse(path.read_text())
    cls = next((n for n in tree.body if isinstance(n, ast.ClassDef) and n.name == "ModelFeatures"), None)
    if cls is None:
        raise Refuse("ModelFeatures not found")
    fn = next((n for n in cls.body if isinstance(n, ast.FunctionDef) and n.name == "create"), None)
    if fn is None:
        raise Refuse("ModelFeatures.create not found")
    blk = None
    for node in fn.body:
        if isinstance(node, ast.If) and isinstance(node.test, ast.Call) and isinstance(node.test.func, ast.Name) \
                and node.test.func.id == "any":
            blk = node
    if blk is None:
        raise Refuse("`if any(...)` block of create not found")
    gen = blk.test.args[0]
    if not (isinstance(gen, ast.GeneratorExp) and isinstance(gen.generators[0].iter, ast.List)):
        raise Refuse("any(...) argument shape changed")
    trig = [e.id for e in gen.generators[0].iter.elts if isinstance(e, ast.Name)]
    if trig != ["absorption", "elimination", "transits", "peripherals", "lagtime", "metabolite"]:
        raise Refuse(f"attributes that trigger PK defaults changed: {trig}")

    def names(node):  # (Name('X'),)  -> ['X']
        if not isinstance(node, ast.Tuple):
            raise Refuse("default modes are not a tuple")
        out = []
        for e in node.elts:
            if isinstance(e, ast.Call) and isinstance(e.func, ast.Name) and e.func.id == "Name":
                out.append(ast.literal_eval(e.args[0]))
            else:
                raise Refuse("default mode is not Name('..')")
        return out

    res = {}
    for sub in blk.body:
        if not (isinstance(sub, ast.If) and len(sub.body) == 1):
            raise Refuse("default block shape changed")
        st = sub.body[0]
        if isinstance(st, ast.Assign):
            tgt, val = st.targets[0].id, st.value
        elif isinstance(st, ast.AugAssign):
            tgt, val = st.target.id, st.value
        else:
            raise Refuse("default statement shape changed")
        if isinstance(val, ast.Tuple) and len(val.elts) == 1:  # transits/peripherals: 1-tuple of one statement
            val = val.elts[0]
        if not (isinstance(val, ast.Call) and isinstance(val.func, ast.Name)):
            raise Refuse("default value is not a statement constructor")
        cname = val.func.id
        if cname in ("Absorption", "Elimination", "LagTime"):
            res[tgt] = ("modes", names(val.args[0]))
        elif cname == "Transits":
            res[tgt] = ("counted", list(ast.literal_eval(val.args[0])), names(val.args[1]))
        elif cname == "Peripherals":
            cnt = list(ast.literal_eval(val.args[0]))
            res[tgt] = ("counted", cnt, names(val.args[1]) if len(val.args) > 1 else None)
        else:
            raise Refuse(f"unknown default constructor {cname}")
    if sorted(res) != ["absorption", "elimination", "lagtime", "peripherals", "transits"]:
        raise Refuse(f"defaults found for {sorted(res)}")
    # Peripherals((0,)) relies on the dataclass default of `modes`
    if res["peripherals"][2] is None:
        ptree = ast.parse((MFL / "statement" / "feature" / "peripherals.py").read_text())
        pcls = next(n for n in ptree.body if isinstance(n, ast.ClassDef) and n.name == "Peripherals")
        for st in pcls.body:
            if isinstance(st, ast.AnnAssign) and st.target.id == "modes" and st.value is not None:
                res["peripherals"] = ("counted", res["peripherals"][1], names(st.value))
        if res["peripherals"][2] is None:
            raise Refuse("Peripherals.modes default not found")
    return res


def _lstr(xs):
    return "[" + ", ".join('"' + x.replace('"', '\\"') + '"' for x in xs) + "]"


def render() -> str:
    sf = MFL / "statement" / "feature"
    wc = {
        "absorptionWildcard": _wildcard(sf / "absorption.py", "ABSORPTION_WILDCARD"),
        "eliminationWildcard": _wildcard(sf / "elimination.py", "ELIMINATION_WILDCARD"),
        "lagtimeWildcard": _wildcard(sf / "lagtime.py", "LAGTIME_WILDCARD"),
        "transitsDepotWildcard": _wildcard(sf / "transits.py", "TRANSITS_DEPOT_WILDCARD"),
        "peripheralsModesWildcard": _wildcard(sf / "peripherals.py", "PERIPHERALS_MODES_WILDCARD"),
    }
    combos, never = _is_allowed_tables()
    d = _defaults()
    out = ["/- GENERATED by harness/translate/c18_tables.py from /repo/src/pharmpy/tools/{mfl,modelsearch}; do not edit. -/",
           "namespace Pharmpy.C18.Gen", ""]
    for k, v in wc.items():
        out.append(f"def {k} : List String := {_lstr(v)}")
    out.append("")
    out.append("/-- `not_supported_combo` of `_is_allowed` (pairs of key prefixes). -/")
    out.append("def notSupportedCombo : List (List String × List String) := [")
    out.append(",\n".join(f"  ({_lstr(a)}, {_lstr(b)})" for a, b in combos))
    out.append("]")
    out.append("")
    out.append("/-- keys for which `_is_allowed` returns False by a literal comparison. -/")
    out.append("def neverAllowed : List (List String) := [" + ", ".join(_lstr(k) for k in never) + "]")
    out.append("")
    out.append(f"def defaultAbsorption : List String := {_lstr(d['absorption'][1])}")
    out.append(f"def defaultElimination : List String := {_lstr(d['elimination'][1])}")
    out.append(f"def defaultLagtime : List String := {_lstr(d['lagtime'][1])}")
    out.append(f"def defaultTransitsCounts : List Nat := {d['transits'][1]}")
    out.append(f"def defaultTransitsDepot : List String := {_lstr(d['transits'][2])}")
    out.append(f"def defaultPeripheralsCounts : List Nat := {d['peripherals'][1]}")
    out.append(f"def defaultPeripheralsModes : List String := {_lstr(d['peripherals'][2])}")
    out.append("")
    out.append("end Pharmpy.C18.Gen")
    return "\n".join(out) + "\n"


def regenerate() -> bool:
    text = render()
    if OUT.exists() and OUT.read_text() == text:
        return False
    OUT.parent.mkdir(parents=True, exist_ok=True)
    OUT.write_text(text)
    return True


if __name__ == "__main__":
    print(render())
