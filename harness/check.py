"""CLI: ./check Cxx [--tier quick|thorough] [--replay file] [--seed n] [--jobs n]"""
import argparse
import os
import sys

from harness.common import runner


def main():
    ap = argparse.ArgumentParser()
    ap.add_argument("prop")
    ap.add_argument("--tier", default=os.environ.get("VERIF_TIER", "quick"), choices=["quick", "thorough"])
    ap.add_argument("--seed", type=int, default=int(os.environ.get("VERIF_SEED", "0")))
    ap.add_argument("--replay")
    ap.add_argument("--jobs", type=int, default=int(os.environ.get("VERIF_JOBS", "16")))
    a = ap.parse_args()
    if "PYTHONHASHSEED" not in os.environ:
        # reproducibility: set/dict iteration order inside pharmpy depends on the hash seed; derive it from the run's seed
        # (a replay uses the seed recorded in the replay file) and start again under it
        hs = a.seed
        if a.replay:
            try:
                import json
                hs = int(json.load(open(a.replay)).get("seed", hs))
            except Exception:
                pass
        os.environ["PYTHONHASHSEED"] = str(hs % 4294967295)
        os.execv(sys.executable, [sys.executable, "-m", "harness.check"] + sys.argv[1:])
    try:
        rc = runner.main(a.prop.upper(), a.tier, a.seed, a.replay, a.jobs)
    except SystemExit:
        raise
    except BaseException as e:  # infrastructure error: never a VIOLATION
        import traceback
        traceback.print_exc()
        print(f"INFRA-ERROR property={a.prop} {type(e).__name__}: {e}", flush=True)
        rc = 2
    sys.exit(rc)


if __name__ == "__main__":
    main()
