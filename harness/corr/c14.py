"""C14 — Dataset derivations agree with record-by-record event semantics.

K   : Lean model (PharmpyModel/C14/Model.lean, driver drv_c14) vs pharmpy.modeling.data on
      generated in-memory event datasets: get_doseid (closed form and written-out loop),
      add_time_after_dose (records, order, TAD), expand_additional_doses (records, order, times),
      get_mdv, get_evid, get_observations, get_doses, get_number_of_observations(_per_individual).
Mon : the property statement on the real code: each derivation vs an independent Python
      per-individual walk; frame conditions (records, values, dtypes, order); ADDL expansion keeps
      every record and the total amount; TAD >= 0 and == 0 at doses.
"""
from __future__ import annotations

import math
import os
import random
from fractions import Fraction

ID = "C14"
DRIVER = "drv_c14"
LEAN_TARGETS = ["PharmpyProofs.C14.Properties", "drv_c14"]
PROPERTIES = ["PharmpyProofs/C14/Properties.lean"]
LEAN_SOURCES = ["PharmpyModel/C14/*.lean", "PharmpyProofs/C14/*.lean", "Drivers/C14.lean"]
TIME_LIMIT = {"quick": 900, "thorough": 3000}
CASE_CPU_LIMIT = 60
RULE = ("event datasets built as pandas DataFrames on a Model.create model (no files): 1-6 individuals (ids ascending, "
        "shuffled or non-contiguous), per individual 1-9 records in chronological order with frequent ties between doses "
        "and other records, optional EVID (0-4, resets with continuing or restarting time), SS, MDV, ADDL/II columns, id "
        "column named ID or SUBJ; a small share with unsorted times (K only). non-trivial = at least one dose and one "
        "non-dose record; distinct = distinct case JSON")
TRUSTED = [
    "Lean 4.33 kernel; axioms propext, Quot.sound, Classical.choice only (audited per theorem each run)",
    "hand-written model PharmpyModel/C14/Model.lean tied to modeling/data.py by the correspondence run of this invocation",
    "pandas groupby/cumsum/explode/sort_values(kind='stable')/query (validated by K, not modelled below the list level)",
    "harness/corr/c14.py (generator, wire encoding with exact decimals, Python reference walk)",
]
ASSUMPTIONS = [
    "amounts are non-negative, ADDL is a non-negative integer, no missing values; times/amounts are short decimals "
    "(exact in binary or compared at 1e-9 relative tolerance)",
    "an individual is an id value (non-contiguous blocks of one id are one individual, as pandas groupby does)",
    "TAD of the model is an exact rational; pharmpy's float is compared at 1e-9 relative tolerance",
]


def budget(tier):
    return int(os.environ.get("VERIF_BUDGET", 0)) or {"quick": 600, "thorough": 8000}[tier]


# ---------------------------------------------------------------- generation
# row = [id, time, amt, evid, ss, addl, ii, mdv, dv]   (time/amt/ii/dv decimal strings)

def _fmt(fr: Fraction) -> str:
    # exact short decimal
    if fr.denominator == 1:
        return str(fr.numerator)
    s = f"{float(fr):.6f}".rstrip("0")
    assert Fraction(s) == fr, (s, fr)
    return s


def gen_individual(rng, idv, cols, mode):
    n = rng.randint(1, 9)
    q = rng.choice([1, 2, 4, 8])  # binary-exact decimals: float and rational arithmetic order ties alike
    t = Fraction(rng.randint(0, 3 * q), q) if rng.random() < 0.4 else Fraction(0)
    rows = []
    first = True
    for _ in range(n):
        r = rng.random()
        if not first:
            if r < mode["tie"]:
                pass  # tie with the previous record
            else:
                t = t + Fraction(rng.randint(1, 12 * q), q)
        first = False
        kind_r = rng.random()
        evid, amt, ss, addl, ii, mdv = 0, Fraction(0), 0, 0, Fraction(0), 0
        if kind_r < 0.4:
            kind = "dose"
        elif kind_r < 0.85:
            kind = "obs"
        elif kind_r < 0.9:
            kind = "other"
        elif kind_r < 0.95 and cols["evid"] and mode["resets"]:
            kind = "reset"
        elif cols["evid"] and mode["resets"]:
            kind = "resetdose"
        else:
            kind = "obs"
        if kind in ("reset", "resetdose") and mode["restart"]:
            t = Fraction(rng.randint(0, 2 * q), q)
        if kind in ("dose", "resetdose"):
            amt = Fraction(rng.randint(1, 40), rng.choice([1, 2, 4]))
            evid = 1 if kind == "dose" else 4
            mdv = 1
            if cols["ss"] and rng.random() < 0.3:
                ss = rng.choice([1, 1, 2])
            if cols["addl"] and rng.random() < 0.5:
                addl = rng.randint(1, 3)
                ii = Fraction(rng.randint(1, 12 * q), q)
            elif cols["ss"] and ss:
                ii = Fraction(rng.randint(1, 24))
        elif kind == "obs":
            if rng.random() < 0.1:
                mdv = 1  # missing observation
                evid = 2 if rng.random() < 0.5 else 0
                if evid == 0 and cols["evid"] and not cols["mdv"]:
                    evid = 2
        elif kind == "other":
            evid, mdv = 2, 1
        elif kind == "reset":
            evid, mdv = 3, 1
        dv = Fraction(0) if mdv else Fraction(rng.randint(1, 400), 4)
        rows.append([idv, _fmt(t), _fmt(amt), evid, ss, addl, _fmt(ii), mdv, _fmt(dv)])
    if mode["unsorted"] and len(rows) > 1:
        i, j = rng.sample(range(len(rows)), 2)
        rows[i][1], rows[j][1] = rows[j][1], rows[i][1]
    return rows


def gen_case(rng):
    cols = {"evid": rng.random() < 0.5, "ss": rng.random() < 0.3, "mdv": rng.random() < 0.4,
            "addl": rng.random() < 0.35, "dose": rng.random() < 0.97}
    mode = {"tie": rng.choice([0.1, 0.25, 0.45]), "resets": rng.random() < 0.5, "restart": rng.random() < 0.5, "unsorted": rng.random() < 0.06}
    nind = rng.randint(1, 6)
    idmode = rng.random()
    ids = rng.sample(range(1, 12), nind)
    if idmode < 0.7:
        ids.sort()
    blocks = [gen_individual(rng, i, cols, mode) for i in ids]
    if idmode > 0.9 and nind > 1:
        # non-contiguous: split one individual's records around another individual
        k = rng.randrange(len(blocks))
        if len(blocks[k]) > 1:
            cut = rng.randrange(1, len(blocks[k]))
            tail = blocks[k][cut:]
            blocks[k] = blocks[k][:cut]
            blocks.insert(rng.randrange(k + 1, len(blocks) + 1), tail)
    rows = [r for b in blocks for r in b]
    if not cols["dose"]:
        for r in rows:
            r[2] = "0"
            r[5], r[6] = 0, "0"
        cols["addl"] = False
        cols["ss"] = False
    idname = "SUBJ" if rng.random() < 0.12 else "ID"
    return {"kind": "ds", "idname": idname, "cols": cols, "unsorted": mode["unsorted"], "rows": rows,
            "seed": rng.randrange(1 << 30)}


def gen_adm_case(rng):
    """datasets for get_admid / get_cmt: individuals that begin with a dose, a pre-dose sample or an EVID 2/3/4
    record, one or two administration routes, optional compartment / admid columns
    row = [id, time, amt, evid, cmt, adm, dv]; cmt/adm are filled in by the harness from the model's compartments"""
    route = rng.choice(["iv", "oral", "ivoral", "ivoral"])
    cols = {"evid": rng.random() < 0.7, "cmt": rng.random() < 0.4, "adm": rng.random() < 0.25}
    nind = rng.randint(1, 5)
    ids = rng.sample(range(1, 12), nind)
    if rng.random() < 0.7:
        ids.sort()
    blocks = []
    for i in ids:
        n = rng.randint(1, 7)
        t = Fraction(0)
        rows = []
        for k in range(n):
            x = rng.random()
            if k == 0:
                kind = "dose" if x < 0.35 else "obs" if x < 0.65 else "e2" if x < 0.77 else "e3" if x < 0.88 else "e4"
            else:
                kind = "obs" if x < 0.5 else "dose" if x < 0.8 else "e2" if x < 0.87 else "e3" if x < 0.93 else "e4"
                if rng.random() > 0.25:
                    t = t + Fraction(rng.randint(1, 24), 2)
            via = rng.choice(["oral", "iv"]) if route == "ivoral" else route
            if kind in ("dose", "e4"):
                rows.append([i, _fmt(t), _fmt(Fraction(rng.randint(1, 40), 2)), 1 if kind == "dose" else 4, via, "0"])
            else:
                ev = {"obs": 0, "e2": 2, "e3": 3}[kind]
                rows.append([i, _fmt(t), "0", ev, None, _fmt(Fraction(rng.randint(1, 99), 4)) if ev == 0 else "0"])
        blocks.append(rows)
    if nind > 1 and rng.random() < 0.15:
        k = rng.randrange(len(blocks))
        if len(blocks[k]) > 1:
            cut = rng.randrange(1, len(blocks[k]))
            tail = blocks[k][cut:]
            blocks[k] = blocks[k][:cut]
            others = [j for j in range(len(blocks) + 1) if j > k + 1] or [len(blocks)]
            pos = rng.choice(others)
            if pos > k + 1 or len(blocks) > k + 1:
                blocks.insert(pos, tail)
            else:
                blocks[k] = blocks[k] + tail
    return {"kind": "adm", "route": route, "idname": "SUBJ" if rng.random() < 0.1 else "ID", "cols": cols,
            "rows": [r for b in blocks for r in b], "seed": rng.randrange(1 << 30)}


def gen_cov_case(rng):
    """datasets with missing values (None = NaN) in DV, covariates and another column, most often in the FIRST record
    of an individual: baselines, ids, time-varying covariates, observation counts
    row = [id, time, amt, dv, cov_1 .. cov_k, x]"""
    ncov = rng.choice([0, 1, 2, 2, 3])
    nind = rng.randint(1, 6)
    ids = rng.sample(range(1, 12), nind)
    idmode = rng.random()
    if idmode < 0.6:
        ids.sort()
    blocks = []
    for i in ids:
        n = rng.randint(1, 6)
        base = [Fraction(rng.randint(1, 200), 2) for _ in range(ncov)]
        varying = [rng.random() < 0.25 for _ in range(ncov)]
        t = Fraction(0)
        rows = []
        for k in range(n):
            pmiss = 0.45 if k == 0 else 0.15
            dose = rng.random() < (0.6 if k == 0 else 0.3)
            amt = Fraction(rng.randint(1, 40), 2) if dose else Fraction(0)
            if dose:
                dv = None if rng.random() < 0.5 else "0"
            else:
                dv = None if rng.random() < pmiss / 2 else _fmt(Fraction(rng.randint(1, 400), 4))
            covs = []
            for c in range(ncov):
                if varying[c] and k and rng.random() < 0.5:
                    base[c] = base[c] + Fraction(rng.randint(1, 9), 2)
                covs.append(None if rng.random() < pmiss else _fmt(base[c]))
            x = None if rng.random() < pmiss else str(rng.randint(0, 9))
            rows.append([i, _fmt(t), _fmt(amt), dv] + covs + [x])
            t = t + Fraction(rng.randint(0, 12), 2)
        blocks.append(rows)
    if idmode > 0.85 and nind > 1:
        k = rng.randrange(len(blocks))
        if len(blocks[k]) > 1:
            cut = rng.randrange(1, len(blocks[k]))
            tail = blocks[k][cut:]
            blocks[k] = blocks[k][:cut]
            blocks.insert(rng.randrange(k + 1, len(blocks) + 1), tail)
    return {"kind": "cov", "idname": "SUBJ" if rng.random() < 0.1 else "ID", "ncov": ncov,
            "rows": [r for b in blocks for r in b], "seed": rng.randrange(1 << 30)}


def gen_cases(rng: random.Random, n: int, tier: str):
    out = []
    for _ in range(n):
        x = rng.random()
        out.append(gen_adm_case(rng) if x < 0.25 else gen_cov_case(rng) if x < 0.45 else gen_case(rng))
    return out


def _c(rows, idname="ID", unsorted=False, **cols):
    base = {"evid": False, "ss": False, "mdv": False, "addl": False, "dose": True}
    base.update(cols)
    full = []
    for r in rows:
        r = list(r) + [None] * (9 - len(r))
        i, t, a = r[0], str(r[1]), str(r[2])
        evid = r[3] if r[3] is not None else (1 if Fraction(a) > 0 else 0)
        ss = r[4] or 0
        addl = r[5] or 0
        ii = str(r[6] or 0)
        mdv = r[7] if r[7] is not None else (1 if evid != 0 else 0)
        dv = str(r[8] if r[8] is not None else (0 if mdv else 1))
        full.append([i, t, a, evid, ss, addl, ii, mdv, dv])
    return {"kind": "ds", "idname": idname, "cols": base, "unsorted": unsorted, "rows": full, "seed": 1}


def corpus_cases():
    return [
        # F11 (fixed 183fc9b): two identical individuals get identical dose ids
        _c([(1, 0, 10), (1, 0, 0), (1, 1, 0), (2, 0, 10), (2, 0, 0), (2, 1, 0)]),
        # tie spanning two reset groups: observation decremented twice
        _c([(1, 0, 10, 1), (1, 5, 0, 0), (1, 5, 10, 1), (1, 5, 0, 0), (1, 5, 0, 3), (1, 5, 0, 0)], evid=True),
        # time restarts after a reset: dose of the earlier reset group captures later observations
        _c([(1, 0, 10, 1), (1, 1, 10, 1), (1, 0, 0, 3), (1, 0, 10, 1), (1, 1, 0, 0), (1, 1, 0, 0)], evid=True),
        # record between two doses at one time stamp
        _c([(1, 0, 10), (1, 5, 10), (1, 5, 0), (1, 5, 10), (1, 6, 0)]),
        # id column not named ID, with an event column (fixed 85d179e)
        _c([(1, 0, 10, 1), (1, 0, 0, 0), (1, 1, 0, 0)], idname="SUBJ", evid=True),
        # ids not ascending: add_time_after_dose reorders the individuals
        _c([(2, 0, 10), (2, 1, 0), (1, 0, 10), (1, 1, 0)]),
        # ADDL expansion; TAD relative to additional doses; dtype change of integer columns
        _c([(1, 0, 10, 1, 0, 2, 12), (1, 1, 0), (1, 30, 0), (2, 0, 5, 1, 0, 1, 24), (2, 1, 0)], addl=True),
        # exactly one observation record: get_number_of_observations
        _c([(1, 0, 10), (1, 1, 0)]),
        # SS dose keeps the group
        _c([(1, 0, 10), (1, 12, 10, 1, 1, 0, 12), (1, 12, 0), (1, 13, 0)], ss=True),
        # get_admid: second individual starts with a pre-dose sample, third with EVID 3, fourth with EVID 4
        {"kind": "adm", "route": "ivoral", "idname": "ID", "cols": {"evid": True, "cmt": True, "adm": False}, "seed": 2,
         "rows": [[1, "0", "10", 1, "iv", "0"], [1, "1", "0", 0, None, "3"], [2, "0", "0", 0, None, "1"],
                  [2, "0.5", "10", 1, "oral", "0"], [2, "2", "0", 0, None, "4"], [3, "0", "0", 3, None, "0"],
                  [3, "1", "0", 0, None, "2"], [4, "0", "5", 4, "iv", "0"], [4, "1", "0", 0, None, "2"]]},
        # baselines: first records with missing values (covariate measured later, DV missing on the dose row)
        {"kind": "cov", "idname": "ID", "ncov": 2, "seed": 7,
         "rows": [[3, "0", "10", None, None, "30", "1"], [3, "1", "0", "1.5", "70", "30", "2"], [3, "2", "0", None, "70", "30", None],
                  [1, "0", "0", None, "60", None, "4"], [1, "1", "0", "2", None, None, "5"], [3, "5", "0", "3", "71", "30", "6"],
                  [2, "0", "5", "0", None, "40", None]]},
        # no covariate column at all
        {"kind": "cov", "idname": "ID", "ncov": 0, "seed": 8,
         "rows": [[1, "0", "10", None, "1"], [1, "1", "0", "2", None], [2, "0", "0", "3", "2"], [2, "1", "0", "4", "2"]]},
        # fixed 208e5ef: EVID 4 after a pre-dose sample is a dose
        {"kind": "adm", "route": "iv", "idname": "ID", "cols": {"evid": True, "cmt": False, "adm": False}, "seed": 4,
         "rows": [[1, "0", "0", 0, None, "1"], [1, "1", "5", 4, "iv", "0"], [1, "2", "0", 0, None, "2"]]},
        # fixed 8cc2213: id column not named ID
        {"kind": "adm", "route": "iv", "idname": "SUBJ", "cols": {"evid": True, "cmt": False, "adm": False}, "seed": 5,
         "rows": [[1, "0", "5", 1, "iv", "0"], [1, "1", "0", 0, None, "2"], [2, "0", "0", 0, None, "2"]]},
        # fixed 05d598c: admid column, model dosing only into DEPOT
        {"kind": "adm", "route": "oral", "idname": "ID", "cols": {"evid": True, "cmt": False, "adm": True}, "seed": 6,
         "rows": [[1, "0", "5", 1, "oral", "0"], [1, "1", "0", 0, None, "2"], [1, "2", "0", 2, None, "0"]]},
        # get_cmt from an admid column
        {"kind": "adm", "route": "ivoral", "idname": "ID", "cols": {"evid": True, "cmt": False, "adm": True}, "seed": 3,
         "rows": [[1, "0", "10", 1, "oral", "0"], [1, "1", "0", 0, None, "3"], [1, "2", "10", 1, "iv", "0"],
                  [1, "3", "0", 2, None, "0"], [2, "0", "0", 0, None, "1"], [2, "1", "10", 1, "iv", "0"]]},
        # regular dataset with ties away from the first dose
        _c([(1, 0, 10), (1, 1, 0), (1, 12, 10), (1, 12, 0), (1, 13, 0), (3, 0, 5), (3, 2, 0), (3, 2, 5), (3, 2, 0)]),
    ]


def shrink(case):
    rows = case["rows"]
    for i in range(len(rows)):
        if len(rows) <= 1:
            break
        c = dict(case)
        c["rows"] = rows[:i] + rows[i + 1:]
        yield c
    for col in ("evid", "ss", "mdv", "addl"):
        if case.get("cols", {}).get(col):
            c = dict(case)
            c["cols"] = dict(case["cols"])
            c["cols"][col] = False
            yield c


# ---------------------------------------------------------------- real-code side

def worker_init():
    global pd, np, Model, DataInfo, ColumnInfo, data, DatasetError
    import warnings
    import numpy as np  # noqa
    import pandas as pd  # noqa
    from pharmpy.model import ColumnInfo, DataInfo, DatasetError, Model  # noqa
    from pharmpy.modeling import data  # noqa
    warnings.filterwarnings("ignore")
    global BASE
    BASE = {}


class R:
    __slots__ = ("lab", "id", "time", "amt", "evid", "ss", "addl", "ii", "mdv", "dv")

    def __init__(self, lab, row):
        self.lab = lab
        self.id = int(row[0])
        self.time = Fraction(row[1])
        self.amt = Fraction(row[2])
        self.evid, self.ss, self.addl = int(row[3]), int(row[4]), int(row[5])
        self.ii = Fraction(row[6])
        self.mdv = int(row[7])
        self.dv = Fraction(row[8])


def build(case):
    rows = [R(k, r) for k, r in enumerate(case["rows"])]
    cols = case["cols"]
    idn = case["idname"]
    d = {idn: np.array([r.id for r in rows], dtype="int64"),
         "TIME": np.array([float(r.time) for r in rows], dtype="float64")}
    types = {idn: "id", "TIME": "idv", "DV": "dv", "ROWLAB": "unknown"}
    if cols["dose"]:
        d["AMT"] = np.array([float(r.amt) for r in rows], dtype="float64")
        types["AMT"] = "dose"
    d["DV"] = np.array([float(r.dv) for r in rows], dtype="float64")
    if cols["evid"]:
        d["EVID"] = np.array([r.evid for r in rows], dtype="int64")
        types["EVID"] = "event"
    if cols["ss"]:
        d["SS"] = np.array([r.ss for r in rows], dtype="int64")
        types["SS"] = "ss"
    if cols["addl"]:
        d["ADDL"] = np.array([r.addl for r in rows], dtype="int64")
        d["II"] = np.array([float(r.ii) for r in rows], dtype="float64")
        types["ADDL"] = "additional"
        types["II"] = "ii"
    if cols["mdv"]:
        d["MDV"] = np.array([r.mdv for r in rows], dtype="int64")
        types["MDV"] = "mdv"
    d["ROWLAB"] = np.arange(len(rows), dtype="int64")
    df = pd.DataFrame(d)
    ci = [ColumnInfo.create(c, type=types[c], datatype="float64" if df[c].dtype == np.float64 else "int32")
          for c in df.columns]
    model = Model.create(name="c14", dataset=df, datainfo=DataInfo.create(ci))
    return rows, df, model


def wire(case):
    c = case["cols"]
    cfg = [int(c["dose"]), int(c["evid"]), int(c["ss"]), int(c["mdv"]), int(c["addl"])]
    fr = lambda s: (lambda f: str(f.numerator) if f.denominator == 1 else f"{f.numerator}/{f.denominator}")(Fraction(s))
    rows = [[str(r[0]), fr(r[1]), fr(r[2]), str(r[3]), str(r[4]), str(r[5]), fr(r[6]), str(r[7])] for r in case["rows"]]
    return cfg, rows


def call(f):
    """(ok, value) or (False, exception class name)"""
    try:
        return True, f()
    except Exception as e:  # mapped to its class; judged by the caller
        return False, type(e).__name__ + ": " + str(e)[:120]


def close(a: float, b: Fraction) -> bool:
    b = float(b)
    return abs(a - b) <= 1e-9 * max(1.0, abs(a), abs(b))


# ---------------------------------------------------------------- reference walk (independent of the Lean side)

def rg_list(rows, cols):
    """reset group of every record: number of reset events of its individual so far (inclusive)"""
    cnt, out = {}, []
    for r in rows:
        if cols["evid"] and r.evid >= 3:
            cnt[r.id] = cnt.get(r.id, 0) + 1
        out.append(cnt.get(r.id, 0))
    return out


def walk_doseid(rows, cols):
    st, out = {}, []
    for r in rows:
        s = st.setdefault(r.id, {"cur": 0, "rg": 0, "last": None})
        if cols["evid"] and r.evid >= 3:
            s["rg"] += 1
        if r.amt > 0:
            s["cur"] += 1
            s["last"] = (r.time, bool(cols["ss"] and r.ss > 0), s["rg"])
            out.append(s["cur"])
        else:
            la = s["last"]
            if la is not None and la[0] == r.time and la[2] == s["rg"] and not la[1] and s["cur"] > 1:
                out.append(s["cur"] - 1)
            else:
                out.append(s["cur"])
    return out


def chrono(rows, rgs=None):
    """times never decrease within an individual (within each of its reset groups when rgs is given)"""
    last = {}
    for j, r in enumerate(rows):
        key = (r.id, rgs[j]) if rgs is not None else r.id
        if key in last and r.time < last[key]:
            return False
        last[key] = r.time
    return True


def classify_doseid(rows, cols, k, code, ref):
    r = rows[k]
    rgs = rg_list(rows, cols)
    grp = [j for j, x in enumerate(rows) if x.id == r.id and x.time == r.time]
    if len({rgs[j] for j in grp}) > 1:
        return "doseid-tie-across-reset-groups"
    if sum(1 for j in grp if rows[j].amt > 0) > 1:
        return "doseid-record-between-tied-doses"
    if r.amt == 0 and ref[k] == 1 and code[k] == 0 and 0 not in grp:
        doses_before = [j for j in range(k) if rows[j].id == r.id and rows[j].amt > 0]
        if len(doses_before) == 1 and rows[doses_before[0]].time == r.time:
            return "doseid-first-dose-tie-not-row0"
    return "doseid-walk-mismatch"


def py_expand(rows, cols):
    """reference expansion: every record once, plus ADDL copies at time + k*II; chronological (stable) within
    individual and reset group; individuals/reset groups in ascending order"""
    rgs = rg_list(rows, cols)
    ex = []
    for r, g in zip(rows, rgs):
        ex.append((r.id, g, r.time, r.lab, False, r))
        for x in range(1, r.addl + 1):
            ex.append((r.id, g, r.time + r.ii * x, r.lab, True, r))
    order = sorted(range(len(ex)), key=lambda j: (ex[j][0], ex[j][1], ex[j][2], j))
    return [ex[j] for j in order]


# ---------------------------------------------------------------- one case

def run_case(case, drv):
    if case["kind"] == "adm":
        return run_adm_case(case, drv)
    if case["kind"] == "cov":
        return run_cov_case(case, drv)
    k, mon, tags = [], [], []
    rows, df, model = build(case)
    cols = case["cols"]
    idn = case["idname"]
    cfg, wrows = wire(case)
    n = len(rows)
    orig = df.copy(deep=True)
    has_dose_rec = any(r.amt > 0 for r in rows)
    nontrivial = has_dose_rec and any(r.amt == 0 for r in rows)
    is_chrono = chrono(rows)                         # whole individual (needed for TAD >= 0)
    is_chrono_rg = chrono(rows, rg_list(rows, cols))  # within each reset group (time may restart after a reset)
    hard_id = idn != "ID" and cols["evid"]       # code path reading the literal column 'ID'
    tags += [f"n={min(n, 30) // 5 * 5}+", f"inds={len({r.id for r in rows})}", f"id={idn}",
             "cols=" + "".join(c[0] for c in ("dose", "evid", "ss", "mdv", "addl") if cols[c])]
    if not is_chrono_rg:
        tags.append("unsorted-times")
    elif not is_chrono:
        tags.append("time-restarts-after-reset")
    if any(cols["evid"] and r.evid >= 3 for r in rows):
        tags.append("has-reset")
    ties = sum(1 for j in range(1, n) if rows[j].id == rows[j - 1].id and rows[j].time == rows[j - 1].time
               and (rows[j].amt > 0) != (rows[j - 1].amt > 0))
    tags.append("dose-obs-ties" if ties else "no-ties")

    def ask(op):
        return drv.ask([op, cfg, wrows]) if drv is not None else None

    # ------------------------------------------------ get_doseid
    ok, res = call(lambda: data.get_doseid(model))
    code_doseid = None
    if not cols["dose"]:
        if ok or not res.startswith("DatasetError"):
            mon.append({"cls": "doseid-no-dose-column", "what": f"get_doseid without dose column: {res!r}"})
        if drv is not None and ask("doseid") != ["err", "DatasetError"]:
            k.append("doseid without dose column: model does not refuse")
    elif not ok:
        if hard_id and res.startswith("KeyError: 'ID'"):
            mon.append({"cls": "id-column-name-hardcoded", "what": f"get_doseid with id column {idn!r} and an event "
                        f"column raises {res}"})
        else:
            mon.append({"cls": "internal-error", "what": f"get_doseid raised {res}"})
    else:
        code_doseid = [int(x) for x in res.tolist()]
        tags.append("q:doseid")
        if list(res.index) != list(range(n)) or len(code_doseid) != n:
            mon.append({"cls": "doseid-frame", "what": "DOSEID series is not aligned with the dataset rows"})
        if drv is not None:
            m1 = [int(x) for x in ask("doseid")]
            m2 = [int(x) for x in ask("doseidloop")]
            if m1 != code_doseid:
                k.append(f"get_doseid: model {m1} code {code_doseid}")
            if m2 != code_doseid:
                k.append(f"get_doseid (loop form): model {m2} code {code_doseid}")
        ref = walk_doseid(rows, cols)
        if drv is not None:
            mw = [int(x) for x in ask("walk")]
            if mw != ref:
                k.append(f"walk: Lean spec {mw} python reference {ref}")
            if ask("regular") == "true":
                tags.append("regular")
                if m1 != mw:
                    k.append(f"theorem statement fails on data: Regular but model {m1} != walk {mw}")
            if ask("notie") == "true":
                tags.append("notie")
                if m1 != mw:
                    k.append(f"theorem statement fails on data: NoTie but model {m1} != walk {mw}")
            if any(a != b for r_, a, b in zip(rows, m1, mw) if r_.amt > 0):
                k.append(f"theorem statement fails on data: model {m1} != walk {mw} at a dose record")
        if is_chrono_rg:
            seen = set()
            for j in range(n):
                if code_doseid[j] != ref[j]:
                    cls = classify_doseid(rows, cols, j, code_doseid, ref)
                    if cls not in seen:
                        seen.add(cls)
                        mon.append({"cls": cls, "what": f"get_doseid row {j} (id {rows[j].id}, time {rows[j].time}): "
                                    f"code {code_doseid[j]}, walk {ref[j]}; full code {code_doseid} walk {ref}"})
            if not seen:
                tags.append("doseid==walk")

    # ------------------------------------------------ expand_additional_doses
    exp_ok = None
    if cols["addl"]:
        for flagv in (True, False):
            ok, res = call(lambda: data.expand_additional_doses(model, flag=flagv))
            if not ok:
                if hard_id and res.startswith("KeyError: 'ID'"):
                    mon.append({"cls": "id-column-name-hardcoded", "what": f"expand_additional_doses with id column "
                                f"{idn!r} and an event column raises {res}"})
                else:
                    mon.append({"cls": "internal-error", "what": f"expand_additional_doses raised {res}"})
                break
            e = res.dataset
            tags.append("q:expand")
            labs = [int(x) for x in e["ROWLAB"].tolist()]
            times = [float(x) for x in e["TIME"].tolist()]
            expd = [bool(x) for x in e["EXPANDED"].tolist()] if flagv else None
            if drv is not None:
                m = ask("expand")
                ml = [int(x[0]) for x in m]
                mt = [Fraction(x[1]) for x in m]
                me = [x[2] == "true" for x in m]
                if ml != labs or len(mt) != len(times) or not all(close(a, b) for a, b in zip(times, mt)) \
                        or (flagv and me != expd):
                    k.append(f"expand_additional_doses(flag={flagv}): model {list(zip(ml, map(str, mt), me))} "
                             f"code {list(zip(labs, times, expd or []))}")
            if flagv:
                exp_ok = True
                # every original record is present exactly once, all values unchanged
                keep = e[~e["EXPANDED"]]
                kl = [int(x) for x in keep["ROWLAB"].tolist()]
                if sorted(kl) != list(range(n)):
                    mon.append({"cls": "expand-loses-records", "what": f"non-expanded records {kl} are not the original {n} records"})
                else:
                    kk = keep.set_index(keep["ROWLAB"].astype("int64")).sort_index()
                    for c in orig.columns:
                        if not np.allclose(kk[c].to_numpy(dtype="float64"), orig[c].to_numpy(dtype="float64"), rtol=1e-12, atol=0):
                            mon.append({"cls": "expand-changes-values", "what": f"column {c} of an original record changed"})
                            break
                    # order: the original records of one individual keep their order (chronological within each
                    # reset group; reset groups follow each other in record order)
                    if is_chrono_rg:
                        pos = {lab: p for p, lab in enumerate(kl)}
                        bad = next(((a, b) for a in range(n) for b in range(a + 1, n)
                                    if rows[a].id == rows[b].id and pos[a] > pos[b]), None)
                        if bad:
                            mon.append({"cls": "expand-reorders-within-individual", "what": f"original records {bad[0]} and "
                                        f"{bad[1]} of individual {rows[bad[0]].id} come back in the opposite order: {kl}"})
                # total administered amount
                tot = Fraction(0)
                for r in rows:
                    tot += r.amt * (r.addl + 1)
                got = float(e["AMT"].sum())
                if not close(got, tot):
                    mon.append({"cls": "expand-total-amount", "what": f"sum of AMT after expansion {got}, expected {float(tot)}"})
                # against the reference expansion (times of additional doses, chronological order)
                refx = py_expand(rows, cols)
                if is_chrono_rg:
                    # per individual: same records, same times, in the order reset group by reset group,
                    # chronological (stable) within each; the relative order of different individuals is not judged
                    code_g, ref_g = {}, {}
                    for lab, tm, ex_ in zip(labs, times, expd):
                        code_g.setdefault(rows[lab].id, []).append((lab, tm, ex_))
                    for x in refx:
                        ref_g.setdefault(x[0], []).append((x[3], x[2], x[4]))
                    same = code_g.keys() == ref_g.keys() and all(
                        [(a, c) for a, _, c in code_g[key]] == [(a, c) for a, _, c in ref_g[key]]
                        and all(close(b, y[1]) for (_, b, _), y in zip(code_g[key], ref_g[key])) for key in ref_g)
                    if not same:
                        mon.append({"cls": "expand-walk-mismatch", "what": f"expanded records {list(zip(labs, times, expd))} "
                                    f"reference {[(x[3], float(x[2]), x[4]) for x in refx]}"})
                # dtype of existing columns
                for c in orig.columns:
                    if c in e.columns and e[c].dtype != orig[c].dtype and c != "TIME":
                        tags.append("expand-changes-dtype")
                        break

    # ------------------------------------------------ add_time_after_dose
    if cols["dose"]:
        ok, res = call(lambda: data.add_time_after_dose(model))
        if not ok:
            if hard_id and res.startswith("KeyError: 'ID'"):
                mon.append({"cls": "id-column-name-hardcoded", "what": f"add_time_after_dose with id column {idn!r} and "
                            f"an event column raises {res}"})
            else:
                mon.append({"cls": "internal-error", "what": f"add_time_after_dose raised {res}"})
        else:
            t = res.dataset
            tags.append("q:tad")
            labs = [int(x) for x in t["ROWLAB"].tolist()]
            tad = [float(x) for x in t["TAD"].tolist()]
            if drv is not None:
                m = ask("tad")
                ml = [int(x[0]) for x in m]
                mt = [Fraction(x[1]) for x in m]
                if ml != labs or not all(close(a, b) for a, b in zip(tad, mt)):
                    k.append(f"add_time_after_dose: model {list(zip(ml, map(str, mt)))} code {list(zip(labs, tad))}")
            # frame: records, values, dtypes, order
            if sorted(labs) != list(range(n)):
                mon.append({"cls": "tad-loses-records", "what": f"records after add_time_after_dose: {labs}"})
            else:
                tt = t.set_index(t["ROWLAB"].astype("int64")).sort_index()
                for c in orig.columns:
                    if not np.array_equal(tt[c].to_numpy(dtype="float64"), orig[c].to_numpy(dtype="float64")):
                        mon.append({"cls": "tad-changes-values", "what": f"column {c} changed"})
                        break
                if list(t.columns) != list(orig.columns) + ["TAD"]:
                    mon.append({"cls": "tad-changes-columns", "what": f"columns {list(t.columns)}"})
                # reference expansion (independent of expand_additional_doses), the walk on it, and pharmpy's
                # get_doseid on it: the latter explains the order add_time_after_dose returns (individuals
                # ascending, each stable-sorted by dose id, expanded records dropped) and delimits the known
                # get_doseid classes
                refx = py_expand(rows, cols) if cols["addl"] else [(r.id, 0, r.time, r.lab, False, r) for r in rows]
                xr = [XRec(i, tm, r, lab, e_) for (i, g, tm, lab, e_, r) in refx]
                code_x = None
                if cols["addl"]:
                    okd, resd = call(lambda: data.get_doseid(_ref_model(xr, cols, idn)))
                    if okd:
                        code_x = [int(v) for v in resd.tolist()]
                elif code_doseid is not None:
                    code_x = code_doseid
                ex_labs = [x.lab for x in xr]
                ex_exp = [x.exp for x in xr]
                if labs != list(range(n)):
                    expected = None
                    if code_x is not None:
                        order = sorted(range(len(ex_labs)), key=lambda j: (rows[ex_labs[j]].id, code_x[j], j))
                        expected = [ex_labs[j] for j in order if not ex_exp[j]]
                    ids_in_order = [r.id for r in rows]
                    asc = all(a <= b for a, b in zip(ids_in_order, ids_in_order[1:]))
                    if expected is not None and labs != expected:
                        cls = "tad-order-unexplained"
                    elif not asc:
                        cls = "tad-reorders-individuals"
                    elif is_chrono_rg:
                        cls = "tad-reorders-tied-records"
                    else:
                        cls = None  # unsorted input with ADDL is sorted by time: not judged
                    if cls:
                        mon.append({"cls": cls, "what": f"record order after add_time_after_dose is {labs}"
                                    + (f", dose ids explain {expected}" if cls == "tad-order-unexplained" else "")})
                bad_dt = [c for c in orig.columns if t[c].dtype != orig[c].dtype]
                if bad_dt:
                    mon.append({"cls": "tad-changes-dtype" + ("-addl" if cols["addl"] else ""),
                                "what": f"dtype of {bad_dt} changed from {[str(orig[c].dtype) for c in bad_dt]} to "
                                f"{[str(t[c].dtype) for c in bad_dt]}"})
                bylab = dict(zip(labs, tad))
                # zero at each dose
                for r in rows:
                    if r.amt > 0 and bylab[r.lab] != 0.0:
                        mon.append({"cls": "tad-nonzero-at-dose", "what": f"TAD {bylab[r.lab]} at dose record {r.lab}"})
                        break
                # never negative (chronological records)
                if is_chrono:
                    for r in rows:
                        if bylab[r.lab] < 0:
                            # additional doses that extend beyond a later reset event of the individual
                            rgs = rg_list(rows, cols)
                            past = any(d.id == r.id and d.addl > 0 and rgs[d.lab] < rgs[r.lab]
                                       and d.time + d.ii * d.addl > r.time for d in rows[:r.lab])
                            cls = "tad-negative-addl-past-reset" if cols["addl"] and past else "tad-negative"
                            mon.append({"cls": cls, "what": f"TAD {bylab[r.lab]} at record {r.lab}"})
                            break
                # against the walk: time since the record that opened the record's dose period (walk dose ids on
                # the reference expansion; reset groups one after the other, clocks may restart); judged wherever
                # get_doseid itself agrees with the walk on the reference expansion
                if is_chrono_rg:
                    wd = walk_doseid(xr, cols)
                    first = {}
                    reft = {}
                    for x, d in zip(xr, wd):
                        first.setdefault((x.id, d), x.time)
                        if not x.exp:
                            reft[x.lab] = x.time - first[(x.id, d)]
                    if code_x == wd:
                        tags.append("tad-vs-walk" + ("-restart" if not is_chrono else ""))
                        for r in rows:
                            if not close(bylab[r.lab], reft[r.lab]):
                                mon.append({"cls": "tad-walk-mismatch", "what": f"TAD of record {r.lab}: code {bylab[r.lab]}, "
                                            f"walk {float(reft[r.lab])}; code {[bylab[q.lab] for q in rows]} walk "
                                            f"{[float(reft[q.lab]) for q in rows]}"})
                                break

    # ------------------------------------------------ get_mdv / get_evid / observations / doses / counts
    ok, res = call(lambda: data.get_mdv(model))
    if not ok:
        cls = "single-record-squeeze" if n == 1 and res.startswith(("AttributeError", "TypeError")) else "internal-error"
        mon.append({"cls": cls, "what": f"get_mdv raised {res} on a dataset with {n} record(s)"})
    else:
        code = [int(x) for x in res.tolist()]
        if drv is not None and [int(x) for x in ask("mdv")] != code:
            k.append(f"get_mdv: model {ask('mdv')} code {code}")
        # walk: a record is an observation unless it is marked missing / is another event / is a dose
        if cols["mdv"]:
            ref = [1 if r.mdv != 0 else 0 for r in rows]
        elif cols["evid"]:
            ref = [1 if r.evid != 0 else 0 for r in rows]
        else:
            ref = [1 if r.amt != 0 else 0 for r in rows]
        if code != ref:
            mon.append({"cls": "mdv-walk-mismatch", "what": f"get_mdv {code}, walk {ref}"})
        tags.append("q:mdv")
    ok, res = call(lambda: data.get_evid(model))
    if not ok:
        cls = "single-record-squeeze" if n == 1 and res.startswith(("AttributeError", "TypeError")) else "internal-error"
        mon.append({"cls": cls, "what": f"get_evid raised {res} on a dataset with {n} record(s)"})
    else:
        code = [int(x) for x in res.tolist()]
        if drv is not None and [int(x) for x in ask("evid")] != code:
            k.append(f"get_evid: model {ask('evid')} code {code}")
        for r, c in zip(rows, code):
            if cols["evid"]:
                good = c == r.evid
            elif r.amt > 0:
                good = c == 1
            elif (r.mdv == 0 or not cols["mdv"]):
                good = c == 0
            else:
                good = True  # MDV=1 without dose and without EVID column: 1 or 2 both defensible, not judged
            if not good:
                mon.append({"cls": "evid-walk-mismatch", "what": f"get_evid {code}"})
                break
    # observations
    if cols["mdv"]:
        ref_obs = [r.lab for r in rows if r.mdv == 0]
    elif cols["evid"]:
        ref_obs = [r.lab for r in rows if r.evid == 0]
    elif cols["dose"]:
        ref_obs = [r.lab for r in rows if r.amt == 0]
    else:
        ref_obs = [r.lab for r in rows]
    ok, res = call(lambda: data.get_observations(model, keep_index=True))
    if not ok:
        mon.append({"cls": "internal-error", "what": f"get_observations(keep_index=True) raised {res}"})
    else:
        code = [int(x) for x in res.index.tolist()]
        if drv is not None and [int(x) for x in ask("obs")] != code:
            k.append(f"get_observations: model {ask('obs')} code {code}")
        if code != ref_obs:
            mon.append({"cls": "observations-walk-mismatch", "what": f"get_observations rows {code}, walk {ref_obs}"})
        elif [float(x) for x in res.tolist()] != [float(rows[j].dv) for j in ref_obs]:
            mon.append({"cls": "observations-values", "what": "DV values of the observation records differ"})
        tags.append(f"nobs={'0' if not ref_obs else '1' if len(ref_obs) == 1 else '2+'}")
    ok, res = call(lambda: data.get_observations(model))
    if not ok:
        mon.append({"cls": "internal-error", "what": f"get_observations raised {res}"})
    elif not isinstance(res, pd.Series):
        if len(ref_obs) == 1:
            mon.append({"cls": "single-record-squeeze", "what": f"get_observations returns the scalar {res!r} "
                        f"instead of a Series for a dataset with exactly one observation record"})
        else:
            mon.append({"cls": "observations-type", "what": f"get_observations returned {type(res).__name__}"})
    else:
        code = [(int(i), float(t), float(v)) for (i, t), v in zip(res.index.tolist(), res.tolist())]
        ref = [(rows[j].id, float(rows[j].time), float(rows[j].dv)) for j in ref_obs]
        if code != ref:
            mon.append({"cls": "observations-walk-mismatch", "what": f"get_observations {code}, walk {ref}"})
    ok, res = call(lambda: data.get_number_of_observations(model))
    if not ok:
        cls = "single-record-squeeze" if len(ref_obs) == 1 and res.startswith("TypeError") else "internal-error"
        mon.append({"cls": cls, "what": f"get_number_of_observations raised {res} ({len(ref_obs)} observation records)"})
    else:
        if drv is not None and int(ask("nobs")) != int(res):
            k.append(f"get_number_of_observations: model {ask('nobs')} code {res}")
        if int(res) != len(ref_obs):
            mon.append({"cls": "nobs-walk-mismatch", "what": f"get_number_of_observations {res}, walk {len(ref_obs)}"})
    ok, res = call(lambda: data.get_number_of_observations_per_individual(model))
    ref_per = {}
    for j in ref_obs:
        ref_per[rows[j].id] = ref_per.get(rows[j].id, 0) + 1
    if not ok:
        cls = "single-record-squeeze" if len(ref_obs) == 1 and res.startswith("AttributeError") else "internal-error"
        mon.append({"cls": cls, "what": f"get_number_of_observations_per_individual raised {res}"})
    else:
        code = [(int(i), int(v)) for i, v in res.items()]
        if drv is not None:
            m = [(int(a), int(b)) for a, b in ask("nobsper")]
            if m != code:
                k.append(f"get_number_of_observations_per_individual: model {m} code {code}")
        if code != sorted(ref_per.items()):
            mon.append({"cls": "nobs-walk-mismatch", "what": f"per individual {code}, walk {sorted(ref_per.items())}"})
    # doses
    if cols["dose"]:
        ref_d = [r.lab for r in rows if r.amt != 0]
        ok, res = call(lambda: data.get_doses(model))
        if not ok:
            mon.append({"cls": "internal-error", "what": f"get_doses raised {res}"})
        elif not isinstance(res, pd.Series):
            if len(ref_d) == 1:
                mon.append({"cls": "single-record-squeeze", "what": f"get_doses returns the scalar {res!r} instead "
                            f"of a Series for a dataset with exactly one dose record"})
            else:
                mon.append({"cls": "doses-type", "what": f"get_doses returned {type(res).__name__}"})
        else:
            code = [(int(i), float(t), float(v)) for (i, t), v in zip(res.index.tolist(), res.tolist())]
            ref = [(rows[j].id, float(rows[j].time), float(rows[j].amt)) for j in ref_d]
            if code != ref:
                mon.append({"cls": "doses-walk-mismatch", "what": f"get_doses {code}, walk {ref}"})
            if drv is not None:
                m = [int(x) for x in ask("doses")]
                if [(rows[j].id, float(rows[j].time), float(rows[j].amt)) for j in m] != code:
                    k.append(f"get_doses: model rows {m} code {code}")
    # the input model's dataset is untouched by all of the above
    if not model.dataset.equals(orig) or list(model.dataset.dtypes) != list(orig.dtypes):
        mon.append({"cls": "input-dataset-mutated", "what": "a data function changed the dataset of its input model"})
    return {"k": k, "mon": mon, "tags": tags, "nontrivial": nontrivial}


class XRec:
    """a record of the reference expansion"""
    __slots__ = ("id", "time", "amt", "evid", "ss", "lab", "exp")

    def __init__(self, i, tm, r, lab, e_):
        self.id, self.time, self.amt, self.evid, self.ss, self.lab, self.exp = i, tm, r.amt, r.evid, r.ss, lab, e_


def _ref_model(xr, cols, idn):
    """a model whose dataset is the reference expansion (no ADDL/II columns)"""
    d = {idn: np.array([x.id for x in xr], dtype="int64"),
         "TIME": np.array([float(x.time) for x in xr], dtype="float64"),
         "AMT": np.array([float(x.amt) for x in xr], dtype="float64"),
         "DV": np.zeros(len(xr))}
    types = {idn: "id", "TIME": "idv", "AMT": "dose", "DV": "dv"}
    if cols["evid"]:
        d["EVID"] = np.array([x.evid for x in xr], dtype="int64")
        types["EVID"] = "event"
    if cols["ss"]:
        d["SS"] = np.array([x.ss for x in xr], dtype="int64")
        types["SS"] = "ss"
    df = pd.DataFrame(d)
    ci = [ColumnInfo.create(c, type=types[c], datatype="float64" if df[c].dtype == np.float64 else "int32")
          for c in df.columns]
    return Model.create(name="c14ref", dataset=df, datainfo=DataInfo.create(ci))


# ---------------------------------------------------------------- get_admid / get_cmt

def _base(route):
    if route not in BASE:
        from pharmpy.modeling import create_basic_pk_model
        BASE[route] = create_basic_pk_model(route)
    return BASE[route]


def _structure(base):
    """what get_cmt / get_admid read of the compartmental system"""
    odes = base.statements.ode_system
    names = odes.compartment_names
    dosing = odes.dosing_compartments
    central = odes.central_compartment
    num = lambda c: names.index(c.name) + 1
    route_of = {}                      # 'oral' / 'iv' -> (compartment number, admid)
    for c in dosing:
        route_of["iv" if c == central else "oral"] = (num(c), c.doses[0].admid)
    return {"doseCmt": num(dosing[0]), "centralNum": num(central),
            "central": num(central) if central in dosing else None,
            "other": next((num(c) for c in reversed(dosing) if c != central), None),
            "remap": [(num(c), c.doses[0].admid) for c in dosing], "route_of": route_of}


def run_adm_case(case, drv):
    k, mon, tags = [], [], []
    cols, idn = case["cols"], case["idname"]
    base = _base(case["route"])
    st = _structure(base)
    recs = []
    for lab, r in enumerate(case["rows"]):
        i, t, amt, ev, via, dv = r
        isdose = Fraction(amt) > 0
        evid = ev if cols["evid"] else (1 if isdose else 0)
        if isdose:
            cnum, admid = st["route_of"][via]
            if not cols["cmt"] and not cols["adm"]:
                cnum, admid = st["route_of"]["oral" if "oral" in st["route_of"] else "iv"][0], None
        else:
            cnum, admid = st["centralNum"], 0
        recs.append({"lab": lab, "id": int(i), "time": float(Fraction(t)), "amt": float(Fraction(amt)), "evid": evid,
                     "rawevid": ev, "cmt": cnum if cols["cmt"] else 0, "adm": (admid or 0) if cols["adm"] else 0,
                     "dose": isdose, "via": via, "dv": float(Fraction(dv))})
    n = len(recs)
    d = {idn: np.array([r["id"] for r in recs], dtype="int64"), "TIME": np.array([r["time"] for r in recs]),
         "AMT": np.array([r["amt"] for r in recs]), "DV": np.array([r["dv"] for r in recs])}
    types = {idn: "id", "TIME": "idv", "AMT": "dose", "DV": "dv", "ROWLAB": "unknown"}
    if cols["evid"]:
        d["EVID"] = np.array([r["rawevid"] for r in recs], dtype="int64")
        types["EVID"] = "event"
    if cols["cmt"]:
        d["CMT"] = np.array([r["cmt"] for r in recs], dtype="int64")
        types["CMT"] = "compartment"
    if cols["adm"]:
        d["ADM"] = np.array([r["adm"] for r in recs], dtype="int64")
        types["ADM"] = "admid"
    d["ROWLAB"] = np.arange(n, dtype="int64")
    df = pd.DataFrame(d)

    def mkmodel(frame):
        ci = [ColumnInfo.create(c, type=types[c], datatype="float64" if frame[c].dtype == np.float64 else "int32")
              for c in frame.columns]
        return base.replace(dataset=frame, datainfo=DataInfo.create(ci))
    model = mkmodel(df)
    orig = df.copy(deep=True)
    acfg = [int(cols["cmt"]), int(cols["adm"]), st["doseCmt"], st["centralNum"], int(st["central"] is not None),
            "none" if st["other"] is None else st["other"], [[a, b] for a, b in st["remap"]]]
    wrows = [[str(r["id"]), str(r["evid"]), str(r["cmt"]), str(r["adm"])] for r in recs]
    # contiguous runs of one id = individuals as the event records present them
    blocks = []
    for j, r in enumerate(recs):
        if j and recs[j - 1]["id"] == r["id"]:
            blocks[-1].append(j)
        else:
            blocks.append([j])
    first_kind = {recs[b[0]]["evid"] for b in blocks[1:]}
    tags += ["kind=adm", f"route={case['route']}", f"id={idn}", f"blocks={len(blocks)}",
             "acols=" + "".join(c[0] for c in ("evid", "cmt", "adm") if cols[c])]
    tags += [f"later-individual-starts-evid{e}" for e in sorted(first_kind)]
    nontrivial = len(blocks) > 1 and any(r["dose"] for r in recs) and any(not r["dose"] for r in recs)

    # ------------------------------------------------ get_admid
    remap = dict(st["remap"])

    def own(r):
        """the record's own value: route of a dose record; for other records the (remapped) compartment
        column, 0 without one"""
        if cols["cmt"]:
            return remap.get(r["cmt"], r["cmt"])
        if r["evid"] in (1, 4):
            return remap.get(st["doseCmt"], st["doseCmt"])
        return 0
    if cols["adm"]:
        ref = [r["adm"] for r in recs]
    else:
        ref = []
        for b in blocks:
            last = None
            for j in b:
                r = recs[j]
                if r["evid"] in (1, 4):
                    last = own(r)
                    ref.append(last)
                else:
                    ref.append(last if last is not None else own(r))
    ok, res = call(lambda: data.get_admid(model))
    code_adm = None
    if not ok:
        if idn != "ID" and not cols["adm"] and res.startswith("KeyError: 'ID'"):
            mon.append({"cls": "admid-id-column-name-hardcoded", "what": f"get_admid with id column {idn!r} raises {res}"})
        elif n == 1 and res.startswith(("AttributeError", "TypeError")):
            mon.append({"cls": "single-record-squeeze", "what": f"get_admid on a one-record dataset raised {res}"})
        else:
            mon.append({"cls": "internal-error", "what": f"get_admid raised {res}"})
    else:
        code_adm = [int(x) for x in res.tolist()]
        tags.append("q:admid")
        if drv is not None:
            m = [int(x) for x in drv.ask(["admid", acfg, wrows])]
            if m != code_adm:
                k.append(f"get_admid: model {m} code {code_adm}")
        if len(code_adm) != n or list(res.index) != list(range(n)):
            mon.append({"cls": "admid-frame", "what": "ADMID series is not aligned with the records"})
        elif code_adm != ref:
            j = next(q for q in range(n) if code_adm[q] != ref[q])
            b = next(b for b in blocks if j in b)
            cls = "admid-evid4-not-a-dose" if any(recs[q]["evid"] == 4 for q in b if q <= j) else "admid-walk-mismatch"
            mon.append({"cls": cls, "what": f"get_admid record {j} (id {recs[j]['id']}, EVID {recs[j]['evid']}): code "
                        f"{code_adm[j]}, per-individual walk {ref[j]}; code {code_adm} walk {ref}; ids "
                        f"{[r['id'] for r in recs]} evid {[r['evid'] for r in recs]}"})
        # locality: an individual on its own gets the same ids as inside the dataset
        if len(blocks) > 1:
            for b in blocks:
                sub = df.iloc[b].reset_index(drop=True)
                ok2, res2 = call(lambda: data.get_admid(mkmodel(sub)))
                if not ok2 and len(b) == 1 and res2.startswith(("AttributeError", "TypeError")):
                    tags.append("locality-skipped-single-record-squeeze")   # known class of get_mdv, judged elsewhere
                    continue
                alone = [int(x) for x in res2.tolist()] if ok2 else res2
                within = [code_adm[j] for j in b]
                if alone != within:
                    mon.append({"cls": "admid-not-local", "what": f"ADMID of individual {recs[b[0]]['id']} (records {b}) "
                                f"depends on the other individuals: alone {alone}, inside the dataset {within}"})
                    break
            tags.append("admid-locality")
        # add_admid: the same series as a new column, everything else untouched
        if not cols["adm"]:
            ok3, res3 = call(lambda: data.add_admid(model))
            if not ok3:
                mon.append({"cls": "internal-error", "what": f"add_admid raised {res3}"})
            else:
                d3 = res3.dataset
                if list(d3.columns) != list(orig.columns) + ["ADMID"] or not d3[list(orig.columns)].equals(orig) \
                        or list(d3[list(orig.columns)].dtypes) != list(orig.dtypes):
                    mon.append({"cls": "add-admid-frame", "what": f"add_admid changed existing records/columns: {list(d3.columns)}"})
                elif [int(x) for x in d3["ADMID"].tolist()] != code_adm:
                    mon.append({"cls": "add-admid-values", "what": f"add_admid column {d3['ADMID'].tolist()} != get_admid {code_adm}"})
                elif "admid" not in res3.datainfo.types:
                    mon.append({"cls": "add-admid-frame", "what": "add_admid did not type the new column as admid"})

    # ------------------------------------------------ get_cmt
    if cols["cmt"]:
        refc = [r["cmt"] for r in recs]
    elif not cols["adm"]:
        refc = [st["doseCmt"] if r["evid"] in (1, 4) else 0 for r in recs]
    else:
        refc = [st["centralNum"] if r["evid"] == 0 else (st["route_of"][r["via"]][0] if r["dose"] else 0) for r in recs]
    ok, res = call(lambda: data.get_cmt(model))
    if not ok:
        if cols["adm"] and not cols["cmt"] and st["central"] is None and res.startswith("UnboundLocalError"):
            mon.append({"cls": "cmt-central-number-unbound", "what": f"get_cmt with an admid column and a model whose central "
                        f"compartment takes no dose raises {res}"})
        elif n == 1 and res.startswith(("AttributeError", "TypeError")):
            mon.append({"cls": "single-record-squeeze", "what": f"get_cmt on a one-record dataset raised {res}"})
        else:
            mon.append({"cls": "internal-error", "what": f"get_cmt raised {res}"})
    else:
        code = [int(x) for x in res.tolist()]
        tags.append("q:cmt")
        if drv is not None:
            m = drv.ask(["cmt", acfg, wrows])
            if [str(x) for x in code] != m:
                k.append(f"get_cmt: model {m} code {code}")
        if code != refc:
            mon.append({"cls": "cmt-walk-mismatch", "what": f"get_cmt {code}, per-record reference {refc}"})
        if not cols["cmt"]:
            ok3, res3 = call(lambda: data.add_cmt(model))
            if not ok3:
                mon.append({"cls": "internal-error", "what": f"add_cmt raised {res3}"})
            else:
                d3 = res3.dataset
                if list(d3.columns) != list(orig.columns) + ["CMT"] or not d3[list(orig.columns)].equals(orig):
                    mon.append({"cls": "add-cmt-frame", "what": f"add_cmt changed existing records/columns: {list(d3.columns)}"})
                elif [int(x) for x in d3["CMT"].tolist()] != code:
                    mon.append({"cls": "add-cmt-values", "what": "add_cmt column != get_cmt"})
    if not model.dataset.equals(orig):
        mon.append({"cls": "input-dataset-mutated", "what": "get_admid/add_admid/get_cmt/add_cmt changed the input dataset"})
    return {"k": k, "mon": mon, "tags": tags, "nontrivial": nontrivial}


# ---------------------------------------------------------------- baselines / ids / time-varying / counts with missing values

def _same(a, b):
    """cell equality with NaN == NaN"""
    if a is None or b is None:
        return a is None and b is None
    return float(a) == float(b)


def _cells(frame_row):
    return [None if (isinstance(v, float) and math.isnan(v)) else float(v) for v in frame_row]


def run_cov_case(case, drv):
    k, mon, tags = [], [], []
    idn, ncov = case["idname"], case["ncov"]
    covn = [f"COV{j + 1}" for j in range(ncov)]
    names = ["TIME", "AMT", "DV"] + covn + ["X"]          # the cells of a record, in this order
    rows = case["rows"]
    n = len(rows)
    ids = [int(r[0]) for r in rows]
    cells = [[None if v is None else Fraction(v) for v in r[1:]] for r in rows]
    d = {idn: np.array(ids, dtype="int64")}
    for j, nm in enumerate(names):
        d[nm] = np.array([float("nan") if c[j] is None else float(c[j]) for c in cells], dtype="float64")
    d["ROWLAB"] = np.arange(n, dtype="int64")
    df = pd.DataFrame(d)
    types = {idn: "id", "TIME": "idv", "AMT": "dose", "DV": "dv", "X": "unknown", "ROWLAB": "unknown"}
    types.update({c: "covariate" for c in covn})
    ci = [ColumnInfo.create(c, type=types[c], datatype="float64" if df[c].dtype == np.float64 else "int32") for c in df.columns]
    model = Model.create(name="c14cov", dataset=df, datainfo=DataInfo.create(ci))
    orig = df.copy(deep=True)
    fr = lambda f: "nan" if f is None else (str(f.numerator) if f.denominator == 1 else f"{f.numerator}/{f.denominator}")
    wrows = [[str(i)] + [fr(c) for c in cs] for i, cs in zip(ids, cells)]
    first_of = {}
    for lab, i in enumerate(ids):
        first_of.setdefault(i, lab)
    uniq = list(first_of)                               # ids in order of first appearance
    miss_first = sum(1 for i in uniq if any(c is None for c in cells[first_of[i]]))
    tags += ["kind=cov", f"ncov={ncov}", f"id={idn}", f"inds={len(uniq)}",
             "first-record-has-missing" if miss_first else "first-records-complete"]
    later_fills = any(cells[first_of[i]][j] is None and any(ids[q] == i and cells[q][j] is not None for q in range(n))
                      for i in uniq for j in range(len(names)))
    if later_fills:
        tags.append("missing-in-first-record-present-later")
    nontrivial = later_fills

    def ask(req):
        return drv.ask(req) if drv is not None else None

    # ------------------------------------------------ get_baselines
    ok, res = call(lambda: data.get_baselines(model))
    if not ok:
        mon.append({"cls": "internal-error", "what": f"get_baselines raised {res}"})
    else:
        tags.append("q:baselines")
        got_ids = [int(x) for x in res.index.tolist()]
        got = {i: _cells(res.loc[i, names].tolist()) for i in got_ids} if len(set(got_ids)) == len(got_ids) else None
        if sorted(got_ids) != sorted(uniq) or got is None:   # the order of the individuals is not part of the statement
            mon.append({"cls": "baselines-individuals", "what": f"get_baselines rows for ids {got_ids}, individuals {uniq}"})
        else:
            for i in uniq:
                want = cells[first_of[i]]
                if not all(_same(a, b) for a, b in zip(got[i], want)) or int(res.loc[i, "ROWLAB"]) != first_of[i]:
                    mon.append({"cls": "baselines-not-first-record", "what": f"baseline of individual {i}: "
                                f"{dict(zip(names, got[i]))} (ROWLAB {res.loc[i, 'ROWLAB']}); its first record (row {first_of[i]}) is "
                                f"{dict(zip(names, [None if w is None else float(w) for w in want]))}"})
                    break
            if list(res.columns) != names + ["ROWLAB"] or any(res[c].dtype != orig[c].dtype for c in res.columns):
                mon.append({"cls": "baselines-frame", "what": f"columns/dtypes of get_baselines: {dict(res.dtypes.astype(str))}"})
            if drv is not None:
                m = ask(["base", wrows])
                ml = [int(x[0]) for x in m]
                mc = [[None if c == "nan" else Fraction(c) for c in x[1:]] for x in m]
                if [ids[q] for q in ml] != got_ids or ml != [int(res.loc[i, "ROWLAB"]) for i in got_ids] or \
                        not all(all(_same(a, b) for a, b in zip(got[i], c)) for i, c in zip(got_ids, mc)):
                    k.append(f"get_baselines: model rows {ml} {mc} code ids {got_ids} {got}")
            # locality: an individual on its own has the same baseline
            if len(uniq) > 1:
                for i in uniq:
                    sub = df[df[idn] == i].reset_index(drop=True)
                    ci2 = [ColumnInfo.create(c, type=types[c], datatype="float64" if sub[c].dtype == np.float64 else "int32")
                           for c in sub.columns]
                    ok2, res2 = call(lambda: data.get_baselines(Model.create(name="s", dataset=sub, datainfo=DataInfo.create(ci2))))
                    alone = _cells(res2.loc[i, names].tolist()) if ok2 else res2
                    if alone != got[i] and not (ok2 and all(_same(a, b) for a, b in zip(alone, got[i]))):
                        mon.append({"cls": "baselines-not-local", "what": f"baseline of individual {i} alone {alone}, inside the "
                                    f"dataset {got[i]}"})
                        break
    # ------------------------------------------------ get_covariate_baselines / list_time_varying_covariates
    cov_idx = [names.index(c) for c in covn]
    ok, res = call(lambda: data.get_covariate_baselines(model))
    if not ok:
        if ncov == 0 and res.startswith("IndexError"):
            tags.append("covariate-baselines-refused-no-covariates")
        else:
            mon.append({"cls": "internal-error", "what": f"get_covariate_baselines raised {res}"})
    else:
        tags.append("q:covbaselines")
        got_ids = [int(x) for x in res.index.tolist()]
        if sorted(got_ids) != sorted(uniq) or len(set(got_ids)) != len(got_ids) or list(res.columns) != covn:
            mon.append({"cls": "baselines-individuals", "what": f"get_covariate_baselines ids {got_ids} columns {list(res.columns)}"})
        else:
            gotc = [_cells(res.loc[i, covn].tolist()) for i in uniq]
            for i, g in zip(uniq, gotc):
                want = [cells[first_of[i]][j] for j in cov_idx]
                if not all(_same(a, b) for a, b in zip(g, want)):
                    mon.append({"cls": "baselines-not-first-record", "what": f"covariate baseline of individual {i}: {g}; its first "
                                f"record has {[None if w is None else float(w) for w in want]}"})
                    break
            if drv is not None:
                m = ask(["covbase", cov_idx, wrows])
                mi = [int(x[0]) for x in m]
                mc = [[None if c == "nan" else Fraction(c) for c in x[1:]] for x in m]
                if mi != got_ids or mi != uniq or not all(all(_same(a, b) for a, b in zip(g, c)) for g, c in zip(gotc, mc)):
                    k.append(f"get_covariate_baselines: model {mi} {mc} code {got_ids} {gotc}")
    ref_tv = []
    for c, j in zip(covn, cov_idx):
        if any(len({cells[q][j] for q in range(n) if ids[q] == i and cells[q][j] is not None}) > 1 for i in uniq):
            ref_tv.append(c)
    ok, res = call(lambda: data.list_time_varying_covariates(model))
    if not ok:
        if ncov == 0 and res.startswith("IndexError"):
            mon.append({"cls": "time-varying-no-covariates", "what": f"list_time_varying_covariates on a dataset without "
                        f"covariate columns raises {res} (its `return []` branch is unreachable)"})
        else:
            mon.append({"cls": "internal-error", "what": f"list_time_varying_covariates raised {res}"})
    else:
        tags.append("q:timevarying" + ("+" if ref_tv else "-"))
        if list(res) != ref_tv:
            mon.append({"cls": "time-varying-walk-mismatch", "what": f"list_time_varying_covariates {list(res)}, walk {ref_tv}"})
        if drv is not None:
            m = [names[int(j)] for j in ask(["tv", cov_idx, wrows])]
            if m != list(res):
                k.append(f"list_time_varying_covariates: model {m} code {list(res)}")
    # ------------------------------------------------ get_ids / get_number_of_individuals
    ok, res = call(lambda: (data.get_ids(model), data.get_number_of_individuals(model)))
    if not ok:
        mon.append({"cls": "internal-error", "what": f"get_ids raised {res}"})
    else:
        if list(res[0]) != uniq or res[1] != len(uniq):
            mon.append({"cls": "ids-walk-mismatch", "what": f"get_ids {res[0]} / {res[1]}, individuals {uniq}"})
        if drv is not None and [int(x) for x in ask(["ids", wrows])] != list(res[0]):
            k.append(f"get_ids: model {ask(['ids', wrows])} code {res[0]}")
    # ------------------------------------------------ observation records and counts (DV may be missing)
    obs = [q for q in range(n) if cells[q][1] == 0]          # AMT == 0 (no mdv / event column)
    dvj = names.index("DV")
    ref_per = {}
    for q in obs:
        ref_per[ids[q]] = ref_per.get(ids[q], 0) + 1
    tags.append(f"nobs={'0' if not obs else '1' if len(obs) == 1 else '2+'}")
    ok, res = call(lambda: data.get_observations(model, keep_index=True))
    if not ok:
        mon.append({"cls": "internal-error", "what": f"get_observations(keep_index=True) raised {res}"})
    elif [int(x) for x in res.index.tolist()] != obs or not all(_same(a, cells[q][dvj]) for a, q in zip(_cells(res.tolist()), obs)):
        mon.append({"cls": "observations-walk-mismatch", "what": f"get_observations rows {res.index.tolist()} values {res.tolist()}, "
                    f"walk rows {obs}"})
    ok, res = call(lambda: data.get_number_of_observations(model))
    if not ok:
        cls = "single-record-squeeze" if len(obs) == 1 and res.startswith("TypeError") else "internal-error"
        mon.append({"cls": cls, "what": f"get_number_of_observations raised {res} ({len(obs)} observation records)"})
    elif int(res) != len(obs):
        mon.append({"cls": "nobs-walk-mismatch", "what": f"get_number_of_observations {res}, walk {len(obs)}"})
    ok, res = call(lambda: data.get_number_of_observations_per_individual(model))
    if not ok:
        cls = "single-record-squeeze" if len(obs) == 1 and res.startswith("AttributeError") else "internal-error"
        mon.append({"cls": cls, "what": f"get_number_of_observations_per_individual raised {res}"})
    else:
        code = [(int(i), int(v)) for i, v in res.items()]
        if drv is not None:
            m = [(int(a), int(b)) for a, b in ask(["nobscount", [[str(ids[q]), fr(cells[q][dvj])] for q in obs]])]
            if m != code:
                k.append(f"get_number_of_observations_per_individual: model {m} code {code}")
        if code != sorted(ref_per.items()):
            missing_dv = any(cells[q][dvj] is None for q in obs)
            nonmiss = {}
            for q in obs:
                nonmiss[ids[q]] = nonmiss.get(ids[q], 0) + (cells[q][dvj] is not None)
            cls = "nobs-per-individual-skips-missing-dv" if missing_dv and code == sorted(nonmiss.items()) else "nobs-walk-mismatch"
            mon.append({"cls": cls, "what": f"get_number_of_observations_per_individual {code}, observation records per "
                        f"individual {sorted(ref_per.items())} (get_number_of_observations counts {len(obs)})"})
    if not model.dataset.equals(orig):
        mon.append({"cls": "input-dataset-mutated", "what": "a data function changed the dataset of its input model"})
    return {"k": k, "mon": mon, "tags": tags, "nontrivial": nontrivial}
