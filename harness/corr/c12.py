"""C12 — Serialisation round-trips; model hashes identify models across processes.

K   : Lean model (PharmpyModel/C12/{Json,Model,Hash}.lean, driver drv_c12) vs pharmpy:
      json.dumps(x.to_dict()) text (key order included) for every component and the model;
      from_dict on the real dict and on seeded mutations of it (dropped / unknown keys, changed
      class tags, out-of-range and negative edge indices); CompartmentalSystemBuilder op
      sequences vs the ordered-graph model; the sequence of sha256.update() arguments of ModelHash.
Mon : the property statement on the real code: from_dict(to_dict(x)) == x; to_dict is a JSON
      fixpoint; reload through JSON text / generic model code gives an equal object; ModelHash is
      independent of name/description/path, of construction order and (fresh interpreter
      processes) of PYTHONHASHSEED; single-field perturbations change it.
"""
from __future__ import annotations

import copy
import hashlib
import json
import os
import random
import subprocess
import sys

ID = "C12"
DRIVER = "drv_c12"
LEAN_TARGETS = ["PharmpyProofs.C12.Properties", "PharmpyProofs.C12.DoseProperties", "drv_c12"]
PROPERTIES = ["PharmpyProofs/C12/Properties.lean", "PharmpyProofs/C12/DoseProperties.lean"]
LEAN_SOURCES = ["PharmpyModel/C12/*.lean", "PharmpyProofs/C12/*.lean", "Drivers/C12.lean", "PharmpyModel/Core/Sexp.lean"]
TIME_LIMIT = {"quick": 900, "thorough": 3000}
CASE_CPU_LIMIT = 60
RULE = ("kind=model: generic models generated from one seed (1-5 named compartments added in a seeded order with seeded "
        "builder ops incl. overwritten/removed flows and removed+re-added compartments, bolus/infusion doses, lag/bioavailability, "
        "normal and joint normal etas, 1-3 estimation/simulation steps with options, 4-7 data columns, 3-8 data rows, "
        "optional Statements.subs relabelling; infusion rate/duration and bolus amount over the whole value class - symbolic, "
        "numeric, integer/float zero - given directly or reached by Dose.subs with a seeded map); kind=pheno: load_example_model('pheno') followed by 0-4 seeded "
        "pharmpy.modeling transformations; kind=procs: 2-3 such models hashed in 4 fresh interpreters with different "
        "PYTHONHASHSEED. Every case runs every K request and monitor on every component. non-trivial = has an ODE system "
        "with >= 2 compartments or >= 1 transformation; distinct = distinct case JSON")
TRUSTED = [
    "Lean 4.33 kernel; axioms propext, Quot.sound, Classical.choice only (audited per theorem each run)",
    "hand-written model PharmpyModel/C12/{Json,Model,Hash}.lean tied to the source by the correspondence run of this invocation",
    "sympy srepr/parse_expr (Expr/Matrix.serialize/deserialize) as a lawful printer/parser pair: hypothesis Codec.Lawful of the theorems, monitored per expression",
    "networkx DiGraph keeps nodes and adjacency in insertion order (mirrored by Graph; compared on every builder op sequence)",
    "json.dumps is injective on JSON values; pandas hash_pandas_object as an injective row digest; SHA-256 collision-free on update sequences",
    "harness/corr/c12.py (generators, object->wire conversion reading private fields, canonicalisation)",
]
ASSUMPTIONS = [
    "floats are identified with their Python repr (repr round-trips floats)",
    "tuple and list are both a JSON array: json.loads(json.dumps(d)) is compared with d modulo tuple/list",
    "content equality of two models = pharmpy's Model.__eq__ plus equal dataset",
]

HASHSEEDS = ["0", "1", "2", "12345"]


def budget(tier):
    return int(os.environ.get("VERIF_BUDGET", 0)) or {"quick": 44, "thorough": 500}[tier]


# ---------------------------------------------------------------- generation (pure, no pharmpy import)

COMP_NAMES = ["CENTRAL", "DEPOT", "PERI1", "PERI2", "TRANS1"]
PHENO_TRANSFORMS = [
    "foabs", "zoabs", "seqabs", "periph", "transit1", "transit2", "lag", "joint", "properr", "comberr", "fix", "init",
    "zoelim", "mmelim", "mixelim", "est_imp", "evalstep", "deriv", "sim", "rename", "iov", "metab", "bio", "effect",
    "lower", "solver", "subs_amt", "covar", "iiv_remove", "toolopt", "ie", "ie", "obstrans",
    "inf_dur", "inf_rate", "inf_dur_subs0", "inf_rate_subs0", "inf_dur_subs", "dose_subs0",
]

# values an infusion's rate / duration (or a bolus amount) takes: symbolic, numeric, and the degenerate ones a
# transformation such as subs({D1: 0}) leaves behind (integer zero, zero after simplification, float zero, one)
DOSE_VALUES = ["RATE", "R1", "AMT/D1", "D1", "DUR", "2*D1", "0", "0", "D1 - D1", "0*R1", "0.0", "1", "2.5"]
DOSE_SUBS_VALUES = ["0", "0", "0", "1", "0.0", "DX", "2*DX"]


import math

AWK = [1e-300, 1e300, 5e-324, 2.2250738585072014e-308, 0.30000000000000004, 1 / 3, 1.23456789012345e-06, 4.86483443076692e-02,
       123456789.12345679, 1e15 + 0.3, 0.1, 3.141592653589793e-08, 9007199254740993.0, 1.7976931348623157e308, 2.5e-05,
       1e22, 1e23, 1.0000000000000002, 7.72119578443213e-03, 2.55103120329811e-04]


def awk(rng, positive=False, zero=True):
    """A numerically awkward double: extreme magnitudes, subnormals, 15-17 significant digits, signed zeros."""
    r = rng.random()
    if r < 0.45:
        v = rng.choice(AWK)
    elif r < 0.75:
        v = rng.uniform(1, 10) * 10.0 ** rng.randint(-30, 30)
    elif r < 0.9 or not zero:
        v = float(rng.randint(1, 10 ** 15)) / 10.0 ** rng.randint(0, 21)
    else:
        v = 0.0
    if not positive and rng.random() < 0.4:
        v = -v
    return v


def gen_expr(rng, avail, depth=0):
    r = rng.random()
    if depth >= 2 or r < 0.35:
        if rng.random() < 0.8 and avail:
            return rng.choice(avail)
        return str(rng.randint(1, 9))
    a, b = gen_expr(rng, avail, depth + 1), gen_expr(rng, avail, depth + 1)
    if r < 0.55:
        return f"({a} + {b})"
    if r < 0.72:
        return f"({a} * {b})"
    if r < 0.78:
        return f"({a})**2"
    if r < 0.84:
        return f"exp(-({a}))"
    if r < 0.90:
        return f"({a} / ({b} + 11))"
    if r < 0.94:
        return f"log(({a})**2 + 1)"
    cnd = rng.choice(avail) if avail else "WGT"
    return f"Piecewise(({a}, {cnd} < {rng.randint(1, 9)}), ({b}, True))"


def gen_model_spec(rng):
    ncomp = rng.choice([1, 1, 2, 2, 3, 3, 4, 5])
    names = COMP_NAMES[:ncomp]
    syms = ["CL", "V"]
    comps = []
    for i, nm in enumerate(names):
        doses = []
        want_dose = (i == 0 and (ncomp == 1 or rng.random() < 0.6)) or (i > 0 and rng.random() < 0.45)
        if want_dose:
            for _ in range(rng.choice([1, 1, 1, 2])):
                amt = rng.choice(["AMT", "AMT", "AMT*2", "DOSE2"])
                admid = rng.randint(1, 2)
                k = rng.random()
                if k < 0.4:
                    doses.append(["bolus", amt, admid])
                elif k < 0.55:
                    doses.append(["infusion", amt, admid, "rate", rng.choice(["RATE", "R1", "AMT/D1"])])
                elif k < 0.7:
                    doses.append(["infusion", amt, admid, "duration", rng.choice(["D1", "DUR", "2*D1"])])
                else:
                    # the whole value class, incl. the degenerate values, given directly or reached by Dose.subs
                    which = rng.choice(["rate", "duration"])
                    if rng.random() < 0.5:
                        doses.append(["infusion", amt, admid, which, rng.choice(DOSE_VALUES)])
                    else:
                        sym = rng.choice(["R1", "D1", "DUR"])
                        doses.append(["infusion", amt, admid, which, rng.choice([sym, sym, "2*" + sym, "AMT/" + sym]),
                                      {sym: rng.choice(DOSE_SUBS_VALUES)}])
                if doses[-1][0] == "bolus" and rng.random() < 0.15:
                    doses[-1].append({"AMT": rng.choice(DOSE_SUBS_VALUES)})      # Bolus.subs
        comps.append({
            "name": nm,
            "doses": doses,
            "input": rng.choice(["0", "0", "0", "KIN"]),
            "lag": rng.choice(["0", "0", "ALAG", "ALAG + 1"]),
            "bio": rng.choice(["1", "1", "BIO", "BIO/2"]),
        })
    if not any(c["doses"] for c in comps):
        comps[0]["doses"] = [["bolus", "AMT", 1]]
    order = list(range(ncomp))
    rng.shuffle(order)
    flows = [[0, -1, "CL/V"]]
    for i in range(1, ncomp):
        q = f"Q{i}"
        syms.append(q)
        k = rng.random()
        if k < 0.4:
            flows += [[0, i, f"{q}/V"], [i, 0, f"{q}/V{i}"]]
            syms.append(f"V{i}")
        elif k < 0.7:
            flows.append([i, 0, f"K{i}0"])
            syms.append(f"K{i}0")
        else:
            flows.append([i, rng.randrange(0, i), q])
            if rng.random() < 0.5:
                flows.append([0, i, f"{q}*2"])
    # unique edges only, then a seeded order
    seen, uniq = set(), []
    for f in flows:
        if (f[0], f[1]) not in seen:
            seen.add((f[0], f[1]))
            uniq.append(f)
    rng.shuffle(uniq)
    tweaks = []
    for _ in range(rng.choice([0, 0, 0, 1, 2])):
        k = rng.random()
        f = rng.choice(uniq)
        if k < 0.4:
            tweaks.append(["addflow", f[0], f[1], f[2] + " + 1"])       # overwrite keeps the adjacency position
        elif k < 0.7 and ncomp >= 2:
            tweaks += [["rmflow", f[0], f[1]], ["addflow", f[0], f[1], f[2]]]   # re-added edge goes last
        elif ncomp >= 3:
            j = rng.randrange(1, ncomp)
            back = [g for g in uniq if g[0] == j or g[1] == j]
            tweaks += [["rmc", j], ["addc", j]] + [["addflow", g[0], g[1], g[2]] for g in back]
    # parameters / random variables
    n_eta = rng.randint(1, min(3, len(syms)))
    eta_syms = syms[:n_eta]
    joint = n_eta >= 2 and rng.random() < 0.5
    params = []
    for s in syms:
        if rng.random() < 0.5:
            init = rng.choice([0.1, 0.5, 1.0, 2.5, 0.00469307, 12.0])
            lo = rng.choice([None, 0.0, 0.0, 0.001])
            up = rng.choice([None, None, 100.0, 1e6])
        else:
            init = awk(rng)
            lo = rng.choice([None, -1e300, math.nextafter(init, -math.inf), init, -0.0 if init >= 0 else None])
            up = rng.choice([None, 1e300, math.nextafter(init, math.inf), 1.7976931348623157e308])
        params.append([f"POP_{s}", init, lo, up, rng.random() < 0.15] + (["raw-int"] if rng.random() < 0.05 else []))
    for s in eta_syms:
        params.append([f"IIV_{s}", rng.choice([0.1, 0.09, 0.3]) if joint or rng.random() < 0.5 else awk(rng, positive=True, zero=False),
                       0.0, None, False])
    rvs = []
    if joint:
        mat = [[f"IIV_{a}" if a == b else "IIV_" + "_".join(sorted([a, b])) for b in eta_syms] for a in eta_syms]
        for i in range(n_eta):
            for j in range(i):
                params.append([mat[i][j], 0.001, None, None, False])
        rvs.append(["joint", [f"ETA_{s}" for s in eta_syms], "IIV", mat])
    else:
        for s in eta_syms:
            rvs.append(["normal", f"ETA_{s}", "IIV", f"IIV_{s}"])
    params.append(["SIGMA", 0.013, 0.0, None, False])
    rvs.append(["normal", "EPS_1", "RUV", "SIGMA"])
    cols = [["ID", "id", None, "ratio", True, None, False, "int32", None],
            ["TIME", "idv", "h", "ratio", True, None, False, "float64", None],
            ["AMT", "dose", "mg", "ratio", True, None, False, "float64", None],
            ["DV", "dv", None, "ratio", True, None, False, "float64", None],
            ["WGT", "covariate", rng.choice(["kg", None]), "ratio", True, None, False, "float64",
             rng.choice([None, "body weight"])]]
    if rng.random() < 0.5:
        cols.append(["APGR", "covariate", None, "nominal", False, [1, 2, 3, 5, 7], False, "float64", None])
    if rng.random() < 0.3:
        cols.append(["DROPME", "unknown", None, "ratio", True, None, True, "float64", None])
    if rng.random() < 0.3:
        cols.append(["RATE", "rate", None, "ratio", True, None, False, "float64", None])
    colnames = [c[0] for c in cols]
    stmts = []
    defined = ["WGT"] + (["APGR"] if "APGR" in colnames else [])
    for s in syms:
        if s in eta_syms:
            e = f"POP_{s}*exp(ETA_{s})" if rng.random() < 0.8 else f"POP_{s} + ETA_{s}"
        else:
            e = f"POP_{s}" if rng.random() < 0.6 else f"POP_{s}*WGT/70"
        stmts.append(["=", s, e])
        defined.append(s)
    for aux in ["ALAG", "BIO", "KIN", "RATE", "R1", "D1", "DUR", "DOSE2", "DX"]:
        used = any(aux in (c["lag"] + c["bio"] + c["input"] + json.dumps(c["doses"])) for c in comps)
        if used and aux not in colnames:
            stmts.append(["=", aux, gen_expr(rng, defined)])
            defined.append(aux)
    for k in range(rng.choice([0, 1, 2, 3])):
        x = rng.choice(["TV1", "TV2", "CL", "V"])
        stmts.append(["=", x, gen_expr(rng, defined)])
        if x not in defined:
            defined.append(x)
    stmts.append(["ode"])
    stmts.append(["=", "F", "A_CENTRAL(t)/V"])
    for k in range(rng.choice([0, 0, 1])):
        stmts.append(["=", "W", gen_expr(rng, defined + ["F"])])
        defined.append("W")
    stmts.append(["=", "Y", rng.choice(["F + F*EPS_1", "F + EPS_1", "F*exp(EPS_1)"])])
    steps = []
    for _ in range(rng.choice([1, 1, 2, 3])):
        if rng.random() < 0.15:
            steps.append(["sim", {"n": rng.randint(1, 5), "seed": rng.randint(1, 99999)}])
            continue
        method = rng.choice(["FO", "FOCE", "FOCE", "ITS", "IMP", "SAEM", "BAYES"])
        kw = {"interaction": rng.random() < 0.6}
        if rng.random() < 0.5:
            kw["parameter_uncertainty_method"] = rng.choice(["SANDWICH", "SMAT", "RMAT", "EFIM"])
        if rng.random() < 0.2:
            kw["evaluation"] = True
        if rng.random() < 0.4:
            kw["maximum_evaluations"] = rng.choice([1, 99, 9999])
        if rng.random() < 0.2:
            kw["laplace"] = True
        if method in ("IMP", "SAEM") and rng.random() < 0.6:
            kw["isample"] = rng.choice([300, 1000])
            kw["niter"] = rng.choice([5, 20])
            kw["auto"] = rng.choice([True, False])
            kw["keep_every_nth_iter"] = rng.choice([10, 50])
        if rng.random() < 0.4:
            kw["residuals"] = rng.sample(["CWRES", "RES", "WRES"], rng.randint(1, 2))
        if rng.random() < 0.4:
            kw["predictions"] = rng.sample(["PRED", "IPRED", "CIPREDI"], rng.randint(1, 2))
        if rng.random() < 0.3:
            kw["solver"] = rng.choice(["LSODA", "CVODES", "IDA"])
            kw["solver_rtol"] = rng.choice([None, 6])
            kw["solver_atol"] = rng.choice([None, 9])
        if rng.random() < 0.3:
            kw["tool_options"] = rng.choice([{"NITER": 5}, {"SEED": 23, "PRINT": "1"}, {"FILE": "a b.ext"},
                                             {"SIGL": awk(rng), "TOL": [awk(rng), 1]}])
        if rng.random() < 0.15:
            kw["solver_atol"] = awk(rng, positive=True, zero=False)
        if rng.random() < 0.12:
            kw["derivatives"] = rng.choice([[["ETA_CL"]], [["ETA_CL"], ["EPS_1", "ETA_CL"]]])
        if rng.random() < 0.2:
            kw["individual_eta_samples"] = True
        steps.append(["est", method, kw])
    nrow = rng.randint(3, 8)
    data = []
    for r in range(nrow):
        row = []
        for cn in colnames:
            if cn == "ID":
                row.append(1 + r // 3)
            elif cn == "APGR":
                row.append(rng.choice([1, 2, 3, 5, 7]))
            elif rng.random() < 0.15:
                row.append(awk(rng))
            else:
                row.append(rng.choice([0.0, 1.0, 2.5, 17.3, 70.0, 0.25, 100.0]))
        data.append(row)
    ie = None
    if rng.random() < 0.5:
        ids = sorted({r[0] for r in data})
        ie = {"index": ids, "cols": {f"ETA_{s}": [awk(rng) if rng.random() < 0.85 else rng.choice([0.1, -0.25, 0.0, -0.0])
                                                   for _ in ids] for s in eta_syms}}
    if "APGR" in colnames and rng.random() < 0.3:
        for c in cols:
            if c[0] == "APGR":
                c[5] = [1, 2.5, 0.30000000000000004, 5, 7]
    post = []
    if rng.random() < 0.25:
        post.append(["subs", rng.choice([{"AMT": "DOSE"}, {"ALAG": "ALAG2"}, {"BIO": "FBIO"}, {"CL": "CLX"}])])
    return {"kind": "gen", "name": rng.choice(["run1", "m", "base model"]), "description": rng.choice(["", "a model"]),
            "comps": comps, "order": order, "flows": uniq, "tweaks": tweaks, "params": params, "rvs": rvs, "cols": cols,
            "stmts": stmts, "steps": steps, "data": data, "dv": rng.choice([{"Y": 1}, {"Y": 1}, {"Y": 1, "F": 2}]), "post": post,
            "sep": rng.choice([",", ",", r"\s+"]), "ie": ie,
            "value_type": rng.choice(["PREDICTION", "PREDICTION", "LIKELIHOOD", "-2LL"]),
            "obstrans": rng.choice([None, None, {"Y": "log(Y)"}, {"Y": "Y**2 + 1"}])}


def gen_pheno_spec(rng):
    k = rng.choice([0, 1, 1, 2, 2, 3, 4])
    return {"kind": "pheno", "transforms": [rng.choice(PHENO_TRANSFORMS) for _ in range(k)]}


def hashseed_witness_spec():
    """>= 2 compartments change under subs while others stay: nx.relabel_nodes re-adds the changed ones in the
    iteration order of a *set* of compartments (statements.py `_comps`)."""
    names = ["CENTRAL", "DEPOT", "PERI1", "PERI2", "TRANS1"]
    comps = [{"name": n, "doses": [["bolus", "AMT", 1]] if n in ("DEPOT", "PERI2", "TRANS1") else [],
              "input": "0", "lag": "0", "bio": "1"} for n in names]
    spec = {"kind": "gen", "name": "w", "description": "", "comps": comps, "order": [0, 1, 2, 3, 4],
            "flows": [[0, -1, "CL/V"], [1, 0, "KA"], [2, 0, "Q1"], [3, 0, "Q2"], [4, 0, "Q3"]], "tweaks": [],
            "params": [["POP_CL", 0.1, 0.0, None, False], ["POP_V", 1.0, 0.0, None, False], ["SIGMA", 0.01, 0.0, None, False]],
            "rvs": [["normal", "EPS_1", "RUV", "SIGMA"]],
            "cols": [["ID", "id", None, "ratio", True, None, False, "int32", None],
                     ["TIME", "idv", "h", "ratio", True, None, False, "float64", None],
                     ["AMT", "dose", "mg", "ratio", True, None, False, "float64", None],
                     ["DV", "dv", None, "ratio", True, None, False, "float64", None]],
            "stmts": [["=", "CL", "POP_CL"], ["=", "V", "POP_V"], ["=", "KA", "1"], ["=", "Q1", "2"], ["=", "Q2", "3"],
                      ["=", "Q3", "4"], ["ode"], ["=", "F", "A_CENTRAL(t)/V"], ["=", "Y", "F + EPS_1"]],
            "steps": [["est", "FOCE", {}]], "data": [[1, 0.0, 100.0, 0.0], [1, 1.0, 0.0, 2.5]], "dv": {"Y": 1},
            "post": [["subs", {"AMT": "DOSE"}]], "sep": ","}
    return spec


def gen_subs_spec(rng):
    """Seeded variant of the set-order witness: 2-4 of the 5 compartments carry an AMT dose (they change under
    subs AMT->DOSE), the others do not; relabelling must not depend on the interpreter's hash seed."""
    spec = hashseed_witness_spec()
    dosed = set(rng.sample(range(5), rng.randint(2, 4)))
    for i, c in enumerate(spec["comps"]):
        c["doses"] = [["bolus", "AMT", 1]] if i in dosed else []
        c["lag"] = rng.choice(["0", "0", "AMT/100"])
    spec["order"] = rng.sample(range(5), 5)
    return spec


def f4_witness_spec():
    comps = [{"name": "CENTRAL", "doses": [["bolus", "AMT", 1]], "input": "0", "lag": "0", "bio": "1"},
             {"name": "PERI1", "doses": [], "input": "0", "lag": "0", "bio": "1"}]
    spec = hashseed_witness_spec()
    spec.update({"comps": comps, "order": [0, 1], "flows": [[0, -1, "CL/V"], [0, 1, "Q1/V"], [1, 0, "Q1/V1"]], "post": [],
                 "stmts": [["=", "CL", "POP_CL"], ["=", "V", "POP_V"], ["=", "Q1", "2"], ["=", "V1", "3"], ["ode"],
                           ["=", "F", "A_CENTRAL(t)/V"], ["=", "Y", "F + EPS_1"]]})
    return spec


def deriv_witness_spec():
    spec = f4_witness_spec()
    spec["params"] = spec["params"] + [["IIV_CL", 0.1, 0.0, None, False]]
    spec["rvs"] = [["normal", "ETA_CL", "IIV", "IIV_CL"]] + spec["rvs"]
    spec["stmts"][0] = ["=", "CL", "POP_CL*exp(ETA_CL)"]
    spec["steps"] = [["est", "FOCE", {"derivatives": [["ETA_CL"], ["EPS_1", "ETA_CL"]]}]]
    return spec


def inf_zero_witness_spec():
    """An infusion whose rate is a symbol that a transformation (Infusion.subs) then fixes to the integer 0."""
    spec = f4_witness_spec()
    spec["comps"][0]["doses"] = [["infusion", "AMT", 1, "rate", "R1", {"R1": "0"}]]
    spec["comps"][1]["doses"] = [["infusion", "AMT", 2, "duration", "2*D1", {"D1": "0"}]]
    return spec


def gen_cases(rng, n, tier):
    out = []
    n_procs = max(2, n // 28)
    n_pheno = max(4, n // 5)
    for i in range(n):
        seed = rng.randrange(1 << 30)
        if i < n_procs:
            specs = [gen_model_spec(rng), gen_pheno_spec(rng)]
            if i % 2 == 0:
                specs.append(gen_model_spec(rng))
            for sp in specs:
                sp["derive"] = rng.sample(DERIVE_OPS, 3)
            specs.append(gen_subs_spec(rng))
            out.append({"kind": "procs", "specs": specs, "seed": seed})
        elif i < n_procs + n_pheno:
            out.append({"kind": "model", "spec": gen_pheno_spec(rng), "seed": seed})
        else:
            spec = gen_model_spec(rng)
            # Statements.subs relabels compartments in the iteration order of a set (finding D2), which depends on the
            # hash seed of *this* process; it is exercised only in `procs` cases, whose interpreters have fixed seeds,
            # so that the verdict and the evidence of a run are reproducible
            spec["post"] = []
            out.append({"kind": "model", "spec": spec, "seed": seed})
    return out


def corpus_cases():
    return [
        {"kind": "model", "spec": f4_witness_spec(), "seed": 1},                       # F4: node insertion order
        {"kind": "procs", "specs": [hashseed_witness_spec(), dict(f4_witness_spec(), derive=["assign", "where", "copy"])], "seed": 2},   # set-order relabelling; dataset history
        {"kind": "model", "spec": deriv_witness_spec(), "seed": 3},                    # derivatives are stringified
        {"kind": "model", "spec": {"kind": "pheno", "transforms": []}, "seed": 4},
        {"kind": "model", "spec": {"kind": "pheno", "transforms": ["foabs", "periph", "transit2", "joint"]}, "seed": 5},
        {"kind": "model", "spec": dict(f4_witness_spec(), dv_str=True), "seed": 7},
        {"kind": "model", "spec": {"kind": "pheno", "transforms": ["inf_dur_subs0"]}, "seed": 9},   # infusion whose duration became 0 by subs
        {"kind": "model", "spec": inf_zero_witness_spec(), "seed": 10},                 # rate 0 by Infusion.subs in a generated model
        {"kind": "model", "spec": {"kind": "pheno", "transforms": ["ie"]}, "seed": 8},  # individual estimates (int index labels)    # str keys of dependent_variables
    ]


def shrink(case):
    if case["kind"] == "procs":
        for i in range(len(case["specs"])):
            if len(case["specs"]) > 1:
                c = copy.deepcopy(case)
                del c["specs"][i]
                yield c
        return
    spec = case["spec"]
    if spec["kind"] == "pheno":
        for i in range(len(spec["transforms"])):
            c = copy.deepcopy(case)
            del c["spec"]["transforms"][i]
            yield c
        return
    for key in ("tweaks", "post"):
        if spec.get(key):
            c = copy.deepcopy(case)
            c["spec"][key] = []
            yield c
    if len(spec["steps"]) > 1:
        for i in range(len(spec["steps"])):
            c = copy.deepcopy(case)
            del c["spec"]["steps"][i]
            yield c
    for i, s in enumerate(spec["stmts"]):
        if s[0] == "=" and s[1] in ("TV1", "TV2", "W"):
            c = copy.deepcopy(case)
            del c["spec"]["stmts"][i]
            yield c


# ---------------------------------------------------------------- real-code side

def worker_init():
    global pd, np, sympy, pm, Expr, Matrix, PM, ModelHash, hashing, parse_generic, conf
    import numpy as np  # noqa
    import pandas as pd  # noqa
    import sympy  # noqa
    import pharmpy.model as PM  # noqa
    import pharmpy.modeling as pm  # noqa
    from pharmpy import conf  # noqa
    from pharmpy.basic import Expr, Matrix  # noqa
    from pharmpy.model.external.generic.generic import parse_model as parse_generic  # noqa
    from pharmpy.workflows import hashing  # noqa
    from pharmpy.workflows.hashing import ModelHash  # noqa
    import warnings
    warnings.filterwarnings("ignore")


_PHENO = None


def _pheno():
    global _PHENO
    if _PHENO is None:
        _PHENO = pm.convert_model(pm.load_example_model("pheno"), "generic")
    return _PHENO


def apply_transform(m, t):
    if t == "foabs":
        return pm.set_first_order_absorption(m)
    if t == "zoabs":
        return pm.set_zero_order_absorption(m)
    if t == "seqabs":
        return pm.set_seq_zo_fo_absorption(m)
    if t == "periph":
        return pm.add_peripheral_compartment(m)
    if t == "transit1":
        return pm.set_transit_compartments(m, 1)
    if t == "transit2":
        return pm.set_transit_compartments(m, 2)
    if t == "lag":
        return pm.add_lag_time(m)
    if t == "joint":
        return pm.create_joint_distribution(m, [n for n in m.random_variables.iiv.names][:2])
    if t == "properr":
        return pm.set_proportional_error_model(m)
    if t == "comberr":
        return pm.set_combined_error_model(m)
    if t == "fix":
        return pm.fix_parameters(m, [m.parameters.names[0]])
    if t == "init":
        return pm.set_initial_estimates(m, {m.parameters.names[0]: 0.01})
    if t == "zoelim":
        return pm.set_zero_order_elimination(m)
    if t == "mmelim":
        return pm.set_michaelis_menten_elimination(m)
    if t == "mixelim":
        return pm.set_mixed_mm_fo_elimination(m)
    if t == "est_imp":
        return pm.add_estimation_step(m, "IMP", isample=300, niter=5)
    if t == "evalstep":
        return pm.set_evaluation_step(m)
    if t == "deriv":
        return pm.add_derivative(m)
    if t == "sim":
        return pm.set_simulation(m, n=3)
    if t == "rename":
        return pm.rename_symbols(m, {"CL": "CLX"})
    if t == "iov":
        return pm.add_iov(m, "FA1")
    if t == "metab":
        return pm.add_metabolite(m)
    if t == "bio":
        return pm.add_bioavailability(m)
    if t == "effect":
        return pm.add_effect_compartment(m, "linear")
    if t == "lower":
        return pm.set_lower_bounds(m, {m.parameters.names[0]: 0.0001})
    if t == "solver":
        return pm.set_ode_solver(m, "LSODA")
    if t == "subs_amt":
        return m.replace(statements=m.statements.subs({"AMT": "DOSE"}))
    if t == "covar":
        return pm.add_covariate_effect(m, "CL", "APGR", "cat")
    if t == "iiv_remove":
        return pm.remove_iiv(m, [m.random_variables.iiv.names[0]])
    if t == "ie":
        return m.replace(initial_individual_estimates=make_ie(PHENO_IE))
    if t == "obstrans":
        return m.replace(observation_transformation={Expr.symbol("Y"): Expr("log(Y)")})
    if t in ("inf_dur", "inf_rate", "inf_dur_subs0", "inf_rate_subs0", "inf_dur_subs", "dose_subs0"):
        # the dose of the dosing compartment becomes an infusion; *_subs*: a later transformation fixes its symbol
        odes = m.statements.ode_system
        comp = odes.dosing_compartments[0]
        if t == "dose_subs0":      # whatever doses the compartment has now: their first free symbol becomes 0
            doses = []
            for dz in comp.doses:
                fs = sorted(dz.free_symbols, key=str)
                doses.append(dz.subs({fs[-1]: Expr.integer(0)}) if fs else dz)
            doses = tuple(doses)
        else:
            which = "duration" if "dur" in t else "rate"
            dose = PM.Infusion.create("AMT", **{which: "D1" if which == "duration" else "R1"})
            if t.endswith("_subs0"):
                dose = dose.subs({Expr.symbol("D1"): Expr.integer(0), Expr.symbol("R1"): Expr.integer(0)})
            elif t.endswith("_subs"):
                dose = dose.subs({Expr.symbol("D1"): Expr("TVD*2")})
            doses = (dose,)
        cb = PM.CompartmentalSystemBuilder(odes)
        cb.set_dose(comp, doses)
        return m.replace(statements=m.statements.before_odes + PM.CompartmentalSystem(cb) + m.statements.after_odes)
    if t == "toolopt":
        s = m.execution_steps[0].replace(tool_options={"NITER": 7, "PRINT": "2"})
        return m.replace(execution_steps=PM.ExecutionSteps.create([s]) + m.execution_steps[1:])
    raise KeyError(t)


def build_graph_ops(spec):
    """The builder op sequence of a generated spec: list of (op, args) over compartment indices (-1 = output)."""
    ops = [["addc", i] for i in spec["order"]]
    ops += [["addflow", f[0], f[1], f[2]] for f in spec["flows"]]
    ops += spec["tweaks"]
    return ops


def make_comps(spec):
    comps = []
    for c in spec["comps"]:
        doses = []
        for d in c["doses"]:
            if d[0] == "bolus":
                dose, sub = PM.Bolus.create(d[1], admid=d[2]), d[3] if len(d) > 3 else None
            elif d[3] == "rate":
                dose, sub = PM.Infusion.create(d[1], admid=d[2], rate=d[4]), d[5] if len(d) > 5 else None
            else:
                dose, sub = PM.Infusion.create(d[1], admid=d[2], duration=d[4]), d[5] if len(d) > 5 else None
            if sub:       # the dose is reached by a transformation: Dose.subs
                dose = dose.subs({Expr.symbol(a): Expr(b) for a, b in sub.items()})
            doses.append(dose)
        comps.append(PM.Compartment.create(c["name"], doses=tuple(doses), input=c["input"], lag_time=c["lag"],
                                           bioavailability=c["bio"]))
    return comps


def run_builder(ops, comps):
    cb = PM.CompartmentalSystemBuilder()
    node = lambda i: PM.output if i == -1 else comps[i]
    for op in ops:
        if op[0] == "addc":
            cb.add_compartment(node(op[1]))
        elif op[0] == "rmc":
            cb.remove_compartment(node(op[1]))
        elif op[0] == "addflow":
            cb.add_flow(node(op[1]), node(op[2]), op[3])
        elif op[0] == "rmflow":
            cb.remove_flow(node(op[1]), node(op[2]))
    return cb


def make_ie(ie):
    if ie is None:
        return None
    return pd.DataFrame({c: [float(v) for v in vals] for c, vals in ie["cols"].items()}, index=pd.Index(ie["index"], name="ID"))


PHENO_IE = {"index": [1, 2, 3], "cols": {"ETA_CL": [4.86483443076692e-02, -1.23456789012345e-06, 5e-324],
                                          "ETA_VC": [-0.0, 1e300, 0.30000000000000004]}}


def build_model(spec):
    """Real pharmpy model of a spec; raises on a spec pharmpy refuses."""
    if spec["kind"] == "pheno":
        m = _pheno()
        applied = []
        for t in spec["transforms"]:
            try:
                m = apply_transform(m, t)
                applied.append(t)
            except Exception:
                applied.append("!" + t)
        return m, applied
    comps = make_comps(spec)
    cs = PM.CompartmentalSystem(run_builder(build_graph_ops(spec), comps))
    sts = [PM.Assignment.create(s[1], s[2]) if s[0] == "=" else cs for s in spec["stmts"]]
    def mkpar(p):
        if len(p) > 5 and p[5] == "raw-int":      # ints where floats are usual (as add_covariate_effect does)
            return PM.Parameter(p[0], 1, -1, 5, p[4])
        return PM.Parameter.create(p[0], p[1], lower=p[2], upper=p[3], fix=p[4])
    params = PM.Parameters.create([mkpar(p) for p in spec["params"]])
    dists = []
    for r in spec["rvs"]:
        if r[0] == "normal":
            dists.append(PM.NormalDistribution.create(r[1], r[2], 0, r[3]))
        else:
            dists.append(PM.JointNormalDistribution.create(r[1], r[2], [0] * len(r[1]), r[3]))
    rvs = PM.RandomVariables.create(dists)
    steps = []
    for s in spec["steps"]:
        if s[0] == "sim":
            steps.append(PM.SimulationStep.create(**s[1]))
        else:
            kw = dict(s[2])
            if "derivatives" in kw:
                kw["derivatives"] = tuple(tuple(Expr.symbol(x) for x in d) for d in kw["derivatives"])
            steps.append(PM.EstimationStep.create(s[1], **kw))
    cols = [PM.ColumnInfo.create(c[0], type=c[1], unit=c[2] if c[2] else 1, scale=c[3], continuous=c[4],
                                 categories=tuple(c[5]) if c[5] is not None else None, drop=c[6], datatype=c[7],
                                 descriptor=c[8]) for c in spec["cols"]]
    di = PM.DataInfo.create(cols, separator=spec["sep"])
    df = pd.DataFrame(spec["data"], columns=[c[0] for c in spec["cols"]], dtype="float64")
    m = PM.Model.create(name=spec["name"], description=spec["description"], parameters=params, random_variables=rvs,
                        statements=PM.Statements(sts),
                        dependent_variables=spec["dv"] if spec.get("dv_str") else {Expr.symbol(k): v for k, v in spec["dv"].items()},
                        execution_steps=PM.ExecutionSteps.create(steps), datainfo=di, dataset=df,
                        value_type=spec.get("value_type", "PREDICTION"),
                        observation_transformation=None if not spec.get("obstrans") else
                        {Expr.symbol(k): Expr(v) for k, v in spec["obstrans"].items()},
                        initial_individual_estimates=make_ie(spec.get("ie")))
    for p in spec["post"]:
        if p[0] == "subs":
            m = m.replace(statements=m.statements.subs(p[1]))
    return m, []


# ---- object -> wire (reads the private fields to_dict reads)

def ser(e):
    return e.serialize()


class Unwireable(TypeError):
    pass


def opt(x):
    return "none" if x is None else ["some", x]


def w_json(v):
    if v is None:
        return "null"
    if v is True or v is False:
        return bool(v)
    if isinstance(v, int):
        return ["i", int(v)]
    if isinstance(v, float):
        return ["f", float.__repr__(float(v))]
    if isinstance(v, str):
        return ["s", v]
    if isinstance(v, (list, tuple)):
        return ["a"] + [w_json(x) for x in v]
    if isinstance(v, dict) or hasattr(v, "items"):
        return ["o"] + [[_jkey(k), w_json(x)] for k, x in v.items()]
    raise Unwireable(f"not JSON: {type(v).__name__}")


def _jkey(k):
    if isinstance(k, str):
        return k
    if k is True:
        return "true"
    if k is False:
        return "false"
    if k is None:
        return "null"
    if isinstance(k, int):
        return str(k)
    if isinstance(k, float):
        return float.__repr__(k)
    raise TypeError("key")


def w_dose(d):
    if isinstance(d, PM.Bolus):
        return ["bolus", ser(d._amount), d._admid]
    return ["infusion", ser(d._amount), d._admid, opt(None if d._rate is None else ser(d._rate)),
            opt(None if d._duration is None else ser(d._duration))]


def w_comp(c):
    return ["comp", c._name, ser(c._amount), [w_dose(d) for d in c._doses], ser(c._input), ser(c._lag_time),
            ser(c._bioavailability)]


def w_node(n):
    return "output" if isinstance(n, PM.statements.Output) else w_comp(n)


def w_graph(g):
    return [[w_node(u), [[w_node(v), ser(dd["rate"])] for v, dd in nbrs.items()]] for u, nbrs in g._adj.items()]


def w_stmt(s):
    if isinstance(s, PM.Assignment):
        return ["assign", ser(s._symbol), ser(s._expression)]
    return ["ode", w_graph(s._g), ser(s._t)]


def w_param(p):
    return ["param", p._name, w_json(p._init), w_json(p._lower), w_json(p._upper), bool(p._fix)]


def w_level(l):
    return ["level", l._name, bool(l._reference), opt(l._group)]


def w_dist(d):
    if isinstance(d, PM.NormalDistribution):
        return ["normal", d._name, d._level, ser(d._mean), ser(d._variance)]
    return ["joint", list(d._names), d._level, ser(d._mean), ser(d._variance)]


def w_rvs(r):
    return ["rvs", [w_dist(d) for d in r._dists], [w_level(l) for l in r._eta_levels._levels],
            [w_level(l) for l in r._epsilon_levels._levels]]


def w_step(s):
    tail = [w_json(s._solver), w_json(s._solver_rtol), w_json(s._solver_atol), w_json(dict(s._tool_options))]
    if isinstance(s, PM.EstimationStep):
        # a derivative is a tuple of symbols; an entry that is itself a str (what the pre-118f2d1 from_dict left
        # there) is wired as its characters, which is what iterating it yields
        ders = [[str(a) for a in d] for d in s._derivatives]
        return ["est", w_json(s._method), w_json(s._interaction), w_json(s._parameter_uncertainty_method),
                w_json(s._evaluation), w_json(s._maximum_evaluations), w_json(s._laplace), w_json(s._isample),
                w_json(s._niter), w_json(s._auto), w_json(s._keep_every_nth_iter), ders, w_json(s._predictions),
                w_json(s._residuals), w_json(s._individual_eta_samples)] + tail
    return ["sim", w_json(s._n), w_json(s._seed)] + tail


def w_col(c):
    return ["col", w_json(c._name), w_json(c._type), w_json(c._scale), w_json(c._continuous), w_json(c._categories),
            str(c._unit), w_json(c._datatype), w_json(c._drop), w_json(c._descriptor)]


def w_di(di):
    return ["di", [w_col(c) for c in di._columns], opt(None if di._path is None else str(di._path)),
            w_json(di._separator), w_json(di._missing_data_token)]


def w_ie(ie):
    """The frame as the object holds it: labels, column names and rows of cells by exact repr (no pandas export)."""
    if ie is None:
        return "none"
    return ["ie", [w_json(_py(k)) for k in ie.index], [str(c) for c in ie.columns],
            [[w_json(_py(ie.iloc[i, j])) for j in range(len(ie.columns))] for i in range(len(ie.index))]]


def _py(x):
    """numpy scalar -> Python scalar of the same value (what DataFrame.to_dict() boxes to)"""
    return x.item() if hasattr(x, "item") else x


def w_model(m):
    ie = m._initial_individual_estimates
    return ["model", m.name, m.description, [w_param(p) for p in m._parameters], w_rvs(m._random_variables),
            [w_stmt(s) for s in m._statements], [w_step(s) for s in m._execution_steps], w_di(m._datainfo),
            w_json(m._value_type), w_json({str(k): v for k, v in m._dependent_variables.items()}),
            [[ser(k), ser(v)] for k, v in m._observation_transformation.items()],
            w_ie(ie)]


def dumps(d):
    return json.dumps(d)


def norm_tl(x):
    """tuple -> list (JSON has one array type)"""
    if isinstance(x, (list, tuple)):
        return [norm_tl(y) for y in x]
    if isinstance(x, dict):
        return {k: norm_tl(v) for k, v in x.items()}
    return x


def nonstr_keys(x):
    if isinstance(x, dict):
        return any(not isinstance(k, str) for k in x) or any(nonstr_keys(v) for v in x.values())
    if isinstance(x, (list, tuple)):
        return any(nonstr_keys(v) for v in x)
    return False


def fhex(x):
    return float(x).hex()


def float_leaves(x):
    """All float leaves of a Python value tree (dict / Mapping / list / tuple), bools and ints excluded."""
    if isinstance(x, float):
        yield float(x)
    elif isinstance(x, dict) or (hasattr(x, "items") and hasattr(x, "keys")):
        for v in x.values():
            yield from float_leaves(v)
    elif isinstance(x, (list, tuple)):
        for v in x:
            yield from float_leaves(v)


def object_leaves(m):
    """The float leaves the model object holds, per section of to_dict (read from the private fields)."""
    ie = m._initial_individual_estimates
    return {
        "parameters": sorted(fhex(x) for p in m._parameters for x in float_leaves(list(p.__dict__.values()))),
        "execution_steps": sorted(fhex(x) for st in m._execution_steps for x in float_leaves(list(st.__dict__.values()))),
        "datainfo": sorted(fhex(x) for c in m._datainfo for x in float_leaves(list(c.__dict__.values()))),
        "initial_individual_estimates": [] if ie is None else sorted(
            fhex(v) for c in ie.columns for v in (_py(x) for x in ie[c]) if isinstance(v, float)),
    }


def dict_leaves(d):
    return {k: sorted(fhex(x) for x in float_leaves(d.get(k))) for k in
            ("parameters", "execution_steps", "datainfo", "initial_individual_estimates")}


def leaf_diff(a, b):
    out = []
    for k in a:
        if a[k] != b[k]:
            only_a = [float.fromhex(h) for h in a[k] if h not in b[k]][:3]
            only_b = [float.fromhex(h) for h in b[k] if h not in a[k]][:3]
            out.append(f"{k}: {only_a!r} became {only_b!r}" if only_a or only_b else f"{k}: multiplicities differ")
    return "; ".join(out)


def rekey_ie(jd, m):
    """JSON turned the index labels of initial_individual_estimates into strings; put the original labels back."""
    ie = jd.get("initial_individual_estimates") if isinstance(jd, dict) else None
    orig = m._initial_individual_estimates
    if not isinstance(ie, dict) or orig is None:
        return jd
    back = {_jkey(_py(k)): _py(k) for k in orig.index}
    jd = dict(jd)
    jd["initial_individual_estimates"] = {c: ({back.get(k, k): v for k, v in col.items()} if isinstance(col, dict) else col)
                                          for c, col in ie.items()}
    return jd


def retuple_model_dict(jd):
    """Put tuples back where the objects hold tuples and from_dict passes the value through."""
    jd = copy.deepcopy(jd)
    for s in jd.get("execution_steps", {}).get("steps", []):
        for k in ("residuals", "predictions", "derivatives"):   # derivatives: rebuilt by from_dict since 118f2d1, harmless
            if isinstance(s.get(k), list):
                s[k] = tuple(s[k])
    for c in jd.get("datainfo", {}).get("columns", []):
        if isinstance(c.get("categories"), list):
            c["categories"] = tuple(c["categories"])
    for d in jd.get("random_variables", {}).get("dists", []):
        if isinstance(d.get("names"), list):
            d["names"] = tuple(d["names"])
    return jd


def retuple(name, jd):
    wrap = {"steps": "execution_steps", "datainfo": "datainfo", "rvs": "random_variables"}
    if name == "model":
        return retuple_model_dict(jd)
    if name in wrap:
        return retuple_model_dict({wrap[name]: jd})[wrap[name]]
    return jd


def canon_cs_dict(d):
    """Compartmental-system dict with compartments sorted (output first, then name) and edges remapped+sorted."""
    comps = d["compartments"]
    keyf = lambda i: (0, "") if comps[i].get("class") == "Output" else (1, comps[i].get("name", ""))
    order = sorted(range(len(comps)), key=keyf)
    pos = {old: new for new, old in enumerate(order)}
    out = dict(d)
    out["compartments"] = [comps[i] for i in order]
    out["rates"] = sorted([[pos[a], pos[b], r] for a, b, r in d["rates"]])
    return out


def canon_model_dict(d):
    d = norm_tl(d)
    for s in d["statements"]["statements"]:
        if s.get("class") == "CompartmentalSystem":
            s.update(canon_cs_dict(s))
    return d


class _Recorder:
    """Stands in for hashlib inside pharmpy.workflows.hashing: records the update() arguments."""
    last = None

    def __init__(self):
        self.chunks = []
        self.h = hashlib.sha256()
        _Recorder.last = self

    def update(self, b):
        self.chunks.append(bytes(b))
        self.h.update(b)

    def digest(self):
        return self.h.digest()


class _FakeHashlib:
    sha256 = _Recorder


def model_hash_with_chunks(m):
    real = hashing.hashlib
    hashing.hashlib = _FakeHashlib
    try:
        h = str(ModelHash(m))
        chunks = _Recorder.last.chunks
    finally:
        hashing.hashlib = real
    return h, chunks


def safe_hash(m, mon, what):
    """str(ModelHash(m)); an exception of the real code is a monitor failure, never a harness error."""
    try:
        return str(ModelHash(m))
    except Exception as e:
        mon.append({"cls": "hash-raises", "what": f"ModelHash({what}) raised {type(e).__name__}: {str(e)[:200]}"})
        return None


DERIVE_OPS = ["assign", "arith", "replace", "where", "mask-reset", "mask-drop", "astype-roundtrip", "astype-same", "copy"]


def derive_frame(df, op, col):
    """A frame derived from the SAME DataFrame object; pandas propagates df.attrs to all of them.
    Most are value-only changes (same columns, row count, dtypes); 'copy'/'astype-same' change nothing."""
    v = df[col].iloc[0]
    if op == "assign":
        return df.assign(**{col: df[col] * 1000 + 1})
    if op == "arith":
        return df * 2
    if op == "replace":
        return df.replace({col: {v: 1.0 if v == 0 else -v}})
    if op == "where":
        return df.where(df[col] != v, other=v + 7)
    if op == "mask-reset":
        out = df[df[col] == df[col]].reset_index(drop=True)
        return out.assign(**{col: out[col] + 3})
    if op == "mask-drop":
        return df[df.index != df.index[-1]].reset_index(drop=True)
    if op == "astype-roundtrip":
        return (df + 0.1).astype("float32").astype("float64")
    if op == "astype-same":
        return df.astype(df.dtypes.to_dict())
    if op == "copy":
        return df.copy()
    raise KeyError(op)


def frames_identical(a, b):
    return a.shape == b.shape and a.equals(b) and list(a.dtypes) == list(b.dtypes) and a.index.equals(b.index) \
        and list(a.columns) == list(b.columns)


def fresh_frame(df):
    """An equal-content frame built from scratch (own arrays, no attrs, no link to the original object)."""
    out = pd.DataFrame({c: df[c].to_numpy().copy() for c in df.columns}, index=df.index.copy())
    for c in df.columns:
        if out[c].dtype != df[c].dtype:
            out[c] = out[c].astype(df[c].dtype)
    return out


def history_col(df):
    for c in df.columns:
        if c not in ("ID",) and str(df[c].dtype).startswith("float"):
            return c
    return df.columns[-1]


def mutate_dict(rng, d, kind):
    """A seeded structural mutation of a to_dict() value; returns (description, mutated copy) or None."""
    d = copy.deepcopy(norm_tl(d))
    dicts = []

    def walk(x, path):
        if isinstance(x, dict):
            dicts.append((path, x))
            for k, v in x.items():
                walk(v, path + [k])
        elif isinstance(x, list):
            for i, v in enumerate(x):
                walk(v, path + [i])
    walk(d, [])
    # do not touch pass-through payloads the model carries as opaque JSON
    dicts = [(p, x) for p, x in dicts if not any(k in ("tool_options", "categories", "dependent_variables",
                                                      "observation_transformation", "initial_individual_estimates")
                                                 for k in p)]
    if not dicts:
        return None
    r = rng.random()
    path, tgt = rng.choice(dicts)
    if r < 0.45 and tgt:
        k = rng.choice(list(tgt.keys()))
        del tgt[k]
        return f"drop {path}/{k}", d
    if r < 0.6:
        tgt["zzz_unknown"] = 1
        return f"add unknown key at {path}", d
    if r < 0.75 and "class" in tgt:
        new = rng.choice(["Bolus", "Infusion", "Output", "Compartment", "Assignment", "CompartmentalSystem",
                          "NormalDistribution", "JointNormalDistribution", "EstimationStep", "SimulationStep", "Bogus"])
        tgt["class"] = new
        return f"class at {path} := {new}", d
    if r < 0.9:
        cs = [x for _, x in dicts if x.get("class") == "CompartmentalSystem" and x.get("rates")]
        if cs:
            c = rng.choice(cs)
            e = rng.choice(c["rates"])
            n = len(c["compartments"])
            e[rng.randrange(2)] = rng.choice([-1, -n, -n - 1, n, n + 3, 0])
            return f"edge index -> {e[:2]}", d
    items = list(tgt.items())
    rng.shuffle(items)
    tgt.clear()
    tgt.update(items)
    return f"shuffle keys at {path}", d


FROM = None


def _from_table():
    global FROM
    if FROM is None:
        FROM = {
            "statements": PM.Statements.from_dict, "parameters": PM.Parameters.from_dict,
            "rvs": PM.RandomVariables.from_dict, "steps": PM.ExecutionSteps.from_dict,
            "datainfo": PM.DataInfo.from_dict, "model": PM.Model.from_dict,
            "compsys": PM.CompartmentalSystem.from_dict, "compartment": PM.Compartment.from_dict,
            "bolus": PM.Bolus.from_dict, "infusion": PM.Infusion.from_dict,
            "parameter": PM.Parameter.from_dict, "level": PM.VariabilityLevel.from_dict,
            "hierarchy": PM.VariabilityHierarchy.from_dict,
        }
    return FROM


def real_roundtrip(kind, d):
    try:
        return ["ok", dumps(_from_table()[kind](d).to_dict())]
    except Exception as e:  # any exception of from_dict is the model's `none`
        return ["err", "none", type(e).__name__]


def child_payload(m, spec=None):
    d = m.to_dict()
    out = {"hash": str(ModelHash(m)), "dict": dumps(d)}
    if spec is not None and spec.get("derive") and m.dataset is not None:
        # with history: m (and so its DataFrame object) has just been hashed; derive from that object and hash again
        col = history_col(m.dataset)
        derived = [derive_frame(m.dataset, op, col) for op in spec["derive"]]
        out["hist"] = [str(ModelHash(m.replace(dataset=d2))) for d2 in derived]
        # whether the derived data really differ (v + 1 == v for a huge v, 1000 * 0 == 0, ...)
        out["changed"] = [not frames_identical(d2, m.dataset) for d2 in derived]
        # without history: the same content constructed from scratch, never hashed before
        out["nohist"] = [str(ModelHash(m.replace(dataset=fresh_frame(derive_frame(fresh_frame(m.dataset), op, col)))))
                         for op in spec["derive"]]
    return out


def run_children(specs):
    """Hashes of the same specs computed in fresh interpreters under different PYTHONHASHSEEDs."""
    from harness.common.paths import REPO_SRC, VERIF
    outs, procs = {}, {}
    for hs in HASHSEEDS:     # started together, they are independent interpreters
        env = dict(os.environ)
        env["PYTHONHASHSEED"] = hs
        env["PYTHONPATH"] = f"{VERIF}:{REPO_SRC}"
        procs[hs] = subprocess.Popen([sys.executable, "-m", "harness.corr.c12", "child"], stdin=subprocess.PIPE,
                                     stdout=subprocess.PIPE, stderr=subprocess.PIPE, text=True, env=env, cwd=str(VERIF))
    for hs, p in procs.items():
        try:
            out, err = p.communicate(json.dumps(specs), timeout=900)
        except subprocess.TimeoutExpired:
            for q in procs.values():
                q.kill()
            raise RuntimeError(f"child interpreter (PYTHONHASHSEED={hs}) did not finish")
        if p.returncode != 0:
            raise RuntimeError(f"child interpreter failed (PYTHONHASHSEED={hs}): {err[-800:]}")
        outs[hs] = json.loads(out.strip().splitlines()[-1])
    return outs


def perturbations(rng, spec):
    """(field, changed spec) pairs, each changing exactly one piece of content of a generated spec."""
    out = []

    def mk(field, f):
        s = copy.deepcopy(spec)
        f(s)
        out.append((field, s))
    i = rng.randrange(len(spec["params"]))
    mk("parameter-init", lambda s: s["params"][i].__setitem__(1, s["params"][i][1] * 1.5 if s["params"][i][1] else 0.3))
    mk("parameter-fix", lambda s: s["params"][i].__setitem__(4, not s["params"][i][4]))
    mk("parameter-upper", lambda s: s["params"][i].__setitem__(3, 12345.0))
    mk("parameter-name-order", lambda s: s["params"].reverse())
    j = rng.choice([k for k, st in enumerate(spec["stmts"]) if st[0] == "="])
    mk("statement-expression", lambda s: s["stmts"][j].__setitem__(2, "(" + s["stmts"][j][2] + ") + 1"))
    mk("statement-added", lambda s: s["stmts"].append(["=", "ZZ", "Y + 1"]))
    k = rng.randrange(len(spec["steps"]))
    if spec["steps"][k][0] == "est":
        mk("step-method", lambda s: s["steps"][k].__setitem__(1, "FO" if s["steps"][k][1] != "FO" else "FOCE"))
        mk("step-tool-option", lambda s: s["steps"][k][2].__setitem__("tool_options", {"NITER": 99}))
    else:
        mk("step-sim-n", lambda s: s["steps"][k][1].__setitem__("n", s["steps"][k][1]["n"] + 1))
    mk("step-added", lambda s: s["steps"].append(["est", "FO", {}]))
    r, cidx = rng.randrange(len(spec["data"])), rng.randrange(1, len(spec["cols"]))
    mk("data-cell", lambda s: s["data"][r].__setitem__(cidx, s["data"][r][cidx] + 1))
    mk("data-row-added", lambda s: s["data"].append(list(s["data"][0])))
    mk("column-type", lambda s: s["cols"][-1].__setitem__(1, "unknown" if s["cols"][-1][1] != "unknown" else "covariate"))
    mk("dv-id", lambda s: s["dv"].__setitem__("Y", 2))
    f = rng.randrange(len(spec["flows"]))
    mk("flow-rate", lambda s: s["flows"][f].__setitem__(2, s["flows"][f][2] + "*2"))
    c = rng.randrange(len(spec["comps"]))
    mk("compartment-lag", lambda s: s["comps"][c].__setitem__("lag", s["comps"][c]["lag"] + " + 3"))
    dosed = [k2 for k2, cc in enumerate(spec["comps"]) if cc["doses"]]
    if dosed:
        c2 = rng.choice(dosed)
        mk("dose-admid", lambda s: s["comps"][c2]["doses"][0].__setitem__(2, s["comps"][c2]["doses"][0][2] + 1))
    infs = [(k2, j2) for k2, cc in enumerate(spec["comps"]) for j2, dz in enumerate(cc["doses"]) if dz[0] == "infusion"]
    if infs:
        ci, dj = rng.choice(infs)
        # the same expression as rate instead of duration (or the reverse) is another dose
        mk("dose-rate-vs-duration", lambda s: s["comps"][ci]["doses"][dj].__setitem__(
            3, "duration" if s["comps"][ci]["doses"][dj][3] == "rate" else "rate"))
        mk("dose-value", lambda s: s["comps"][ci]["doses"][dj].__setitem__(4, "(" + s["comps"][ci]["doses"][dj][4] + ") + 1"))
    rv = rng.randrange(len(spec["rvs"]))
    if spec["rvs"][rv][0] == "normal":
        mk("rv-level", lambda s: s["rvs"][rv].__setitem__(2, "RUV" if s["rvs"][rv][2] == "IIV" else "IIV"))
    return out


# ---------------------------------------------------------------- one case

def run_case(case, drv):
    if case["kind"] == "procs":
        return run_procs_case(case)
    rng = random.Random(case["seed"])
    spec = case["spec"]
    k, mon, tags = [], [], []
    try:
        m, applied = build_model(spec)
    except Exception as e:
        return {"tags": [f"spec-refused-{type(e).__name__}"], "nontrivial": False}
    tags.append("kind=" + spec["kind"])
    for t in applied:
        tags.append("tr=" + t)
    cs = m.statements.ode_system
    ncomp = 0 if cs is None else len(cs._g.nodes) - 1
    tags.append(f"compartments={ncomp}")
    nontrivial = ncomp >= 2 or bool(applied)

    try:
        d_model = m.to_dict()
    except Exception as e:
        cls = "to-dict-raises-str-dv-key" if spec.get("dv_str") and isinstance(e, AttributeError) else "to-dict-raises"
        return {"k": [], "mon": [{"cls": cls, "what": f"model.to_dict() raised {type(e).__name__}: {e}"}], "tags": tags + ["to-dict-raises"],
                "nontrivial": nontrivial}
    parts = [("statements", m.statements, PM.Statements), ("parameters", m.parameters, PM.Parameters),
             ("rvs", m.random_variables, PM.RandomVariables), ("steps", m.execution_steps, PM.ExecutionSteps),
             ("datainfo", m.datainfo, PM.DataInfo), ("model", m, PM.Model)]
    try:
        wires = {"statements": [w_stmt(s) for s in m.statements], "parameters": [w_param(p) for p in m.parameters],
                 "rvs": w_rvs(m.random_variables), "steps": [w_step(s) for s in m.execution_steps],
                 "datainfo": w_di(m.datainfo), "model": w_model(m)}
    except Unwireable as e:   # a field holds a non-JSON value: the json monitors below report it; no K possible
        tags.append("unwireable")
        wires, drv = None, None
    has_derivs = any(isinstance(s, PM.EstimationStep) and len(s._derivatives) > 0 for s in m.execution_steps)
    if has_derivs:
        tags.append("derivatives")
    if any(isinstance(d, PM.JointNormalDistribution) for d in m.random_variables._dists):
        tags.append("joint-normal")

    # expressions that are not a fixpoint of symengine -> sympy -> symengine (e.g. 2*(A+B), exp(-(A+B)))
    nonnormal = []
    for st in m.statements:
        if isinstance(st, PM.Assignment):
            for e in (st.symbol, st.expression):
                if Expr(e._sympy_()) != e:
                    nonnormal.append(str(e))
        else:
            # the same for every expression an ODE system holds (flow rates, compartment fields, dose fields: a dose
            # reached by subs may hold e.g. AMT/0.0 = oo*AMT)
            es = [r for _, _, r in st._g.edges.data("rate")]
            for n in st._g.nodes:
                if isinstance(n, PM.Compartment):
                    es += [n._amount, n._input, n._lag_time, n._bioavailability]
                    for dz in n._doses:
                        es += _dose_fields(dz)
            for e in es:
                if Expr(e._sympy_()) != e:
                    nonnormal.append(str(e))
    if nonnormal:
        tags.append("expr-not-sympy-normal")
    backs = {}
    # ---- Mon (b): to_dict is JSON-representable and a fixpoint of dumps/loads
    for name, obj, cls in parts:
        d = obj.to_dict()
        try:
            js = dumps(d)
        except Exception as e:
            mon.append({"cls": "json-not-serialisable", "what": f"json.dumps({name}.to_dict()) raised {type(e).__name__}: {e}"})
            continue
        d_wo_ie = {k: v for k, v in d.items() if k != "initial_individual_estimates"} if name == "model" else d
        if name == "model" and nonstr_keys(d.get("initial_individual_estimates")):
            mon.append({"cls": "json-int-keys-individual-estimates",
                        "what": "model.to_dict()['initial_individual_estimates'] has the (integer) index labels as dict keys; "
                                "json.dumps turns them into strings: json.loads(json.dumps(d)) != d"})
        if nonstr_keys(d_wo_ie) or norm_tl(json.loads(dumps(d_wo_ie))) != norm_tl(d_wo_ie):
            mon.append({"cls": "json-not-fixpoint", "what": f"json.loads(json.dumps(d)) != d for {name}.to_dict()"})
        # ---- K: toDict text
        if drv is not None:
            a = drv.ask(["todict", name, wires[name]])
            if a != ["ok", js]:
                k.append(f"to_dict({name}): model {str(a)[:300]} code {js[:300]}")
        # ---- Mon (a): from_dict(to_dict(x)) == x
        try:
            back = cls.from_dict(d)
            same = back == obj
        except Exception as e:
            mon.append({"cls": "from-dict-raises", "what": f"{cls.__name__}.from_dict(to_dict(x)) raised {type(e).__name__}: {e}"})
            continue
        backs[name] = back
        stable = dumps(back.to_dict()) == js
        if not stable:
            mon.append({"cls": "roundtrip-dict-unstable", "what": f"to_dict(from_dict(to_dict(x))) != to_dict(x) for {name}"})
        if not same:
            explained = False
            if has_derivs and name in ("steps", "model"):
                # only when the derivatives field itself fails to come back (fixed by /repo 118f2d1; kept so that a
                # recurrence is reported under its own class)
                st_b = back if name == "steps" else back.execution_steps
                st_o = m.execution_steps
                if len(st_b) != len(st_o) or any(getattr(a, "_derivatives", None) != getattr(b, "_derivatives", None)
                                                 for a, b in zip(st_o, st_b)):
                    explained = True
                    mon.append({"cls": "roundtrip-derivatives-stringified",
                                "what": f"{cls.__name__}.from_dict(x.to_dict()) != x: EstimationStep.derivatives "
                                        f"{[getattr(a, '_derivatives', None) for a in st_o]} come back as {[getattr(b, '_derivatives', None) for b in st_b]}"})
            if nonnormal and name in ("statements", "model") and stable:
                # the reloaded statements differ from the originals only in symengine's internal form of `nonnormal`
                st_back = back if name == "statements" else back.statements
                if len(st_back) == len(m.statements) and all(
                        a == b or (isinstance(a, PM.Assignment) and isinstance(b, PM.Assignment)
                                   and a.symbol._sympy_() == b.symbol._sympy_() and a.expression._sympy_() == b.expression._sympy_())
                        or (not isinstance(a, PM.Assignment) and not isinstance(b, PM.Assignment) and dumps(a.to_dict()) == dumps(b.to_dict()))
                        for a, b in zip(m.statements, st_back)):
                    explained = True
                    mon.append({"cls": "roundtrip-expr-not-sympy-normal",
                                "what": f"{cls.__name__}.from_dict(x.to_dict()) != x: {nonnormal[0]} is not a fixpoint of symengine->sympy->symengine; "
                                        "srepr/parse_expr returns the distributed form, and Expr.__eq__ is structural"})
            if not explained:
                mon.append({"cls": "roundtrip-not-equal", "what": f"{cls.__name__}.from_dict(x.to_dict()) != x"})
        # ---- Mon (c): going through JSON text adds no further difference
        jd = json.loads(js)
        try:
            viaj = cls.from_dict(jd)
            ok_plain = viaj == back
        except Exception as e:
            ok_plain = None
            mon.append({"cls": "json-reload-raises", "what": f"{cls.__name__}.from_dict(json.loads(json.dumps(d))) raised {type(e).__name__}: {e}"})
        if ok_plain is False:
            try:
                fixed = cls.from_dict(retuple(name, jd)) == back
            except Exception:
                fixed = False
            if not fixed and name == "model" and m._initial_individual_estimates is not None:
                try:
                    fixed2 = cls.from_dict(rekey_ie(retuple(name, jd), m)) == back
                except Exception:
                    fixed2 = False
                if fixed2:
                    mon.append({"cls": "json-int-keys-individual-estimates",
                                "what": "Model.from_dict(json.loads(json.dumps(m.to_dict()))) != m: the index labels of "
                                        "initial_individual_estimates come back as strings ('1' instead of 1)"})
                    fixed = True
            if fixed:
                mon.append({"cls": "json-reload-list-for-tuple",
                            "what": f"{cls.__name__}.from_dict(json.loads(json.dumps(x.to_dict()))) != x only because JSON arrays "
                                    "stay lists in tuple-valued fields (residuals/predictions, categories, names)"})
            else:
                mon.append({"cls": "json-reload-differs", "what": f"{cls.__name__} reloaded from JSON text differs from the object reloaded from the dict beyond list/tuple"})
        tags.append("q:" + name)

    # generic model code -> parse back (the property's second sentence); same class analysis as above
    if "model" in backs:
        try:
            g2 = parse_generic(m.code)
            if not (g2 == backs["model"]):
                ok = PM.Model.from_dict(rekey_ie(retuple_model_dict(json.loads(dumps(d_model))), m)) == backs["model"]
                mon.append({"cls": "json-reload-list-for-tuple" if ok else "json-reload-differs",
                            "what": "parse_model(model.code) != model" + (" (list-for-tuple fields only)" if ok else "")})
        except Exception as e:
            mon.append({"cls": "json-reload-raises", "what": f"parse_model(model.code) raised {type(e).__name__}: {e}"})

    # ---- numeric leaves: to_dict, json text and from_dict must preserve every float bit for bit
    obj_leaves = object_leaves(m)
    n_leaves = sum(len(v) for v in obj_leaves.values())
    tags.append("float-leaves=" + ("0" if n_leaves == 0 else "1-9" if n_leaves < 10 else "10-29" if n_leaves < 30 else "30+"))
    if m._initial_individual_estimates is not None:
        tags.append("has-individual-estimates")
    diff = leaf_diff(obj_leaves, dict_leaves(d_model))
    if diff:
        mon.append({"cls": "float-leaf-changed-in-to-dict", "what": f"to_dict() does not hold the model's floats exactly: {diff}"})
    else:
        try:
            diff = leaf_diff(obj_leaves, dict_leaves(json.loads(dumps(d_model))))
        except Exception:
            diff = ""
        if diff:
            mon.append({"cls": "float-leaf-changed-in-json", "what": f"json.loads(json.dumps(to_dict())) changes floats: {diff}"})
    if "model" in backs:
        diff = leaf_diff(obj_leaves, object_leaves(backs["model"]))
        if diff:
            mon.append({"cls": "roundtrip-float-leaf-changed", "what": f"from_dict(to_dict(m)) holds different floats: {diff}"})
    if drv is not None:
        seen = sorted({h for v in obj_leaves.values() for h in v})[:60]
        for h in seen:
            x = float.fromhex(h)
            a = drv.ask(["leaf", float.__repr__(x)])
            text = json.dumps(x)
            if a != ["ok", text]:
                k.append(f"numeric leaf encoder: model {a} code {text!r}")
            if x == x and float(json.loads(text)).hex() != h:
                k.append(f"numeric leaf encoder is not injective: {x!r} -> {text} -> {json.loads(text)!r}")
        tags.append("q:leaf")

    # ---- Mon (d): the codec law on every expression of the statements
    try:
        n_expr = 0
        for s in m.statements:
            es = [s.symbol, s.expression] if isinstance(s, PM.Assignment) else [r for _, _, r in s._g.edges.data("rate")]
            for e in es:
                n_expr += 1
                t = e.serialize()
                e2 = Expr.deserialize(t)
                if e2.serialize() != t or (e2 != e and e2._sympy_() != e._sympy_()):
                    mon.append({"cls": "srepr-roundtrip", "what": f"Expr.deserialize(serialize(e)) != e for {t}"})
                    break
        for dist in m.random_variables._dists:
            if isinstance(dist, PM.JointNormalDistribution):
                t = dist._variance.serialize()
                if Matrix.deserialize(t) != dist._variance or Matrix.deserialize(t).serialize() != t:
                    mon.append({"cls": "srepr-roundtrip", "what": f"Matrix.deserialize(serialize(m)) != m for {t}"})
        for col in m.datainfo:
            if PM.datainfo.Unit.deserialize(str(col.unit)) != col.unit:
                mon.append({"cls": "unit-roundtrip", "what": f"Unit(str(u)) != u for {col.unit}"})
    except Exception as e:
        mon.append({"cls": "codec-raises", "what": f"serialize/deserialize raised {type(e).__name__}: {str(e)[:200]}"})

    # ---- K: from_dict on the real dicts and seeded mutations of them
    if drv is not None:
        rt_inputs = [(name, obj.to_dict()) for name, obj, _ in parts]
        if cs is not None:
            rt_inputs.append(("compsys", cs.to_dict()))
            for n in cs._g.nodes:
                if isinstance(n, PM.Compartment):
                    rt_inputs.append(("compartment", n.to_dict()))
                    for dose in n._doses:
                        rt_inputs.append(("bolus" if isinstance(dose, PM.Bolus) else "infusion", dose.to_dict()))
        for p in list(m.parameters)[:2]:
            rt_inputs.append(("parameter", p.to_dict()))
        rt_inputs.append(("hierarchy", m.random_variables._eta_levels.to_dict()))
        muts = []
        for name, d in rt_inputs:
            for _ in range(2 if name in ("model", "statements", "compsys", "steps") else 1):
                mu = mutate_dict(rng, d, name)
                if mu is not None:
                    muts.append((name, mu[0], mu[1]))
        default_token_ok = conf.missing_data_token == "-99"
        for name, what, d in [(n, "unchanged", norm_tl(d)) for n, d in rt_inputs] + muts:
            if not default_token_ok and "missing_data_token" in what:
                continue
            try:
                wire = w_json(d)
            except TypeError:
                continue
            code = real_roundtrip(name, d)
            a = drv.ask(["roundtrip", name, wire])
            if a[:2] != code[:2]:
                k.append(f"from_dict[{name}; {what}]: model {str(a)[:200]} code {str(code)[:200]}")
            tags.append("rt:" + ("unchanged" if what == "unchanged" else what.split(" ")[0]) + ":" + code[0])
        # model-vs-spec sanity of the round-trip theorems on this case (can only fail if a theorem statement is wrong)
        for kind in ("statements", "rvs"):
            a = drv.ask(["rteq", kind, wires[kind]])
            if a != "true":
                k.append(f"model fromDict(toDict x) = some x fails on this {kind}: {a}")

    # ---- doses: every dose of the model and doses reached from them by create / subs
    dose_checks(m, rng, drv, k, mon, tags)

    # ---- K: builder op sequence vs the ordered-graph model
    if spec["kind"] == "gen" and drv is not None:
        comps = make_comps(spec)
        ops = build_graph_ops(spec)
        real = PM.CompartmentalSystem(run_builder(ops, comps))
        wn = lambda i: "output" if i == -1 else w_comp(comps[i])
        wops = []
        for op in ops:
            if op[0] in ("addc", "rmc"):
                wops.append([op[0], wn(op[1])])
            elif op[0] == "addflow":
                wops.append(["addflow", wn(op[1]), wn(op[2]), Expr(op[3]).serialize()])
            else:
                wops.append(["rmflow", wn(op[1]), wn(op[2])])
        a = drv.ask(["build", wops, ser(real._t)])
        if a != ["ok", dumps(real.to_dict())]:
            k.append(f"builder ops {ops}: model {str(a)[:300]} code {dumps(real.to_dict())[:300]}")
        for op in ops:
            tags.append("op:" + op[0])

    # ---- hash monitors
    if m.dataset is None:
        return {"k": k, "mon": mon, "tags": tags, "nontrivial": nontrivial}
    try:
        h0, chunks = model_hash_with_chunks(m)
    except Exception as e:
        mon.append({"cls": "hash-raises", "what": f"ModelHash(model) raised {type(e).__name__}: {str(e)[:200]}"})
        return {"k": k, "mon": mon, "tags": tags, "nontrivial": nontrivial}
    df = m.dataset
    if cs is not None and not isinstance(list(cs._g.nodes)[0], PM.statements.Output):
        tags.append("output-not-first")
    if drv is not None:
        # the byte stream fed to sha256 (chunk boundaries are not observable); row digests computed here, independently
        rows = [int(v) for v in pd.util.hash_pandas_object(df, index=False, encoding="utf8", hash_key="0123456789123456",
                                                           categorize=True)]
        dsw = ["dataset", rows, repr(list(df.columns)), repr(df.index), repr(list(df.dtypes))]
        a = drv.ask(["encode", dsw, w_model(m)])
        try:
            stream_model = b"".join(int(c[1]).to_bytes(8, "big") if c[0] == "row" else c[1].encode("utf-8") for c in a)
        except Exception:
            stream_model = None
        stream_code = b"".join(bytes(c) for c in chunks)
        if stream_model != stream_code:
            n = next((i for i, (x, y) in enumerate(zip(stream_model or b"", stream_code)) if x != y), None)
            k.append(f"ModelHash pre-image: byte streams differ (model {len(stream_model or b'')} bytes, code {len(stream_code)} bytes, "
                     f"first difference at {n}; {len(df)} rows)")
        tags.append("q:encode")
    # metadata must not matter
    try:
        variants = [("name", m.replace(name="another name")), ("description", m.replace(description="changed text")),
                    ("path", m.replace(datainfo=m.datainfo.replace(path="/some/where/else.csv")))]
    except Exception as e:
        variants = []
        mon.append({"cls": "replace-raises", "what": f"model.replace(name/description/path) raised {type(e).__name__}: {str(e)[:200]}"})
    for what, m2 in variants:
        h = safe_hash(m2, mon, "model with another " + what)
        if h is not None and h != h0:
            mon.append({"cls": "hash-depends-on-metadata", "what": f"ModelHash changes when only the {what} changes"})
    # int-valued and float-valued parameter fields are == but serialise differently
    if any(isinstance(x, int) and not isinstance(x, bool) for p in m.parameters for x in (p._init, p._lower, p._upper)):
        tags.append("int-parameter-field")
        try:
            pf = PM.Parameters(tuple(PM.Parameter(p._name, float(p._init), float(p._lower), float(p._upper), p._fix) for p in m.parameters))
            m2 = m.replace(parameters=pf)
            h = safe_hash(m2, mon, "model with float parameter fields") if m2 == m else None
        except Exception:
            h = None
        if h is not None and h != h0:
            mon.append({"cls": "hash-int-vs-float-parameter",
                        "what": "two == models differing only in int vs float spelling of a parameter bound/init (e.g. lower=-1 from add_covariate_effect vs -1.0) have different ModelHash"})
    # reload must not matter
    try:
        m3 = PM.Model.from_dict(d_model).replace(dataset=m.dataset)
        same3 = bool(m3 == m)
    except Exception:
        same3 = False
    if same3:
        h = safe_hash(m3, mon, "from_dict(to_dict(model))")
        if h is not None and h != h0:
            mon.append({"cls": "hash-changes-after-roundtrip", "what": "ModelHash(from_dict(to_dict(m))) != ModelHash(m) although the models are =="})
    # ---- construction-order independence: content-equal objects built along different orders must be equal objects
    #      with equal to_dict and equal keys
    construction_order_checks(m, h0, rng, drv, k, mon, tags)

    # ---- one unit in the last place of one float leaf is a different model: the key must change
    ulps = []
    ps = list(m.parameters)
    cand = [i for i, p in enumerate(ps) if isinstance(p._init, float) and math.isfinite(p._init)]
    if cand:
        i = rng.choice(cand)
        p = ps[i]
        for nv in (math.nextafter(p._init, math.inf), math.nextafter(p._init, -math.inf)):
            if p._lower <= nv <= p._upper:
                ps2 = ps[:i] + [PM.Parameter(p._name, nv, p._lower, p._upper, p._fix)] + ps[i + 1:]
                ulps.append((f"parameter-init {p._name} {p._init!r} -> {nv!r}", lambda ps2=ps2: m.replace(parameters=PM.Parameters(tuple(ps2)))))
                break
    ie0 = m._initial_individual_estimates
    if ie0 is not None and len(ie0.index) and len(ie0.columns):
        r_, c_ = rng.randrange(len(ie0.index)), rng.randrange(len(ie0.columns))
        v = _py(ie0.iloc[r_, c_])
        if isinstance(v, float) and math.isfinite(v):
            nv = math.nextafter(v, math.inf)
            ie2 = ie0.copy()
            ie2.iloc[r_, c_] = nv
            ulps.append((f"individual-estimate [{r_},{c_}] {v!r} -> {nv!r}", lambda ie2=ie2: m.replace(initial_individual_estimates=ie2)))
    fcols = [c for c in df.columns if str(df[c].dtype) == "float64"]
    if fcols and len(df):
        c_, r_ = rng.choice(fcols), rng.randrange(len(df))
        v = float(df[c_].iloc[r_])
        if math.isfinite(v):
            nv = math.nextafter(v, math.inf)
            df2 = fresh_frame(df)
            df2.iloc[r_, df2.columns.get_loc(c_)] = nv
            ulps.append((f"data-cell [{r_},{c_}] {v!r} -> {nv!r}", lambda df2=df2: m.replace(dataset=df2)))
    for what, mk in ulps:
        kind = what.split(" ")[0]
        try:
            m2 = mk()
            differs = not (m2 == m) or not m2.dataset.equals(m.dataset)
        except Exception as e:
            tags.append(f"ulp-refused:{kind}:{type(e).__name__}")
            continue
        if not differs:
            tags.append("ulp-equal:" + kind)
            continue
        tags.append("ulp:" + kind)
        h = safe_hash(m2, mon, "model with one float changed by one ulp")
        if h is not None and h == h0:
            mon.append({"cls": "hash-collision-ulp-" + kind, "what": f"ModelHash unchanged although the models differ: {what}"})

    # ---- the key must be a function of the dataset's content, not of the DataFrame object's history:
    #      `df` has just been hashed; derive new frames from this very object (pandas propagates df.attrs and may share
    #      buffers), hash the derived model in this process, compare with an equal-content model built from scratch
    col = history_col(df)
    for op in rng.sample(DERIVE_OPS, 4):
        try:
            df2 = derive_frame(df, op, col)
            dfresh = fresh_frame(df2)
            m2, mf = m.replace(dataset=df2), m.replace(dataset=dfresh)
        except Exception as e:
            tags.append(f"derive-refused:{op}:{type(e).__name__}")
            continue
        if not dfresh.equals(df2) or list(dfresh.dtypes) != list(df2.dtypes):
            tags.append("derive-fresh-copy-inexact:" + op)
            continue
        tags.append("derive:" + op)
        hd = safe_hash(m2, mon, f"model with dataset derived by {op}")
        hf = safe_hash(mf, mon, "model with a freshly built dataset")
        if hd is None or hf is None:
            continue
        unchanged = frames_identical(df2, df)
        if hd != hf:
            mon.append({"cls": "hash-depends-on-dataset-history",
                        "what": f"after ModelHash(m), the model whose dataset is derived from the same DataFrame by '{op}' on column {col} "
                                f"hashes to {hd}, an equal-content model with a freshly built DataFrame to {hf}"})
        if not unchanged and hd == h0:
            mon.append({"cls": "hash-collision-derived-dataset",
                        "what": f"dataset derived by '{op}' on column {col} (different data) has the ModelHash of the original"})
        if unchanged and hf != h0:
            mon.append({"cls": "hash-differs-for-equal-dataset",
                        "what": f"an equal-content dataset ('{op}') in a new DataFrame object changes the ModelHash"})
    if spec["kind"] == "gen":
        # single-field perturbations must change the hash
        perts = perturbations(rng, spec)
        dose_perts = [pp for pp in perts if pp[0] in ("dose-rate-vs-duration", "dose-value")]
        other_perts = [pp for pp in perts if pp[0] not in ("dose-rate-vs-duration", "dose-value")]
        for field, s2 in rng.sample(other_perts, min(5, len(other_perts))) + dose_perts[:1 + rng.randrange(2)] * 1:
            try:
                m2, _ = build_model(s2)
            except Exception:
                tags.append("perturbation-refused:" + field)
                continue
            try:
                noop = bool(m2 == m) and m2.dataset.equals(m.dataset)     # pharmpy's own equality, not the dict
            except Exception:
                noop = False
            if noop:
                tags.append("perturbation-noop:" + field)
                continue
            tags.append("perturb:" + field)
            if safe_hash(m2, mon, "perturbed model") == h0:
                mon.append({"cls": "hash-collision-" + field, "what": f"ModelHash unchanged although {field} differs"})
        # another construction order of the same content
        if ncomp >= 2:
            s2 = copy.deepcopy(spec)
            s2["order"] = list(reversed(spec["order"]))
            s2["flows"] = list(reversed(spec["flows"]))
            try:
                m2, _ = build_model(s2)
            except Exception:
                m2 = None
            if m2 is not None:
                try:
                    eq = bool(m2 == m)
                except Exception:
                    eq = False
                if eq:
                    tags.append("order-variant-equal")
                    h2 = safe_hash(m2, mon, "order variant")
                    if h2 is not None and h2 != h0:
                        if canon_model_dict(m2.to_dict()) == canon_model_dict(d_model):
                            mon.append({"cls": "hash-noncanonical-node-order",
                                        "what": "two == models whose compartments/flows were added in different order have different ModelHash (to_dict emits networkx insertion order)"})
                        else:
                            mon.append({"cls": "hash-differs-for-equal-models", "what": "two == models with the same dataset have different ModelHash (not explained by compartment order)"})
                    # the repaired encoding of the model must not see the difference (run-time sanity of encode_repaired_canonical)
                    if drv is not None:
                        c1, c2 = m.statements.ode_system, m2.statements.ode_system
                        a1 = drv.ask(["canon", w_graph(c1._g), ser(c1._t)])
                        a2 = drv.ask(["canon", w_graph(c2._g), ser(c2._t)])
                        if a1 != a2:
                            k.append("canonical (repaired) to_dict differs for two == systems")
                else:
                    tags.append("order-variant-not-equal")
    return {"k": k, "mon": mon, "tags": tags, "nontrivial": nontrivial}


def _dose_tag(x):
    if isinstance(x, PM.Bolus):
        return "bolus-zero-amount" if x._amount == 0 else "bolus"
    which, v = ("rate", x._rate) if x._rate is not None else ("duration", x._duration)
    if v is None:
        return "infusion-neither"
    kind = "zero" if v == 0 else "float-zero" if str(v) in ("0.0", "-0.0") else "number" if not v.free_symbols else "symbolic"
    return f"infusion-{which}-{kind}"


def _dose_fields(x):
    return [e for e in (x._amount, getattr(x, "_rate", None), getattr(x, "_duration", None)) if e is not None]


def dose_checks(m, rng, drv, k, mon, tags):
    """Property clause: every component generated *or reachable by transformations* goes to a dict and back to an
    equal object, and different components have different dicts (else different statements share a key).
    Components here: the doses of the model, the doses reached from them by Dose.subs (a symbol of the dose becomes
    0, 1, 0.0, another symbol, an expression), by Infusion.create on the same fields with rate and duration
    exchanged, and the Compartment holding each of them."""
    cs = m.statements.ode_system
    if cs is None:
        return
    base = []
    for n in cs._g.nodes:
        if isinstance(n, PM.Compartment):
            for x in n._doses:
                base.append((n, x, "model"))
    if not base:
        return
    reached = []
    for comp, x, _ in base:
        fs = sorted(x.free_symbols, key=str)
        vals = rng.sample(DOSE_SUBS_VALUES + ["0"], 2) + ["0"]
        for val in dict.fromkeys(vals):
            for sym in ([rng.choice(fs)] if fs else []) + ([fs[-1]] if fs else []):
                sub = {sym: Expr(val)}
                try:
                    y = x.subs(sub)
                except Exception as e:
                    tags.append(f"dose-subs-refused:{type(e).__name__}")
                    continue
                reached.append((comp, y, f"{x!r}.subs({{{sym}: {val}}})"))
                # K: the structure of Dose.subs (which fields are mapped, which of rate/duration stays) vs the model
                if drv is not None:
                    table = [[ser(e), ser(e.subs(sub))] for e in _dose_fields(x)]
                    a = drv.ask(["dosesubs", w_dose(x), table])
                    want = ["ok", dumps(y.to_dict())]
                    if a != want:
                        k.append(f"Dose.subs: {x!r}.subs({{{sym}: {val}}}): model {str(a)[:200]} code {want[1][:200]}")
                    tags.append("q:dosesubs")
        if isinstance(x, PM.Infusion):
            v = x._rate if x._rate is not None else x._duration
            try:
                y = PM.Infusion.create(x._amount, admid=x._admid, **({"duration": v} if x._rate is not None else {"rate": v}))
                reached.append((comp, y, f"Infusion.create with rate and duration of {x!r} exchanged"))
            except Exception as e:
                tags.append(f"dose-create-refused:{type(e).__name__}")
    # K: Infusion.create (exactly one of rate / duration; fields stored as given)
    if drv is not None:
        for comp, x, _ in base[:2]:
            pool = [e for e in _dose_fields(x)] + [Expr.integer(0), Expr.integer(1)]
            for _ in range(3):
                r = rng.choice([None, rng.choice(pool)])
                d = rng.choice([None, rng.choice(pool)])
                try:
                    code = ["ok", dumps(PM.Infusion.create(x._amount, admid=x._admid, rate=r, duration=d).to_dict())]
                except ValueError:
                    code = ["err", "ValueError"]
                a = drv.ask(["infcreate", ser(x._amount), x._admid, opt(None if r is None else ser(r)), opt(None if d is None else ser(d))])
                if a != code:
                    k.append(f"Infusion.create(rate={r}, duration={d}): model {str(a)[:200]} code {str(code)[:200]}")
                tags.append("q:infcreate:" + code[0])
    seen = {}
    for comp, x, how in base + reached:
        tags.append("dose:" + ("model:" if how == "model" else "reached:") + _dose_tag(x))
        where = "" if how == "model" else f" (reached by {how})"
        nonnormal = any(Expr(e._sympy_()) != e for e in _dose_fields(x))
        try:
            d = x.to_dict()
            js = dumps(d)
        except Exception as e:
            mon.append({"cls": "dose-to-dict-raises", "what": f"{x!r}.to_dict() raised {type(e).__name__}: {e}{where}"})
            continue
        if norm_tl(json.loads(js)) != norm_tl(d):
            mon.append({"cls": "json-not-fixpoint", "what": f"json.loads(json.dumps(d)) != d for the dose {x!r}{where}"})
        if drv is not None:
            a = drv.ask(["todict", "dose", w_dose(x)])
            if a != ["ok", js]:
                k.append(f"to_dict(dose {x!r}): model {str(a)[:200]} code {js[:200]}")
            a = drv.ask(["rteq", "dose", w_dose(x)])
            if a != "true":
                k.append(f"model fromDict(toDict x) = some x fails on the dose {x!r}: {a}")
        for via, dd in (("to_dict", d), ("JSON text", json.loads(js))):
            try:
                back = type(x).from_dict(dd)
            except Exception as e:
                mon.append({"cls": "dose-from-dict-raises",
                            "what": f"{type(x).__name__}.from_dict({via} of {x!r}) raised {type(e).__name__}: {e}{where}"})
                break
            if not (back == x):
                if nonnormal:
                    mon.append({"cls": "roundtrip-expr-not-sympy-normal",
                                "what": f"{type(x).__name__}.from_dict(x.to_dict()) != x for {x!r}: a field is not a fixpoint of symengine->sympy->symengine"})
                else:
                    mon.append({"cls": "dose-roundtrip-not-equal",
                                "what": f"{type(x).__name__}.from_dict({via} of x) != x for x = {x!r}{where}: came back as {back!r} "
                                        f"(rate={getattr(back, 'rate', None)!r}, duration={getattr(back, 'duration', None)!r})"})
                break
        # the compartment holding the dose
        if not nonnormal:
            try:
                c2 = comp.replace(doses=(x,))
                cb = PM.Compartment.from_dict(json.loads(dumps(c2.to_dict())))
                if not (cb == c2) and PM.Compartment.from_dict(json.loads(dumps(comp.replace(doses=()).to_dict()))) == comp.replace(doses=()):
                    mon.append({"cls": "compartment-roundtrip-not-equal",
                                "what": f"Compartment.from_dict(to_dict(c)) != c for compartment {comp.name} with the dose {x!r}{where}"})
            except Exception as e:
                mon.append({"cls": "dose-from-dict-raises", "what": f"Compartment round trip with dose {x!r} raised {type(e).__name__}: {e}{where}"})
        # different doses, different dicts
        if nonnormal:
            continue      # a field holding nan/zoo is not equal to itself (known class roundtrip-expr-not-sympy-normal): no identity to compare
        for js2, (y, how2) in seen.items():
            if js2 == js and not (y == x):
                mon.append({"cls": "dose-to-dict-collision",
                            "what": f"the different doses {x!r}{where} and {y!r}" + ("" if how2 == "model" else f" (reached by {how2})")
                                    + f" have the same to_dict {js}; statements holding them get the same ModelHash"})
        seen.setdefault(js, (x, how))


def _names(ders):
    return [[str(a) for a in d] for d in ders]


def _canon_repaired(ders):
    return sorted(tuple(sorted(d)) for d in ders)


def _has_ties(ders):
    firsts = [sorted(d)[0] for d in ders if d]
    return len(firsts) != len(set(firsts))


def _float_params(d):
    """to_dict with init/lower/upper of every parameter spelled as float (1 -> 1.0)"""
    d = copy.deepcopy(d)
    for p in d["parameters"]["parameters"]:
        for f in ("init", "lower", "upper"):
            if isinstance(p[f], int) and not isinstance(p[f], bool):
                p[f] = float(p[f])
    return d


def construction_order_checks(m, h0, rng, drv, k, mon, tags):
    S = Expr.symbol
    rvnames = list(m.random_variables.names)
    # -- a seeded derivative request: 1-4 derivatives of order 1-3, arguments and list in seeded order
    req = []
    for _ in range(rng.randint(1, 4)):
        d = rng.sample(rvnames, min(len(rvnames), rng.choice([1, 1, 2, 2, 3])))
        if sorted(d) not in [sorted(x) for x in req]:
            req.append(d)
    inner = [rng.sample(d, len(d)) for d in req]
    if inner == req and any(len(d) > 1 for d in req):
        inner = [list(reversed(d)) for d in req]
    outer = list(reversed(req)) if len(req) > 1 else req
    both = list(reversed(inner))
    ties = _has_ties(req)
    tags.append("deriv-request:" + ("ties" if ties else "no-ties") + (":order>1" if any(len(d) > 1 for d in req) else ""))
    sym = lambda ds: tuple(tuple(S(n) for n in d) for d in ds)
    # K: the canonicalisation function itself, on these and on an input with an empty derivative
    if drv is not None:
        for ds in (req, inner, outer, both, req + [[]]):
            try:
                code = ["ok", _names(PM.EstimationStep._canonicalize_derivatives(sym(ds)))]
            except IndexError:
                code = ["err", "IndexError"]
            except Exception as e:
                code = ["err", type(e).__name__]
            a = drv.ask(["canonderivs", ds])
            if a != code:
                k.append(f"_canonicalize_derivatives({ds}): model {a} code {code}")
        tags.append("q:canonderivs")
    # Mon: the same request in another argument / list order is the same step
    try:
        s0 = PM.EstimationStep.create("FOCE", derivatives=sym(req))
        variants = [("arguments", PM.EstimationStep.create("FOCE", derivatives=sym(inner))),
                    ("list", PM.EstimationStep.create("FOCE", derivatives=sym(outer))),
                    ("both", PM.EstimationStep.create("FOCE", derivatives=sym(both)))]
    except Exception as e:
        mon.append({"cls": "create-raises", "what": f"EstimationStep.create(derivatives={req}) raised {type(e).__name__}: {e}"})
        variants = []
    for what, s1 in variants:
        if s1 == s0 and dumps(s1.to_dict()) == dumps(s0.to_dict()):
            continue
        args_differ = [tuple(sorted(d)) for d in _names(s0.derivatives)] != [tuple(d) for d in _names(s0.derivatives)] or \
            sorted(map(tuple, _names(s0.derivatives))) != sorted(map(tuple, _names(s1.derivatives)))
        if not args_differ and ties:
            cls = "construction-order-derivative-ties"
        else:
            cls = "construction-order-derivative-" + ("arguments" if what == "arguments" or args_differ else "list")
        mon.append({"cls": cls, "what": f"EstimationStep.create(derivatives={req}) and the same request given as "
                    f"{inner if what == 'arguments' else outer if what == 'list' else both} are different steps: "
                    f"{_names(s0.derivatives)} vs {_names(s1.derivatives)}"})
    # Mon: through the modelling API, on this model (needs an estimation step last), incl. an add/remove detour
    if len(m.execution_steps) and isinstance(m.execution_steps[-1], PM.EstimationStep) and len(rvnames) >= 2:
        try:
            ma = pm.add_derivative(m, [tuple(d) for d in req])
            mb = pm.add_derivative(m, [tuple(d) for d in both])
            extra = next((n for n in rvnames if [n] not in [sorted(x) for x in _names(ma.execution_steps[-1].derivatives)]), None)
            mc = pm.remove_derivative(pm.add_derivative(ma, extra), extra) if extra is not None else None
        except Exception as e:
            tags.append("add-derivative-refused:" + type(e).__name__)
            ma = None
        if ma is not None:
            tags.append("q:add-derivative")
            ha = safe_hash(ma, mon, "model after add_derivative")
            for what, mx in (("other order", mb), ("add/remove detour", mc)):
                if mx is None:
                    continue
                da, dx = _names(ma.execution_steps[-1].derivatives), _names(mx.execution_steps[-1].derivatives)
                same_request = _canon_repaired(da) == _canon_repaired(dx)
                if not same_request:
                    mon.append({"cls": "add-derivative-content", "what": f"add_derivative ({what}) requests {dx} instead of {da}"})
                    continue
                hx = safe_hash(mx, mon, "model after add_derivative (" + what + ")")
                if not (mx == ma) or hx != ha:
                    arg_order = [tuple(d) for d in da] != [tuple(sorted(d)) for d in da] or [tuple(d) for d in dx] != [tuple(sorted(d)) for d in dx]
                    cls = "construction-order-derivative-arguments" if arg_order else \
                        "construction-order-derivative-ties" if _has_ties(da) else "construction-order-derivative-list"
                    mon.append({"cls": cls, "what": f"add_derivative, {what}: the same derivatives {sorted(map(tuple, da))} are held as {da} vs {dx}: "
                                f"models equal: {mx == ma}, keys equal: {hx == ha}"})
    # -- mapping-valued fields in another insertion order: equal objects must have equal keys
    rev = lambda mp: dict(reversed(list(mp.items())))
    try:
        cands = []
        if len(m.dependent_variables) > 1:
            cands.append(("dependent_variables", m.replace(dependent_variables=rev(m.dependent_variables))))
        if len(m.observation_transformation) > 1:
            cands.append(("observation_transformation", m.replace(observation_transformation=rev(m.observation_transformation))))
        for i, st in enumerate(m.execution_steps):
            if len(st.tool_options) > 1:
                st2 = st.replace(tool_options=rev(st.tool_options))
                steps2 = list(m.execution_steps)
                steps2[i] = st2
                cands.append(("tool_options", m.replace(execution_steps=PM.ExecutionSteps(tuple(steps2)))))
                break
    except Exception as e:
        cands = []
        tags.append("mapping-order-refused:" + type(e).__name__)
    for what, m2 in cands:
        tags.append("mapping-order:" + what)
        try:
            eq = bool(m2 == m)
        except Exception:
            eq = False
        if eq:
            h2 = safe_hash(m2, mon, "model with " + what + " in another insertion order")
            if h2 is not None and h2 != h0:
                mon.append({"cls": "hash-noncanonical-mapping-order",
                            "what": f"two == models whose {what} mapping was filled in a different order have different ModelHash "
                                    "(to_dict / json.dumps keep insertion order)"})
    # -- there-and-back detours through the modelling API
    detours = []
    pn = [p.name for p in m.parameters if not p.fix]
    if pn:
        detours.append(("fix/unfix", lambda: pm.unfix_parameters(pm.fix_parameters(m, [pn[0]]), [pn[0]])))
        p0 = m.parameters[pn[0]]
        mid = p0.init + 1.0 if p0.init + 1.0 <= p0.upper and p0.init + 1.0 != p0.init else None
        if mid is not None:
            detours.append(("set_initial_estimates", lambda: pm.set_initial_estimates(pm.set_initial_estimates(m, {pn[0]: mid}), {pn[0]: p0.init})))
    detours.append(("add/remove estimation step", lambda: pm.remove_estimation_step(pm.add_estimation_step(m, "FO"), len(m.execution_steps))))
    has_int = any(isinstance(x, int) and not isinstance(x, bool) for p in m.parameters for x in (p._init, p._lower, p._upper))
    for what, mk in rng.sample(detours, min(2, len(detours))):
        try:
            m2 = mk()
        except Exception as e:
            tags.append("detour-refused:" + what + ":" + type(e).__name__)
            continue
        tags.append("detour:" + what)
        h2 = safe_hash(m2, mon, "model after detour " + what)
        if not (m2 == m):
            mon.append({"cls": "detour-not-identity", "what": f"{what} there and back gives a different model"})
        elif h2 is not None and h2 != h0:
            # Parameter.replace goes through create(), which turns int-valued fields into floats: finding D6 by another route
            if has_int and _float_params(norm_tl(m2.to_dict())) == _float_params(norm_tl(m.to_dict())):
                mon.append({"cls": "hash-int-vs-float-parameter",
                            "what": f"{what} there and back gives an == model with another ModelHash: int-valued parameter fields came back as floats"})
            else:
                mon.append({"cls": "detour-changes-key", "what": f"{what} there and back gives an == model with another ModelHash"})


def run_procs_case(case):
    worker_mon, tags = [], ["kind=procs"]
    specs = case["specs"]
    outs = run_children(specs)
    # (the parent process is not an observer: its PYTHONHASHSEED is not fixed, the verdict must be reproducible)
    for i, s in enumerate(specs):
        obs = {hs: outs[hs][i] for hs in HASHSEEDS}
        if any("error" in o for o in obs.values()):
            if not all("error" in o for o in obs.values()):
                worker_mon.append({"cls": "build-differs-across-processes", "what": f"spec #{i} builds in some interpreters only: "
                                   + str({k: o.get("error", "ok") for k, o in obs.items()})})
            tags.append("spec-refused")
            continue
        if any("raised" in o for o in obs.values()):
            worker_mon.append({"cls": "hash-raises", "what": f"to_dict/ModelHash raised in a fresh interpreter for spec #{i}: "
                               + str({k: o.get("raised", "ok") for k, o in obs.items()})[:400]})
            continue
        tags.append("procs:" + s["kind"])
        for j, op in enumerate(s.get("derive", [])):
            tags.append("procs-derive:" + op)
            hist = {k: o["hist"][j] for k, o in obs.items()}
            nohist = {k: o["nohist"][j] for k, o in obs.items()}
            if any(hist[k] != nohist[k] for k in obs):
                worker_mon.append({"cls": "hash-depends-on-dataset-history",
                                   "what": f"fresh interpreter: hashing a model, deriving its dataset by '{op}' from the same DataFrame and "
                                           f"hashing again gives {sorted(set(hist.values()))}, the same content never hashed before gives {sorted(set(nohist.values()))}"})
            if any(obs[k]["changed"][j] and hist[k] == obs[k]["hash"] for k in obs):
                worker_mon.append({"cls": "hash-collision-derived-dataset",
                                   "what": f"fresh interpreter: dataset derived by '{op}' (different data) has the ModelHash of the original"})
        hashes = {k: o["hash"] for k, o in obs.items()}
        if len(set(hashes.values())) > 1:
            canon = {k: json.dumps(canon_model_dict(json.loads(o["dict"]))) for k, o in obs.items()}
            if len(set(canon.values())) == 1:
                worker_mon.append({"cls": "hash-hashseed-node-order",
                                   "what": f"ModelHash of the same construction differs between interpreter processes ({hashes}); "
                                           "the dicts differ only in compartment order (CompartmentalSystem.subs relabels over a set)"})
            else:
                worker_mon.append({"cls": "hash-differs-across-processes",
                                   "what": f"ModelHash of the same construction differs between interpreter processes: {hashes}"})
    return {"k": [], "mon": worker_mon, "tags": tags, "nontrivial": True}


def _child_main():
    specs = json.loads(sys.stdin.read())
    worker_init()
    out = []
    for s in specs:
        try:
            m, _ = build_model(s)
        except Exception as e:
            out.append({"error": type(e).__name__})
            continue
        try:
            out.append(child_payload(m, s))
        except Exception as e:      # the real code raised on a model it built itself
            out.append({"raised": f"{type(e).__name__}: {str(e)[:200]}"})
    print(json.dumps(out))


if __name__ == "__main__":
    if len(sys.argv) > 1 and sys.argv[1] == "child":
        _child_main()
